(* C08 - Rendering is total (no panic, no overflow, terminates) on display-scale inputs.
   Statements only; every proof is `exact <lemma>` from Proofs/Overflow.v.

   `f_ok x = true` (Model/Overflow.v) says: no arithmetic site of the Rust function `f` (nor of the callees it
   reaches) panics in a build with overflow checks and debug assertions.  The theorems quantify over ALL
   display-scale inputs (ds_* : |coordinate| <= 1024, extents <= 1024, stroke widths <= 128, offsets within +-128;
   edge_* : the vertices of the edge lines of a thick segment, |coordinate| <= 1800).
   Loops: Line::points (bresenham_run, exactly major_length <= 2049 steps), ContiguousPixels (exactly w*h+1 calls),
   text lines (one step per line); the thick-line iterators are covered per step with an inductive invariant.
   C08_sites_covered ties the predicates to the source: it is re-proved against the site table regenerated from
   the tree under test on every run.  Heap allocation is not modelled (see props/C08.py). *)
From Coq Require Import String.
From EG Require Import Base.Prelude Model.Geometry Model.Line Model.Style Model.Overflow Proofs.Overflow.
From EG Require Gen.ArithSites.
Open Scope Z_scope.

Theorem C08_point_add_total : forall a b,
  ds_point a -> ds_point b -> point_add_ok a b = true.
Proof. exact point_add_total. Qed.
Theorem C08_point_sub_total : forall a b,
  ds_point a -> ds_point b -> point_sub_ok a b = true.
Proof. exact point_sub_total. Qed.
Theorem C08_point_add_size_total : forall a s,
  ds_point a -> ds_size s -> point_add_size_ok a s = true.
Proof. exact point_add_size_total. Qed.
Theorem C08_point_sub_size_total : forall a s,
  ds_point a -> ds_size s -> point_sub_size_ok a s = true.
Proof. exact point_sub_size_total. Qed.
Theorem C08_point_neg_total : forall a,
  ds_point a -> point_neg_ok a = true.
Proof. exact point_neg_total. Qed.
Theorem C08_point_abs_total : forall a,
  ds_point a -> point_abs_ok a = true.
Proof. exact point_abs_total. Qed.
Theorem C08_point_mul_total : forall a k,
  ds_point a -> ds_coord k -> point_mul_ok a k = true.
Proof. exact point_mul_total. Qed.
Theorem C08_point_component_mul_total : forall a b,
  ds_point a -> ds_point b -> point_component_mul_ok a b = true.
Proof. exact point_component_mul_total. Qed.
Theorem C08_point_div_total : forall a k,
  ds_point a -> k <> 0 -> point_div_ok a k = true.
Proof. exact point_div_total. Qed.
Theorem C08_point_component_div_total : forall a b,
  ds_point a -> px b <> 0 -> py b <> 0 -> point_component_div_ok a b = true.
Proof. exact point_component_div_total. Qed.
Theorem C08_size_add_total : forall a b,
  ds_size a -> ds_size b -> size_add_ok a b = true.
Proof. exact size_add_total. Qed.
Theorem C08_size_sub_total : forall a b,
  ds_size a -> ds_size b -> sw b <= sw a -> sh b <= sh a -> size_sub_ok a b = true.
Proof. exact size_sub_total. Qed.
Theorem C08_size_mul_total : forall a k,
  ds_size a -> ds_ext k -> size_mul_ok a k = true.
Proof. exact size_mul_total. Qed.
Theorem C08_size_component_mul_total : forall a b,
  ds_size a -> ds_size b -> size_component_mul_ok a b = true.
Proof. exact size_component_mul_total. Qed.
Theorem C08_size_div_total : forall a k,
  k <> 0 -> size_div_ok a k = true.
Proof. exact size_div_total. Qed.
Theorem C08_from_bounding_box_total : forall c1 c2,
  ds_point c1 -> ds_point c2 -> from_bounding_box_ok c1 c2 = true.
Proof. exact from_bounding_box_total. Qed.
Theorem C08_center_total : forall r,
  ds_rect r -> center_ok r = true.
Proof. exact center_total. Qed.
Theorem C08_bottom_right_total : forall r,
  ds_rect r -> bottom_right_ok r = true.
Proof. exact bottom_right_total. Qed.
Theorem C08_with_center_total : forall c s,
  ds_point c -> ds_size s -> with_center_ok c s = true.
Proof. exact with_center_total. Qed.
Theorem C08_with_corners_total : forall c1 c2,
  ds_point c1 -> ds_point c2 -> with_corners_ok c1 c2 = true.
Proof. exact with_corners_total. Qed.
Theorem C08_contains_total : forall r p,
  ds_rect r -> contains_ok r p = true.
Proof. exact contains_total. Qed.
Theorem C08_intersection_total : forall a b,
  ds_rect a -> ds_rect b -> intersection_ok a b = true.
Proof. exact intersection_total. Qed.
Theorem C08_anchor_point_total : forall r a,
  ds_rect r -> anchor_point_ok r a = true.
Proof. exact anchor_point_total. Qed.
Theorem C08_envelope_total : forall a b,
  ds_rect a -> ds_rect b -> envelope_ok a b = true.
Proof. exact envelope_total. Qed.
Theorem C08_resized_total : forall r s a,
  ds_rect r -> ds_size s -> resized_ok r s a = true.
Proof. exact resized_total. Qed.
Theorem C08_offset_total : forall r n,
  ds_rect r -> ds_offset n -> offset_ok r n = true.
Proof. exact offset_total. Qed.
Theorem C08_rotate_90_total : forall B a,
  0 <= B <= 2147483647 -> pbound B a -> rotate_90_ok a = true.
Proof. exact rotate_90_total. Qed.
Theorem C08_dot_product_total : forall A B a b,
  0 <= A -> 0 <= B -> 2 * (A * B) <= 2147483647 -> pbound A a -> pbound B b -> dot_product_ok a b = true.
Proof. exact dot_product_total. Qed.
Theorem C08_determinant_total : forall A B a b,
  0 <= A -> 0 <= B -> 2 * (A * B) <= 2147483647 -> pbound A a -> pbound B b -> determinant_ok a b = true.
Proof. exact determinant_total. Qed.
Theorem C08_length_squared_total : forall A a,
  0 <= A -> 2 * (A * A) <= 2147483647 -> pbound A a -> length_squared_ok a = true.
Proof. exact length_squared_total. Qed.
Theorem C08_rect_stroke_area_total : forall s r,
  ds_width (stroke_width s) -> ds_rect r -> rect_stroke_area_ok s r = true.
Proof. exact rect_stroke_area_total. Qed.
Theorem C08_rect_fill_area_total : forall s r,
  ds_width (stroke_width s) -> ds_rect r -> rect_fill_area_ok s r = true.
Proof. exact rect_fill_area_total. Qed.
Theorem C08_diameter_to_threshold_total : forall d,
  0 <= d <= 2048 -> diameter_to_threshold_ok d = true.
Proof. exact diameter_to_threshold_total. Qed.
Theorem C08_circle_center_2x_total : forall t d,
  ds_point t -> ds_ext d -> circle_center_2x_ok t d = true.
Proof. exact circle_center_2x_total. Qed.
Theorem C08_circle_contains_total : forall t d p,
  ds_point t -> ds_ext d -> ds_point p -> circle_contains_ok t d p = true.
Proof. exact circle_contains_total. Qed.
Theorem C08_circle_offset_total : forall t d n,
  ds_point t -> ds_ext d -> ds_offset n -> circle_offset_ok t d n = true.
Proof. exact circle_offset_total. Qed.
Theorem C08_ellipse_center_2x_total : forall t s,
  pbound 2048 t -> sbound 2048 s -> ellipse_center_2x_ok t s = true.
Proof. exact ellipse_center_2x_total. Qed.
Theorem C08_ellipse_contains_new_total : forall s,
  sbound 2048 s -> ellipse_contains_new_ok s = true.
Proof. exact ellipse_contains_new_total. Qed.
Theorem C08_ellipse_contains_point_total : forall s q,
  sbound 2048 s -> pbound 8191 q -> ellipse_contains_point_ok s q = true.
Proof. exact ellipse_contains_point_total. Qed.
Theorem C08_ellipse_contains_total : forall t s p,
  ds_point t -> ds_size s -> ds_point p -> ellipse_contains_ok t s p = true.
Proof. exact ellipse_contains_total. Qed.
Theorem C08_ellipse_offset_total : forall t s n,
  ds_point t -> ds_size s -> ds_offset n -> ellipse_offset_ok t s n = true.
Proof. exact ellipse_offset_total. Qed.
Theorem C08_ellipse_quadrant_new_total : forall t radius q,
  ds_point t -> ds_size radius -> ellipse_quadrant_new_ok t radius q = true.
Proof. exact ellipse_quadrant_new_total. Qed.
Theorem C08_ellipse_quadrant_contains_total : forall t radius q p,
  ds_point t -> ds_size radius -> ds_point p -> ellipse_quadrant_contains_ok t radius q p = true.
Proof. exact ellipse_quadrant_contains_total. Qed.
Theorem C08_confine_total : forall c bb,
  ds_radii c -> ds_size bb -> confine_ok c bb = true.
Proof. exact confine_total. Qed.
Theorem C08_line_delta_total : forall C l,
  0 <= C <= 1073741823 -> lbound C l -> line_delta_ok l = true /\ pbound (2 * C) (line_delta l).
Proof. exact line_delta_total. Qed.
Theorem C08_perpendicular_total : forall C l,
  0 <= C <= 500000000 -> lbound C l ->
  perpendicular_ok l = true /\ lbound (3 * C) (perpendicular l).
Proof. exact perpendicular_total. Qed.
Theorem C08_bparams_new_total : forall C l,
  0 <= C <= 268435455 -> lbound C l ->
  bparams_new_ok l = true /\ bp_ok (2 * C) (bparams_new l).
Proof. exact bparams_new_total. Qed.
Theorem C08_major_length_total : forall C l,
  0 <= C <= 268435455 -> lbound C l ->
  major_length_ok l = true /\ 1 <= major_length l <= 2 * C + 1.
Proof. exact major_length_total. Qed.
Theorem C08_bnext_step : forall B C p s,
  0 <= B <= 268435455 -> 0 <= C <= 1073741823 -> bp_ok B p ->
  pbound C (b_point s) -> berr_inv p (b_error s) ->
  bnext_ok p s = true /\ pbound (C + 2) (b_point (snd (bnext p s))) /\ berr_inv p (b_error (snd (bnext p s))).
Proof. exact bnext_step. Qed.
Theorem C08_bresenham_run_total : forall B p,
  0 <= B <= 268435455 -> bp_ok B p ->
  forall n s C, 0 <= C -> C + 2 * Z.of_nat n <= 1073741823 -> pbound C (b_point s) -> berr_inv p (b_error s) ->
  bresenham_run_ok p s n = true.
Proof. exact bresenham_run_total. Qed.
Theorem C08_line_points_total : forall l,
  ds_line l -> line_points_ok l = true.
Proof. exact line_points_total. Qed.
Theorem C08_line_points_steps_bound : forall l,
  ds_line l -> 1 <= line_points_steps l <= 2049.
Proof. exact line_points_steps_bound. Qed.
Theorem C08_line_points_length : forall l,
  length (line_points l) = Z.to_nat (line_points_steps l).
Proof. exact line_points_length. Qed.
Theorem C08_increase_error_total : forall B p e,
  0 <= B <= 268435455 -> bp_ok B p -> perr_inv p e ->
  increase_error_ok p e = true /\ perr_inv p (increase_error p e).
Proof. exact increase_error_total. Qed.
Theorem C08_decrease_error_total : forall B p e,
  0 <= B <= 268435455 -> bp_ok B p -> perr_inv p e ->
  decrease_error_ok p e = true /\ perr_inv p (decrease_error p e).
Proof. exact decrease_error_total. Qed.
Theorem C08_next_all_total : forall B C p s,
  0 <= B <= 268435455 -> 0 <= C <= 1073741823 -> bp_ok B p ->
  pbound C (b_point s) -> aerr_inv p (b_error s) ->
  next_all_ok p s = true /\ pbound (C + 1) (b_point (next_all p s)) /\ aerr_inv p (b_error (next_all p s)).
Proof. exact next_all_total. Qed.
Theorem C08_previous_all_total : forall B C p s,
  0 <= B <= 268435455 -> 0 <= C <= 1073741823 -> bp_ok B p ->
  pbound C (b_point s) -> aerr_inv p (b_error s) ->
  previous_all_ok p s = true /\ pbound (C + 1) (b_point (previous_all p s)) /\ aerr_inv p (b_error (previous_all p s)).
Proof. exact previous_all_total. Qed.
Theorem C08_thickness_threshold_bound : forall l0 t,
  ds_line l0 -> 0 <= t <= 128 -> 0 <= thickness_threshold l0 t <= 549755813888.
Proof. exact thickness_threshold_bound. Qed.
Theorem C08_parallels_new_total : forall l0 t,
  ds_line l0 -> 0 <= t <= 128 -> parallels_new_ok l0 t = true.
Proof. exact parallels_new_total. Qed.
Theorem C08_thick_points_new_total : forall l0 t,
  ds_line l0 -> 0 <= t <= 128 -> thick_points_new_ok l0 t = true.
Proof. exact thick_points_new_total. Qed.
Theorem C08_styled_line_new_total : forall l0 w,
  ds_line l0 -> ds_width w -> styled_line_new_ok l0 w = true.
Proof. exact styled_line_new_total. Qed.
Theorem C08_parallels_next_total : forall acc thr step,
  acc_inv acc -> 0 <= thr <= 549755813888 -> 0 <= step <= 8192 ->
  parallels_next_ok acc thr step = true /\ (acc * acc <= thr -> acc_inv (acc + step)).
Proof. exact parallels_next_total. Qed.
Theorem C08_thickness_accumulator0_inv : forall l0,
  ds_line l0 -> acc_inv (thickness_accumulator0 l0).
Proof. exact thickness_accumulator0_inv. Qed.
Theorem C08_thick_points_next_total : forall len,
  1 <= len <= 4294967295 -> thick_points_next_ok len = true.
Proof. exact thick_points_next_total. Qed.
Theorem C08_from_line_total : forall l,
  edge_line l -> from_line_ok l = true.
Proof. exact from_line_total. Qed.
Theorem C08_le_point_distance_total : forall l p,
  edge_line l -> edge_point p -> le_point_distance_ok l p = true.
Proof. exact le_point_distance_total. Qed.
Theorem C08_from_lines_total : forall l1 l2,
  edge_line l1 -> edge_line l2 -> from_lines_ok l1 l2 = true.
Proof. exact from_lines_total. Qed.
Theorem C08_nearly_colinear_total : forall l1 l2,
  edge_line l1 -> edge_line l2 -> nearly_colinear_ok l1 l2 = true.
Proof. exact nearly_colinear_total. Qed.
Theorem C08_ip_intersection_total : forall l1 l2,
  edge_line l1 -> edge_line l2 -> ip_intersection_ok l1 l2 = true.
Proof. exact ip_intersection_total. Qed.
Theorem C08_miter_total : forall inter mid width,
  pbound 1073741824 inter -> ds_point mid -> 0 <= width <= 1073741824 ->
  miter_ok inter mid width = true.
Proof. exact miter_total. Qed.
(* the point used for a join (intersection of two display-scale edge lines that are not nearly colinear, or the end of
   the first edge) lies within +-25921801: SaturatingAs never saturates and `intersection - mid` cannot overflow *)
Theorem C08_ip_intersection_bound : forall l1 l2 p,
  edge_line l1 -> edge_line l2 -> nearly_colinear l1 l2 = false ->
  ip_intersection l1 l2 = Some p -> pbound 25921801 p.
Proof. exact ip_intersection_bound. Qed.
Theorem C08_join_point_bound : forall second first p,
  edge_line second -> edge_line first -> join_point second first = Some p -> pbound 25921801 p.
Proof. exact join_point_bound. Qed.
(* LineJoin::from_points on the four edge lines of two display-scale thick segments: intersections, the
   self-intersection test and the miter test are total *)
Theorem C08_join_edges_total : forall fl fr sl sr mid width,
  edge_line fl -> edge_line fr -> edge_line sl -> edge_line sr ->
  ds_point mid -> ds_width width -> join_edges_ok fl fr sl sr mid width = true.
Proof. exact join_edges_total. Qed.
Theorem C08_area_doubled_total : forall p1 p2 p3,
  ds_point p1 -> ds_point p2 -> ds_point p3 -> area_doubled_ok p1 p2 p3 = true.
Proof. exact area_doubled_total. Qed.
Theorem C08_tri_contains_total : forall p1 p2 p3 p,
  ds_point p1 -> ds_point p2 -> ds_point p3 -> ds_point p ->
  tri_contains_ok p1 p2 p3 p = true.
Proof. exact tri_contains_total. Qed.
Theorem C08_triangle_contains_total : forall p1 p2 p3 p,
  ds_point p1 -> ds_point p2 -> ds_point p3 -> ds_point p ->
  triangle_contains_ok p1 p2 p3 p = true.
Proof. exact triangle_contains_total. Qed.
Theorem C08_line_height_total : forall percent v base,
  0 <= base <= 1024 -> 0 <= v <= 1024 -> line_height_ok percent v base = true.
Proof. exact line_height_total. Qed.
Theorem C08_text_line_total : forall pos al np lh,
  pbound 1073741823 pos -> 0 <= px np <= 1073741823 -> py np = 0 -> 0 <= lh <= 4096 ->
  text_line_ok pos al np lh = true.
Proof. exact text_line_total. Qed.
Theorem C08_text_lines_total : forall al lh,
  0 <= lh <= 4096 -> forall widths pos,
  Forall (fun w => 0 <= w <= 1073741823) widths ->
  - 1073741823 <= px pos <= 1073741823 -> - 1073741823 <= py pos -> py pos + lh * Z.of_nat (length widths) <= 1073741823 ->
  text_lines_ok pos al widths lh = true.
Proof. exact text_lines_total. Qed.
Theorem C08_baseline_offset_bound : forall b ch bl,
  0 <= ch <= 64 -> 0 <= bl <= 64 -> 0 <= baseline_offset b ch bl <= 64.
Proof. exact baseline_offset_bound. Qed.
Theorem C08_line_elements_total : forall cw sp,
  0 <= cw <= 64 -> 0 <= sp <= 64 -> forall n x,
  - 1073741823 <= x -> x + 128 * Z.of_nat n <= 1073741823 -> line_elements_ok x cw sp n = true.
Proof. exact line_elements_total. Qed.
Theorem C08_draw_string_plain_total : forall pos bo cw sp n,
  ds_point pos -> 0 <= bo <= 64 -> 0 <= cw <= 64 -> 0 <= sp <= 64 ->
  0 <= n <= 65536 -> draw_string_plain_ok pos bo cw sp n = true.
Proof. exact draw_string_plain_total. Qed.
Theorem C08_draw_whitespace_total : forall pos bo width,
  ds_point pos -> 0 <= bo <= 64 -> 0 <= width <= 1048576 -> draw_whitespace_ok pos bo width = true.
Proof. exact draw_whitespace_total. Qed.
Theorem C08_measure_string_total : forall pos bo cw sp n uo uh underline,
  ds_point pos -> 0 <= bo <= 64 -> 0 <= cw <= 64 -> 0 <= sp <= 64 ->
  0 <= n <= 65536 -> 0 <= uo <= 64 -> 0 <= uh <= 64 -> measure_string_ok pos bo cw sp n uo uh underline = true.
Proof. exact measure_string_total. Qed.
Theorem C08_bytes_per_row_total : forall um w bpp,
  4294967295 <= um -> ds_ext w -> ds_bpp bpp -> bytes_per_row_ok um w bpp = true.
Proof. exact bytes_per_row_total. Qed.
Theorem C08_image_new_total : forall um w h bpp,
  4294967295 <= um -> ds_ext w -> ds_ext h -> ds_bpp bpp -> image_new_ok um w h bpp = true.
Proof. exact image_new_total. Qed.
Theorem C08_data_width_total : forall um w bpp,
  4294967295 <= um -> ds_ext w -> ds_bpp bpp -> data_width_ok um w bpp = true.
Proof. exact data_width_total. Qed.
Theorem C08_image_draw_total : forall um w bpp,
  4294967295 <= um -> ds_ext w -> ds_bpp bpp -> image_draw_ok um w bpp = true.
Proof. exact image_draw_total. Qed.
Theorem C08_image_draw_sub_total : forall um w h bpp x y aw ah,
  4294967295 <= um -> ds_ext w -> ds_ext h -> ds_bpp bpp ->
  ds_coord x -> ds_coord y -> ds_ext aw -> ds_ext ah -> image_draw_sub_ok um w h bpp x y aw ah = true.
Proof. exact image_draw_sub_total. Qed.
Theorem C08_image_pixel_total : forall um w h bpp x y,
  4294967295 <= um -> ds_ext w -> ds_ext h -> ds_bpp bpp ->
  image_pixel_ok um w h bpp x y = true.
Proof. exact image_pixel_total. Qed.
Theorem C08_cpix_next_total : forall s,
  cpix_inv s ->
  cpix_next_ok s = true /\ match cpix_next s with Some s' => cpix_inv s' | None => True end.
Proof. exact cpix_next_total. Qed.
Theorem C08_cpix_run_total : forall fuel,
  forall s, cpix_inv s -> cpix_run_ok s fuel = true.
Proof. exact cpix_run_total. Qed.
Theorem C08_cpix_steps_total : forall w h,
  0 < w <= 1024 -> 0 < h <= 1024 ->
  cpix_steps (cpix_new w h) (Z.to_nat (w * h + 2)) = Some (w * h + 1).
Proof. exact cpix_steps_total. Qed.
Theorem C08_cpix_new_total : forall um skip,
  4294967295 <= um -> 0 <= skip <= 4294967295 -> cpix_new_ok um skip = true.
Proof. exact cpix_new_total. Qed.
Theorem C08_cropped_new_total : forall um w h crop,
  4294967295 <= um -> ds_ext w -> ds_ext h -> ds_rect crop ->
  cropped_new_ok um w h crop = true.
Proof. exact cropped_new_total. Qed.
Theorem C08_cropped_next_total : forall s,
  0 <= cs_x s <= 4294967294 -> 0 <= cs_y s -> cs_h s <= 4294967295 -> cropped_next_ok s = true.
Proof. exact cropped_next_total. Qed.
(* documented panics and constant indices: the exact precondition of each *)
Theorem C08_point_index_iff : forall idx, point_index_ok idx = true <-> 0 <= idx < 2.
Proof. exact point_index_iff. Qed.
Theorem C08_from_array2_total : from_array2_ok = true.
Proof. exact from_array2_total. Qed.
Theorem C08_tri_from_slice_iff : forall len, tri_from_slice_ok len = true <-> len = 3.
Proof. exact tri_from_slice_iff. Qed.
Theorem C08_sorted_clockwise_total : forall p1 p2 p3,
  ds_point p1 -> ds_point p2 -> ds_point p3 -> sorted_clockwise_ok p1 p2 p3 = true.
Proof. exact sorted_clockwise_total. Qed.
Theorem C08_is_collapsed_step_total : forall um i opposite inner,
  4294967295 <= um -> 0 <= i < 3 -> edge_line opposite ->
  pbound 131072 inner -> is_collapsed_step_ok um i opposite inner = true.
Proof. exact is_collapsed_step_total. Qed.
Theorem C08_image_new_const_iff : forall um w h bpp len,
  4294967295 <= um -> ds_ext w -> ds_ext h -> ds_bpp bpp ->
  (image_new_const_ok um w h bpp len = true <-> len = bytes_per_row w bpp * h).
Proof. exact image_new_const_iff. Qed.
Theorem C08_with_angle_total : forall is_180 c s,
  - 1025 <= c <= 1025 -> - 1025 <= s <= 1025 -> with_angle_ok is_180 c s = true.
Proof. exact with_angle_total. Qed.
Theorem C08_sites_covered :
  forall row, In row Gen.ArithSites.arith_sites -> site_covered row = true.
Proof. exact sites_covered. Qed.
Theorem C08_records_all_live :
  records_live Gen.ArithSites.arith_sites = true.
Proof. exact records_all_live. Qed.
Theorem C08_no_std_scan :
  Gen.ArithSites.no_std_scan_passed = true.
Proof. exact no_std_scan. Qed.

(* non-vacuity: the hypotheses are satisfiable, the predicates compute, and they do reject inputs outside the
   domain (the pre-repair failures of DESIGN.md section 6 are exactly where the u32/i32 versions would fail) *)
Example C08_nonvacuous :
  ds_rect (R (P (-1024) 1024) (S 1024 0)) /\ ds_line (L (P 0 0) (P 1000 700)) /\
  ellipse_contains_ok (P 0 0) (S 320 240) (P 160 120) = true /\
  u32 ((240 * 240) * (320 * 320)) = false /\                       (* the product that needed u64 *)
  i32 (thickness_threshold (L (P 0 0) (P 1000 700)) 30) = false /\  (* the threshold that needed i64 *)
  parallels_new_ok (L (P 0 0) (P 1000 700)) 30 = true /\
  point_add_ok (P 2147483647 0) (P 1 0) = false /\
  bottom_right_ok (R (P 2147483000 0) (S 1000 1)) = false /\
  line_points_ok (L (P 2147483640 0) (P 2147483647 3)) = false /\
  length (line_points (L (P 0 0) (P 1024 (-1024)))) = 1025%nat /\
  cpix_steps (cpix_new 3 2) 8 = Some 7.
Proof. unfold ds_rect, ds_line, ds_point, ds_size, ds_coord, ds_ext, ds_max. cbn [tl sz px py sw sh l_start l_end].
  repeat split; try lia; vm_compute; reflexivity. Qed.
