(* C08, bridge part: whole-loop totality of thick lines, Line::extents and LineJoin::from_points, composed from
   - the site predicates of Model/Overflow.v (this builder), evaluated along the recursion of Model/Thickline.v by
     Model/OverflowWalk.v,
   - the state invariant of the thick-line walk (line builder: C08_line_thick_state_invariant / parallels_states_fit,
     C08_line_thick_terminates, Proofs/ThicklineOverflow.v), and
   - the range of Line::extents (join builder: C07_join_extents_within, Proofs/JoinRange.v).
   Statements only; proofs in Proofs/OverflowWalk.v. *)
From EG Require Import Base.Prelude Model.Geometry Model.Style Model.Line Model.Thickline Model.Overflow Model.OverflowWalk.
From EG Require Proofs.ThicklineOverflow Proofs.OverflowWalk.
Module PO := EG.Proofs.ThicklineOverflow.
Module PW := EG.Proofs.OverflowWalk.
Open Scope Z_scope.

(* every state the ParallelsIterator visits (pstates: before each call of next() and after the last): all sites of
   Iterator::next and of the next_parallel loop inside it (next_all / previous_all, increase / decrease_error) are safe *)
Theorem C08_bridge_walk_states_ok : forall l w so fuel, PO.display_line l -> PO.display_width w ->
  exists s, parallels_new l w so = Some s /\ Forall (fun st => parallels_step_ok st = true) (PO.pstates fuel s).
Proof. exact PW.walk_states_ok. Qed.

Theorem C08_bridge_parallels_new_total : forall l w so, ds_line l -> 0 <= w <= 128 -> parallels_new_so_ok l w so = true.
Proof. exact PW.parallels_new_so_total. Qed.

(* ParallelsIterator as a whole: new + every next until None, for the three stroke offsets *)
Theorem C08_bridge_parallels_total : forall l w so, ds_line l -> 0 <= w <= 128 -> parallels_ok l w so = true.
Proof. exact PW.parallels_ok_total. Qed.

(* Line::extents: its sites are safe, it never fails, and both edge lines are edge_line (within +-1800) *)
Theorem C08_bridge_extents_total : forall l w so, ds_line l -> ds_width w ->
  extents_ok l w so = true /\ exists a b, extents l w so = Some (a, b) /\ edge_line a /\ edge_line b.
Proof. exact PW.extents_total. Qed.

(* ThickPoints / Styled<Line>::pixels driven to the end: the walk and the Bresenham run along every parallel *)
Theorem C08_bridge_thick_points_total : forall l w, ds_line l -> 0 <= w <= 128 -> thick_points_ok l w = true.
Proof. exact PW.thick_points_ok_total. Qed.
Theorem C08_bridge_styled_line_pixels_total : forall l w, ds_line l -> ds_width w -> styled_line_pixels_ok l w = true.
Proof. exact PW.styled_line_pixels_total. Qed.

(* LineJoin::from_points from three display-scale vertices: both extents, intersections, self-intersection and miter test *)
Theorem C08_bridge_join_from_points_total : forall start mid end_ w so,
  ds_point start -> ds_point mid -> ds_point end_ -> ds_width w -> join_from_points_ok start mid end_ w so = true.
Proof. exact PW.join_from_points_total. Qed.

Example C08_bridge_nonvacuous :
  ds_line (L (P (-1024) 1024) (P 1024 (-1000))) /\
  thick_points_ok (L (P 0 0) (P 40 9)) 7 = true /\
  thick_points_ok (L (P 2147483607 0) (P 2147483647 9)) 7 = false /\
  join_from_points_ok (P 0 0) (P 100 3) (P 0 9) 20 SONone = true.
Proof. split; [unfold ds_line, ds_point, ds_coord, ds_max; cbn; lia | repeat split; vm_compute; reflexivity]. Qed.
