(* C08, image part - the arithmetic of ImageRaw / ContiguousPixels / SubImage / Image is total on display-scale
   inputs (extents <= 1024, coordinates within +-1024), the rejecting branches reject without panic for ALL inputs,
   the colour iterator's counters never underflow, and the fuel of the modelled iterator never runs out.
   The `*_ok` predicates (Model/Imageraw.v) conjoin "this intermediate fits its Rust type" per arithmetic site in
   source order, with usize taken as 32 bit (a 64 bit usize makes every condition weaker).
   Statements only; proofs in Proofs/Imagetotal.v. *)
From EG Require Import Base.Prelude Model.Geometry Proofs.Geometry Model.Imageraw Proofs.Imageraw Proofs.Imagetotal.

(* bytes_per_row and the expected data length of ImageRaw::new *)
Theorem C08_image_new_total : forall bpp s, bpp_ok bpp -> size_display s -> raw_new_ok bpp s = true.
Proof. exact new_total. Qed.

(* data_width and the row skip of draw *)
Theorem C08_image_draw_total : forall img, img_ok img -> size_display (ir_size img) -> raw_draw_ok img = true.
Proof. exact draw_total. Qed.

(* the bounds tests, initial skip and row skip of draw_sub_image, for every display-scale area (inside or not) *)
Theorem C08_image_draw_sub_image_total : forall img area,
  img_ok img -> size_display (ir_size img) -> point_display (tl area) -> size_display (sz area) ->
  raw_draw_sub_image_ok img area = true.
Proof. exact draw_sub_image_total. Qed.

(* the index of pixel(), for EVERY point p *)
Theorem C08_image_pixel_total : forall img p, img_ok img -> size_display (ir_size img) -> raw_pixel_ok img p = true.
Proof. exact pixel_total. Qed.

(* remaining_x / remaining_y / width - 1 never underflow, in every state the iterator goes through, for every
   size and skip (not only display scale) *)
Theorem C08_image_cp_counters_total : forall img s isk skip fuel,
  0 <= sw s -> 0 <= sh s -> 0 <= isk ->
  cp_new_ok isk = true /\
  Forall (fun st => cp_next_ok st = true) (cp_states fuel img (cp_new img s isk skip)).
Proof. exact cp_counters_total. Qed.

(* termination: the iterator ends within the fuel the model passes, after exactly w * h colours *)
Theorem C08_image_cp_fuel_ok : forall img area,
  img_ok img -> inside (ir_size img) area ->
  let st := cp_new img (sz area) (py (tl area) * data_width img + px (tl area)) (data_width img - sw (sz area)) in
  exists l, cp_run (cp_fuel st) img st = Some l /\
            Z.of_nat (length l) = sw (sz area) * sh (sz area).
Proof. exact cp_fuel_ok. Qed.

Theorem C08_image_cp_fuel_ok_draw : forall img,
  img_ok img ->
  let st := cp_new img (ir_size img) 0 (data_width img - sw (ir_size img)) in
  exists l, cp_run (cp_fuel st) img st = Some l /\
            Z.of_nat (length l) = sw (ir_size img) * sh (ir_size img).
Proof. exact cp_fuel_ok_draw. Qed.

(* rejection without panic: pixel() for ALL points; draw_sub_image / sub_image for all areas in the range where the
   bounds tests themselves are computable (direct_area_fits / area_fits, Proofs/Imageraw.v: beyond it the u32 sums of
   image_raw.rs:229-230, resp. the `as i32` cast of point.rs:275-282, panic with overflow checks) *)
Theorem C08_image_pixel_oob_none : forall img p,
  contains (origin_box (ir_size img)) p = false -> raw_pixel img p = None.
Proof. exact pixel_oob_none. Qed.

Theorem C08_image_draw_sub_image_rejects : forall img area,
  ~ inside (ir_size img) area -> direct_area_fits img area -> raw_draw_sub_image img area = [].
Proof. exact draw_sub_image_rejects. Qed.

Theorem C08_image_sub_image_outside_empty : forall d area o,
  d_wf d -> area_fits area -> (forall p, contains (d_box d) p && contains area p = false) ->
  image_draw (Img (sub_image d area) o) = [] /\ is_zero_sized (d_box (sub_image d area)) = true.
Proof. exact sub_image_outside_empty. Qed.

(* i32 additions: Image offset, Image::translate, re-basing of nested sub image areas *)
Theorem C08_image_offset_add_total : forall a b, point_display a -> point_display b -> padd_ok a b = true.
Proof. exact padd_total. Qed.

Theorem C08_image_rebase_display : forall ps a area,
  size_display ps -> inside ps a -> inside (sz a) area ->
  point_display (tl area) /\ point_display (tl a) /\ padd_ok (tl area) (tl a) = true /\
  inside ps (translate_rect area (tl a)).
Proof. exact rebase_display. Qed.

(* non-vacuity: a 1024 x 3 image with 32 bits per pixel is display scale; the predicates are not constant *)
Example C08_image_nonvacuous :
  size_display (S 1024 3) /\ bpp_ok 32 /\ raw_new_ok 32 (S 1024 3) = true /\
  raw_new_ok 32 (S 200000000 1) = false /\
  cp_next_ok (CP 0 0 0 1 0) = false /\
  raw_draw_sub_image_ok (IR [160; 64] (S 3 2) 1 false) (R (P 1 0) (S 4294967295 1)) = false.
Proof.
  unfold size_display, dscale, bpp_ok. cbn [sw sh In]. repeat split; try lia; try tauto; vm_compute; reflexivity.
Qed.
