(* Property C08 (total and allocation-free on display-scale inputs), line part: the arithmetic of
   Line::points() (bresenham.rs, points.rs) and of stroked lines (thick_points.rs: ParallelsIterator::new incl. the
   i64 thickness threshold, next_parallel, Iterator::next, ThickPoints) stays inside i32 / i64 / u32, and the
   iterators terminate.  Statements only; proofs in Proofs/ThicklineOverflow.v, Proofs/Thickline.v, Proofs/Line.v.
   display_line l : all four coordinates within +-1024;  display_width w : 0 <= w <= 128;
   i32 x : -2^31 <= x < 2^31;  i64 x : -2^63 <= x < 2^63;  eff_line l = HORIZONTAL_LINE for a zero-length line.
   State variables are bounded with a margin of one error step (2*dmaj <= 4096) / two position steps, which covers
   the values computed between two states (error +- step before the threshold test, point +- unit step). *)
From EG Require Import Base.Prelude Model.Geometry Model.Style Model.Line Model.Thickline
                       Proofs.Line Proofs.Thickline Proofs.ThicklineOverflow.

(* Points::new / Bresenham::next: every state of the iterator (bstates = states before each call and after the last) *)
Theorem C08_line_thin_no_overflow : forall l st, display_line l ->
  In st (bstates (bparams_new l) (BS (l_start l) 0) (Z.to_nat (major_length l))) ->
  let p := bparams_new l in
  i32 (ldx l) /\ i32 (ldy l) /\ i32 (error_threshold p) /\ i32 (error_step_major p) /\ i32 (error_step_minor p) /\
  0 <= major_length l <= 4294967295 /\
  i32 (b_error st) /\ i32 (err_after_test p st).
Proof. exact thin_display_no_overflow. Qed.

(* ParallelsIterator::new: delta, the perpendicular line, length_squared (since /repo ebfcc70 computed in i64; the
   products and the sum even fit i32 at display scale), (2w)^2 and the threshold in i64, the error steps and the initial accumulator (2*dmaj + 2*dmin) / 2 *)
Theorem C08_line_thick_setup_fits : forall l w, display_line l -> display_width w ->
  let l' := eff_line l in
  i32 (ldx l') /\ i32 (ldy l') /\ i32 (- ldx l') /\
  i32 (px (l_start l') + ldy l') /\ i32 (py (l_start l') - ldx l') /\
  i32 (ldx l' * ldx l') /\ i32 (ldy l' * ldy l') /\ i32 (ldx l' * ldx l' + ldy l' * ldy l') /\
  i64 (w * 2) /\ i64 (w * 2 * (w * 2)) /\
  i64 (w * 2 * (w * 2) * (ldx l' * ldx l' + ldy l' * ldy l')) /\
  i32 (2 * ldmaj l') /\ i32 (2 * ldmin l') /\ i32 (2 * ldmaj l' + 2 * ldmin l').
Proof. exact thick_setup_fits. Qed.

(* every state ParallelsIterator visits (pstates = the state before each call of next() and after the last), for all
   three stroke offsets: accumulator (i32), its square (i64), the four error variables, the two positions *)
Theorem C08_line_thick_states_fit : forall l w so fuel, display_line l -> display_width w ->
  exists s, parallels_new l w so = Some s /\ Forall state_machine_ok (pstates fuel s).
Proof. exact thick_states_fit. Qed.

(* the same invariant without the display-scale restriction, for every line and every width >= 0:
   0 <= acc <= 3*w*D + 2*D, perpendicular errors in (-D-2d, D+2d], parallel errors in (-D, D], positions within
   2k+1 <= 6w+5 of start, where D, d = major / minor delta *)
Theorem C08_line_thick_state_invariant : forall l w so fuel, 0 <= w ->
  exists s, parallels_new l w so = Some s /\
    Forall (state_fits (ldmaj (eff_line l)) (ldmin (eff_line l)) w (l_start l)) (pstates fuel s) /\
    (forall ps, parallels_run fuel s = Some ps -> Forall (par_fits (ldmaj (eff_line l)) w (l_start l)) ps).
Proof. exact parallels_states_fit. Qed.

(* ThickPoints: the Bresenham run along every parallel (initial error from the iterator) *)
Theorem C08_line_thick_runs_fit : forall l w pars bt st n, display_line l -> display_width w ->
  parallels l w SONone = Some pars -> In bt pars ->
  In st (bstates (bparams_new (eff_line l)) (fst bt) n) ->
  i32 (b_error st) /\ i32 (err_after_test (bparams_new (eff_line l)) st) /\
  i32 (b_error st + 4096) /\ i32 (b_error st - 4096).
Proof. exact thick_parallel_errors_fit. Qed.

(* every pixel coordinate produced *)
Theorem C08_line_thick_pixels_in_range : forall l w ps p, display_line l -> display_width w ->
  thick_points l w = Some ps -> In p ps -> -3900 <= px p <= 3900 /\ -3900 <= py p <= 3900.
Proof. exact thick_pixels_fit. Qed.

(* termination with an explicit bound (all lines, all widths): <= 3w+2 parallels, <= (3w+2)*(dmaj+1) pixels *)
Theorem C08_line_thick_terminates : forall l w, 0 <= w ->
  exists ps, thick_points l w = Some ps /\ Z.of_nat (length ps) <= (3 * w + 2) * major_length l.
Proof. exact thick_points_total. Qed.

Theorem C08_line_thin_terminates : forall l,
  Z.of_nat (length (line_points l)) = Z.max (Z.abs (ldx l)) (Z.abs (ldy l)) + 1.
Proof. exact line_length. Qed.

Example C08_line_example :
  display_line (L (P (-1024) 1024) (P 1024 (-1000))) /\ display_width 128 /\
  option_map (@length _) (parallels (L (P (-1024) 1024) (P 1024 (-1000))) 128 SONone) = Some 180%nat.
Proof.
  split; [unfold display_line, dcoord; cbn [l_start l_end px py]; lia|].
  split; [unfold display_width; lia|]. vm_compute. reflexivity.
Qed.
