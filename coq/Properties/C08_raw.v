(* C08, part "raw": the arithmetic of raw load/store, the raw iterator, Framebuffer::set_pixel / buffer_size
   and ImageRaw::pixel / data_width stays inside usize (64 bit) / u32 / u8 and every u8 shift amount is < 8,
   so these functions cannot panic with overflow checks; the rejection branches never panic at all.
   Statements only; proofs in Proofs/RawOverflow.v, Proofs/Rawdata.v, Proofs/Framebuffer.v.
   The site lists (one boolean per arithmetic operation, in source order) are defined in Proofs/RawOverflow.v.
   usize is a parameter (class Usize, >= 16 bits). Far more than display scale is covered: any index that is an usize,
   any framebuffer with WIDTH, HEIGHT <= i32::MAX whose array satisfies 8 * N <= usize::MAX. *)
From EG Require Import Base.Prelude Model.Rawdata Proofs.Rawdata Model.Framebuffer Proofs.Framebuffer Proofs.RawOverflow.

Section AnyUsize.
Context {U : Usize}.   (* any usize of at least 16 bits *)

(* load_store.rs bit_position + the u8 shifts of sub-byte load and store, for EVERY usize index *)
Theorem C08_raw_load_store_bits_total : forall t alt index,
  sub_byte t -> 0 <= index <= usize_max -> all_ok (load_store_bits_sites t alt index) = true.
Proof. exact load_store_bits_total. Qed.

(* the byte written by a sub-byte store is an u8 *)
Theorem C08_raw_store_byte_fits : forall t alt pos byte v,
  sub_byte t -> 0 <= pos < ppb t -> 0 <= byte < 256 -> raw_ok t v ->
  let k := bit_index t alt pos in
  let nb := store_byte t k v byte in
  0 <= nb < 256 /\
  raw_new t (Z.shiftr nb k) = v /\
  nb = byte - ((byte / 2 ^ k) mod 2 ^ bits t) * 2 ^ k + v * 2 ^ k /\
  (forall pos', 0 <= pos' < ppb t -> pos' <> pos ->
     raw_new t (Z.shiftr nb (bit_index t alt pos')) = raw_new t (Z.shiftr byte (bit_index t alt pos'))) /\
  (forall q, 0 <= q < 8 -> ~ (k <= q < k + bits t) -> Z.testbit nb q = Z.testbit byte q).
Proof. exact sb_store. Qed.

(* rejection without panic, for all inputs (multi-byte: index.checked_mul(N) then slice::get) *)
Theorem C08_raw_load_oob_none : forall t alt buf i,
  0 <= i -> pixels_total t (buf_len buf) <= i -> load t alt buf i = None.
Proof. exact load_oob. Qed.

Theorem C08_raw_store_oob_err : forall t alt v buf i,
  0 <= i -> pixels_total t (buf_len buf) <= i -> store t alt v buf i = (buf, false).
Proof. exact store_oob. Qed.

(* iterator: `self.index += 1` after a successful load, and the product in size_hint, fit usize *)
Theorem C08_raw_iter_next_index_fits : forall t alt s v,
  it_ok s -> load t alt (it_data s) (it_index s) = Some v -> fits_usize (it_index s + 1) = true.
Proof. exact iter_next_index_fits. Qed.

Theorem C08_raw_size_hint_total : forall t buf,
  len_ok buf -> all_ok (size_hint_sites t (buf_len buf)) = true.
Proof. exact size_hint_total. Qed.

(* termination: the fuel (pixel count + 1) given to the iterator model never runs out *)
Theorem C08_raw_iter_terminates : forall t alt s,
  it_ok s ->
  exists l, iter_list t alt s = Some l /\
            map Some l = map (load t alt (it_data s)) (range (it_index s) (it_total t s)) /\
            Z.of_nat (length l) = Z.max 0 (it_total t s - it_index s).
Proof. exact iter_is_loads. Qed.

(* Framebuffer *)
Theorem C08_raw_buffer_size_total : forall w h bpp,
  4294967295 <= usize_max -> 0 <= w <= 4096 -> 0 <= h <= 4096 -> 1 <= bpp <= 32 ->
  all_ok (buffer_size_sites w h bpp) = true.
Proof. exact buffer_size_total. Qed.

Theorem C08_raw_buffer_size_total_any_usize : forall w h bpp,
  0 <= w -> 0 <= h -> 1 <= bpp <= 32 -> w * bpp + 7 <= usize_max -> (w * bpp + 7) / 8 * h <= usize_max ->
  all_ok (buffer_size_sites w h bpp) = true.
Proof. exact buffer_size_total_gen. Qed.

(* WIDTH * bpp + 7 <= usize::MAX: the const BUFFER_SIZE (same expression) could be evaluated at compile time *)
Theorem C08_raw_set_pixel_total : forall c data p,
  fb_ok c data -> fb_w c * bits (fb_t c) + 7 <= usize_max -> fb_inside c p ->
  all_ok (set_pixel_sites c (buf_len data) p) = true.
Proof. exact set_pixel_total. Qed.

Theorem C08_raw_set_pixel_oob_noop : forall c data p v,
  fb_insideb c p = false -> fb_set_pixel c data p v = data.
Proof. exact fb_oob_noop. Qed.

(* as_image() / pixel(): the slice data[0..BUFFER_SIZE] and the unwrap never panic; casts and index arithmetic fit *)
Theorem C08_raw_fb_pixel_never_panics : forall c data p,
  fb_ok c data ->
  fb_pixel c data p = Pix (if fb_insideb c p then load (fb_t c) (fb_alt c) data (pix_index c p) else None).
Proof. exact fb_pixel_is_load. Qed.

Theorem C08_raw_image_pixel_total : forall im p,
  0 <= img_w im <= i32_max -> 0 <= img_h im <= i32_max ->
  img_w im * bits (img_t im) + 7 <= usize_max -> img_h im * data_width im <= usize_max ->
  0 <= fst p < img_w im -> 0 <= snd p < img_h im ->
  all_ok (image_pixel_sites im p) = true.
Proof. exact image_pixel_total. Qed.

Theorem C08_raw_image_pixel_total_64 : forall im p,
  18446744073709551615 <= usize_max ->
  0 <= img_w im <= i32_max -> 0 <= img_h im <= i32_max ->
  0 <= fst p < img_w im -> 0 <= snd p < img_h im ->
  all_ok (image_pixel_sites im p) = true.
Proof. exact image_pixel_total64. Qed.

End AnyUsize.

Section Witness.
Local Existing Instance usize64.
(* non-vacuity: display-scale instances, and the site lists really contain the comparisons *)
Example C08_raw_witness :
  all_ok (set_pixel_sites (FbCfg U1 false 1024 1024) 131072 (1023, 1023)) = true /\
  all_ok (set_pixel_sites (FbCfg U32 true 1024 1024) 4194304 (1023, 1023)) = true /\
  all_ok (set_pixel_sites (FbCfg U32 true 1024 1024) 4194303 (1023, 1023)) = false /\
  all_ok (load_store_bits_sites U2 false 18446744073709551615) = true /\
  all_ok (buffer_size_sites 1024 1024 32) = true /\
  all_ok (buffer_size_sites 4294967296 4294967296 32) = false /\
  all_ok (@buffer_size_sites usize16 1024 1024 32) = false /\
  length (set_pixel_sites (FbCfg U4 true 9 2) 10 (8, 1)) = 11%nat.
Proof. repeat split; vm_compute; reflexivity. Qed.
End Witness.
