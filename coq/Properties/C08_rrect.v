(* C08, RoundedRectangle part: the arithmetic of the family fits its Rust types (no overflow, hence no panic with overflow
   checks and no wrapped value in release) on display-scale inputs and well beyond.
   Statements only; proofs are in Proofs/Rrect2.v.  Properties/C08.v (overflow builder) covers CornerRadii::confine and
   EllipseQuadrant::{new, contains} on its own transcription (C08_confine_total, C08_ellipse_quadrant_new_total, C08_ellipse_quadrant_contains_total); this part covers what
   is missing there - RoundedRectangle::get_confined_corner_quadrant (Point + Size - Size, mod.rs:211-240),
   RoundedRectangleContains::new (rows.start + height as i32 ..., mod.rs:364-390), the scanline iterators (x + 1,
   points.rs:93, styled.rs:184) - and restates confine / quadrant on Model/Rrect.v, the model the C05/C06/C18 theorems are about:
   rr_arith_ok r (Model/Rrect.v) = conjunction of "this intermediate fits its type" over all of them, in source order. *)
From EG Require Import Base.Prelude Model.Geometry Model.Style Model.Rrect Proofs.Geometry Proofs.Curvefacts Proofs.Rrect Proofs.Rrect2.

(* confine: u32 sums of two radii, u32 products radius * side (the u64 cross products of u32 values always fit) *)
Theorem C08_rrect_confine_arith_fits : forall c bb,
  radii_nonneg c -> sz_nonneg bb -> sw bb <= 65535 -> sh bb <= 65535 -> radii_le c 65535 ->
  confine_arith_ok c bb = true.
Proof. exact confine_arith_fits. Qed.

(* everything computed when a RoundedRectangleContains / Scanlines is built: base rectangle within +-2^29, sides <= 16383,
   radii <= 65535 *)
Theorem C08_rrect_arith_fits : forall r, rr_small r -> rr_arith_ok r = true.
Proof. exact rr_arith_fits. Qed.

Theorem C08_rrect_small_in_domain : forall r, rr_small r -> rr_dom r.
Proof. exact rr_small_dom. Qed.

(* EllipseQuadrant::contains (i32 doubling and difference, i64 squares, u64 weighted sum) at every point it is evaluated at:
   contains() (mod.rs:400-426, short-circuit &&), Scanlines and StyledScanlines only ask about points of the quadrant's box *)
Theorem C08_rrect_quadrant_contains_arith_fits : forall t rad q p,
  - bound <= px t <= bound + 32767 -> - bound <= py t <= bound + 32767 ->
  0 <= sw rad <= 16383 -> 0 <= sh rad <= 16383 ->
  contains (R t rad) p = true -> quadrant_contains_arith_ok (eq_new t rad q) p = true.
Proof. exact quadrant_contains_arith_fits. Qed.

(* display scale (the domain of C08: |coordinates| <= 1024, extents and radii <= 1024) is inside *)
Theorem C08_rrect_display_scale : forall r,
  radii_nonneg (rr_corners r) -> radii_le (rr_corners r) 1024 ->
  - 1024 <= px (tl (rr_rect r)) <= 1024 -> - 1024 <= py (tl (rr_rect r)) <= 1024 ->
  0 <= sw (sz (rr_rect r)) <= 1024 -> 0 <= sh (sz (rr_rect r)) <= 1024 ->
  rr_arith_ok r = true /\ rr_dom r.
Proof. intros r H1 H2 H3 H4 H5 H6. pose proof (display_scale_small r H1 H2 H3 H4 H5 H6) as H. split; [apply rr_arith_fits|apply rr_small_dom]; exact H. Qed.

(* non-vacuity, and the predicate is not trivially true: a 40000-wide corner radius overflows the u64 sum of the ellipse test *)
Example C08_rrect_nonvacuous :
  rr_arith_ok (RR (R (P 5 5) (S 40 50)) (CR (S 5 6) (S 70 8) (S 9 10) (S 11 12))) = true /\
  rr_arith_ok (RR (R (P 0 0) (S 100000 100000)) (radii_equal (S 70000 70000))) = false.
Proof. split; vm_compute; reflexivity. Qed.
