(* C08, shapes part: the rest of the rendering path (scanline iterators, sector, rounded rectangle, polyline, Scanline,
   thick segment iterators, glyph lookup, decoration boxes, solid and dotted rectangle borders) and the recorded
   finding K08_subimage_area_overflow.  Statements only; proofs in Proofs/Overflow2.v.  Predicates: Model/Overflow2.v.
   Domains: ds_* = display scale (Model/Overflow.v); pbound B p = |px|,|py| <= B; the probe points of the scanline
   iterators range over the stroke area (within +-4096), centres (doubled) within +-8192 / +-10239. *)
From Coq Require Import List.
From EG Require Import Base.Prelude Model.Geometry Model.Line Model.Style Model.Overflow Model.Overflow2 Proofs.Overflow Proofs.Overflow2.
Open Scope Z_scope.

Theorem C08_shapes_scan_probe_total : forall c2x q,
  pbound 8192 c2x -> pbound 4096 q -> scan_probe_ok c2x q = true.
Proof. exact scan_probe_total. Qed.
Theorem C08_shapes_scan_shorten_total : forall cstart cend x,
  - 1048576 <= cstart <= 1048576 -> - 1048576 <= cend <= 1048576 ->
  - 1048576 <= x <= 1048576 -> scan_shorten_ok cstart cend x = true.
Proof. exact scan_shorten_total. Qed.
Theorem C08_shapes_ellipse_scan_row_total : forall c2y y,
  - 10239 <= c2y <= 10239 -> - 4096 <= y <= 4096 -> ellipse_scan_row_ok c2y y = true.
Proof. exact ellipse_scan_row_total. Qed.
Theorem C08_shapes_ellipse_scan_probe_total : forall s c2x x sy,
  sbound 2048 s -> - 10239 <= c2x <= 10239 -> - 3072 <= x <= 3072 ->
  - 16384 <= sy <= 16384 -> ellipse_scan_probe_ok s c2x x sy = true.
Proof. exact ellipse_scan_probe_total. Qed.
Theorem C08_shapes_plane_sector_contains_total : forall nl nr delta,
  pbound 1025 nl -> pbound 1025 nr -> pbound 16384 delta ->
  plane_sector_contains_ok nl nr delta = true.
Proof. exact plane_sector_contains_total. Qed.
Theorem C08_shapes_sector_contains_total : forall t d nl nr p,
  ds_point t -> ds_ext d -> pbound 1025 nl -> pbound 1025 nr -> ds_point p ->
  sector_contains_ok t d nl nr p = true.
Proof. exact sector_contains_total. Qed.
Theorem C08_shapes_point_type_total : forall nl nr delta it ot,
  pbound 1025 nl -> pbound 1025 nr -> pbound 16384 delta ->
  - 1048576 <= it <= 1048576 -> - 1048576 <= ot <= 1048576 -> point_type_ok nl nr delta it ot = true.
Proof. exact point_type_total. Qed.
Theorem C08_shapes_sector_thresholds_total : forall iw ow,
  0 <= iw <= 128 -> 0 <= ow <= 128 -> sector_thresholds_ok iw ow = true.
Proof. exact sector_thresholds_total. Qed.
Theorem C08_shapes_confined_ds : forall c bb,
  ds_radii c -> ds_size bb -> ds_radii (confined c bb).
Proof. exact confined_ds. Qed.
Theorem C08_shapes_confined_quadrant_total : forall r c q,
  ds_rect r -> ds_radii c -> confined_quadrant_ok r c q = true.
Proof. exact confined_quadrant_total. Qed.
Theorem C08_shapes_rrect_contains_new_total : forall r c,
  ds_rect r -> ds_radii c -> rrect_contains_new_ok r c = true.
Proof. exact rrect_contains_new_total. Qed.
Theorem C08_shapes_rrect_contains_total : forall r c p,
  ds_rect r -> ds_radii c -> pbound 2048 p -> rrect_contains_ok r c p = true.
Proof. exact rrect_contains_total. Qed.
Theorem C08_shapes_rrect_offset_total : forall r n,
  ds_rect r -> ds_offset n -> rrect_offset_ok r n = true.
Proof. exact rrect_offset_total. Qed.
Theorem C08_shapes_rrect_scan_end_total : forall x,
  - 1048576 <= x <= 1048576 -> rrect_scan_end_ok x = true.
Proof. exact rrect_scan_end_total. Qed.
Theorem C08_shapes_polyline_vertices_total : forall vs t,
  Forall ds_point vs -> ds_point t -> polyline_vertices_ok vs t = true.
Proof. exact polyline_vertices_total. Qed.
Theorem C08_shapes_scanline_extend_total : forall x,
  - 1048576 <= x <= 1048576 -> scanline_extend_ok x = true.
Proof. exact scanline_extend_total. Qed.
Theorem C08_shapes_scanline_touches_total : forall s e os oe,
  - 1048576 <= s <= 1048576 -> - 1048576 <= e <= 1048576 ->
  - 1048576 <= os <= 1048576 -> - 1048576 <= oe <= 1048576 -> scanline_touches_ok s e os oe = true.
Proof. exact scanline_touches_total. Qed.
Theorem C08_shapes_scanline_width_total : forall s e,
  - 1048576 <= s <= 1048576 -> - 1048576 <= e <= 1048576 -> scanline_width_ok s e = true.
Proof. exact scanline_width_total. Qed.
Theorem C08_shapes_segment_iter_last_total : forall um len,
  4294967295 <= um -> 2 <= len <= 4294967295 -> segment_iter_last_ok um len = true.
Proof. exact segment_iter_last_total. Qed.
Theorem C08_shapes_closed_iter_new_iff : forall len,
  0 <= len -> (closed_iter_new_ok len = true <-> len <> 1).
Proof. exact closed_iter_new_iff. Qed.
Theorem C08_shapes_closed_iter_next_total : forall um idx len,
  4294967295 <= um -> 0 <= idx <= 1024 -> 2 <= len <= 4294967295 ->
  closed_iter_next_ok um idx len = true.
Proof. exact closed_iter_next_total. Qed.
Theorem C08_shapes_edge_intersections_total : forall um idx,
  4294967295 <= um -> 0 <= idx < 3 -> edge_intersections_ok um idx = true.
Proof. exact edge_intersections_total. Qed.
Theorem C08_shapes_glyph_total : forall iw cw ch gi,
  0 <= iw <= 65535 -> 0 <= cw <= 64 -> 0 <= ch <= 64 -> 0 <= gi <= 1048576 ->
  glyph_ok iw cw ch gi = true.
Proof. exact glyph_total. Qed.
Theorem C08_shapes_default_underline_total : forall h,
  0 <= h <= 4294967294 -> default_underline_ok h = true.
Proof. exact default_underline_total. Qed.
Theorem C08_shapes_decoration_box_total : forall pos offset,
  pbound 1073741823 pos -> 0 <= offset <= 1073741823 -> decoration_box_ok pos offset = true.
Proof. exact decoration_box_total. Qed.
Theorem C08_shapes_mapping_range_total : forall um index start end_,
  4294967295 <= um -> 0 <= index <= 1048576 -> 0 <= start <= end_ ->
  end_ <= 1114111 -> mapping_range_ok um index start end_ = true.
Proof. exact mapping_range_total. Qed.
Theorem C08_shapes_rect_solid_borders_total : forall s r,
  ds_width (stroke_width s) -> ds_rect r -> rect_solid_borders_ok s r = true.
Proof. exact rect_solid_borders_total. Qed.
Theorem C08_shapes_rect_dotted_int_total : forall s r,
  ds_width (stroke_width s) -> ds_rect r -> rect_dotted_int_ok s r = true.
Proof. exact rect_dotted_int_total. Qed.
Theorem C08_shapes_sub_image_new_total : forall pw ph a,
  0 <= pw <= 2147483647 -> 0 <= ph <= 2147483647 -> machine_rect a = true ->
  K08_subimage_area_overflow a = false -> sub_image_new_ok pw ph a = true.
Proof. exact sub_image_new_total. Qed.
Theorem C08_shapes_styled_circle_new_total : forall s t d,
  ds_width (stroke_width s) -> ds_point t -> ds_ext d -> styled_circle_new_ok s t d = true.
Proof. exact styled_circle_new_total. Qed.
Theorem C08_shapes_styled_ellipse_new_total : forall s t sz_,
  ds_width (stroke_width s) -> ds_point t -> ds_size sz_ -> styled_ellipse_new_ok s t sz_ = true.
Proof. exact styled_ellipse_new_total. Qed.

(* the recorded finding is machine-checked: an area of the class makes SubImage::new panic ... *)
Theorem C08_shapes_sub_image_area_refuted :
  exists a, machine_rect a = true /\ K08_subimage_area_overflow a = true /\ sub_image_new_ok 8 8 a = false.
Proof. exact sub_image_area_refuted. Qed.

Example C08_shapes_nonvacuous :
  rrect_contains_ok (R (P 1024 1024) (S 1024 1024)) (Radii (S 600 700) (S 600 1) (S 1024 1024) (S 0 9)) (P 2047 2047) = true /\
  confined (Radii (S 600 700) (S 600 1) (S 1024 1024) (S 0 9)) (S 1024 1024) = Radii (S 512 597) (S 512 0) (S 873 873) (S 0 7) /\
  glyph_ok 160 10 20 95 = true /\ glyph_ok 160 10 4294967295 4294967295 = false /\
  closed_iter_new_ok 1 = false /\ rect_dotted_int_ok (Style None (Some 1) 4 Center Dotted) (R (P 0 0) (S 1024 1024)) = true /\
  K08_subimage_area_overflow (R (P 5 5) (S 3 3)) = false.
Proof. repeat split; vm_compute; reflexivity. Qed.
