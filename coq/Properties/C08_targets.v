(* C08 part "targets" - the arithmetic of the draw-target adapters and of the Cropped colour iterator is
   total (no i32 / u32 / 32-bit-usize overflow, no negative `as usize` cast) on display-scale inputs.
   Statements only; proofs in Proofs/TargetOk.v.  The site predicates (booleans named ..._ok, Model/TargetOk.v) conjoin
   "this intermediate fits its Rust type" for every arithmetic site of
     src/draw_target/clipped.rs, cropped.rs, translated.rs, src/iterator/contiguous.rs (Cropped), pixel.rs
   and of the Rectangle / Point operations they call (bottom_right, contains, intersection, translate, Neg).
     display_scale st bb c : parent box, adapter rectangles / offsets and the call have |coordinates| <= 1024
                             and extents <= 1024; the stack has depth <= 64.                                  *)
From EG Require Import Base.Prelude Model.Geometry Model.Target Model.TargetOk Proofs.Geometry Proofs.Target Proofs.TargetOk.

(* building the stack (Clipped::new, Cropped::new, every bounding_box()) and lowering any call through it *)
(* stack_ok = the form the extracted model evaluates (colour streams dropped); stack_ok_real = the same
   recursion over the real lowered calls; they are equal (C08_targets_stack_ok_is_real) *)
Theorem C08_targets_stack_total : forall st bb c,
  display_scale st bb c -> build_ok st bb = true /\ stack_ok st bb c = true /\ stack_ok_real st bb c = true.
Proof. exact stack_total_display_scale. Qed.

Theorem C08_targets_stack_ok_is_real : forall st bb c, stack_ok st bb c = stack_ok_real st bb c.
Proof. exact stack_ok_is_real. Qed.

(* the general form: magnitudes D (coordinates), S (extents), depth L *)
Theorem C08_targets_stack_total_general : forall D S L st bb,
  rect_small D S bb -> Forall (ad_small D S) st -> 0 <= D -> 0 <= S -> S <= slim ->
  Z.of_nat (length st) <= L ->
  forall c C, call_small C S c -> 0 <= C ->
  3 * (C + Z.of_nat (length st) * ((L + 2) * D)) + S <= lim ->
  stack_ok st bb c = true /\ stack_ok_real st bb c = true.
Proof. exact stack_ok_small. Qed.

Theorem C08_targets_build_total_general : forall D S L st bb,
  rect_small D S bb -> Forall (ad_small D S) st -> 0 <= D -> 0 <= S ->
  Z.of_nat (length st) <= L -> (L + 2) * D + S <= lim ->
  build_ok st bb = true.
Proof. exact build_ok_small. Qed.

(* Cropped::new: the top left of the internal intersection is never negative (so `as usize` is exact) and
   y * width + x fits a 32 bit usize for areas up to 32768 x 32768 *)
Theorem C08_targets_cropped_new_total : forall N S size crop,
  0 <= sw size <= S -> 0 <= sh size <= S -> rect_small N S crop ->
  0 <= N -> N + S <= lim -> S <= slim ->
  cropped_new_ok size crop = true.
Proof. exact cropped_new_ok_small. Qed.

Theorem C08_targets_cropped_top_left_nonneg : forall W H crop,
  0 <= W -> 0 <= H -> size_nonneg crop ->
  let ca := intersection (R (P 0 0) (Geometry.S W H)) crop in
  0 <= px (tl ca) <= W /\ 0 <= py (tl ca) <= H.
Proof. exact intersection_origin_tl. Qed.

(* Cropped::next: in every state the iterator can reach (any number of next() calls, also after it returned
   None), `self.x += 1` / `self.y += 1` do not overflow u32 - for ALL sizes, not only display scale *)
Theorem C08_targets_cropped_next_total : forall cs size crop n,
  size_fits size -> size_fits (sz crop) ->
  cropped_next_ok (Nat.iter n (fun s => snd (cropped_next s)) (cropped_new cs size crop)) = true.
Proof. exact cropped_run_ok. Qed.

(* termination: the collecting loop of the model never exhausts its fuel = 1 + width * height *)
Theorem C08_targets_cropped_terminates : forall cs size crop,
  size_fits size -> size_nonneg crop ->
  let st := cropped_new cs size crop in cropped_collect (cropped_fuel st) st <> None.
Proof. exact cropped_fuel_ok. Qed.

Definition C08_ex_stack := [Clip (R (P (-1000) 5) (S 1024 1024)); Crop (R (P 1000 (-100)) (S 1024 300)); Transl (P (-1024) (-1024))].
Definition C08_ex_bb := R (P (-1024) (-1024)) (S 1024 1024).
Definition C08_ex_call := FillContiguous (R (P (-1000) (-900)) (S 1024 1024)) (Rep 1).

Example C08_targets_example :
  build_ok C08_ex_stack C08_ex_bb = true /\ stack_ok C08_ex_stack C08_ex_bb C08_ex_call = true
  /\ bbox_stack C08_ex_stack C08_ex_bb = R (P 0 5) (S 24 195)
  /\ stack_ok [Transl (P 2147483000 0)] C08_ex_bb (FillSolid (R (P 1024 0) (S 1 1)) 1) = false
  /\ cropped_new_ok (S 70000 70000) (R (P 1 69999) (S 10 10)) = false.
Proof. split; [|split; [|split; [|split]]]; vm_compute; reflexivity. Qed.

Example C08_targets_display_scale_satisfiable : display_scale C08_ex_stack C08_ex_bb C08_ex_call.
Proof.
  unfold display_scale, C08_ex_stack, C08_ex_bb, C08_ex_call, rect_small, pt_small.
  split; [cbn [tl sz px py sw sh]; lia|]. split.
  - repeat constructor; cbn [ad_small tl sz px py sw sh]; unfold rect_small, pt_small; cbn [tl sz px py sw sh]; lia.
  - split; [cbn [call_small tl sz px py sw sh]; unfold rect_small, pt_small; cbn [tl sz px py sw sh]; lia|cbn [length]; lia].
Qed.
