(* C09 - Raw images and sub-images reproduce their pixel data exactly.
   Statements only; every proof is `exact <lemma>` from Proofs/Imageraw.v. *)
From EG Require Import Base.Prelude Model.Geometry Proofs.Geometry Model.Imageraw Proofs.Imageraw.

Theorem C09_new_ok_iff : forall bpp alt data s,
  (exists img, raw_new bpp alt data s = inl img) <->
  Z.of_nat (length data) = bytes_per_row (sw s) bpp * sh s.
Proof. exact new_ok_iff. Qed.
