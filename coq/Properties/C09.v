(* C09 - Raw images and sub-images reproduce their pixel data exactly.
   Statements only; every proof is `exact <lemma>` from Proofs/Imageraw.v.

   Vocabulary (Model/Imageraw.v is the executable model of src/image/{image_raw,sub_image,mod}.rs):
     img_ok img     an ImageRaw as `ImageRaw::new` returns it: bpp one of the seven raw widths, data of exactly
                    the required length, extents within 2^29 (range where the unbounded model and the u32/usize
                    arithmetic coincide)
     drawable       Raw img | Sub parent area   (SubImage nested to any depth);   d_wf: built from an img_ok
                    image by `sub_image` (C09_sub_image_wf)
     d_pixel        pixel() of ImageRaw (the real code), extended to SubImages by re-basing (specification)
     d_draw         the fill_contiguous calls `draw` makes; ContiguousPixels is modelled as the list it yields
     render bb cs q the colour the calls cs leave at q on a target with bounding box bb (None = untouched)  *)
From EG Require Import Base.Prelude Model.Geometry Proofs.Geometry Model.Imageraw Proofs.Imageraw.

(* ImageRaw::new accepts exactly the buffers of bytes_per_row(width) * height bytes *)
Theorem C09_new_ok_iff : forall bpp alt data s,
  (exists img, raw_new bpp alt data s = inl img) <->
  Z.of_nat (length data) = bytes_per_row (sw s) bpp * sh s.
Proof. exact new_ok_iff. Qed.

Theorem C09_new_gives_img_ok : forall bpp alt data s img,
  bpp_ok bpp -> size_ok s -> raw_new bpp alt data s = inl img -> img_ok img.
Proof. exact raw_new_img_ok. Qed.

(* pixel(p) is None exactly outside the bounding box *)
Theorem C09_pixel_none_iff : forall img p,
  img_ok img -> (raw_pixel img p = None <-> contains (origin_box (ir_size img)) p = false).
Proof. exact pixel_none_iff. Qed.

(* rows are padded to whole bytes: pixel (x,y) is raw item y * data_width + x, where a row of data_width pixels
   occupies exactly bytes_per_row bytes *)
Theorem C09_pixel_layout : forall img x y,
  img_ok img -> 0 <= x < sw (ir_size img) -> 0 <= y < sh (ir_size img) ->
  raw_pixel img (P x y) = raw_load (ir_bpp img) (ir_alt img) (ir_data img) (y * data_width img + x) /\
  raw_pixel img (P x y) <> None /\
  data_width img * ir_bpp img = 8 * bytes_per_row (sw (ir_size img)) (ir_bpp img).
Proof. exact pixel_layout. Qed.

(* byte form of the same fact: pixel (x,y) is item x of the y-th slice of bytes_per_row bytes of the data *)
Theorem C09_pixel_row_layout : forall img x y,
  img_ok img -> 0 <= x < sw (ir_size img) -> 0 <= y < sh (ir_size img) ->
  raw_pixel img (P x y) = raw_load (ir_bpp img) (ir_alt img) (row_bytes img y) x /\
  Z.of_nat (length (row_bytes img y)) = bytes_per_row (sw (ir_size img)) (ir_bpp img).
Proof. exact pixel_row_layout. Qed.

(* drawing Image(d, o) sets every q with q - o in the box to pixel(q - o) and touches nothing else *)
Theorem C09_image_draw_spec : forall d o bb q,
  d_wf d -> point_ok o ->
  render bb (image_draw (Img d o)) q =
  if contains bb q && contains (image_box (Img d o)) q then d_pixel d (psub q o) else None.
Proof. exact image_draw_spec. Qed.

Theorem C09_d_pixel_none_iff : forall d p,
  d_wf d -> (d_pixel d p = None <-> contains (d_box d) p = false).
Proof. exact d_pixel_none_iff. Qed.

(* the colour stream handed to fill_contiguous has exactly width * height items, for ImageRaw and any SubImage;
   at most one call, over the drawable's own box *)
Theorem C09_stream_exact : forall d,
  d_wf d ->
  Forall (fun c => match c with
                   | FillContiguous area cs =>
                       area = d_box d /\ Z.of_nat (length cs) = sw (d_size d) * sh (d_size d)
                   end) (d_draw d) /\
  (length (d_draw d) <= 1)%nat /\
  (is_zero_sized (d_box d) = false -> length (d_draw d) = 1%nat).
Proof. exact stream_exact. Qed.

(* ... and the stream is the drawable's pixels in row-major order *)
Theorem C09_stream_is_pixels : forall d,
  d_wf d ->
  (exists cs, d_draw d = [FillContiguous (d_box d) cs] /\
              map Some cs = map (d_pixel d) (row_major 0 (sw (d_size d)) 0 (sh (d_size d)))) \/
  (d_draw d = [] /\ is_zero_sized (d_box d) = true).
Proof. exact d_draw_spec. Qed.

Theorem C09_sub_image_wf : forall d area, d_wf d -> size_nonneg area -> d_wf (sub_image d area).
Proof. exact sub_image_wf. Qed.

(* sub_image(area) = image made of the parent's pixels inside area intersected with the parent box *)
Theorem C09_sub_image_spec : forall d area o bb q,
  d_wf d -> size_nonneg area -> point_ok o ->
  let a' := intersection (d_box d) area in
  d_wf (sub_image d area) /\
  d_size (sub_image d area) = sz a' /\
  (forall x, contains a' x = contains (d_box d) x && contains area x) /\
  render bb (image_draw (Img (sub_image d area) o)) q =
    (let x := padd (psub q o) (tl a') in
     if contains bb q && contains a' x then d_pixel d x else None).
Proof. exact sub_image_spec. Qed.

Theorem C09_sub_sub_compose : forall d a1 a2,
  d_wf d -> size_nonneg a1 -> size_nonneg a2 ->
  let s1 := sub_image d a1 in
  let a1' := intersection (d_box d) a1 in
  let a2' := intersection (d_box s1) a2 in
  let a12 := translate_rect a2' (tl a1') in
  d_draw (sub_image s1 a2) = d_draw (sub_image d a12) /\
  (forall p, d_pixel (sub_image s1 a2) p = d_pixel (sub_image d a12) p) /\
  (is_zero_sized a2' = true ->
     is_zero_sized (d_box (sub_image s1 a2)) = true /\ is_zero_sized (d_box (sub_image d a12)) = true) /\
  (is_zero_sized a2' = false ->
     d_size (sub_image s1 a2) = d_size (sub_image d a12) /\
     forall x, contains a12 x =
               contains (d_box d) x && contains a1 x && contains (translate_rect a2 (tl a1')) x).
Proof. exact sub_sub_compose. Qed.

(* whatever the nesting depth, a drawable shows the root ImageRaw's pixel() at the accumulated offset, and only
   points inside the root's box *)
Theorem C09_d_pixel_root : forall d p,
  d_wf d ->
  d_pixel d p = (if contains (d_box d) p then raw_pixel (d_root d) (padd p (d_origin d)) else None) /\
  (contains (d_box d) p = true -> contains (origin_box (ir_size (d_root d))) (padd p (d_origin d)) = true).
Proof. exact d_pixel_root. Qed.

Theorem C09_with_center_spec : forall d c,
  0 <= sw (d_size d) -> 0 <= sh (d_size d) ->
  let i := image_with_center d c in
  image_box i = with_center c (d_size d) /\
  sz (image_box i) = d_size d /\
  i = image_new d (psub_size c (S (Z.max (sw (d_size d) - 1) 0 / 2) (Z.max (sh (d_size d) - 1) 0 / 2))) /\
  center (image_box i) = c /\
  (forall br, bottom_right (image_box i) = Some br ->
     0 <= px (tl (image_box i)) + px br - 2 * px c <= 1 /\
     0 <= py (tl (image_box i)) + py br - 2 * py c <= 1).
Proof. exact with_center_spec. Qed.

(* non-vacuity: a 3x2 image with 1 bit per pixel (rows padded to one byte each), its sub image (1,0) 2x2 drawn
   at (5,5): the hypotheses hold and the functions compute the data's pixels *)
Example C09_nonvacuous :
  let img := IR [160; 64] (S 3 2) 1 false in         (* rows 101_____ and 010_____ *)
  let d := sub_image (Raw img) (R (P 1 0) (S 5 2)) in (* clipped to (1,0) 2x2 *)
  img_ok img /\ d_wf d /\ d_size d = S 2 2 /\
  raw_pixel img (P 2 0) = Some 1 /\ raw_pixel img (P 3 0) = None /\ raw_pixel img (P 1 1) = Some 1 /\
  image_draw (Img d (P 5 5)) = [FillContiguous (R (P 5 5) (S 2 2)) [0; 1; 1; 0]] /\
  render (R (P 0 0) (S 7 7)) (image_draw (Img d (P 5 5))) (P 6 5) = Some 1 /\
  render (R (P 0 0) (S 7 7)) (image_draw (Img d (P 5 5))) (P 7 5) = None.
Proof.
  cbv zeta. split; [|split].
  - unfold img_ok, bpp_ok, size_ok, bound. cbn. repeat split; try lia; tauto.
  - apply sub_image_wf; [|unfold size_nonneg; cbn; lia].
    unfold d_wf, img_ok, bpp_ok, size_ok, bound. cbn. repeat split; try lia; tauto.
  - vm_compute. repeat split; reflexivity.
Qed.
