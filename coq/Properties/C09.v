(* C09 - Raw images and sub-images reproduce their pixel data exactly.
   Statements only; every proof is `exact <lemma>` from Proofs/Imageraw.v.

   Vocabulary (Model/Imageraw.v is the executable model of src/image/{image_raw,sub_image,mod}.rs):
     img_ok img     an ImageRaw as `ImageRaw::new` returns it: bpp one of the seven raw widths, data of exactly
                    the required length, extents within 2^29 (range where the unbounded model and the u32/usize
                    arithmetic coincide)
     drawable       Raw img | Sub parent area   (SubImage nested to any depth);   d_wf: built from an img_ok
                    image by `sub_image` (C09_sub_image_wf)
     d_pixel        pixel() of ImageRaw (the real code), extended to SubImages by re-basing (specification)
     d_draw         the fill_contiguous calls `draw` makes; ContiguousPixels is modelled as the list it yields
     render bb cs q the colour the calls cs leave at q on a target with bounding box bb (None = untouched)
   Ranges in which the unbounded model equals the i32/u32 code (each is implied by rect_ok / point_ok + size_ok,
   i.e. |coordinates| <= 2^29 and extents <= 2^29: C09_ranges_from_rect_ok):
     offset_fits o s    a box of size s at o stays inside the i32 space (no saturation in Rectangle::points)
     area_fits a        a sub image area: zero sized, or extents <= i32::MAX and top_left + size <= i32::MAX
                        (bottom_right computable: core rectangle/mod.rs:137, point.rs:275-282; beyond it, e.g. width
                        2^31, `sub_image` panics with debug assertions at point.rs:279 and C09 makes no claim)
     with_center_fits   `center - (size-1)/2` does not leave i32
     direct_area_fits   for a DIRECT ImageDrawable::draw_sub_image call: the u32 sums `x as u32 + width`,
                        `y as u32 + height` of image_raw.rs:229-230 do not overflow (areas made by sub_image always
                        satisfy it; area (1,0) 4294967295 x 1 does not: panic at image_raw.rs:229)  *)
From EG Require Import Base.Prelude Model.Geometry Proofs.Geometry Model.Imageraw Proofs.Imageraw.

(* ImageRaw::new accepts exactly the buffers of bytes_per_row(width) * height bytes *)
Theorem C09_new_ok_iff : forall bpp alt data s,
  (exists img, raw_new bpp alt data s = inl img) <->
  Z.of_nat (length data) = bytes_per_row (sw s) bpp * sh s.
Proof. exact new_ok_iff. Qed.

(* new_const: the same image as `new` for the exact length, a panic (None) for every other length *)
Theorem C09_new_const_spec : forall bpp alt data s,
  (Z.of_nat (length data) = bytes_per_row (sw s) bpp * sh s ->
     raw_new_const bpp alt data s = Some (IR data s bpp alt) /\ raw_new bpp alt data s = inl (IR data s bpp alt)) /\
  (Z.of_nat (length data) <> bytes_per_row (sw s) bpp * sh s ->
     raw_new_const bpp alt data s = None /\ raw_new bpp alt data s = inr (bytes_per_row (sw s) bpp * sh s)).
Proof. exact new_const_spec. Qed.

Theorem C09_new_gives_img_ok : forall bpp alt data s img,
  bpp_ok bpp -> size_ok s -> raw_new bpp alt data s = inl img -> img_ok img.
Proof. exact raw_new_img_ok. Qed.

(* pixel(p) is None exactly outside the bounding box *)
Theorem C09_pixel_none_iff : forall img p,
  img_ok img -> (raw_pixel img p = None <-> contains (origin_box (ir_size img)) p = false).
Proof. exact pixel_none_iff. Qed.

(* rows are padded to whole bytes: pixel (x,y) is raw item y * data_width + x, where a row of data_width pixels
   occupies exactly bytes_per_row bytes *)
Theorem C09_pixel_layout : forall img x y,
  img_ok img -> 0 <= x < sw (ir_size img) -> 0 <= y < sh (ir_size img) ->
  raw_pixel img (P x y) = raw_load (ir_bpp img) (ir_alt img) (ir_data img) (y * data_width img + x) /\
  raw_pixel img (P x y) <> None /\
  data_width img * ir_bpp img = 8 * bytes_per_row (sw (ir_size img)) (ir_bpp img).
Proof. exact pixel_layout. Qed.

(* byte form of the same fact: pixel (x,y) is item x of the y-th slice of bytes_per_row bytes of the data *)
Theorem C09_pixel_row_layout : forall img x y,
  img_ok img -> 0 <= x < sw (ir_size img) -> 0 <= y < sh (ir_size img) ->
  raw_pixel img (P x y) = raw_load (ir_bpp img) (ir_alt img) (row_bytes img y) x /\
  Z.of_nat (length (row_bytes img y)) = bytes_per_row (sw (ir_size img)) (ir_bpp img).
Proof. exact pixel_row_layout. Qed.

(* drawing Image(d, o) sets every q with q - o in the box to pixel(q - o) and touches nothing else *)
Theorem C09_image_draw_spec : forall d o bb q,
  d_wf d -> point_ok o ->
  render bb (image_draw (Img d o)) q =
  if contains bb q && contains (image_box (Img d o)) q then d_pixel d (psub q o) else None.
Proof. exact image_draw_spec. Qed.

(* the same under the exact range condition (zero sized drawables draw nothing wherever they are placed) *)
Theorem C09_image_draw_spec_fits : forall d o bb q,
  d_wf d -> is_zero_sized (d_box d) = true \/ offset_fits o (d_size d) ->
  render bb (image_draw (Img d o)) q =
  if contains bb q && contains (image_box (Img d o)) q then d_pixel d (psub q o) else None.
Proof. exact image_draw_spec_fits. Qed.

Theorem C09_ranges_from_rect_ok :
  (forall a, rect_ok a -> area_fits a) /\
  (forall o s, point_ok o -> size_ok s -> offset_fits o s) /\
  (forall c s, point_ok c -> size_ok s -> with_center_fits c s /\ offset_fits (tl (with_center c s)) s) /\
  (forall img a, img_ok img -> inside (ir_size img) a -> direct_area_fits img a).
Proof.
  split; [exact rect_ok_area_fits|]. split; [exact point_ok_offset_fits|].
  split; [exact point_ok_with_center_fits|exact inside_direct_area_fits].
Qed.

Theorem C09_d_pixel_none_iff : forall d p,
  d_wf d -> (d_pixel d p = None <-> contains (d_box d) p = false).
Proof. exact d_pixel_none_iff. Qed.

(* the colour stream handed to fill_contiguous has exactly width * height items, for ImageRaw and any SubImage;
   at most one call, over the drawable's own box *)
Theorem C09_stream_exact : forall d,
  d_wf d ->
  Forall (fun c => match c with
                   | FillContiguous area cs =>
                       area = d_box d /\ Z.of_nat (length cs) = sw (d_size d) * sh (d_size d)
                   end) (d_draw d) /\
  (length (d_draw d) <= 1)%nat /\
  (is_zero_sized (d_box d) = false -> length (d_draw d) = 1%nat).
Proof. exact stream_exact. Qed.

(* ... and the stream is the drawable's pixels in row-major order *)
Theorem C09_stream_is_pixels : forall d,
  d_wf d ->
  (exists cs, d_draw d = [FillContiguous (d_box d) cs] /\
              map Some cs = map (d_pixel d) (row_major 0 (sw (d_size d)) 0 (sh (d_size d)))) \/
  (d_draw d = [] /\ is_zero_sized (d_box d) = true).
Proof. exact d_draw_spec. Qed.

Theorem C09_sub_image_wf : forall d area, d_wf d -> area_fits area -> d_wf (sub_image d area).
Proof. exact sub_image_wf_fits. Qed.

(* sub_image(area) = image made of the parent's pixels inside area intersected with the parent box *)
Theorem C09_sub_image_spec : forall d area o bb q,
  d_wf d -> area_fits area ->
  let a' := intersection (d_box d) area in
  is_zero_sized a' = true \/ offset_fits o (sz a') ->
  d_wf (sub_image d area) /\
  d_size (sub_image d area) = sz a' /\
  (forall x, contains a' x = contains (d_box d) x && contains area x) /\
  render bb (image_draw (Img (sub_image d area) o)) q =
    (let x := padd (psub q o) (tl a') in
     if contains bb q && contains a' x then d_pixel d x else None).
Proof. exact sub_image_spec_fits. Qed.

(* nested sub images compose; the composed area is again in range *)
Theorem C09_sub_sub_compose : forall d a1 a2,
  d_wf d -> area_fits a1 -> area_fits a2 ->
  let s1 := sub_image d a1 in
  let a1' := intersection (d_box d) a1 in
  let a2' := intersection (d_box s1) a2 in
  let a12 := translate_rect a2' (tl a1') in
  d_draw (sub_image s1 a2) = d_draw (sub_image d a12) /\
  (forall p, d_pixel (sub_image s1 a2) p = d_pixel (sub_image d a12) p) /\
  (is_zero_sized a2' = true ->
     is_zero_sized (d_box (sub_image s1 a2)) = true /\ is_zero_sized (d_box (sub_image d a12)) = true) /\
  (is_zero_sized a2' = false ->
     area_fits a12 /\
     d_size (sub_image s1 a2) = d_size (sub_image d a12) /\
     forall x, contains a12 x =
               contains (d_box d) x && contains a1 x && contains (translate_rect a2 (tl a1')) x).
Proof. exact sub_sub_compose_fits. Qed.

(* ImageDrawable::draw_sub_image called directly on an ImageRaw: draws the area iff it lies inside, under the
   exact no-overflow condition of the two u32 sums *)
Theorem C09_draw_sub_image_direct : forall img a,
  img_ok img -> direct_area_fits img a ->
  (inside (ir_size img) a ->
     raw_draw_sub_image img a =
     [FillContiguous (origin_box (sz a)) (area_stream img (px (tl a)) (py (tl a)) (sw (sz a)) (sh (sz a)))]) /\
  (~ inside (ir_size img) a -> raw_draw_sub_image img a = []).
Proof. exact draw_sub_image_direct. Qed.

(* ... and directly on a SubImage of any depth: the area is re-based to the ROOT image and judged there (so an area
   outside the SubImage's own box but inside the root shows root pixels; `sub_image()` never produces such a call) *)
Theorem C09_draw_sub_image_direct_nested : forall d a,
  d_draw_sub_image d a = raw_draw_sub_image (d_root d) (translate_rect a (d_origin d)).
Proof. exact d_draw_sub_image_root. Qed.

(* whatever the nesting depth, a drawable shows the root ImageRaw's pixel() at the accumulated offset, and only
   points inside the root's box *)
Theorem C09_d_pixel_root : forall d p,
  d_wf d ->
  d_pixel d p = (if contains (d_box d) p then raw_pixel (d_root d) (padd p (d_origin d)) else None) /\
  (contains (d_box d) p = true -> contains (origin_box (ir_size (d_root d))) (padd p (d_origin d)) = true).
Proof. exact d_pixel_root. Qed.

Theorem C09_with_center_spec : forall d c,
  0 <= sw (d_size d) -> 0 <= sh (d_size d) -> with_center_fits c (d_size d) ->
  let i := image_with_center d c in
  image_box i = with_center c (d_size d) /\
  sz (image_box i) = d_size d /\
  i = image_new d (psub_size c (S (Z.max (sw (d_size d) - 1) 0 / 2) (Z.max (sh (d_size d) - 1) 0 / 2))) /\
  center (image_box i) = c /\
  (forall br, bottom_right (image_box i) = Some br ->
     0 <= px (tl (image_box i)) + px br - 2 * px c <= 1 /\
     0 <= py (tl (image_box i)) + py br - 2 * py c <= 1).
Proof. exact with_center_spec_fits. Qed.

(* the pixel map of Image::with_center(d, c): d's pixels with the image's centre pixel m = ((w-1)/2, (h-1)/2)
   on c; in particular c itself shows pixel(m) *)
Theorem C09_with_center_draw_spec : forall d c bb q,
  d_wf d ->
  is_zero_sized (d_box d) = true \/
    (with_center_fits c (d_size d) /\ offset_fits (tl (with_center c (d_size d))) (d_size d)) ->
  let o := tl (with_center c (d_size d)) in
  let m := P (Z.max (sw (d_size d) - 1) 0 / 2) (Z.max (sh (d_size d) - 1) 0 / 2) in
  o = psub c m /\
  render bb (image_draw (image_with_center d c)) q =
    (if contains bb q && contains (with_center c (d_size d)) q then d_pixel d (padd (psub q c) m) else None) /\
  (is_zero_sized (d_box d) = false -> contains bb c = true ->
     render bb (image_draw (image_with_center d c)) c = d_pixel d m /\ d_pixel d m <> None).
Proof. exact with_center_draw_spec. Qed.

(* non-vacuity: a 3x2 image with 1 bit per pixel (rows padded to one byte each), its sub image (1,0) 2x2 drawn
   at (5,5): the hypotheses hold and the functions compute the data's pixels *)
Example C09_nonvacuous :
  let img := IR [160; 64] (S 3 2) 1 false in         (* rows 101_____ and 010_____ *)
  let d := sub_image (Raw img) (R (P 1 0) (S 5 2)) in (* clipped to (1,0) 2x2 *)
  img_ok img /\ d_wf d /\ d_size d = S 2 2 /\
  raw_pixel img (P 2 0) = Some 1 /\ raw_pixel img (P 3 0) = None /\ raw_pixel img (P 1 1) = Some 1 /\
  image_draw (Img d (P 5 5)) = [FillContiguous (R (P 5 5) (S 2 2)) [0; 1; 1; 0]] /\
  render (R (P 0 0) (S 7 7)) (image_draw (Img d (P 5 5))) (P 6 5) = Some 1 /\
  render (R (P 0 0) (S 7 7)) (image_draw (Img d (P 5 5))) (P 7 5) = None.
Proof.
  cbv zeta. split; [|split].
  - unfold img_ok, bpp_ok, size_ok, bound. cbn. repeat split; try lia; tauto.
  - apply sub_image_wf; [|unfold size_nonneg; cbn; lia].
    unfold d_wf, img_ok, bpp_ok, size_ok, bound. cbn. repeat split; try lia; tauto.
  - vm_compute. repeat split; reflexivity.
Qed.

(* non-vacuity of the range conditions: they hold on the boundary, fail just beyond it, and with_center draws *)
Example C09_nonvacuous_ranges :
  let img := IR [160; 64] (S 3 2) 1 false in
  area_fits (R (P 1 0) (S 2147483646 2)) /\
  ~ area_fits (R (P 1 0) (S 2147483647 2)) /\
  ~ area_fits (R (P 0 0) (S 4294967295 4294967295)) /\
  area_fits (R (P 7 7) (S 0 4294967295)) /\
  d_size (sub_image (Raw img) (R (P 1 0) (S 2147483646 2))) = S 2 2 /\
  ~ direct_area_fits img (R (P 1 0) (S 4294967295 1)) /\
  with_center_fits (P 5 5) (S 3 2) /\ offset_fits (tl (with_center (P 5 5) (S 3 2))) (S 3 2) /\
  image_draw (image_with_center (Raw img) (P 5 5)) = [FillContiguous (R (P 4 5) (S 3 2)) [1; 0; 1; 0; 1; 0]] /\
  render (R (P 0 0) (S 9 9)) (image_draw (image_with_center (Raw img) (P 5 5))) (P 5 5) = Some 0 /\
  raw_pixel img (P 1 0) = Some 0.
Proof.
  cbv zeta. unfold area_fits, direct_area_fits, with_center_fits, offset_fits, is_zero_sized, i32_max, i32_min, u32_max.
  cbn [tl sz px py sw sh ir_size].
  repeat match goal with |- _ /\ _ => split end;
    try (vm_compute; reflexivity); try lia; try (intros H; lia);
    try (vm_compute; intros H; discriminate H).
Qed.
