(* C09, colour part - ImageRaw<C, O> for the built-in colour types C: the raw values of Model/Imageraw.v (C09.v)
   composed with `C::from(raw)` of Model/Colormodel.v (C12; `color_table` is GENERATED from core/src/pixelcolor).
   In the code C enters only through `r.into()` at image_raw.rs:272 (pixel) and :345 (ContiguousPixels::next).
   Statements only; proofs in Proofs/Imagecolor.v. *)
From EG Require Import Base.Prelude Gen.ColorConsts Gen.ColorTable Model.Geometry Proofs.Geometry
  Model.Colormodel Proofs.Colormodel Model.Imageraw Proofs.Imageraw Proofs.Imagecolor.

(* pixel() of a typed image is None exactly outside the box *)
Theorem C09_color_pixel_none_iff : forall t img p,
  img_ok img -> (typed_pixel t img p = None <-> contains (origin_box (ir_size img)) p = false).
Proof. exact typed_pixel_none_iff. Qed.

(* mapping every colour of a call list through C::from maps the pixel map *)
Theorem C09_color_render_typed : forall t bb calls q,
  render bb (map (typed_call t) calls) q = option_map (from_raw t) (render bb calls q).
Proof. exact render_typed. Qed.

(* image_draw_spec for typed images / sub images: q shows C::from(raw pixel (q - o)) inside the box, nothing else *)
Theorem C09_color_image_draw_spec : forall t d o bb q,
  d_wf d -> is_zero_sized (d_box d) = true \/ offset_fits o (d_size d) ->
  render bb (typed_image_draw t (Img d o)) q =
  if contains bb q && contains (image_box (Img d o)) q then typed_d_pixel t d (psub q o) else None.
Proof. exact typed_image_draw_spec. Qed.

(* the raw values an image yields are RawUx values (bytes 0..255) *)
Theorem C09_color_raw_pixel_range : forall img p v,
  img_ok img -> data_ok (ir_data img) -> raw_pixel img p = Some v -> 0 <= v < 2 ^ ir_bpp img.
Proof. exact raw_pixel_range. Qed.

(* for EVERY built-in colour type whose Raw has the image's bits per pixel: the colour is valid, and its raw storage
   value is the data's raw value with the unused bits cleared (the value itself when the type uses all its bits) *)
Theorem C09_color_pixel_value : forall t img p v,
  In t color_table -> ir_bpp img = bpp t -> img_ok img -> data_ok (ir_data img) ->
  raw_pixel img p = Some v ->
  typed_pixel t img p = Some (from_raw t v) /\
  valid t (from_raw t v) /\
  to_raw t (from_raw t v) = Z.land v (Z.ones (used_bits t)) /\
  (used_bits t = bpp t -> to_raw t (from_raw t v) = v).
Proof. exact typed_pixel_value. Qed.

(* non-vacuity: a 2x1 Rgb555 image (16 bit raw, 15 bits used): the top bit of the data is dropped *)
Example C09_color_nonvacuous :
  let img := IR [255; 255; 52; 18] (S 2 1) 16 false in
  In row_Rgb555 color_table /\ ir_bpp img = bpp row_Rgb555 /\ img_ok img /\ data_ok (ir_data img) /\
  raw_pixel img (P 0 0) = Some 65535 /\ typed_pixel row_Rgb555 img (P 0 0) = Some 32767 /\
  typed_pixel row_Rgb555 img (P 1 0) = Some 4660 /\ used_bits row_Rgb555 = 15 /\
  typed_image_draw row_Rgb555 (Img (Raw img) (P 3 3)) = [FillContiguous (R (P 3 3) (S 2 1)) [32767; 4660]].
Proof.
  cbv zeta. split; [cbn; tauto|]. split; [reflexivity|]. split.
  - unfold img_ok, bpp_ok, size_ok, bound. cbn. repeat split; try lia; tauto.
  - split; [repeat constructor; lia|]. vm_compute. repeat split; reflexivity.
Qed.
