(* C09, translator tie: the row arithmetic of src/image/image_raw.rs (bytes_per_row, ImageRaw::data_width) and
   the sub-byte bit position of raw/load_store.rs, regenerated from the source on every run (coq/Gen/SrcImage.v,
   SrcRaw.v), equal the functions of coq/Model/Imageraw.v.  `C::Raw::BITS_PER_PIXEL` is a parameter of the
   generated data_width; the model keeps it in the image record.  Statements only. *)
From EG Require Import Base.Prelude Base.Casts Model.Geometry Model.Imageraw Gen.SrcRaw Gen.SrcImage Proofs.SrcColor.
(* the generated definitions that cast to usize (`as usize`, `usize::try_from`) take the width of usize as Casts.UsizeW; the model
   of this property works with 64-bit usize (exact integers in range): taken at that width *)
#[local] Existing Instance Casts.usize64_w.

Theorem C09_src_bit_position_is_model : forall bpp alt index,
  src_bit_position bpp alt index = bit_position bpp alt index.
Proof. exact src_bit_position_imageraw_eq. Qed.

Theorem C09_src_bytes_per_row_is_model : forall width bpp,
  0 <= width <= u32_max -> src_bytes_per_row width bpp = bytes_per_row width bpp.
Proof. exact src_bytes_per_row_eq. Qed.

Theorem C09_src_data_width_is_model : forall img,
  0 <= sw (ir_size img) <= u32_max -> 0 < ir_bpp img <= u32_max ->
  src_ImageRaw_data_width (ir_bpp img) img = data_width img.
Proof. exact src_ImageRaw_data_width_eq. Qed.

Example C09_src_nonvacuous :
  src_bytes_per_row 9 4 = 5 /\ src_ImageRaw_data_width 4 (IR [] (S 9 3) 4 false) = 10.
Proof. split; vm_compute; reflexivity. Qed.
