(* C09, translator tie (domain bridge; audit3 1.1): Proofs.Imageraw.img_ok (the domain of the C09 property theorems) implies
   src_img_ok (the hypothesis of the C09_src_draw theorems; the two used to share a name).  Statement only (proof:
   Proofs/SrcBridges.v). *)
From EG Require Import Base.Prelude Base.Casts Model.Geometry Model.Imageraw.
From EG Require Proofs.Imageraw.
From EG Require Import Proofs.SrcImageDraw Proofs.SrcBridges.

Theorem C09_src_img_ok_domain_bridge : forall img, Proofs.Imageraw.img_ok img -> src_img_ok img.
Proof. exact img_ok_bridge. Qed.
