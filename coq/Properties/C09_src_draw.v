(* C09, translator tie (pixels and drawing of raw images): ImageRaw::pixel / draw / draw_sub_image, ContiguousPixels::new / next
   (src/image/image_raw.rs), RawDataSlice::new / into_iter (src/iterator/raw.rs), SubImage::new / size / draw / draw_sub_image
   (src/image/sub_image.rs, the instance over ImageRaw) and the blanket `Dimensions::bounding_box` of an OriginDimensions type
   (core/src/geometry/mod.rs, instance ImageRaw), regenerated from the source on every run by translate/r2c
   (coq/Gen/SrcImagePixels.v, coq/Gen/SrcImageDraw.v).
   Function parameters of the generated definitions: `R::load::<O>` (abstracted by RawDataIterator::next; here Imageraw.raw_load
   bpp alt), `r.into()` (raw -> colour, property C12's subject; here the identity, as in the model), and
   `target.fill_contiguous(area, colours)` of the generic draw target (here log_fill: append the call to a log).
   cp_of reads a generated ContiguousPixels as the model's cpix (the index of its raw iterator), call_of a logged call as the
   model's icall, drawable_of a generated SubImage as Sub (Raw parent) area.
   Statements only (proofs: Proofs/SrcImagePixels.v, Proofs/SrcImageDraw.v). *)
From EG Require Import Base.Prelude Base.Casts Model.Geometry Model.Rrect Model.Rawdata Model.Imageraw Model.Fontmodel.
From EG Require Import Gen.SrcGeometry Gen.SrcImage Gen.SrcRawIter Gen.SrcImagePixels Gen.SrcFont Gen.SrcText Gen.SrcGlyph Gen.SrcCircle Gen.SrcRrect Gen.SrcRrect2 Gen.SrcImageDraw.
From EG Require Import Proofs.SrcGeometry Proofs.SrcImagePixels Proofs.SrcImageDraw.
From EG Require Import Proofs.SrcImageRun.
(* Model/Imageraw.v fixes usize at 64 bit; the generated definitions that depend on the width of usize (nth: saturating_add)
   are taken at that width (Casts.usize64_w) *)
#[local] Existing Instance Casts.usize64_w.

Theorem C09_src_pixel_is_model : forall img p,
  0 <= sw (ir_size img) <= i32_max -> 0 <= sh (ir_size img) <= i32_max -> 0 < ir_bpp img <= u32_max ->
  0 <= data_width img <= u32_max -> px p <= i32_max -> py p <= i32_max ->
  src_ImageRaw_pixel (raw_load (ir_bpp img) (ir_alt img)) (fun r => r) (ir_bpp img) img p = raw_pixel img p.
Proof. exact src_imageraw_pixel_eq. Qed.

Theorem C09_src_contiguous_new_is_model : forall img s skip rs, 0 <= skip ->
  let c := src_ContiguousPixels_new (raw_load (ir_bpp img) (ir_alt img)) img s skip rs in
  cp_of c = cp_new img s skip rs /\ it_data (ContiguousPixels_iter c) = ir_data img.
Proof. exact src_cp_new_eq. Qed.

Theorem C09_src_contiguous_next_is_model : forall img c,
  it_data (ContiguousPixels_iter c) = ir_data img -> 0 <= it_index (ContiguousPixels_iter c) -> 0 <= ContiguousPixels_row_skip c ->
  let r := src_ContiguousPixels_next (raw_load (ir_bpp img) (ir_alt img)) (fun x => x) c in
  cp_of (fst r) = snd (cp_next img (cp_of c)) /\ snd r = fst (cp_next img (cp_of c)) /\
  it_data (ContiguousPixels_iter (fst r)) = ir_data img /\ 0 <= it_index (ContiguousPixels_iter (fst r)).
Proof. exact src_cp_next_eq. Qed.

Theorem C09_src_draw_sub_image_is_model : forall img area,
  0 <= sw (ir_size img) <= i32_max -> 0 <= sh (ir_size img) <= i32_max -> 0 < ir_bpp img <= u32_max ->
  0 <= data_width img <= u32_max -> size_i32 (sz area) ->
  px (tl area) <= i32_max -> py (tl area) <= i32_max ->
  let r := src_ImageRaw_draw_sub_image log_fill (raw_load (ir_bpp img) (ir_alt img)) (ir_bpp img) img [] area in
  map (call_of img) (fst r) = raw_draw_sub_image img area /\ snd r = inl tt.
Proof. exact src_draw_sub_image_eq. Qed.

Theorem C09_src_draw_is_model : forall img,
  0 <= sw (ir_size img) <= u32_max -> 0 < ir_bpp img <= u32_max -> sw (ir_size img) <= data_width img <= u32_max ->
  let r := src_ImageRaw_draw log_fill (raw_load (ir_bpp img) (ir_alt img)) (ir_bpp img) img [] in
  map (call_of img) (fst r) = raw_draw img /\ snd r = inl tt.
Proof. exact src_draw_eq. Qed.

Theorem C09_src_sub_image_new_is_model : forall img area, size_i32 (ir_size img) -> size_i32 (sz area) ->
  drawable_of (src_SubImage_ImageRaw_new img area) = sub_image (Raw img) area.
Proof. exact src_sub_image_new_eq. Qed.

Theorem C09_src_sub_image_draw_is_model : forall s,
  src_img_ok (SubImage_ImageRaw_parent s) -> size_i32 (sz (SubImage_ImageRaw_area s)) ->
  px (tl (SubImage_ImageRaw_area s)) <= i32_max -> py (tl (SubImage_ImageRaw_area s)) <= i32_max ->
  let img := SubImage_ImageRaw_parent s in
  let r := src_SubImage_ImageRaw_draw (raw_load (ir_bpp img) (ir_alt img)) (ir_bpp img) log_fill s [] in
  map (call_of img) (fst r) = d_draw (drawable_of s) /\ snd r = inl tt.
Proof. exact src_sub_image_draw_eq. Qed.

Theorem C09_src_sub_image_draw_sub_image_is_model : forall s area,
  src_img_ok (SubImage_ImageRaw_parent s) ->
  let a := translate_rect area (tl (SubImage_ImageRaw_area s)) in
  size_i32 (sz a) -> px (tl a) <= i32_max -> py (tl a) <= i32_max ->
  let img := SubImage_ImageRaw_parent s in
  let r := src_SubImage_ImageRaw_draw_sub_image (raw_load (ir_bpp img) (ir_alt img)) (ir_bpp img) log_fill s [] area in
  map (call_of img) (fst r) = d_draw_sub_image (drawable_of s) area /\ snd r = inl tt.
Proof. exact src_sub_image_draw_sub_image_eq. Qed.

(* round 5: OriginDimensions::size of a sub image is the size of its area (sub_image.rs) *)
Theorem C09_src_sub_image_size_is_area_size : forall s, src_SubImage_ImageRaw_size s = sz (SubImage_ImageRaw_area s).
Proof. reflexivity. Qed.

(* round 5: the RUN of the generated ContiguousPixels::next.  src_cp_collect n (Proofs/SrcImageRun.v) drives it until its first None
   (None = the step budget n ran out first); it equals the model's cp_run for EVERY budget, so with the model's budget cp_fuel it
   yields cp_list - the colour list that call_of (above) reads off the initial state of the iterator handed to fill_contiguous *)
Theorem C09_src_contiguous_pixels_run_is_model : forall img n c,
  it_data (ContiguousPixels_iter c) = ir_data img -> 0 <= it_index (ContiguousPixels_iter c) -> 0 <= ContiguousPixels_row_skip c ->
  src_cp_collect (raw_load (ir_bpp img) (ir_alt img)) (fun x => x) n c = cp_run n img (cp_of c).
Proof. exact src_cp_collect_eq. Qed.
Theorem C09_src_contiguous_pixels_run_is_cp_list : forall img c,
  it_data (ContiguousPixels_iter c) = ir_data img -> 0 <= it_index (ContiguousPixels_iter c) -> 0 <= ContiguousPixels_row_skip c ->
  match src_cp_collect (raw_load (ir_bpp img) (ir_alt img)) (fun x => x) (cp_fuel (cp_of c)) c with Some l => l | None => [] end
  = cp_list img (cp_of c).
Proof. exact src_cp_collect_list. Qed.
Theorem C09_src_contiguous_pixels_new_run_is_model : forall img s skip rs, 0 <= skip -> 0 <= rs -> forall n,
  src_cp_collect (raw_load (ir_bpp img) (ir_alt img)) (fun x => x) n (src_ContiguousPixels_new (raw_load (ir_bpp img) (ir_alt img)) img s skip rs)
  = cp_run n img (cp_new img s skip rs).
Proof. exact src_cp_new_collect. Qed.

Example C09_src_draw_nonvacuous :
  let img := IR [165; 90] (Geometry.S 4 2) 2 false in
  src_ImageRaw_pixel (raw_load 2 false) (fun r => r) 2 img (P 1 1) = Some 1 /\
  src_ImageRaw_pixel (raw_load 2 false) (fun r => r) 2 img (P 4 1) = None /\
  map (call_of img) (fst (src_ImageRaw_draw_sub_image log_fill (raw_load 2 false) 2 img [] (R (P 1 0) (Geometry.S 2 2))))
    = [FillContiguous (R (P 0 0) (Geometry.S 2 2)) [2; 1; 1; 2]] /\
  fst (src_ImageRaw_draw_sub_image log_fill (raw_load 2 false) 2 img [] (R (P 3 0) (Geometry.S 2 2))) = [].
Proof. repeat split; vm_compute; reflexivity. Qed.
