(* C09, translator tie (ImageRaw::new): the constructor of src/image/image_raw.rs, regenerated from the source on every run
   by translate/r2c (coq/Gen/SrcImageNew.v; `C::Raw::BITS_PER_PIXEL` is a parameter, the struct is (data, size)), accepts
   and rejects exactly like Imageraw.raw_new, with the same expected data size in the error, for u32 width / height.
   new_result reads the model's `image_raw + Z` as the generated `Result<ImageRaw, ImageRawError>`.
   Statements only (proofs: Proofs/SrcImageNew.v). *)
From EG Require Import Base.Prelude Base.Casts Model.Geometry Model.Imageraw Gen.SrcGeometry Gen.SrcImage Gen.SrcImageNew Proofs.SrcImageNew.
(* the generated definitions that cast to usize (`as usize`, `usize::try_from`) take the width of usize as Casts.UsizeW; the model
   of this property works with 64-bit usize (exact integers in range): taken at that width *)
#[local] Existing Instance Casts.usize64_w.

Theorem C09_src_imageraw_new_is_model : forall bpp alt data s,
  0 <= sw s <= u32_max -> 0 <= sh s <= u32_max ->
  src_image_raw_ImageRaw_new bpp data s = new_result (raw_new bpp alt data s).
Proof. exact src_imageraw_new_eq. Qed.

Example C09_src_new_nonvacuous :
  src_image_raw_ImageRaw_new 1 [0; 0; 0] (Geometry.S 9 2) = inr (ImageRawError_InvalidDataSize 4) /\
  src_image_raw_ImageRaw_new 4 [1; 2; 3; 4] (Geometry.S 3 2) = inl (Build_image_raw_ImageRaw [1; 2; 3; 4] (Geometry.S 3 2)).
Proof. split; vm_compute; reflexivity. Qed.
