(* C10 - Framebuffer reads back what was written, in the layout of ImageRaw.
   Statements only; every proof is `exact <lemma>` from Proofs/Framebuffer.v.  Model: Model/Framebuffer.v
   (src/framebuffer.rs set_pixel in its three families, draw_iter, as_image, pixel; ImageRaw::new /
   data_width / pixel of src/image/image_raw.rs; raw load and RawDataIterator::nth from Model/Rawdata.v).

   A configuration c = (raw type, data order, WIDTH, HEIGHT) ranges over all 7 raw widths, both data
   orders and all sizes; the state is the byte array.  fb_ok c data: 0 <= WIDTH, HEIGHT <= i32::MAX (the
   `as u32` / `as i32` casts of as_image / pixel are exact), data consists of bytes, N >= BUFFER_SIZE
   (the compile-time CHECK_N) and 8 * N <= usize::MAX.  Colours are their raw values (raw_ok: < 2^bits).
   fb_pixel returns Panic | Pix (option colour): the theorems show it is never Panic.
   usize is a parameter (class Usize of Model/Rawdata.v): the section holds for 16-, 32- and 64-bit targets alike;
   only the bridge to the C09 image model at the end is for the 64-bit instance that model is written for. *)
From EG Require Import Base.Prelude Model.Rawdata Proofs.Rawdata Model.Framebuffer Proofs.Framebuffer.
From EG Require Model.Geometry Proofs.Geometry Model.Target Proofs.Target Proofs.Fbtarget Gen.FbShape.
From EG Require Model.Imageraw Proofs.Imageraw Proofs.Imagebridge.

Section AnyUsize.
Context {U : Usize}.

(* a new framebuffer reads the all-zero colour inside, None outside *)
Theorem C10_fb_init : forall c n q,
  fb_ok c (fb_new n) -> fb_pixel c (fb_new n) q = Pix (if fb_insideb c q then Some 0 else None).
Proof. exact fb_init. Qed.

Theorem C10_fb_new_ok : forall c n,
  0 <= fb_w c <= i32_max -> 0 <= fb_h c <= i32_max -> fb_buffer_size c <= Z.of_nat n -> 8 * Z.of_nat n <= usize_max ->
  fb_ok c (fb_new n).
Proof. exact fb_new_ok. Qed.

(* refinement: one set_pixel updates the point -> colour map at p if p is inside, and nothing else *)
Theorem C10_fb_set_pixel : forall c data p v q,
  fb_ok c data -> raw_ok (fb_t c) v ->
  fb_pixel c (fb_set_pixel c data p v) q =
  if fb_insideb c p && pt_eqb p q then Pix (Some v) else fb_pixel c data q.
Proof. exact fb_set_pixel_spec. Qed.

Theorem C10_fb_set_pixel_keeps_invariant : forall c data p v,
  fb_ok c data -> raw_ok (fb_t c) v ->
  fb_ok c (fb_set_pixel c data p v) /\ buf_len (fb_set_pixel c data p v) = buf_len data.
Proof. exact fb_ok_set_pixel. Qed.

(* the writer is RawData::store, the reader RawData::load, both at the pixel's index in ImageRaw's
   padded row-major layout (x + y * data_width) *)
Theorem C10_fb_set_pixel_is_store : forall c data p v,
  fb_ok c data -> fb_inside c p ->
  fb_set_pixel c data p v = fst (store (fb_t c) (fb_alt c) v data (pix_index c p)).
Proof. exact set_pixel_is_store. Qed.

Theorem C10_fb_pixel_is_load : forall c data p,
  fb_ok c data ->
  fb_pixel c data p = Pix (if fb_insideb c p then load (fb_t c) (fb_alt c) data (pix_index c p) else None).
Proof. exact fb_pixel_is_load. Qed.

(* as_image() never panics: it is the ImageRaw of the same raw type, data order and size over data[0..BUFFER_SIZE] *)
Theorem C10_fb_as_image : forall c data,
  fb_ok c data ->
  fb_as_image c data =
  Some (Img (fb_t c) (fb_alt c) (firstn (Z.to_nat (fb_buffer_size c)) data) (fb_w c) (fb_h c)).
Proof. exact as_image_ok. Qed.

(* any history of set_pixel / draw_iter calls: pixel(q) is the colour most recently written to q *)
Theorem C10_fb_history : forall c ops data q,
  fb_ok c data -> Forall (fbop_ok c) ops ->
  fb_ok c (fold_left (fb_step c) ops data) /\
  buf_len (fold_left (fb_step c) ops data) = buf_len data /\
  fb_pixel c (fold_left (fb_step c) ops data) q = last_write c q (flat_map (op_writes c) ops) (fb_pixel c data q).
Proof. exact fb_history. Qed.

Theorem C10_fb_history_from_new : forall c n ops q,
  fb_ok c (fb_new n) -> Forall (fbop_ok c) ops ->
  fb_pixel c (fold_left (fb_step c) ops (fb_new n)) q =
  last_write c q (flat_map (op_writes c) ops) (Pix (if fb_insideb c q then Some 0 else None)).
Proof. exact fb_history_new. Qed.

(* ---- fill_solid / fill_contiguous / clear: Framebuffer inherits the DrawTarget trait defaults -------------------
   (op_writes of these operations is area.points() zipped with the colour stream, i.e. what the defaults of
   core/src/draw_target/mod.rs hand to draw_iter; C10_fb_history and C10_fb_tail_untouched_history above range
   over all five operations).  rect_fits = the rectangle's extents and far edges fit i32 (Rectangle::points
   does not saturate); stream_ok = every colour of the stream is a raw value. *)

(* the source defines only draw_iter in every `impl DrawTarget for Framebuffer` and the three default bodies are
   the ones modelled (regenerated from the tree under test by translate/gen_fb.py; a change breaks this proof) *)
Theorem C10_fb_inherits_trait_defaults :
  FbShape.fb_drawtarget_impls = 3%nat /\ FbShape.fb_drawtarget_other_fns = 0%nat /\
  FbShape.trait_defaults_as_modelled = true /\ FbShape.fb_size_is_width_height = true.
Proof. repeat split; reflexivity. Qed.

Theorem C10_fb_clear : forall c data v q,
  fb_ok c data -> raw_ok (fb_t c) v ->
  fb_pixel c (fb_clear c data v) q = Pix (if fb_insideb c q then Some v else None).
Proof. exact Fbtarget.fb_clear_spec. Qed.

Theorem C10_fb_fill_solid : forall c data a v q,
  fb_ok c data -> raw_ok (fb_t c) v -> Target.rect_fits a ->
  fb_pixel c (fb_fill_solid c data a v) q =
  if fb_insideb c q && Geometry.contains a (Geometry.P (fst q) (snd q)) then Pix (Some v) else fb_pixel c data q.
Proof. exact Fbtarget.fb_fill_solid_spec. Qed.

(* colour number (y - top) * width + (x - left) of the stream goes to (x, y); surplus colours are ignored, a
   stream that ends early leaves the remaining points unchanged *)
Theorem C10_fb_fill_contiguous : forall c data a cs q,
  fb_ok c data -> Fbtarget.stream_ok c cs -> Target.rect_fits a ->
  fb_pixel c (fb_fill_contiguous c data a cs) q =
  if fb_insideb c q && Geometry.contains a (Geometry.P (fst q) (snd q))
  then match Target.sget cs (Target.idx_in a (Geometry.P (fst q) (snd q))) with
       | Some v => Pix (Some v) | None => fb_pixel c data q end
  else fb_pixel c data q.
Proof. exact Fbtarget.fb_fill_contiguous_spec. Qed.

(* the operation conditions of the history theorems are met by raw colours *)
Theorem C10_fb_fill_ops_ok : forall c a v cs,
  (raw_ok (fb_t c) v -> fbop_ok c (OpFillSolid a v) /\ fbop_ok c (OpClear v)) /\
  (Fbtarget.stream_ok c cs -> fbop_ok c (OpFillContiguous a cs)).
Proof. exact Fbtarget.fill_ops_ok. Qed.

(* Framebuffer is a conforming target: any history of the five operations leaves the map that painting the
   corresponding calls on a target with NATIVE fill methods leaves (Model/Target.v, property C03's semantics) *)
Theorem C10_fb_history_is_paint : forall c ops data p,
  fb_ok c data -> Forall (fbop_ok c) ops -> Forall Fbtarget.fbop_fits ops ->
  Fbtarget.fb_abs c (fold_left (fb_step c) ops data) p =
  Target.paint_all (fb_bounding_box c) Target.Native (map Fbtarget.op_call ops) (Fbtarget.fb_abs c data) p.
Proof. exact Fbtarget.fb_history_paint. Qed.

Theorem C10_fb_step_tail_untouched : forall c data o k,
  fb_ok c data -> fbop_ok c o -> fb_buffer_size c <= k -> byte_at (fb_step c data o) k = byte_at data k.
Proof. exact Fbtarget.fb_step_tail. Qed.

(* outside WIDTH x HEIGHT: pixel is None, a write changes no byte - for every i32 point and every state *)
Theorem C10_fb_pixel_outside_none : forall c data q,
  fb_ok c data -> fb_insideb c q = false -> fb_pixel c data q = Pix None.
Proof. exact fb_pixel_outside. Qed.

Theorem C10_fb_pixel_inside_some : forall c data q,
  fb_ok c data -> fb_insideb c q = true -> exists v, fb_pixel c data q = Pix (Some v).
Proof. exact fb_pixel_inside. Qed.

Theorem C10_fb_oob_noop : forall c data p v,
  fb_insideb c p = false -> fb_set_pixel c data p v = data.
Proof. exact fb_oob_noop. Qed.

(* bytes beyond the used prefix of an oversized buffer are never modified *)
Theorem C10_fb_tail_untouched : forall c data p v k,
  fb_ok c data -> fb_buffer_size c <= k -> byte_at (fb_set_pixel c data p v) k = byte_at data k.
Proof. exact fb_tail_untouched. Qed.

Theorem C10_fb_tail_untouched_history : forall c ops data k,
  fb_ok c data -> Forall (fbop_ok c) ops -> fb_buffer_size c <= k ->
  byte_at (fold_left (fb_step c) ops data) k = byte_at data k.
Proof. exact fb_tail_untouched_history. Qed.

(* drawing as_image() (ImageDrawable::draw -> ContiguousPixels as written): fill_contiguous receives exactly
   WIDTH * HEIGHT colours and colour number y * WIDTH + x is pixel (x, y) of the framebuffer, i.e. the
   drawn image reproduces the content (the fuel of the model's stream never runs out) *)
Theorem C10_fb_as_image_draw : forall c data,
  fb_ok c data ->
  exists im cols,
    fb_as_image c data = Some im /\ image_draw_colors im = Some cols /\
    Z.of_nat (length cols) = fb_w c * fb_h c /\
    forall x y, 0 <= x < fb_w c -> 0 <= y < fb_h c ->
      fb_pixel c data (x, y) = Pix (nth_error cols (Z.to_nat (y * fb_w c + x))).
Proof. exact fb_as_image_draw. Qed.

End AnyUsize.

Section Bridge64.
Local Existing Instance usize64.

(* ---- bridge to the ImageRaw model of property C09 (Model/Imageraw.v) --------------------------------------------
   Framebuffer.v's ImageRaw::pixel is Imageraw.v's raw_pixel on the same data ... *)
Theorem C10_image_pixel_eq : forall im p,
  bytes_ok (img_data im) -> len_ok (img_data im) -> 0 <= data_width im ->
  image_pixel im (Geometry.px p, Geometry.py p) = Imageraw.raw_pixel (Imagebridge.to_ir im) p.
Proof. exact Imagebridge.image_pixel_eq. Qed.

(* ... hence C09's image_draw_spec applies to as_image(): after Image::new(&fb.as_image(), o).draw(target) on a target
   with bounding box bb (Imageraw.render: the fill_contiguous call with its area and colour stream, painted with the
   DrawTarget contract) the target holds at q the framebuffer's colour at q - o inside bb /\ (o, WIDTH x HEIGHT) and
   nothing elsewhere: drawing as_image() reproduces the content.  Sizes and offset within +-2^29 (range of C09). *)
Theorem C10_fb_as_image_render : forall c data o,
  fb_ok c data -> fb_w c <= Geometry.bound -> fb_h c <= Geometry.bound -> Geometry.point_ok o ->
  exists im,
    fb_as_image c data = Some im /\ Imageraw.img_ok (Imagebridge.to_ir im) /\
    forall bb q,
      Imageraw.render bb (Imageraw.image_draw (Imageraw.Img (Imageraw.Raw (Imagebridge.to_ir im)) o)) q =
      if Geometry.contains bb q && Geometry.contains (Geometry.R o (Geometry.S (fb_w c) (fb_h c))) q
      then Fbtarget.fb_abs c data (Geometry.psub q o) else None.
Proof. exact Imagebridge.fb_as_image_render. Qed.

End Bridge64.

Section Witness.
Local Existing Instance usize64.
(* non-vacuity: a 9x2 1-bpp framebuffer (rows padded to 2 bytes) in both data orders, oversized by one byte *)
Example C10_witness :
  let c0 := FbCfg U1 false 9 2 in let c1 := FbCfg U1 true 9 2 in
  fb_ok c0 (fb_new 5) /\ fb_ok c1 (fb_new 5) /\
  fold_left (fb_step c0) [OpSet (0, 0) 1; OpSet (8, 1) 1; OpDrawIter [((1, 1), 1); ((1, 1), 0); ((9, 0), 1); ((-1, 0), 1)]] (fb_new 5)
    = [128; 0; 0; 128; 0] /\
  fold_left (fb_step c1) [OpSet (0, 0) 1; OpSet (8, 1) 1] (fb_new 5) = [1; 0; 0; 1; 0] /\
  fb_pixel c1 [1; 0; 0; 1; 0] (8, 1) = Pix (Some 1) /\ fb_pixel c1 [1; 0; 0; 1; 0] (7, 0) = Pix (Some 0) /\
  fb_pixel c0 [128; 0; 0; 128; 0] (0, 0) = Pix (Some 1) /\ fb_pixel c0 [128; 0; 0; 128; 0] (9, 0) = Pix None /\
  fb_set_pixel (FbCfg U16 true 3 2) (fb_new 12) (1, 1) 4660 = [0; 0; 0; 0; 0; 0; 0; 0; 18; 52; 0; 0] /\
  option_map image_draw_colors (fb_as_image (FbCfg U2 false 3 2) [27; 228; 9]) = Some (Some [0; 1; 2; 3; 2; 1]).
Proof.
  cbv zeta. split; [apply fb_new_ok; vm_compute; repeat split; congruence|].
  split; [apply fb_new_ok; vm_compute; repeat split; congruence|].
  repeat split; vm_compute; reflexivity.
Qed.
End Witness.
