(* C10, translator tie: buffer_size_bpp / buffer_size of src/framebuffer.rs, regenerated from the source on every run by
   translate/r2c (coq/Gen/SrcFramebuffer.v), equal Framebuffer.buffer_size_bpp.  Statements only. *)
From EG Require Import Base.Prelude Base.Casts Model.Framebuffer Gen.SrcFramebuffer Proofs.SrcMisc.

Theorem C10_src_buffer_size_bpp_is_model : forall w h bpp, src_buffer_size_bpp w h bpp = buffer_size_bpp w h bpp.
Proof. exact src_buffer_size_bpp_eq. Qed.
Theorem C10_src_buffer_size_is_model : forall bpp w h, src_buffer_size bpp w h = buffer_size_bpp w h bpp.
Proof. exact src_buffer_size_eq. Qed.

Example C10_src_nonvacuous : src_buffer_size 4 9 3 = 15.
Proof. vm_compute. reflexivity. Qed.
