(* C10, translator tie (Framebuffer::set_pixel): the RawU8 impl (src/framebuffer.rs:210-219) and the body of `impl_bit!`
   (sub-byte raw types, src/framebuffer.rs:153-172, translated as a template over the abstract raw type), regenerated from
   the source on every run by translate/r2c (coq/Gen/SrcFbSetPixel.v, coq/Gen/SrcFbSetPixelBits.v).  WIDTH / HEIGHT (const
   generics of the impl), bits per pixel, the data order and `c.into()` (colour -> raw, property C12's subject) are
   parameters; the generated definitions are option-valued: `self.data[i]` / `self.data[i] = v` out of range (a Rust
   panic) is None.  For i32 coordinates they panic exactly when the point is inside the framebuffer and the index outside the
   data array, and otherwise the data afterwards equals Framebuffer.fb_set_pixel.
   Not covered: the multi-byte set_pixel (body of `impl_bytes!`: the method name `$to_bytes_fn` is a macro parameter).
   Statements only (proofs: Proofs/SrcFbSetPixel.v, Proofs/SrcFbSetPixelBits.v). *)
From EG Require Import Base.Prelude Base.Casts Model.Geometry Model.Rawdata Model.Framebuffer Gen.SrcGeometry Gen.SrcFbSetPixel Gen.SrcFbSetPixelBits Proofs.SrcFbSetPixel Proofs.SrcFbSetPixelBits.
(* the generated definitions that cast to usize (`as usize`, `usize::try_from`) take the width of usize as Casts.UsizeW; the model
   of this property works with 64-bit usize (exact integers in range): taken at that width *)
#[local] Existing Instance Casts.usize64_w.

(* in_fb W H p: p is inside the WIDTH x HEIGHT framebuffer.  The generated set_pixel is None (panic) exactly when p is inside and
   the index is outside the data array (never with the N that CHECK_N demands: the `_never_panics` theorems). *)
Theorem C10_src_set_pixel_u8_is_model : forall alt W H into fb p c,
  i32_min <= px p <= i32_max -> i32_min <= py p <= i32_max ->
  src_Framebuffer_set_pixel W H into fb p c
  = if in_fb W H p && negb (py p * W + px p <? Z.of_nat (length (Framebuffer_data fb)))
    then None
    else Some (Build_Framebuffer (fb_set_pixel (FbCfg U8 alt W H) (Framebuffer_data fb) (px p, py p) (into c)) (Framebuffer_n_assert fb)).
Proof. exact src_fb_set_pixel_u8_eq. Qed.

Theorem C10_src_set_pixel_u8_never_panics : forall alt W H into fb p c,
  i32_min <= px p <= i32_max -> i32_min <= py p <= i32_max -> W * H <= Z.of_nat (length (Framebuffer_data fb)) ->
  src_Framebuffer_set_pixel W H into fb p c
  = Some (Build_Framebuffer (fb_set_pixel (FbCfg U8 alt W H) (Framebuffer_data fb) (px p, py p) (into c)) (Framebuffer_n_assert fb)).
Proof. exact src_fb_set_pixel_u8_some. Qed.

Theorem C10_src_set_pixel_bits_is_model : forall t alt W H into fb p c,
  t = U1 \/ t = U2 \/ t = U4 -> 0 <= W ->
  i32_min <= px p <= i32_max -> i32_min <= py p <= i32_max ->
  src_Framebuffer_set_pixel_bits t W H (bits t) alt into fb p c
  = if in_fb W H p && negb (bits_byte_index t W p <? Z.of_nat (length (Framebuffer_data fb)))
    then None
    else Some (Build_Framebuffer (fb_set_pixel (FbCfg t alt W H) (Framebuffer_data fb) (px p, py p) (into c)) (Framebuffer_n_assert fb)).
Proof. exact src_fb_set_pixel_bits_eq. Qed.

Theorem C10_src_set_pixel_bits_never_panics : forall t alt W H into fb p c,
  t = U1 \/ t = U2 \/ t = U4 -> 0 <= W ->
  i32_min <= px p <= i32_max -> i32_min <= py p <= i32_max ->
  (W * bits t + 7) / 8 * H <= Z.of_nat (length (Framebuffer_data fb)) ->
  src_Framebuffer_set_pixel_bits t W H (bits t) alt into fb p c
  = Some (Build_Framebuffer (fb_set_pixel (FbCfg t alt W H) (Framebuffer_data fb) (px p, py p) (into c)) (Framebuffer_n_assert fb)).
Proof. exact src_fb_set_pixel_bits_some. Qed.

Example C10_src_setpixel_nonvacuous :
  option_map Framebuffer_data (src_Framebuffer_set_pixel 2 2 (fun c => c) (Build_Framebuffer [0; 0; 0; 0] tt) (P 1 1) 9) = Some [0; 0; 0; 9] /\
  option_map Framebuffer_data (src_Framebuffer_set_pixel 2 2 (fun c => c) (Build_Framebuffer [0; 0; 0; 0] tt) (P 2 1) 9) = Some [0; 0; 0; 0] /\
  src_Framebuffer_set_pixel 2 2 (fun c => c) (Build_Framebuffer [0; 0; 0] tt) (P 1 1) 9 = None /\
  option_map Framebuffer_data (src_Framebuffer_set_pixel_bits U2 5 2 2 false (fun c => c) (Build_Framebuffer [255; 255; 255; 255] tt) (P 1 1) 1) = Some [255; 255; 223; 255] /\
  src_Framebuffer_set_pixel_bits U2 5 2 2 false (fun c => c) (Build_Framebuffer [255; 255] tt) (P 1 1) 1 = None.
Proof. repeat split; vm_compute; reflexivity. Qed.
