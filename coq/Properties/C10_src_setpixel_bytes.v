(* C10, translator tie (multi-byte Framebuffer::set_pixel, Framebuffer::new): the body of `impl_bytes!` (src/framebuffer.rs:252-266)
   instantiated once per invocation (RawU16 / RawU24 / RawU32 x LittleEndianMsb0 / BigEndianLsb0; the method `$to_bytes_fn`
   is a macro parameter; the translator checks that the configured instances are the invocations of the source), the ToBytes
   impls they call (core/src/pixelcolor/raw/to_bytes.rs) and Framebuffer::new, regenerated from the source on every run by
   translate/r2c (coq/Gen/SrcToBytes.v, coq/Gen/SrcFbSetPixelBytes.v).  `self.data[i..i + N].copy_from_slice(&bytes)` is
   Casts.slice_copy under the test Casts.slice_copy_ok: the generated set_pixel is option-valued, None = Rust's panic when the
   range is outside the buffer.  It panics exactly when the point is inside the framebuffer and the byte range ends outside
   the data; otherwise (always when buf_ok; C10 proves N >= that) the data afterwards equals Framebuffer.fb_set_pixel.
   Not covered: Framebuffer::as_image (`.unwrap()` of a Result).  Statements only (proofs: Proofs/SrcFbSetPixelBytes.v). *)
From EG Require Import Base.Prelude Base.Casts Model.Geometry Model.Rawdata Model.Framebuffer.
From EG Require Import Gen.SrcGeometry Gen.SrcRawData Gen.SrcToBytes Gen.SrcFbSetPixel Gen.SrcFbSetPixelBytes Proofs.SrcFbSetPixel Proofs.SrcFbSetPixelBytes.
(* the generated definitions that cast to usize (`as usize`, `usize::try_from`) take the width of usize as Casts.UsizeW; the model
   of this property works with 64-bit usize (exact integers in range): taken at that width *)
#[local] Existing Instance Casts.usize64_w.

(* in_fb W H p: p is inside the framebuffer; bytes_end t W p: end of the byte range written.  None (panic) exactly when p is
   inside and the range ends outside the data array; never when buf_ok (the `_never_panics` theorems). *)
Theorem C10_src_set_pixel_RawU16_le_is_model : forall W H into fb p c,
  i32_min <= px p <= i32_max -> i32_min <= py p <= i32_max ->
  src_Framebuffer_set_pixel_RawU16_le W H into fb p c
  = if in_fb W H p && negb (bytes_end U16 W p <=? Z.of_nat (length (Framebuffer_data fb)))
    then None
    else Some (Build_Framebuffer (fb_set_pixel (FbCfg U16 false W H) (Framebuffer_data fb) (px p, py p) (into c)) (Framebuffer_n_assert fb)).
Proof. exact src_fb_set_pixel_RawU16_le_eq. Qed.
Theorem C10_src_set_pixel_RawU16_le_never_panics : forall W H into fb p c,
  i32_min <= px p <= i32_max -> i32_min <= py p <= i32_max -> buf_ok U16 W H (Framebuffer_data fb) ->
  src_Framebuffer_set_pixel_RawU16_le W H into fb p c
  = Some (Build_Framebuffer (fb_set_pixel (FbCfg U16 false W H) (Framebuffer_data fb) (px p, py p) (into c)) (Framebuffer_n_assert fb)).
Proof. exact src_fb_set_pixel_RawU16_le_some. Qed.

Theorem C10_src_set_pixel_RawU16_be_is_model : forall W H into fb p c,
  i32_min <= px p <= i32_max -> i32_min <= py p <= i32_max ->
  src_Framebuffer_set_pixel_RawU16_be W H into fb p c
  = if in_fb W H p && negb (bytes_end U16 W p <=? Z.of_nat (length (Framebuffer_data fb)))
    then None
    else Some (Build_Framebuffer (fb_set_pixel (FbCfg U16 true W H) (Framebuffer_data fb) (px p, py p) (into c)) (Framebuffer_n_assert fb)).
Proof. exact src_fb_set_pixel_RawU16_be_eq. Qed.
Theorem C10_src_set_pixel_RawU16_be_never_panics : forall W H into fb p c,
  i32_min <= px p <= i32_max -> i32_min <= py p <= i32_max -> buf_ok U16 W H (Framebuffer_data fb) ->
  src_Framebuffer_set_pixel_RawU16_be W H into fb p c
  = Some (Build_Framebuffer (fb_set_pixel (FbCfg U16 true W H) (Framebuffer_data fb) (px p, py p) (into c)) (Framebuffer_n_assert fb)).
Proof. exact src_fb_set_pixel_RawU16_be_some. Qed.

Theorem C10_src_set_pixel_RawU24_le_is_model : forall W H into fb p c,
  i32_min <= px p <= i32_max -> i32_min <= py p <= i32_max ->
  src_Framebuffer_set_pixel_RawU24_le W H into fb p c
  = if in_fb W H p && negb (bytes_end U24 W p <=? Z.of_nat (length (Framebuffer_data fb)))
    then None
    else Some (Build_Framebuffer (fb_set_pixel (FbCfg U24 false W H) (Framebuffer_data fb) (px p, py p) (into c)) (Framebuffer_n_assert fb)).
Proof. exact src_fb_set_pixel_RawU24_le_eq. Qed.
Theorem C10_src_set_pixel_RawU24_le_never_panics : forall W H into fb p c,
  i32_min <= px p <= i32_max -> i32_min <= py p <= i32_max -> buf_ok U24 W H (Framebuffer_data fb) ->
  src_Framebuffer_set_pixel_RawU24_le W H into fb p c
  = Some (Build_Framebuffer (fb_set_pixel (FbCfg U24 false W H) (Framebuffer_data fb) (px p, py p) (into c)) (Framebuffer_n_assert fb)).
Proof. exact src_fb_set_pixel_RawU24_le_some. Qed.

Theorem C10_src_set_pixel_RawU24_be_is_model : forall W H into fb p c,
  i32_min <= px p <= i32_max -> i32_min <= py p <= i32_max ->
  src_Framebuffer_set_pixel_RawU24_be W H into fb p c
  = if in_fb W H p && negb (bytes_end U24 W p <=? Z.of_nat (length (Framebuffer_data fb)))
    then None
    else Some (Build_Framebuffer (fb_set_pixel (FbCfg U24 true W H) (Framebuffer_data fb) (px p, py p) (into c)) (Framebuffer_n_assert fb)).
Proof. exact src_fb_set_pixel_RawU24_be_eq. Qed.
Theorem C10_src_set_pixel_RawU24_be_never_panics : forall W H into fb p c,
  i32_min <= px p <= i32_max -> i32_min <= py p <= i32_max -> buf_ok U24 W H (Framebuffer_data fb) ->
  src_Framebuffer_set_pixel_RawU24_be W H into fb p c
  = Some (Build_Framebuffer (fb_set_pixel (FbCfg U24 true W H) (Framebuffer_data fb) (px p, py p) (into c)) (Framebuffer_n_assert fb)).
Proof. exact src_fb_set_pixel_RawU24_be_some. Qed.

Theorem C10_src_set_pixel_RawU32_le_is_model : forall W H into fb p c,
  i32_min <= px p <= i32_max -> i32_min <= py p <= i32_max ->
  src_Framebuffer_set_pixel_RawU32_le W H into fb p c
  = if in_fb W H p && negb (bytes_end U32 W p <=? Z.of_nat (length (Framebuffer_data fb)))
    then None
    else Some (Build_Framebuffer (fb_set_pixel (FbCfg U32 false W H) (Framebuffer_data fb) (px p, py p) (into c)) (Framebuffer_n_assert fb)).
Proof. exact src_fb_set_pixel_RawU32_le_eq. Qed.
Theorem C10_src_set_pixel_RawU32_le_never_panics : forall W H into fb p c,
  i32_min <= px p <= i32_max -> i32_min <= py p <= i32_max -> buf_ok U32 W H (Framebuffer_data fb) ->
  src_Framebuffer_set_pixel_RawU32_le W H into fb p c
  = Some (Build_Framebuffer (fb_set_pixel (FbCfg U32 false W H) (Framebuffer_data fb) (px p, py p) (into c)) (Framebuffer_n_assert fb)).
Proof. exact src_fb_set_pixel_RawU32_le_some. Qed.

Theorem C10_src_set_pixel_RawU32_be_is_model : forall W H into fb p c,
  i32_min <= px p <= i32_max -> i32_min <= py p <= i32_max ->
  src_Framebuffer_set_pixel_RawU32_be W H into fb p c
  = if in_fb W H p && negb (bytes_end U32 W p <=? Z.of_nat (length (Framebuffer_data fb)))
    then None
    else Some (Build_Framebuffer (fb_set_pixel (FbCfg U32 true W H) (Framebuffer_data fb) (px p, py p) (into c)) (Framebuffer_n_assert fb)).
Proof. exact src_fb_set_pixel_RawU32_be_eq. Qed.
Theorem C10_src_set_pixel_RawU32_be_never_panics : forall W H into fb p c,
  i32_min <= px p <= i32_max -> i32_min <= py p <= i32_max -> buf_ok U32 W H (Framebuffer_data fb) ->
  src_Framebuffer_set_pixel_RawU32_be W H into fb p c
  = Some (Build_Framebuffer (fb_set_pixel (FbCfg U32 true W H) (Framebuffer_data fb) (px p, py p) (into c)) (Framebuffer_n_assert fb)).
Proof. exact src_fb_set_pixel_RawU32_be_some. Qed.

Theorem C10_src_to_bytes_is_model : forall v,
  (let '(a, b) := src_RawU16_to_le_bytes v in [a; b]) = encode_bytes U16 false v /\
  (let '(a, b) := src_RawU16_to_be_bytes v in [a; b]) = encode_bytes U16 true v /\
  (let '(a, b, c) := src_RawU24_to_le_bytes v in [a; b; c]) = encode_bytes U24 false v /\
  (let '(a, b, c) := src_RawU24_to_be_bytes v in [a; b; c]) = encode_bytes U24 true v /\
  (let '(a, b, c, d) := src_RawU32_to_le_bytes v in [a; b; c; d]) = encode_bytes U32 false v /\
  (let '(a, b, c, d) := src_RawU32_to_be_bytes v in [a; b; c; d]) = encode_bytes U32 true v.
Proof. exact to_bytes_eq. Qed.

Theorem C10_src_new_is_model : forall n, 0 <= n -> Framebuffer_data (src_Framebuffer_new n) = fb_new (Z.to_nat n).
Proof. exact src_fb_new_eq. Qed.

Example C10_src_setpixel_bytes_nonvacuous :
  option_map Framebuffer_data (src_Framebuffer_set_pixel_RawU16_be 2 2 (fun c => c) (Build_Framebuffer [0; 0; 0; 0; 0; 0; 0; 0] tt) (P 1 0) 258) = Some [0; 0; 1; 2; 0; 0; 0; 0] /\
  option_map Framebuffer_data (src_Framebuffer_set_pixel_RawU24_le 2 1 (fun c => c) (Build_Framebuffer [9; 9; 9; 9; 9; 9] tt) (P 1 0) 66051) = Some [9; 9; 9; 3; 2; 1] /\
  src_Framebuffer_set_pixel_RawU32_le 2 1 (fun c => c) (Build_Framebuffer [9; 9; 9; 9; 9; 9] tt) (P 1 0) 1 = None /\
  option_map Framebuffer_data (src_Framebuffer_set_pixel_RawU32_le 2 1 (fun c => c) (Build_Framebuffer [9; 9; 9; 9; 9; 9] tt) (P 2 0) 1) = Some [9; 9; 9; 9; 9; 9].
Proof. repeat split; vm_compute; reflexivity. Qed.
