(* C11 - Raw pixel load/store and iteration round-trip in both data orders.
   Statements only; every proof is `exact <lemma>` from Proofs/Rawdata.v.  Model: Model/Rawdata.v
   (core/src/pixelcolor/raw/load_store.rs, raw/mod.rs, src/iterator/raw.rs as written).
   The width of usize is a parameter: every theorem of the section below holds for EVERY instance U of the class
   Usize (usize::MAX >= 65535), in particular usize16, usize32, usize64 (Model/Rawdata.v).

   Ranges: bytes_ok buf  = every element of the buffer is a byte (0..255);
           len_ok buf    = 8 * length <= usize::MAX (64 bit: any slice below 2 EiB; there `index + 1` and
                           `len * pixels_per_byte`, unbounded in the model, cannot wrap);
           raw_ok t v    = v < 2^bits (what RawUx::new / from_u32 / into_inner produce);
           indices are non-negative (usize).  The out-of-range theorems need none of these and hold for
           EVERY index, including those whose byte offset index * N leaves usize (checked_mul). *)
From EG Require Import Base.Prelude Model.Rawdata Proofs.Rawdata.
From EG Require Model.Imageraw Proofs.Imagebridge.

Section AnyUsize.
Context {U : Usize}.

(* store then load returns the value; the buffer keeps its length and stays a byte buffer *)
Theorem C11_load_store : forall t alt v buf i,
  bytes_ok buf -> len_ok buf -> raw_ok t v -> 0 <= i < pixels_total t (buf_len buf) ->
  exists buf', store t alt v buf i = (buf', true) /\ load t alt buf' i = Some v /\
               buf_len buf' = buf_len buf /\ bytes_ok buf'.
Proof. exact load_store. Qed.

(* raw_ok is exactly the set of values that exist: new / from_u32 mask into it, load returns it; hence
   C11_load_store covers every value that can be handed to store, and any u32 round-trips to its masked value *)
Theorem C11_new_is_raw : forall t x, raw_ok t (raw_new t x).
Proof. exact raw_new_ok. Qed.

Theorem C11_load_is_raw : forall t alt buf i v,
  bytes_ok buf -> len_ok buf -> 0 <= i -> load t alt buf i = Some v -> raw_ok t v.
Proof. exact load_is_raw. Qed.

Theorem C11_load_store_from_u32 : forall t alt x buf i,
  bytes_ok buf -> len_ok buf -> 0 <= i < pixels_total t (buf_len buf) ->
  load t alt (fst (store t alt (raw_new t x) buf i)) i = Some (raw_new t x).
Proof. exact load_store_new. Qed.

(* every other pixel index (inside or outside the buffer) loads what it loaded before *)
Theorem C11_store_frame : forall t alt v buf i j,
  bytes_ok buf -> len_ok buf -> raw_ok t v -> 0 <= i < pixels_total t (buf_len buf) -> 0 <= j -> j <> i ->
  load t alt (fst (store t alt v buf i)) j = load t alt buf j.
Proof. exact store_frame. Qed.

(* bit by bit: a bit that does not belong to pixel i in the documented layout keeps its value *)
Theorem C11_store_touches_only_its_bits : forall t alt v buf i k q,
  bytes_ok buf -> len_ok buf -> raw_ok t v -> 0 <= i < pixels_total t (buf_len buf) ->
  0 <= k -> 0 <= q < 8 -> ~ owns t alt i k q ->
  Z.testbit (byte_at (fst (store t alt v buf i)) k) q = Z.testbit (byte_at buf k) q.
Proof. exact store_touches_only. Qed.

Theorem C11_pixels_own_disjoint_bits : forall t alt i j k q,
  0 <= i -> 0 <= j -> i <> j -> owns t alt i k q -> ~ owns t alt j k q.
Proof. exact owns_disjoint. Qed.

Theorem C11_byte_is_its_pixels : forall t alt buf k q,
  0 <= k < buf_len buf -> 0 <= q < 8 -> k < pixels_total t (buf_len buf) * bits t / 8 ->
  exists i, 0 <= i < pixels_total t (buf_len buf) /\ owns t alt i k q.
Proof. exact byte_is_its_pixels. Qed.

(* `owns` really is the set of bits a pixel is read from: two buffers that agree on the bits pixel i owns load the
   same value at i (together with the closed forms below this ties `owns` to the documented layout) *)
Theorem C11_load_depends_on_owned_bits : forall t (alt : order) b1 b2 i,
  bytes_ok b1 -> bytes_ok b2 -> buf_len b1 = buf_len b2 -> len_ok b1 ->
  0 <= i < pixels_total t (buf_len b1) ->
  (forall k q, 0 <= q < 8 -> owns t alt i k q -> Z.testbit (byte_at b1 k) q = Z.testbit (byte_at b2 k) q) ->
  load t alt b1 i = load t alt b2 i.
Proof. exact load_depends_on_owned_bits. Qed.

(* beyond the buffer: None / Err and no byte changes - for every non-negative index *)
Theorem C11_load_oob : forall t alt buf i,
  0 <= i -> pixels_total t (buf_len buf) <= i -> load t alt buf i = None.
Proof. exact load_oob. Qed.

Theorem C11_store_oob : forall t alt v buf i,
  0 <= i -> pixels_total t (buf_len buf) <= i -> store t alt v buf i = (buf, false).
Proof. exact store_oob. Qed.

Theorem C11_load_some_iff_in_range : forall t alt buf i,
  len_ok buf -> 0 <= i -> (load t alt buf i <> None <-> i < pixels_total t (buf_len buf)).
Proof. exact load_some_iff. Qed.

(* the documented layouts as closed forms over the bytes *)
Theorem C11_layout_msb0 : forall t buf i,
  sub_byte t -> bytes_ok buf -> 0 <= i < pixels_total t (buf_len buf) ->
  load t false buf i =
  Some ((byte_at buf (i / ppb t) / 2 ^ (8 - (i mod ppb t + 1) * bits t)) mod 2 ^ bits t).
Proof. exact layout_msb0. Qed.

Theorem C11_layout_lsb0 : forall t buf i,
  sub_byte t -> bytes_ok buf -> 0 <= i < pixels_total t (buf_len buf) ->
  load t true buf i =
  Some ((byte_at buf (i / ppb t) / 2 ^ ((i mod ppb t) * bits t)) mod 2 ^ bits t).
Proof. exact layout_lsb0. Qed.

Theorem C11_layout_le : forall t buf i,
  whole_bytes t -> bytes_ok buf -> len_ok buf -> 0 <= i < pixels_total t (buf_len buf) ->
  load t false buf i = Some (le_value buf (i * nbytes t) (nbytes t)).
Proof. exact layout_le. Qed.

Theorem C11_layout_be : forall t buf i,
  whole_bytes t -> bytes_ok buf -> len_ok buf -> 0 <= i < pixels_total t (buf_len buf) ->
  load t true buf i = Some (be_value buf (i * nbytes t) (nbytes t)).
Proof. exact layout_be. Qed.

(* what store writes, as closed forms: the field [lo, lo + bits) of the pixel's byte is replaced by v (sub-byte);
   byte k of the pixel is the k-th least significant byte of v (little endian) / the k-th most significant (big endian) *)
Theorem C11_store_writes_sub : forall t (alt : order) v buf i,
  sub_byte t -> bytes_ok buf -> raw_ok t v -> 0 <= i < pixels_total t (buf_len buf) ->
  let lo := if alt then (i mod ppb t) * bits t else 8 - (i mod ppb t + 1) * bits t in
  let b := byte_at buf (i / ppb t) in
  byte_at (fst (store t alt v buf i)) (i / ppb t) = b - ((b / 2 ^ lo) mod 2 ^ bits t) * 2 ^ lo + v * 2 ^ lo.
Proof. exact store_writes_sub. Qed.

Theorem C11_store_writes_whole : forall t (alt : order) v buf i k,
  whole_bytes t -> bytes_ok buf -> len_ok buf -> raw_ok t v -> 0 <= i < pixels_total t (buf_len buf) ->
  0 <= k < nbytes t ->
  byte_at (fst (store t alt v buf i)) (i * nbytes t + k) =
  (v / 256 ^ (if alt then nbytes t - 1 - k else k)) mod 256.
Proof. exact store_writes_whole. Qed.

(* the iterator driven to its first None yields load(index), load(index+1), ... up to the pixel count;
   the fuel of the model's iter_list never runs out *)
Theorem C11_iter_is_loads : forall t alt s,
  it_ok s ->
  exists l, iter_list t alt s = Some l /\
            map Some l = map (load t alt (it_data s)) (range (it_index s) (it_total t s)) /\
            Z.of_nat (length l) = Z.max 0 (it_total t s - it_index s).
Proof. exact iter_is_loads. Qed.

Theorem C11_slice_iter_is_loads : forall t alt buf,
  len_ok buf ->
  exists l, iter_list t alt (iter_new buf) = Some l /\
            map Some l = map (load t alt buf) (range 0 (pixels_total t (buf_len buf))).
Proof. exact slice_iter_is_loads. Qed.

(* nth(n) returns item n of what remains (None beyond the end, also when index + n saturates) and
   continues behind it *)
Theorem C11_nth_skips : forall t alt s n l,
  it_ok s -> 0 <= n -> iter_list t alt s = Some l ->
  fst (iter_nth t alt s n) = nth_error l (Z.to_nat n) /\
  it_ok (snd (iter_nth t alt s n)) /\ it_data (snd (iter_nth t alt s n)) = it_data s /\
  iter_list t alt (snd (iter_nth t alt s n)) = Some (skipn (Datatypes.S (Z.to_nat n)) l) /\
  (it_index s + n < it_total t s -> it_index (snd (iter_nth t alt s n)) = it_index s + n + 1).
Proof. exact nth_skips. Qed.

Theorem C11_next_steps : forall t alt s l,
  it_ok s -> iter_list t alt s = Some l ->
  fst (iter_next t alt s) = hd_error l /\
  it_ok (snd (iter_next t alt s)) /\ it_data (snd (iter_next t alt s)) = it_data s /\
  iter_list t alt (snd (iter_next t alt s)) = Some (tl l).
Proof. exact next_steps. Qed.

(* size_hint brackets (in fact equals) the number of remaining items *)
Theorem C11_size_hint_brackets : forall t alt s l,
  it_ok s -> iter_list t alt s = Some l ->
  fst (size_hint t s) <= Z.of_nat (length l) /\
  match snd (size_hint t s) with Some hi => Z.of_nat (length l) <= hi | None => True end.
Proof. exact size_hint_brackets. Qed.

Theorem C11_size_hint_exact : forall t alt s l,
  it_ok s -> iter_list t alt s = Some l ->
  size_hint t s = (Z.of_nat (length l), Some (Z.of_nat (length l))).
Proof. exact size_hint_exact. Qed.

(* any mix of next()/nth(k) behaves like the same calls on the plain item list, size_hint included *)
Theorem C11_any_mix_of_next_and_nth : forall t alt ops s l,
  it_ok s -> iter_list t alt s = Some l -> Forall op_ok ops -> iter_run t alt s ops = list_run l ops.
Proof. exact iter_run_spec. Qed.

End AnyUsize.

(* bridge: the raw load of the ImageRaw model of property C09 (Model/Imageraw.v, indexed by the bit depth, 64-bit usize)
   is this load at the usize64 instance, so the layout theorems above describe what ImageRaw::pixel and image drawing decode *)
Theorem C11_raw_load_eq_load : forall t alt buf i,
  bytes_ok buf -> @len_ok usize64 buf -> 0 <= i -> Imageraw.raw_load (bits t) alt buf i = @load usize64 t alt buf i.
Proof. exact Imagebridge.raw_load_eq_load. Qed.

(* non-vacuity: the hypotheses are satisfiable and the functions compute the documented values *)
Section Witness.
Local Existing Instance usize64.
Example C11_witness :
  bytes_ok [18; 52; 86] /\ len_ok [18; 52; 86] /\ raw_ok U16 4660 /\
  load U16 true [18; 52; 86] 0 = Some 4660 /\ load U16 false [18; 52; 86] 0 = Some 13330 /\
  load U16 true [18; 52; 86] 1 = None /\
  store U24 true 11259375 [0; 0; 0; 7] 0 = ([171; 205; 239; 7], true) /\
  store U2 false 3 [0; 0] 5 = ([0; 48], true) /\ store U2 true 3 [0; 0] 5 = ([0; 12], true) /\
  store U2 false 3 [0; 0] 4 = ([0; 192], true) /\ store U2 true 3 [0; 0] 4 = ([0; 3], true) /\
  load U32 false [1; 2; 3; 4] 4611686018427387904 = None /\
  iter_list U4 false (iter_new [18; 52]) = Some [1; 2; 3; 4] /\
  iter_list U4 true (iter_new [18; 52]) = Some [2; 1; 4; 3] /\
  iter_run U8 false (iter_new [5; 6; 7; 8]) [OpNth 1; OpNext; OpNth 18446744073709551615; OpNext]
    = [(Some 6, (2, Some 2)); (Some 7, (1, Some 1)); (None, (0, Some 0)); (None, (0, Some 0))].
Proof.
  split; [unfold bytes_ok; repeat (apply Forall_cons; [lia|]); apply Forall_nil|].
  split; [vm_compute; congruence|]. split; [vm_compute; split; congruence|].
  repeat split; vm_compute; reflexivity.
Qed.
End Witness.

(* the narrower targets: the same model with a 16-bit / 32-bit usize rejects byte offsets beyond ITS usize::MAX *)
Example C11_witness_16_32 :
  @load usize16 U32 false [1; 2; 3; 4] 16384 = None /\ @load usize16 U32 false [1; 2; 3; 4] 0 = Some 67305985 /\
  @load usize32 U16 false [1; 2] 2147483648 = None /\
  fst (@iter_nth usize16 U8 false (iter_new [5; 6; 7]) 65535) = None /\
  @iter_run usize16 U8 false (iter_new [5; 6; 7]) [OpNth 1; OpNth 65535; OpNext] = [(Some 6, (1, Some 1)); (None, (0, Some 0)); (None, (0, Some 0))].
Proof. repeat split; vm_compute; reflexivity. Qed.
