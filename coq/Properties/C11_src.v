(* C11, translator tie: `bit_position` of core/src/pixelcolor/raw/load_store.rs, regenerated from the source on
   every run (coq/Gen/SrcRaw.v; `R::BITS_PER_PIXEL` and `O::IS_ALTERNATE_ORDER` are its first two parameters),
   equals Rawdata.bit_position, for every raw type and both data orders.  Statement only. *)
From EG Require Import Base.Prelude Base.Casts Model.Rawdata Gen.SrcRaw Proofs.SrcColor.

Theorem C11_src_bit_position_is_model : forall t alt index,
  src_bit_position (bits t) alt index = bit_position t alt index.
Proof. exact src_bit_position_rawdata_eq. Qed.

Example C11_src_nonvacuous : src_bit_position 2 false 5 = (1, 4) /\ src_bit_position 2 true 5 = (1, 2).
Proof. split; vm_compute; reflexivity. Qed.
