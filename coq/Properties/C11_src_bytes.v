(* C11, translator tie (raw types and byte-wise load / store): the seven instances of `impl_raw_data!`
   (core/src/pixelcolor/raw/mod.rs: MASK, BITS_PER_PIXEL, new of RawU1 .. RawU32; the translator checks that the configured
   instances are exactly the invocations in the source) and the `LoadStore` impls of RawU8 / RawU16 / RawU24 / RawU32
   (core/src/pixelcolor/raw/load_store.rs), regenerated from the source on every run by translate/r2c
   (coq/Gen/SrcRawData.v, coq/Gen/SrcLoadStoreBytes.v), equal Rawdata.mask / bits / raw_new and Rawdata.load_u8 /
   store_u8 / load_bytes / store_bytes for every width U of usize the model covers (16 / 32 / 64 bit; the generated definitions
   take it as the implicit Casts.UsizeW, identified with the model's Usize by Proofs/SrcUsize.v), for every non-negative index.
   Slices are lists; `[u8; N]` is the N-tuple; `index.checked_mul(N)` is Casts.checked_usize; the sub-slice chains
   `get(start..)`, `get(0..N)`, `get_mut(..)` + `copy_from_slice` are bounds-checked windows (None / Err out of range).
   res_ok reads the generated `Result<(), OutOfBoundsError>` (a sum) as the model's bool.  Statements only. *)
From EG Require Import Base.Prelude Base.Casts Model.Rawdata Gen.SrcRaw Gen.SrcRawData Gen.SrcLoadStore Gen.SrcLoadStoreBytes Proofs.SrcLoadStore Proofs.SrcLoadStoreBytes.

Theorem C11_src_raw_mask_is_model :
  src_RawU1_MASK = mask U1 /\ src_RawU2_MASK = mask U2 /\ src_RawU4_MASK = mask U4 /\ src_RawU8_MASK = mask U8 /\
  src_RawU16_MASK = mask U16 /\ src_RawU24_MASK = mask U24 /\ src_RawU32_MASK = mask U32.
Proof. exact src_raw_mask_eq. Qed.
Theorem C11_src_raw_bits_is_model :
  src_RawU1_BITS_PER_PIXEL = bits U1 /\ src_RawU2_BITS_PER_PIXEL = bits U2 /\ src_RawU4_BITS_PER_PIXEL = bits U4 /\
  src_RawU8_BITS_PER_PIXEL = bits U8 /\ src_RawU16_BITS_PER_PIXEL = bits U16 /\ src_RawU24_BITS_PER_PIXEL = bits U24 /\
  src_RawU32_BITS_PER_PIXEL = bits U32.
Proof. exact src_raw_bits_eq. Qed.
Theorem C11_src_raw_new_is_model : forall v,
  src_RawU1_new v = raw_new U1 v /\ src_RawU2_new v = raw_new U2 v /\ src_RawU4_new v = raw_new U4 v /\
  src_RawU8_new v = raw_new U8 v /\ src_RawU16_new v = raw_new U16 v /\ src_RawU24_new v = raw_new U24 v /\
  src_RawU32_new v = raw_new U32 v.
Proof. exact src_raw_new_eq. Qed.

Theorem C11_src_RawU8_load_is_model : forall buf index, 0 <= index -> src_RawU8_load_O buf index = load_u8 buf index.
Proof. exact src_RawU8_load_eq. Qed.
Theorem C11_src_RawU8_store_is_model : forall v buf index, 0 <= index ->
  (fst (src_RawU8_store_O v buf index), res_ok (snd (src_RawU8_store_O v buf index))) = store_u8 v buf index.
Proof. exact src_RawU8_store_eq. Qed.
Theorem C11_src_RawU16_load_is_model : forall (U : Usize) alt buf index, 0 <= index ->
  src_RawU16_load_O alt buf index = load_bytes U16 alt buf index.
Proof. exact @src_RawU16_load_eq. Qed.
Theorem C11_src_RawU16_store_is_model : forall (U : Usize) alt v buf index, 0 <= index ->
  (fst (src_RawU16_store_O alt v buf index), res_ok (snd (src_RawU16_store_O alt v buf index))) = store_bytes U16 alt v buf index.
Proof. exact @src_RawU16_store_eq. Qed.
Theorem C11_src_RawU24_load_is_model : forall (U : Usize) alt buf index, 0 <= index ->
  src_RawU24_load_O alt buf index = load_bytes U24 alt buf index.
Proof. exact @src_RawU24_load_eq. Qed.
Theorem C11_src_RawU24_store_is_model : forall (U : Usize) alt v buf index, 0 <= index ->
  (fst (src_RawU24_store_O alt v buf index), res_ok (snd (src_RawU24_store_O alt v buf index))) = store_bytes U24 alt v buf index.
Proof. exact @src_RawU24_store_eq. Qed.
Theorem C11_src_RawU32_load_is_model : forall (U : Usize) alt buf index, 0 <= index ->
  src_RawU32_load_O alt buf index = load_bytes U32 alt buf index.
Proof. exact @src_RawU32_load_eq. Qed.
Theorem C11_src_RawU32_store_is_model : forall (U : Usize) alt v buf index, 0 <= index ->
  (fst (src_RawU32_store_O alt v buf index), res_ok (snd (src_RawU32_store_O alt v buf index))) = store_bytes U32 alt v buf index.
Proof. exact @src_RawU32_store_eq. Qed.

Example C11_src_bytes_nonvacuous :
  src_RawU16_load_O (U__ := usize_w_of (U := usize64)) true [1; 2; 3; 4] 1 = Some 772 /\
  src_RawU24_load_O (U__ := usize_w_of (U := usize64)) false [1; 2; 3; 4; 5; 6] 1 = Some 394500 /\
  fst (src_RawU32_store_O (U__ := usize_w_of (U := usize64)) false 16909060 [9; 9; 9; 9; 9] 0) = [4; 3; 2; 1; 9] /\
  res_ok (snd (src_RawU16_store_O (U__ := usize_w_of (U := usize64)) true 7 [0; 0; 0] 1)) = false /\
  src_RawU32_load_O (U__ := usize_w_of (U := usize64)) false [1; 2; 3; 4] 4611686018427387904 = None /\
  src_RawU32_load_O (U__ := usize_w_of (U := usize16)) false [1; 2; 3; 4] 16384 = None /\
  load_bytes (U := usize16) U32 false [1; 2; 3; 4] 16384 = None.
Proof. repeat split; vm_compute; reflexivity. Qed.
