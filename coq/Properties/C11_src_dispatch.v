(* C11, translator tie (the rest of `impl_raw_data!` and the `RawData::load / store` dispatch; audit3 E1, E4, E5): regenerated from
   the source on every run by translate/r2c (coq/Gen/SrcRawData.v, SrcLoadStoreBitsInst.v, SrcRawDispatch.v).
   - `From<storage>::from`, `from_u32`, `new_unmasked`, `into_inner` of RawU1 .. RawU32 equal Rawdata.raw_new / the identity;
   - the sub-byte `LoadStore` impls, once per invocation of `impl_load_store_bits!` (they call the real `From<u8>`, into_inner,
     MASK and BITS_PER_PIXEL of the raw type, which the template of C11_src_loadstore abstracts), equal Rawdata.load_bits /
     store_bits at U1 / U2 / U4;
   - `RawData::load::<O>` / `store::<O>` (`load_store::LoadStore::<O>::load(buffer, index)`, resolved by the translator to the
     LoadStore impl of the same type through the trait's type argument) equal Rawdata.load / store at the raw type, for every
     width U of usize, for every non-negative index (store of a sub-byte type: for a masked value).
   pair_ok reads the generated (buffer, Result<(), OutOfBoundsError>) as the model's (buffer, bool).  Statements only
   (proofs: Proofs/SrcRawDispatch.v). *)
From EG Require Import Base.Prelude Base.Casts Model.Rawdata Gen.SrcRaw Gen.SrcRawData Gen.SrcLoadStore Gen.SrcLoadStoreBitsInst Gen.SrcLoadStoreBytes Gen.SrcRawDispatch.
From EG Require Import Proofs.SrcUsize Proofs.SrcLoadStore Proofs.SrcRawDispatch.

Theorem C11_src_raw_from_is_model : forall v,
  src_RawU1_from v = raw_new U1 v /\ src_RawU2_from v = raw_new U2 v /\ src_RawU4_from v = raw_new U4 v /\
  src_RawU8_from v = raw_new U8 v /\ src_RawU16_from v = raw_new U16 v /\ src_RawU24_from v = raw_new U24 v /\
  src_RawU32_from v = raw_new U32 v.
Proof. exact src_raw_from_eq. Qed.

Theorem C11_src_raw_from_u32_is_model : forall v, 0 <= v <= 4294967295 ->
  src_RawU1_from_u32 v = raw_new U1 v /\ src_RawU2_from_u32 v = raw_new U2 v /\ src_RawU4_from_u32 v = raw_new U4 v /\
  src_RawU8_from_u32 v = raw_new U8 v /\ src_RawU16_from_u32 v = raw_new U16 v /\ src_RawU24_from_u32 v = raw_new U24 v /\
  src_RawU32_from_u32 v = raw_new U32 v.
Proof. exact src_raw_from_u32_eq. Qed.

Theorem C11_src_raw_new_unmasked_into_inner : forall v,
  src_RawU1_new_unmasked v = v /\ src_RawU2_new_unmasked v = v /\ src_RawU4_new_unmasked v = v /\ src_RawU8_new_unmasked v = v /\
  src_RawU16_new_unmasked v = v /\ src_RawU24_new_unmasked v = v /\ src_RawU32_new_unmasked v = v /\
  src_RawU1_into_inner v = v /\ src_RawU2_into_inner v = v /\ src_RawU4_into_inner v = v /\ src_RawU8_into_inner v = v /\
  src_RawU16_into_inner v = v /\ src_RawU24_into_inner v = v /\ src_RawU32_into_inner v = v.
Proof. exact src_raw_unmasked_inner_eq. Qed.

Theorem C11_src_RawU1_load_is_model : forall alt buf index, 0 <= index -> src_RawU1_load_O alt buf index = load_bits U1 alt buf index.
Proof. exact src_RawU1_load_eq. Qed.
Theorem C11_src_RawU2_load_is_model : forall alt buf index, 0 <= index -> src_RawU2_load_O alt buf index = load_bits U2 alt buf index.
Proof. exact src_RawU2_load_eq. Qed.
Theorem C11_src_RawU4_load_is_model : forall alt buf index, 0 <= index -> src_RawU4_load_O alt buf index = load_bits U4 alt buf index.
Proof. exact src_RawU4_load_eq. Qed.
Theorem C11_src_RawU1_store_is_model : forall alt v buf index, 0 <= index -> 0 <= v <= mask U1 ->
  (fst (src_RawU1_store_O alt v buf index), res_ok (snd (src_RawU1_store_O alt v buf index))) = store_bits U1 alt v buf index.
Proof. exact src_RawU1_store_eq. Qed.
Theorem C11_src_RawU2_store_is_model : forall alt v buf index, 0 <= index -> 0 <= v <= mask U2 ->
  (fst (src_RawU2_store_O alt v buf index), res_ok (snd (src_RawU2_store_O alt v buf index))) = store_bits U2 alt v buf index.
Proof. exact src_RawU2_store_eq. Qed.
Theorem C11_src_RawU4_store_is_model : forall alt v buf index, 0 <= index -> 0 <= v <= mask U4 ->
  (fst (src_RawU4_store_O alt v buf index), res_ok (snd (src_RawU4_store_O alt v buf index))) = store_bits U4 alt v buf index.
Proof. exact src_RawU4_store_eq. Qed.

Theorem C11_src_RawData_load_is_model : forall (U : Usize) alt buf index, 0 <= index ->
  src_RawU1_RawData_load alt buf index = load U1 alt buf index /\
  src_RawU2_RawData_load alt buf index = load U2 alt buf index /\
  src_RawU4_RawData_load alt buf index = load U4 alt buf index /\
  src_RawU8_RawData_load buf index = load U8 alt buf index /\
  src_RawU16_RawData_load alt buf index = load U16 alt buf index /\
  src_RawU24_RawData_load alt buf index = load U24 alt buf index /\
  src_RawU32_RawData_load alt buf index = load U32 alt buf index.
Proof. exact @src_raw_dispatch_load_eq. Qed.

Theorem C11_src_RawData_store_sub_byte_is_model : forall (U : Usize) alt v buf index, 0 <= index ->
  (0 <= v <= mask U1 -> pair_ok (src_RawU1_RawData_store alt v buf index) = store U1 alt v buf index) /\
  (0 <= v <= mask U2 -> pair_ok (src_RawU2_RawData_store alt v buf index) = store U2 alt v buf index) /\
  (0 <= v <= mask U4 -> pair_ok (src_RawU4_RawData_store alt v buf index) = store U4 alt v buf index).
Proof. exact @src_raw_dispatch_store_sub. Qed.

Theorem C11_src_RawData_store_bytes_is_model : forall (U : Usize) alt v buf index, 0 <= index ->
  pair_ok (src_RawU8_RawData_store v buf index) = store U8 alt v buf index /\
  pair_ok (src_RawU16_RawData_store alt v buf index) = store U16 alt v buf index /\
  pair_ok (src_RawU24_RawData_store alt v buf index) = store U24 alt v buf index /\
  pair_ok (src_RawU32_RawData_store alt v buf index) = store U32 alt v buf index.
Proof. exact @src_raw_dispatch_store_bytes. Qed.

Example C11_src_dispatch_nonvacuous :
  src_RawU2_RawData_load false [228] 1 = Some 2 /\ src_RawU1_RawData_load true [5] 2 = Some 1 /\ src_RawU4_RawData_load false [171] 8 = None /\
  src_RawU16_RawData_load (U__ := usize_w_of (U := usize32)) true [1; 2; 3; 4] 1 = Some 772 /\ pair_ok (src_RawU4_RawData_store false 9 [0; 0] 3) = ([0; 9], true) /\
  pair_ok (src_RawU8_RawData_store 7 [0] 1) = ([0], false) /\ src_RawU2_from 255 = 3 /\ src_RawU24_from_u32 4294967295 = 16777215.
Proof. repeat split; vm_compute; reflexivity. Qed.
