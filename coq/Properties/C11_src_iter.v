(* C11, translator tie (raw data iterator): RawDataIterator::new / next / nth / size_hint (src/iterator/raw.rs), regenerated from
   the source on every run by translate/r2c (coq/Gen/SrcRawIter.v).  `R::load::<O>` - a trait call dispatched on the generic
   raw type and data order - is a FUNCTION PARAMETER of the generated next / nth; instantiated with the model's dispatch
   `Rawdata.load t alt` (each branch of which is tied to its LoadStore impl by C11_src_load_bits_is_model and
   C11_src_RawU8 / 16 / 24 / 32_load_is_model) they equal Rawdata.iter_next / iter_nth (state and result swapped: the
   generated definitions return (new self, result)); size_hint with `R::BITS_PER_PIXEL` := bits t equals Rawdata.size_hint
   when 8 * len fits usize (len_ok); nth / size_hint (saturating_add / saturating_sub on usize) for every width U of usize.  Statements only (proofs: Proofs/SrcRawIter.v). *)
From EG Require Import Base.Prelude Base.Casts Model.Rawdata Gen.SrcRawIter Proofs.SrcRawIter.

Theorem C11_src_rawiter_new_is_model : forall data, src_RawDataIterator_new data = iter_new data.
Proof. exact src_rawiter_new_eq. Qed.
Theorem C11_src_rawiter_next_is_model : forall (U : Usize) t alt s,
  src_RawDataIterator_next (load t alt) s = (snd (iter_next t alt s), fst (iter_next t alt s)).
Proof. exact @src_rawiter_next_eq. Qed.
Theorem C11_src_rawiter_nth_is_model : forall (U : Usize) t alt s n, 0 <= it_index s -> 0 <= n ->
  src_RawDataIterator_nth (load t alt) s n = (snd (iter_nth t alt s n), fst (iter_nth t alt s n)).
Proof. exact @src_rawiter_nth_eq. Qed.
Theorem C11_src_rawiter_size_hint_is_model : forall (U : Usize) t s,
  0 <= it_index s -> Z.of_nat (length (it_data s)) * 8 <= usize_max ->
  src_RawDataIterator_size_hint (bits t) s = size_hint t s.
Proof. exact @src_rawiter_size_hint_eq. Qed.

Example C11_src_rawiter_nonvacuous :
  src_RawDataIterator_next (load (U := usize64) U16 true) (It [1; 2; 3; 4] 1) = (It [1; 2; 3; 4] 2, Some 772) /\
  snd (src_RawDataIterator_nth (U__ := usize_w_of (U := usize64)) (load (U := usize64) U4 false) (It [18; 52] 0) 2) = Some 3 /\
  src_RawDataIterator_size_hint (U__ := usize_w_of (U := usize64)) 4 (It [1; 2; 3] 1) = (5, Some 5) /\
  fst (src_RawDataIterator_nth (U__ := usize_w_of (U := usize16)) (load (U := usize16) U8 false) (It [1] 65530) 10) = It [1] 65535.
Proof. repeat split; vm_compute; reflexivity. Qed.
