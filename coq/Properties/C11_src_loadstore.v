(* C11, translator tie (sub-byte load / store): the body of `impl_load_store_bits!` (core/src/pixelcolor/raw/load_store.rs)
   translated as a template over the abstract raw type (slices are lists; `get` / the `get_mut(i).ok_or(e).map(|b| *b = v)`
   idiom are bounds-checked list access / update), regenerated from the source on every run by translate/r2c
   (coq/Gen/SrcLoadStore.v), equals Rawdata.load_bits / store_bits for the sub-byte raw types.
   res_ok reads the generated `Result<(), OutOfBoundsError>` (a sum) as the model's bool.  Statements only. *)
From EG Require Import Base.Prelude Base.Casts Model.Rawdata Gen.SrcRaw Gen.SrcLoadStore Proofs.SrcLoadStore.

Theorem C11_src_load_bits_is_model : forall t alt buf index,
  0 <= index -> 0 < bits t <= 8 -> src_load_bits t alt buf index = load_bits t alt buf index.
Proof. exact src_load_bits_eq. Qed.
Theorem C11_src_store_bits_is_model : forall t alt v buf index,
  0 <= index -> 0 < bits t < 8 -> 0 <= v <= mask t ->
  (fst (src_store_bits t alt v buf index), res_ok (snd (src_store_bits t alt v buf index))) = store_bits t alt v buf index.
Proof. exact src_store_bits_eq. Qed.

Example C11_src_loadstore_nonvacuous :
  src_load_bits U2 false [228] 1 = Some 2 /\ fst (src_store_bits U4 false 9 [0; 0] 3) = [0; 9].
Proof. split; vm_compute; reflexivity. Qed.
