(* C12 - Colours survive the trip through their raw representation.
   Statements only; every proof is `exact <lemma>` from Proofs/Colormodel.v.

   `color_table` is the GENERATED list of the built-in colour types (Gen/ColorTable.v, regenerated from
   core/src/pixelcolor/*.rs on every run); a colour value is the integer its Rust struct stores
   (Model/Colormodel.v), `valid t c` = 0 <= c < 2^(used bits of t) - every constructor produces a valid
   value (C12_from_raw_valid, C12_new_channels, C12_gray_new).  `raw_new t v` is RawUx::new(v) for an
   ARBITRARY storage value v (unused high bits may be set); from_raw / to_raw are From<Raw> / Into<Raw>. *)
From EG Require Import Base.Prelude Gen.ColorConsts Gen.ColorTable Model.Colormodel Proofs.Colormodel.

(* colour -> raw -> colour is the identity *)
Theorem C12_raw_roundtrip : forall t, In t color_table -> forall c, valid t c -> from_raw t (to_raw t c) = c.
Proof. exact c12_raw_roundtrip. Qed.

(* the raw value fits BITS_PER_PIXEL bits (and is the stored integer itself) *)
Theorem C12_raw_fits : forall t, In t color_table -> forall c, valid t c ->
  0 <= to_raw t c < 2 ^ bpp t /\ to_raw t c = c.
Proof. exact c12_raw_fits. Qed.

(* every storage value, unused bits included, becomes a valid colour *)
Theorem C12_from_raw_valid : forall t, In t color_table -> forall v, valid t (from_raw t (raw_new t v)).
Proof. exact c12_from_raw_valid. Qed.

(* Default (the all-zero value) is a colour of every type, namely BLACK / Off *)
Theorem C12_default_valid : forall t, In t color_table -> valid t 0 /\ color_black t = 0.
Proof. exact c12_default_valid. Qed.

(* raw -> colour -> raw only clears the unused bits, and doing it twice changes nothing more *)
Theorem C12_raw_idem : forall t, In t color_table -> forall v,
  let d := to_raw t (from_raw t (raw_new t v)) in
  d = Z.land v (Z.ones (used_bits t)) /\ to_raw t (from_raw t (raw_new t d)) = d /\
  0 <= used_bits t <= bpp t /\ bpp t <= sbits t.
Proof. exact c12_raw_idem. Qed.

(* new(r, g, b) keeps each channel modulo its width, r()/g()/b() return it (arguments of any size) *)
Theorem C12_new_channels : forall t, In t color_table -> is_rgb t = true -> forall r g b,
  get_r t (rgb_new t r g b) = r mod 2 ^ rbits t /\
  get_g t (rgb_new t r g b) = g mod 2 ^ gbits t /\
  get_b t (rgb_new t r g b) = b mod 2 ^ bbits t /\
  valid t (rgb_new t r g b).
Proof. exact c12_new_channels. Qed.

(* ... and a colour is determined by its channels, which stay within MAX_R/G/B *)
Theorem C12_new_of_channels : forall t, In t color_table -> is_rgb t = true -> forall c, valid t c ->
  rgb_new t (get_r t c) (get_g t c) (get_b t c) = c /\
  0 <= get_r t c <= max_r t /\ 0 <= get_g t c <= max_g t /\ 0 <= get_b t c <= max_b t.
Proof. exact c12_new_of_channels. Qed.

(* Gray2/4/8: new(luma) keeps luma modulo 2^bits, luma() returns it *)
Theorem C12_gray_new : forall t, In t color_table -> is_gray t = true -> forall l,
  luma_of t (gray_new t l) = l mod 2 ^ bpp t /\ valid t (gray_new t l) /\ max_luma t = 2 ^ bpp t - 1.
Proof. exact c12_gray_new. Qed.

(* documented layout: RGB types carry red in the most significant used bits, then green, blue lowest *)
Theorem C12_layout_rgb : forall t, In t color_table -> is_rgb_order t ORgb = true ->
  let rb := rbits t in let gb := gbits t in let bb := bbits t in
  (forall r g b, to_raw t (rgb_new t r g b) = (r mod 2 ^ rb) * 2 ^ (gb + bb) + (g mod 2 ^ gb) * 2 ^ bb + b mod 2 ^ bb) /\
  (forall c, get_r t c = (c / 2 ^ (gb + bb)) mod 2 ^ rb /\ get_g t c = (c / 2 ^ bb) mod 2 ^ gb /\ get_b t c = c mod 2 ^ bb) /\
  rpos t + rb = used_bits t /\ gpos t + gb = rpos t /\ bpos t + bb = gpos t /\ bpos t = 0.
Proof. exact c12_layout_rgb. Qed.

(* BGR types: blue in the most significant used bits, red lowest *)
Theorem C12_layout_bgr : forall t, In t color_table -> is_rgb_order t OBgr = true ->
  let rb := rbits t in let gb := gbits t in let bb := bbits t in
  (forall r g b, to_raw t (rgb_new t r g b) = (b mod 2 ^ bb) * 2 ^ (rb + gb) + (g mod 2 ^ gb) * 2 ^ rb + r mod 2 ^ rb) /\
  (forall c, get_b t c = (c / 2 ^ (rb + gb)) mod 2 ^ bb /\ get_g t c = (c / 2 ^ rb) mod 2 ^ gb /\ get_r t c = c mod 2 ^ rb) /\
  bpos t + bb = used_bits t /\ gpos t + gb = bpos t /\ rpos t + rb = gpos t /\ rpos t = 0.
Proof. exact c12_layout_bgr. Qed.

(* into_storage, to_be_bytes, to_le_bytes describe the same number; the byte count is BITS_PER_PIXEL rounded up; the
   lists consist of bytes (byte x := 0 <= x < 256) - so the big-endian list IS the base-256 expansion of
   into_storage, most significant byte first - and the little-endian list is its reverse *)
Theorem C12_bytes_agree : forall t, In t color_table -> forall c, valid t c ->
  be_value (to_be_bytes t c) = into_storage t c /\
  le_value (to_le_bytes t c) = into_storage t c /\
  into_storage t c = to_raw t c /\
  Z.of_nat (length (to_be_bytes t c)) = raw_nbytes (c_raw t) /\
  Z.of_nat (length (to_le_bytes t c)) = raw_nbytes (c_raw t) /\
  8 * (raw_nbytes (c_raw t) - 1) < bpp t <= 8 * raw_nbytes (c_raw t) /\
  Forall byte (to_be_bytes t c) /\ to_le_bytes t c = rev (to_be_bytes t c).
Proof. exact c12_bytes_agree. Qed.

(* BinaryColor: Off <-> 0, On <-> 1, every non-zero raw value reads as On *)
Theorem C12_binary : forall t, In t color_table -> c_kind t = KBinary ->
  to_raw t bin_off = 0 /\ to_raw t bin_on = 1 /\ from_raw t 0 = bin_off /\
  (forall d, d <> 0 -> from_raw t d = bin_on) /\ bpp t = 1.
Proof. exact c12_binary. Qed.

(* the format is the documented one, i.e. the one the type's name states: "Rgb565" = 5/6/5 bits red first,
   "Bgr565" blue first, "Gray4" = 4 bits; RGB types occupy the smallest whole number of bytes *)
Theorem C12_names_document_layout : forall t, In t color_table ->
  c_name t = documented_name t /\ (is_rgb t = true -> bpp t = 8 * ((used_bits t + 7) / 8)).
Proof. exact c12_names_document_layout. Qed.

(* the eight named constants of RgbColor (BLACK RED GREEN BLUE YELLOW MAGENTA CYAN WHITE) have the channels their names say *)
Theorem C12_named_constants : forall t, In t color_table -> is_rgb t = true ->
  map (fun c => (get_r t c, get_g t c, get_b t c)) (named_colors t) =
  [(0, 0, 0); (max_r t, 0, 0); (0, max_g t, 0); (0, 0, max_b t);
   (max_r t, max_g t, 0); (max_r t, 0, max_b t); (0, max_g t, max_b t); (max_r t, max_g t, max_b t)] /\
  Forall (valid t) (named_colors t) /\
  nth 0 (named_colors t) 0 = color_black t /\ nth 7 (named_colors t) 0 = color_white t.
Proof. exact c12_named_constants. Qed.

(* the quantifier is not empty: 14 types, 1 binary, 3 gray, 6 RGB-ordered, 4 BGR-ordered, distinct names *)
Theorem C12_table_census :
  length color_table = 14%nat /\
  length (filter (fun t => match c_kind t with KBinary => true | _ => false end) color_table) = 1%nat /\
  length (filter is_gray color_table) = 3%nat /\
  length (filter (fun t => is_rgb_order t ORgb) color_table) = 6%nat /\
  length (filter (fun t => is_rgb_order t OBgr) color_table) = 4%nat /\
  NoDup (map c_id color_table) /\ NoDup (map c_name color_table).
Proof. exact c12_table_census. Qed.

(* non-vacuity: Rgb565 and Bgr565 are rows; new(255, 37, 200) masks and packs as documented; 24-bit bytes *)
Example C12_nonvacuous :
  In row_Rgb565 color_table /\ In row_Bgr565 color_table /\ In row_Bgr888 color_table /\
  to_raw row_Rgb565 (rgb_new row_Rgb565 255 37 200) = 31 * 2048 + 37 * 32 + 8 /\
  to_raw row_Bgr565 (rgb_new row_Bgr565 255 37 200) = 8 * 2048 + 37 * 32 + 31 /\
  to_be_bytes row_Bgr888 (rgb_new row_Bgr888 1 2 3) = [3; 2; 1] /\
  to_le_bytes row_Bgr888 (rgb_new row_Bgr888 1 2 3) = [1; 2; 3] /\
  from_raw row_Rgb666 (raw_new row_Rgb666 4294967295) = 262143.
Proof. vm_compute. intuition. Qed.
