(* C12, translator tie: the body of `impl_rgb_color!` (core/src/pixelcolor/rgb_color.rs) translated as a template, i.e. as
   functions of the macro parameters ($r_bits, $g_bits, $b_bits, $r_pos, $g_pos, $b_pos), once per storage type that the
   `rgb_color!` invocations pass ($storage_type = u8, u16, u32; the translator checks that every invocation is covered),
   regenerated from the source on every run by translate/r2c (coq/Gen/SrcRgbColor.v): MAX_R/G/B, RGB_MASK, new, r(), g(),
   b() equal the model functions of every table row t whose channel widths and positions are those parameters (row_is),
   whose widths are shift amounts of usize (bits_ok) and whose channel masks fit the storage type (fits: then the
   truncating `<<` of Rust drops no bit).  That the rows of Gen/ColorTable.v carry the arguments of the `rgb_color!`
   invocations is gen_colors.py's part of the tie.  Statements only (proofs: Proofs/SrcConv.v). *)
From EG Require Import Base.Prelude Base.Casts Gen.ColorConsts Gen.ColorTable Model.Colormodel Gen.SrcRgbColor Proofs.SrcConv.

Theorem C12_src_rgb8_max_is_model : forall bits, 0 <= bits < 64 ->
  src_rgb8_MAX_R bits = chan_max bits /\ src_rgb8_MAX_G bits = chan_max bits /\ src_rgb8_MAX_B bits = chan_max bits.
Proof. exact src_rgb8_MAX_eq. Qed.
Theorem C12_src_rgb8_new_is_model : forall t rb gb bb rp gp bp r g b,
  row_is t rb gb bb rp gp bp -> bits_ok t -> fits t 255 -> 0 <= r <= 255 -> 0 <= g <= 255 -> 0 <= b <= 255 ->
  src_rgb8_new rb gb bb rp gp bp r g b = rgb_new t r g b.
Proof. exact src_rgb8_new_eq. Qed.
Theorem C12_src_rgb8_r_is_model : forall t rb gb bb rp gp bp c,
  row_is t rb gb bb rp gp bp -> bits_ok t -> 0 <= rpos t -> 0 <= c <= 255 -> src_rgb8_r rb rp c = get_r t c.
Proof. exact src_rgb8_r_eq. Qed.
Theorem C12_src_rgb8_g_is_model : forall t rb gb bb rp gp bp c,
  row_is t rb gb bb rp gp bp -> bits_ok t -> 0 <= gpos t -> 0 <= c <= 255 -> src_rgb8_g gb gp c = get_g t c.
Proof. exact src_rgb8_g_eq. Qed.
Theorem C12_src_rgb8_b_is_model : forall t rb gb bb rp gp bp c,
  row_is t rb gb bb rp gp bp -> bits_ok t -> 0 <= bpos t -> 0 <= c <= 255 -> src_rgb8_b bb bp c = get_b t c.
Proof. exact src_rgb8_b_eq. Qed.
Theorem C12_src_rgb8_mask_is_model : forall t rb gb bb rp gp bp,
  row_is t rb gb bb rp gp bp -> bits_ok t -> fits t 255 -> src_rgb8_RGB_MASK rb gb bb rp gp bp = rgb_mask t.
Proof. exact src_rgb8_mask_eq. Qed.

Theorem C12_src_rgb16_max_is_model : forall bits, 0 <= bits < 64 ->
  src_rgb16_MAX_R bits = chan_max bits /\ src_rgb16_MAX_G bits = chan_max bits /\ src_rgb16_MAX_B bits = chan_max bits.
Proof. exact src_rgb16_MAX_eq. Qed.
Theorem C12_src_rgb16_new_is_model : forall t rb gb bb rp gp bp r g b,
  row_is t rb gb bb rp gp bp -> bits_ok t -> fits t 65535 -> 0 <= r <= 255 -> 0 <= g <= 255 -> 0 <= b <= 255 ->
  src_rgb16_new rb gb bb rp gp bp r g b = rgb_new t r g b.
Proof. exact src_rgb16_new_eq. Qed.
Theorem C12_src_rgb16_r_is_model : forall t rb gb bb rp gp bp c,
  row_is t rb gb bb rp gp bp -> bits_ok t -> 0 <= rpos t -> src_rgb16_r rb rp c = get_r t c.
Proof. exact src_rgb16_r_eq. Qed.
Theorem C12_src_rgb16_g_is_model : forall t rb gb bb rp gp bp c,
  row_is t rb gb bb rp gp bp -> bits_ok t -> 0 <= gpos t -> src_rgb16_g gb gp c = get_g t c.
Proof. exact src_rgb16_g_eq. Qed.
Theorem C12_src_rgb16_b_is_model : forall t rb gb bb rp gp bp c,
  row_is t rb gb bb rp gp bp -> bits_ok t -> 0 <= bpos t -> src_rgb16_b bb bp c = get_b t c.
Proof. exact src_rgb16_b_eq. Qed.
Theorem C12_src_rgb16_mask_is_model : forall t rb gb bb rp gp bp,
  row_is t rb gb bb rp gp bp -> bits_ok t -> fits t 65535 -> src_rgb16_RGB_MASK rb gb bb rp gp bp = rgb_mask t.
Proof. exact src_rgb16_mask_eq. Qed.

Theorem C12_src_rgb32_max_is_model : forall bits, 0 <= bits < 64 ->
  src_rgb32_MAX_R bits = chan_max bits /\ src_rgb32_MAX_G bits = chan_max bits /\ src_rgb32_MAX_B bits = chan_max bits.
Proof. exact src_rgb32_MAX_eq. Qed.
Theorem C12_src_rgb32_new_is_model : forall t rb gb bb rp gp bp r g b,
  row_is t rb gb bb rp gp bp -> bits_ok t -> fits t 4294967295 -> 0 <= r <= 255 -> 0 <= g <= 255 -> 0 <= b <= 255 ->
  src_rgb32_new rb gb bb rp gp bp r g b = rgb_new t r g b.
Proof. exact src_rgb32_new_eq. Qed.
Theorem C12_src_rgb32_r_is_model : forall t rb gb bb rp gp bp c,
  row_is t rb gb bb rp gp bp -> bits_ok t -> 0 <= rpos t -> src_rgb32_r rb rp c = get_r t c.
Proof. exact src_rgb32_r_eq. Qed.
Theorem C12_src_rgb32_g_is_model : forall t rb gb bb rp gp bp c,
  row_is t rb gb bb rp gp bp -> bits_ok t -> 0 <= gpos t -> src_rgb32_g gb gp c = get_g t c.
Proof. exact src_rgb32_g_eq. Qed.
Theorem C12_src_rgb32_b_is_model : forall t rb gb bb rp gp bp c,
  row_is t rb gb bb rp gp bp -> bits_ok t -> 0 <= bpos t -> src_rgb32_b bb bp c = get_b t c.
Proof. exact src_rgb32_b_eq. Qed.
Theorem C12_src_rgb32_mask_is_model : forall t rb gb bb rp gp bp,
  row_is t rb gb bb rp gp bp -> bits_ok t -> fits t 4294967295 -> src_rgb32_RGB_MASK rb gb bb rp gp bp = rgb_mask t.
Proof. exact src_rgb32_mask_eq. Qed.

(* round 5: the side conditions hold for every RGB row of the colour table at the maximum of the row's own storage type, and `new`
   of the template of that storage type is rgb_new of the row *)
Theorem C12_src_color_table_rows_ok : Forall rgb_row_ok color_table.
Proof. exact color_table_rows_ok. Qed.
Theorem C12_src_color_table_rgb_new : forall t o rb gb bb r g b, In t color_table -> c_kind t = KRgb o rb gb bb ->
  0 <= r <= 255 -> 0 <= g <= 255 -> 0 <= b <= 255 ->
  (raw_sbits (c_raw t) = 8 -> src_rgb8_new (rbits t) (gbits t) (bbits t) (rpos t) (gpos t) (bpos t) r g b = rgb_new t r g b) /\
  (raw_sbits (c_raw t) = 16 -> src_rgb16_new (rbits t) (gbits t) (bbits t) (rpos t) (gpos t) (bpos t) r g b = rgb_new t r g b) /\
  (raw_sbits (c_raw t) = 32 -> src_rgb32_new (rbits t) (gbits t) (bbits t) (rpos t) (gpos t) (bpos t) r g b = rgb_new t r g b).
Proof. exact color_table_rgb_new. Qed.

Example C12_src_nonvacuous :
  src_rgb16_new 5 6 5 11 5 0 255 128 7 = 63495 /\ src_rgb16_g 6 5 63495 = 0 /\ src_rgb16_r 5 11 63495 = 31 /\
  src_rgb8_new 3 3 2 5 2 0 255 0 255 = 227 /\ fits row_Rgb565 65535 /\ bits_ok row_Rgb565.
Proof. repeat split; vm_compute; try reflexivity; discriminate. Qed.
