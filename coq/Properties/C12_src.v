(* C12, translator tie: the body of `impl_rgb_color!` (core/src/pixelcolor/rgb_color.rs) translated as a template, i.e. as
   functions of the macro parameters ($r_bits, $g_bits, $b_bits, $r_pos, $g_pos, $b_pos; $storage_type instantiated with u32),
   regenerated from the source on every run by translate/r2c (coq/Gen/SrcRgbColor.v): MAX_R/G/B, RGB_MASK, new, r(), g(),
   b() equal the model functions of every table row t whose channel widths and positions are those parameters
   (row_is, Proofs/SrcConv.v).  That the rows of Gen/ColorTable.v carry the arguments of the `rgb_color!` invocations is
   gen_colors.py's part of the tie.  Statements only. *)
From EG Require Import Base.Prelude Base.Casts Gen.ColorConsts Gen.ColorTable Model.Colormodel Gen.SrcRgbColor Proofs.SrcConv.

Theorem C12_src_rgb_max_is_model : forall bits,
  src_rgb_MAX_R bits = chan_max bits /\ src_rgb_MAX_G bits = chan_max bits /\ src_rgb_MAX_B bits = chan_max bits.
Proof. exact src_rgb_MAX_eq. Qed.
Theorem C12_src_rgb_new_is_model : forall t rb gb bb rp gp bp r g b,
  row_is t rb gb bb rp gp bp -> 0 <= r <= 255 -> 0 <= g <= 255 -> 0 <= b <= 255 ->
  src_rgb_new rb gb bb rp gp bp r g b = rgb_new t r g b.
Proof. exact src_rgb_new_eq. Qed.
Theorem C12_src_rgb_r_is_model : forall t rb gb bb rp gp bp c, row_is t rb gb bb rp gp bp -> src_rgb_r rb rp c = get_r t c.
Proof. exact src_rgb_r_eq. Qed.
Theorem C12_src_rgb_g_is_model : forall t rb gb bb rp gp bp c, row_is t rb gb bb rp gp bp -> src_rgb_g gb gp c = get_g t c.
Proof. exact src_rgb_g_eq. Qed.
Theorem C12_src_rgb_b_is_model : forall t rb gb bb rp gp bp c, row_is t rb gb bb rp gp bp -> src_rgb_b bb bp c = get_b t c.
Proof. exact src_rgb_b_eq. Qed.
Theorem C12_src_rgb_mask_is_model : forall t rb gb bb rp gp bp,
  row_is t rb gb bb rp gp bp -> src_rgb_RGB_MASK rb gb bb rp gp bp = rgb_mask t.
Proof. exact src_rgb_mask_eq. Qed.

Example C12_src_nonvacuous :
  src_rgb_new 5 6 5 11 5 0 255 128 7 = 63495 /\ src_rgb_g 6 5 63495 = 0 /\ src_rgb_r 5 11 63495 = 31.
Proof. repeat split; vm_compute; reflexivity. Qed.
