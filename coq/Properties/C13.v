(* C13 - Colour conversions scale to the nearest value and preserve the extremes.
   Statements only; every proof is `exact <lemma>` from Proofs/Colormodel.v.

   `conv_pairs` is the GENERATED list of every `impl From<A> for B` of core/src/pixelcolor/conversion.rs
   (family = the macro that provides it), `color_table` the generated list of colour types, the constants of
   convert_channel / luma / the binary thresholds come from the generated Gen/ColorConsts.v.
   `convert f a b c` is B::from(c) for a colour c of type A (Model/Colormodel.v transcribes the macro bodies);
   `valid a c`: c is a value of type a.  luma_via a c = luma(Rgb888::from(c)) as a function of c's channels. *)
From EG Require Import Base.Prelude Gen.ColorConsts Gen.ColorTable Model.Colormodel Proofs.Colormodel.

(* one channel, all 64 (from bits, to bits) pairs in 1..8 and every value: the result is in range and is the
   representable value nearest to v * to_max / from_max (error at most half a step; never a tie, from_max is odd) *)
Theorem C13_channel_nearest : forall fb tb v, 1 <= fb <= 8 -> 1 <= tb <= 8 -> 0 <= v <= 2 ^ fb - 1 ->
  let fm := 2 ^ fb - 1 in let tm := 2 ^ tb - 1 in let r := convert_channel fm tm v in
  0 <= r <= tm /\ 2 * Z.abs (r * fm - v * tm) <= fm.
Proof. exact c13_channel_nearest. Qed.

(* monotone *)
Theorem C13_channel_mono : forall fb tb v1 v2, 1 <= fb <= 8 -> 1 <= tb <= 8 -> 0 <= v1 -> v1 <= v2 -> v2 <= 2 ^ fb - 1 ->
  convert_channel (2 ^ fb - 1) (2 ^ tb - 1) v1 <= convert_channel (2 ^ fb - 1) (2 ^ tb - 1) v2.
Proof. exact c13_channel_mono. Qed.

(* 0 -> 0, maximum -> maximum *)
Theorem C13_channel_ends : forall fb tb, 1 <= fb <= 8 -> 1 <= tb <= 8 ->
  convert_channel (2 ^ fb - 1) (2 ^ tb - 1) 0 = 0 /\ convert_channel (2 ^ fb - 1) (2 ^ tb - 1) (2 ^ fb - 1) = 2 ^ tb - 1.
Proof. exact c13_channel_ends. Qed.

(* to at least as many bits and back: identity *)
Theorem C13_widen_narrow_id : forall fb tb v, 1 <= fb <= 8 -> 1 <= tb <= 8 -> fb <= tb -> 0 <= v <= 2 ^ fb - 1 ->
  convert_channel (2 ^ tb - 1) (2 ^ fb - 1) (convert_channel (2 ^ fb - 1) (2 ^ tb - 1) v) = v.
Proof. exact c13_widen_narrow_id. Qed.

(* no intermediate of convert_channel leaves u32 (the model is unbounded Z; this closes the gap) *)
Theorem C13_channel_no_overflow : forall fb tb v, 1 <= fb <= 8 -> 1 <= tb <= 8 -> 0 <= v <= 2 ^ fb - 1 ->
  v * (Z.shiftl (2 ^ tb - 1) cc_shift / (2 ^ fb - 1)) + Z.shiftl cc_half_base (cc_shift - cc_half_sub) < 2 ^ 32.
Proof. exact c13_channel_no_overflow. Qed.

(* the channels of every built-in type are instances of the channel theorems: maxima are 2^bits - 1, 1 <= bits <= 8 *)
Theorem C13_table_widths : forall t, In t color_table ->
  (is_rgb t = true -> (1 <= rbits t <= 8 /\ max_r t = 2 ^ rbits t - 1) /\ (1 <= gbits t <= 8 /\ max_g t = 2 ^ gbits t - 1) /\
                      (1 <= bbits t <= 8 /\ max_b t = 2 ^ bbits t - 1)) /\
  (is_gray t = true -> 1 <= bpp t <= 8 /\ max_luma t = 2 ^ bpp t - 1).
Proof. exact c13_table_widths. Qed.

(* EVERY provided conversion (182 From impls) maps black to black and white to white *)
Theorem C13_black_white : forall f a b, In (f, a, b) conv_pairs ->
  convert f a b (color_black a) = color_black b /\ convert f a b (color_white a) = color_white b.
Proof. exact c13_black_white. Qed.

(* ... where black / white are the all-zero / all-maximum colours of each type *)
Theorem C13_black_white_channels : forall t, In t color_table ->
  valid t (color_black t) /\ valid t (color_white t) /\
  (is_rgb t = true -> (get_r t (color_black t) = 0 /\ get_g t (color_black t) = 0 /\ get_b t (color_black t) = 0) /\
                      (get_r t (color_white t) = max_r t /\ get_g t (color_white t) = max_g t /\ get_b t (color_white t) = max_b t)) /\
  (is_gray t = true -> luma_of t (color_black t) = 0 /\ luma_of t (color_white t) = max_luma t) /\
  (c_kind t = KBinary -> color_black t = bin_off /\ color_white t = bin_on).
Proof. exact c13_black_white_channels. Qed.

(* RGB -> RGB (90 pairs): every channel of the result is the nearest representable value *)
Theorem C13_rgb_rgb_nearest : forall a b, In (FRgbRgb, a, b) conv_pairs -> forall c, valid a c ->
  let c' := convert FRgbRgb a b c in
  valid b c' /\
  2 * Z.abs (get_r b c' * max_r a - get_r a c * max_r b) <= max_r a /\
  2 * Z.abs (get_g b c' * max_g a - get_g a c * max_g b) <= max_g a /\
  2 * Z.abs (get_b b c' * max_b a - get_b a c * max_b b) <= max_b a.
Proof. exact c13_rgb_rgb_nearest. Qed.

(* ... and depends monotonically on the same channel of the source (and on nothing else) *)
Theorem C13_rgb_rgb_mono : forall a b, In (FRgbRgb, a, b) conv_pairs -> forall c1 c2, valid a c1 -> valid a c2 ->
  (get_r a c1 <= get_r a c2 -> get_r b (convert FRgbRgb a b c1) <= get_r b (convert FRgbRgb a b c2)) /\
  (get_g a c1 <= get_g a c2 -> get_g b (convert FRgbRgb a b c1) <= get_g b (convert FRgbRgb a b c2)) /\
  (get_b a c1 <= get_b a c2 -> get_b b (convert FRgbRgb a b c1) <= get_b b (convert FRgbRgb a b c2)).
Proof. exact c13_rgb_rgb_mono. Qed.

(* equal channel depths (RGB <-> BGR of equal depth): all channels are kept *)
Theorem C13_same_depth_keeps_channels : forall a b, In (FRgbRgb, a, b) conv_pairs ->
  rbits a = rbits b -> gbits a = gbits b -> bbits a = bbits b -> forall c, valid a c ->
  get_r b (convert FRgbRgb a b c) = get_r a c /\ get_g b (convert FRgbRgb a b c) = get_g a c /\
  get_b b (convert FRgbRgb a b c) = get_b a c.
Proof. exact c13_same_depth_keeps_channels. Qed.

(* converting to a type with at least as many bits in every channel and back is the identity *)
Theorem C13_rgb_widen_narrow_id : forall a b, In (FRgbRgb, a, b) conv_pairs -> In (FRgbRgb, b, a) conv_pairs ->
  rbits a <= rbits b -> gbits a <= gbits b -> bbits a <= bbits b -> forall c, valid a c ->
  convert FRgbRgb b a (convert FRgbRgb a b c) = c.
Proof. exact c13_rgb_widen_narrow_id. Qed.

(* Gray -> Gray: nearest *)
Theorem C13_gray_gray_nearest : forall a b, In (FGrayGray, a, b) conv_pairs -> forall c, valid a c ->
  let c' := convert FGrayGray a b c in
  valid b c' /\ 2 * Z.abs (luma_of b c' * max_luma a - luma_of a c * max_luma b) <= max_luma a.
Proof. exact c13_gray_gray_nearest. Qed.

(* Gray -> Gray: monotone *)
Theorem C13_gray_gray_mono : forall a b, In (FGrayGray, a, b) conv_pairs -> forall c1 c2, valid a c1 -> valid a c2 ->
  luma_of a c1 <= luma_of a c2 -> luma_of b (convert FGrayGray a b c1) <= luma_of b (convert FGrayGray a b c2).
Proof. exact c13_gray_gray_mono. Qed.

(* Gray -> wider Gray -> back: identity *)
Theorem C13_gray_widen_narrow_id : forall a b, In (FGrayGray, a, b) conv_pairs -> In (FGrayGray, b, a) conv_pairs ->
  bpp a <= bpp b -> forall c, valid a c -> convert FGrayGray b a (convert FGrayGray a b c) = c.
Proof. exact c13_gray_widen_narrow_id. Qed.

(* Gray -> RGB: every channel is the gray value scaled (to nearest) to that channel's range *)
Theorem C13_gray_rgb_equal_scaling : forall a b, In (FGrayRgb, a, b) conv_pairs -> forall c, valid a c ->
  let c' := convert FGrayRgb a b c in
  valid b c' /\
  2 * Z.abs (get_r b c' * max_luma a - luma_of a c * max_r b) <= max_luma a /\
  2 * Z.abs (get_g b c' * max_luma a - luma_of a c * max_g b) <= max_luma a /\
  2 * Z.abs (get_b b c' * max_luma a - luma_of a c * max_b b) <= max_luma a.
Proof. exact c13_gray_rgb_equal_scaling. Qed.

(* Gray -> RGB: monotone *)
Theorem C13_gray_rgb_mono : forall a b, In (FGrayRgb, a, b) conv_pairs -> forall c1 c2, valid a c1 -> valid a c2 ->
  luma_of a c1 <= luma_of a c2 ->
  get_r b (convert FGrayRgb a b c1) <= get_r b (convert FGrayRgb a b c2) /\
  get_g b (convert FGrayRgb a b c1) <= get_g b (convert FGrayRgb a b c2) /\
  get_b b (convert FGrayRgb a b c1) <= get_b b (convert FGrayRgb a b c2).
Proof. exact c13_gray_rgb_mono. Qed.

(* Gray -> RGB -> Gray returns the original gray whenever every RGB channel has at least as many bits as the gray type *)
Theorem C13_gray_rgb_gray_id : forall a b, In (FGrayRgb, a, b) conv_pairs ->
  bpp a <= rbits b -> bpp a <= gbits b -> bpp a <= bbits b -> forall c, valid a c ->
  find_pair b a = Some FRgbGray /\ convert FRgbGray b a (convert FGrayRgb a b c) = c.
Proof. exact c13_gray_rgb_gray_id. Qed.

(* luma of a gray Rgb888 (r = g = b) is that value: the weights sum to the divisor *)
Theorem C13_luma_gray_identity : forall g, 0 <= g <= 255 -> luma888 (rgb_new via_rgb g g g) = g.
Proof. exact c13_luma_gray_identity. Qed.

(* luma is monotone in every channel and stays within 0..255 *)
Theorem C13_luma_mono : forall c1 c2, valid via_rgb c1 -> valid via_rgb c2 ->
  get_r via_rgb c1 <= get_r via_rgb c2 -> get_g via_rgb c1 <= get_g via_rgb c2 -> get_b via_rgb c1 <= get_b via_rgb c2 ->
  luma888 c1 <= luma888 c2 /\ 0 <= luma888 c1 /\ luma888 c2 <= 255.
Proof. exact c13_luma_mono. Qed.

(* the luma constants (regenerated from conversion.rs): weights sum to the divisor, rounding constant is half of it, no u16 overflow *)
Theorem C13_luma_weights : luma_wr + luma_wg + luma_wb = luma_div /\ 2 * luma_round = luma_div /\
  0 <= luma_wr /\ 0 <= luma_wg /\ 0 <= luma_wb /\ (luma_wr + luma_wg + luma_wb) * 255 + luma_round < 65536.
Proof. exact c13_luma_weights. Qed.

(* RGB -> Gray goes through Rgb888 and Gray8 (double rounding): the result is the 8-bit luma of the 8-bit-scaled channels, scaled to the target *)
Theorem C13_rgb_gray_luma : forall a b, In (FRgbGray, a, b) conv_pairs -> forall c, valid a c ->
  let c' := convert FRgbGray a b c in
  valid b c' /\ luma_of b c' = convert_channel 255 (max_luma b) (luma_via a c) /\ 0 <= luma_via a c <= 255.
Proof. exact c13_rgb_gray_luma. Qed.

(* ... hence monotone in every channel (extremes: C13_black_white); "nearest" is not claimed for this family *)
Theorem C13_rgb_gray_mono : forall a b, In (FRgbGray, a, b) conv_pairs -> forall c1 c2, valid a c1 -> valid a c2 ->
  get_r a c1 <= get_r a c2 -> get_g a c1 <= get_g a c2 -> get_b a c1 <= get_b a c2 ->
  luma_of b (convert FRgbGray a b c1) <= luma_of b (convert FRgbGray a b c2).
Proof. exact c13_rgb_gray_mono. Qed.

(* Gray -> BinaryColor: On exactly for the upper half of the luma range *)
Theorem C13_gray_binary_upper_half : forall a b, In (FGrayBin, a, b) conv_pairs -> forall c, valid a c ->
  (convert FGrayBin a b c = bin_on <-> 2 ^ (bpp a - 1) <= luma_of a c) /\
  (convert FGrayBin a b c = bin_off <-> luma_of a c < 2 ^ (bpp a - 1)) /\ 2 * 2 ^ (bpp a - 1) = max_luma a + 1.
Proof. exact c13_gray_binary_upper_half. Qed.

(* RGB -> BinaryColor: On exactly when the 8-bit luma is in the upper half (>= 128) of 0..255 *)
Theorem C13_rgb_binary_upper_half : forall a b, In (FRgbBin, a, b) conv_pairs -> forall c, valid a c ->
  (convert FRgbBin a b c = bin_on <-> 128 <= luma_via a c) /\
  (convert FRgbBin a b c = bin_off <-> luma_via a c < 128) /\ 0 <= luma_via a c <= 255.
Proof. exact c13_rgb_binary_upper_half. Qed.

(* RGB -> BinaryColor is monotone in every channel (Off = 0 < On = 1) *)
Theorem C13_rgb_binary_mono : forall a b, In (FRgbBin, a, b) conv_pairs -> forall c1 c2, valid a c1 -> valid a c2 ->
  get_r a c1 <= get_r a c2 -> get_g a c1 <= get_g a c2 -> get_b a c1 <= get_b a c2 ->
  convert FRgbBin a b c1 <= convert FRgbBin a b c2.
Proof. exact c13_rgb_binary_mono. Qed.

(* Gray -> BinaryColor is monotone *)
Theorem C13_gray_binary_mono : forall a b, In (FGrayBin, a, b) conv_pairs -> forall c1 c2, valid a c1 -> valid a c2 ->
  luma_of a c1 <= luma_of a c2 -> convert FGrayBin a b c1 <= convert FGrayBin a b c2.
Proof. exact c13_gray_binary_mono. Qed.

(* BinaryColor -> X gives BLACK / WHITE, and converting back returns the original (X has at least one bit per channel) *)
Theorem C13_binary_roundtrip : forall a b, In (FBinAny, a, b) conv_pairs ->
  exists g, find_pair b a = Some g /\
  convert g b a (convert FBinAny a b bin_off) = bin_off /\ convert g b a (convert FBinAny a b bin_on) = bin_on /\
  convert FBinAny a b bin_off = color_black b /\ convert FBinAny a b bin_on = color_white b.
Proof. exact c13_binary_roundtrip. Qed.

(* web colours (WebColors, 141 CSS constants x 8 types): CSS_X = with_rgb888(r, g, b); every channel is the 8 bit CSS value scaled
   to nearest, and exactly the CSS value for the 24 bit types *)
Theorem C13_web_colors : forall t, In t web_types -> forall n r g b, In (n, (r, g, b)) web_colors ->
  let c := with_rgb888 t r g b in
  In t color_table /\ is_rgb t = true /\ (0 <= r <= 255 /\ 0 <= g <= 255 /\ 0 <= b <= 255) /\
  valid t c /\
  2 * Z.abs (get_r t c * 255 - r * max_r t) <= 255 /\
  2 * Z.abs (get_g t c * 255 - g * max_g t) <= 255 /\
  2 * Z.abs (get_b t c * 255 - b * max_b t) <= 255 /\
  (max_r t = 255 -> get_r t c = r) /\ (max_g t = 255 -> get_g t c = g) /\ (max_b t = 255 -> get_b t c = b).
Proof. exact c13_web_colors. Qed.

(* the CSS values of web_colors.rs are the pinned copy of the CSS keyword table (a changed value breaks this) *)
Theorem C13_web_values_pinned :
  map (fun e => match snd e with (r, g, b) => r * 65536 + g * 256 + b end) web_colors = css_values_pinned /\
  length web_colors = 141%nat /\ length web_types = 8%nat.
Proof. exact c13_web_values_pinned. Qed.

(* the 16 basic CSS keywords have their specified values *)
Theorem C13_web_basic_keywords :
  map web_lookup
    [[67; 83; 83; 95; 66; 76; 65; 67; 75];
     [67; 83; 83; 95; 83; 73; 76; 86; 69; 82];
     [67; 83; 83; 95; 71; 82; 65; 89];
     [67; 83; 83; 95; 87; 72; 73; 84; 69];
     [67; 83; 83; 95; 77; 65; 82; 79; 79; 78];
     [67; 83; 83; 95; 82; 69; 68];
     [67; 83; 83; 95; 80; 85; 82; 80; 76; 69];
     [67; 83; 83; 95; 70; 85; 67; 72; 83; 73; 65];
     [67; 83; 83; 95; 71; 82; 69; 69; 78];
     [67; 83; 83; 95; 76; 73; 77; 69];
     [67; 83; 83; 95; 79; 76; 73; 86; 69];
     [67; 83; 83; 95; 89; 69; 76; 76; 79; 87];
     [67; 83; 83; 95; 78; 65; 86; 89];
     [67; 83; 83; 95; 66; 76; 85; 69];
     [67; 83; 83; 95; 84; 69; 65; 76];
     [67; 83; 83; 95; 65; 81; 85; 65]] =
  map Some [(0, 0, 0); (192, 192, 192); (128, 128, 128); (255, 255, 255); (128, 0, 0); (255, 0, 0); (128, 0, 128); (255, 0, 255); (0, 128, 0); (0, 255, 0); (128, 128, 0); (255, 255, 0); (0, 0, 128); (0, 0, 255); (0, 128, 128); (0, 255, 255)].
Proof. exact c13_web_basic_keywords. Qed.

(* the luma weights ARE ITU-R BT.601 in 8 bit fixed point (77/150/29 of 256, i.e. 0.299/0.587/0.114 to within 1/256), rounding 128:
   a changed weight breaks this proof even if the weights still sum to the divisor *)
Theorem C13_luma_is_bt601 :
  (luma_wr = 77 /\ luma_wg = 150 /\ luma_wb = 29 /\ luma_div = 256 /\ luma_round = 128) /\
  (Z.abs (1000 * luma_wr - 299 * luma_div) <= 1000 /\ Z.abs (1000 * luma_wg - 587 * luma_div) <= 1000 /\
   Z.abs (1000 * luma_wb - 114 * luma_div) <= 1000).
Proof. exact c13_luma_is_bt601. Qed.

(* the other literals read from the source (SHIFT, 0.5 constant, binary thresholds, gray maxima, the types that the luma conversions
   and with_rgb888 go through) have their documented values *)
Theorem C13_constants_pinned :
  cc_shift = 24 /\ cc_half_base = 1 /\ cc_half_sub = 1 /\ rgb_bin_threshold = 128 /\
  gray_max_base = 255 /\ gray_max_bits = 8 /\ gray_50_base = 128 /\ gray_50_bits = 8 /\
  gray_black_arg = 0 /\ gray_white_arg = 255 /\ bin_from_zero = 0 /\ bin_raw_off = 0 /\ bin_raw_on = 1 /\
  c_name via_rgb = [82; 103; 98; 56; 56; 56] /\ c_name via_gray = [71; 114; 97; 121; 56] /\ c_name web_src = [82; 103; 98; 56; 56; 56].
Proof. exact c13_constants_pinned. Qed.

(* BinaryColor -> X is monotone in every channel (Off <= On |-> black <= white) *)
Theorem C13_binary_to_any_mono : forall a b, In (FBinAny, a, b) conv_pairs -> forall c1 c2, valid a c1 -> valid a c2 -> c1 <= c2 ->
  (is_rgb b = true -> get_r b (convert FBinAny a b c1) <= get_r b (convert FBinAny a b c2) /\
                      get_g b (convert FBinAny a b c1) <= get_g b (convert FBinAny a b c2) /\
                      get_b b (convert FBinAny a b c1) <= get_b b (convert FBinAny a b c2)) /\
  (is_gray b = true -> luma_of b (convert FBinAny a b c1) <= luma_of b (convert FBinAny a b c2)).
Proof. exact c13_binary_to_any_mono. Qed.

(* the seven conversion families partition the 182 conversions: 90 + 6 + 30 + 30 + 13 + 3 + 10 *)
Theorem C13_family_census :
  map (fun f => length (filter (fun p => match fst (fst p), f with
                                         | FRgbRgb, FRgbRgb | FGrayGray, FGrayGray | FGrayRgb, FGrayRgb | FRgbGray, FRgbGray
                                         | FBinAny, FBinAny | FGrayBin, FGrayBin | FRgbBin, FRgbBin => true
                                         | _, _ => false end) conv_pairs))
      [FRgbRgb; FGrayGray; FGrayRgb; FRgbGray; FBinAny; FGrayBin; FRgbBin] = [90; 6; 30; 30; 13; 3; 10]%nat.
Proof. exact c13_family_census. Qed.

(* RGB -> Gray, second stage: the result is the representable value nearest to the scaled 8 bit luma *)
Theorem C13_rgb_gray_second_stage_nearest : forall a b, In (FRgbGray, a, b) conv_pairs -> forall c, valid a c ->
  2 * Z.abs (luma_of b (convert FRgbGray a b c) * 255 - luma_via a c * max_luma b) <= 255.
Proof. exact c13_rgb_gray_second_stage_nearest. Qed.

(* RGB -> Gray end to end against EXACT arithmetic: with luma_num / luma_den the exactly scaled BT.601 luma of the source channels
   (a fraction of full scale), the result is within 1/2 + max_luma/255 target steps of it (0.51 for Gray2, 0.56 for Gray4), and
   within 1 step for Gray8.  PARTIAL: the property's "error at most half a step" is false for this family (next theorem) *)
Theorem C13_rgb_gray_error_bound_partial : forall a b, In (FRgbGray, a, b) conv_pairs -> forall c, valid a c ->
  let o := luma_of b (convert FRgbGray a b c) in
  0 < luma_den a /\ 0 <= luma_num a c <= luma_den a /\
  2 * 255 * Z.abs (o * luma_den a - max_luma b * luma_num a c) <= (2 * max_luma b + 255) * luma_den a /\
  (max_luma b = 255 -> Z.abs (o * luma_den a - max_luma b * luma_num a c) <= luma_den a).
Proof. exact c13_rgb_gray_error_bound_partial. Qed.

(* machine-checked witness that half-a-step accuracy does NOT hold for RGB -> Gray: Rgb565 (7, 11, 20) -> Gray8 = 63, exact 62.04 *)
Theorem C13_rgb_gray_nearest_refuted :
  exists a b c, In (FRgbGray, a, b) conv_pairs /\ valid a c /\
    2 * Z.abs (luma_of b (convert FRgbGray a b c) * luma_den a - max_luma b * luma_num a c) > luma_den a.
Proof. exact c13_rgb_gray_nearest_refuted. Qed.

(* the quantifier: 182 provided conversions = every ordered pair of distinct built-in types, between table rows, no duplicates *)
Theorem C13_pairs_census :
  length conv_pairs = 182%nat /\
  (forall f a b, In (f, a, b) conv_pairs -> In a color_table /\ In b color_table /\ c_id a <> c_id b /\ family_kinds f a b = true) /\
  NoDup (map (fun p => (c_id (snd (fst p)), c_id (snd p))) conv_pairs) /\
  forallb (fun a => forallb (fun b => (c_id a =? c_id b) || match find_pair a b with Some _ => true | None => false end) color_table) color_table = true.
Proof. exact c13_pairs_census. Qed.

(* non-vacuity: concrete conversions computed by the model (Rgb565 -> Rgb888, Rgb555 -> Bgr555 -> Gray4 -> BinaryColor) *)
Example C13_nonvacuous_pairs :
  In (FRgbRgb, row_Rgb565, row_Rgb888) conv_pairs /\ In (FRgbRgb, row_Rgb555, row_Bgr555) conv_pairs /\
  In (FRgbGray, row_Bgr555, row_Gray4) conv_pairs /\ In (FGrayBin, row_Gray4, row_BinaryColor) conv_pairs.
Proof. unfold conv_pairs. repeat split; repeat (first [left; reflexivity | right]). Qed.

Example C13_nonvacuous :
  convert_channel 31 255 17 = 140 /\ convert_channel 255 3 128 = 2 /\
  convert FRgbRgb row_Rgb565 row_Rgb888 (rgb_new row_Rgb565 17 40 3) = rgb_new row_Rgb888 140 162 25 /\
  convert FRgbRgb row_Rgb555 row_Bgr555 (rgb_new row_Rgb555 1 2 3) = rgb_new row_Bgr555 1 2 3 /\
  rgb_new row_Rgb555 1 2 3 <> rgb_new row_Bgr555 1 2 3 /\
  convert FRgbGray row_Bgr555 row_Gray4 (rgb_new row_Bgr555 31 16 0) = 9 /\
  convert FGrayBin row_Gray4 row_BinaryColor 9 = bin_on /\ convert FGrayBin row_Gray4 row_BinaryColor 7 = bin_off.
Proof. vm_compute. intuition discriminate. Qed.
