(* C13, translator tie: the channel-scaling and luma arithmetic of core/src/pixelcolor/conversion.rs, regenerated
   from the source on every run by translate/r2c (coq/Gen/SrcColor.v), equals the model functions of
   coq/Model/Colormodel.v that the C13 theorems are about.  Statements only (proofs: Proofs/SrcColor.v).
   convert_channel's const generics FROM_MAX / TO_MAX are the first two parameters; all three arguments are u8. *)
From EG Require Import Base.Prelude Base.Casts Gen.ColorConsts Gen.ColorTable Model.Colormodel Gen.SrcColor Proofs.SrcColor.

Theorem C13_src_convert_channel_is_model : forall from_max to_max value,
  0 <= from_max <= 255 -> 0 <= to_max <= 255 -> 0 <= value <= 255 ->
  src_convert_channel from_max to_max value = convert_channel from_max to_max value.
Proof. exact src_convert_channel_eq. Qed.

Theorem C13_src_luma_is_model : forall c, src_luma c = luma888 c.
Proof. exact src_luma_eq. Qed.

Example C13_src_nonvacuous : src_convert_channel 31 255 17 = 140 /\ src_luma (Z.shiftl 255 16 + 128 * 256 + 7) = 152.
Proof. split; vm_compute; reflexivity. Qed.
