(* C13, translator tie (conversion macros): the bodies of impl_rgb_conversion!, impl_gray_conversion!,
   impl_rgb_to_and_from_gray!, impl_rgb_to_binary!, impl_gray_to_binary! (core/src/pixelcolor/conversion.rs) translated as
   templates over abstract colour types, regenerated from the source on every run by translate/r2c (coq/Gen/SrcConv.v):
   for all table rows they equal the model's conversion functions (Model/Colormodel.v).  The abstract types' members
   (MAX_R, r(), new, ...) are the model functions of the row (tied to the source by the C12_src theorems); `Rgb888::from(x)` and
   `Gray8::new(v).into()` inside the rgb->gray / rgb->binary bodies are configured glue (Colormodel.into_or).
   Statements only (proofs: Proofs/SrcConv.v). *)
From EG Require Import Base.Prelude Base.Casts Gen.ColorConsts Gen.ColorTable Model.Colormodel Gen.SrcColor Gen.SrcConv Proofs.SrcConv.

Theorem C13_src_conv_rgb_rgb_is_model : forall a b c, src_conv_rgb_rgb a b c = conv_rgb_rgb a b c.
Proof. exact src_conv_rgb_rgb_eq. Qed.
Theorem C13_src_with_rgb888_is_model : forall t r g b,
  0 <= r <= 255 -> 0 <= g <= 255 -> 0 <= b <= 255 -> src_with_rgb888 t r g b = with_rgb888 t r g b.
Proof. exact src_with_rgb888_eq. Qed.
Theorem C13_src_conv_gray_gray_is_model : forall a b c,
  0 <= max_luma a <= 255 -> 0 <= max_luma b <= 255 -> 0 <= c <= 255 -> src_conv_gray_gray a b c = conv_gray_gray a b c.
Proof. exact src_conv_gray_gray_eq. Qed.
Theorem C13_src_conv_gray_rgb_is_model : forall a b c,
  0 <= max_luma a <= 255 -> 0 <= c <= 255 -> src_conv_gray_rgb a b c = conv_gray_rgb a b c.
Proof. exact src_conv_gray_rgb_eq. Qed.
Theorem C13_src_conv_rgb_gray_is_model : forall a b c, src_conv_rgb_gray b a c = conv_rgb_gray a b c.
Proof. exact src_conv_rgb_gray_eq. Qed.
Theorem C13_src_conv_rgb_bin_is_model : forall a c, src_conv_rgb_bin a c = conv_rgb_bin a c.
Proof. exact src_conv_rgb_bin_eq. Qed.
Theorem C13_src_conv_gray_bin_is_model : forall a c, src_conv_gray_bin a c = conv_gray_bin a c.
Proof. exact src_conv_gray_bin_eq. Qed.

Example C13_src_conv_nonvacuous : src_conv_rgb_rgb row_Rgb565 row_Rgb888 64519 = 16745018.
Proof. vm_compute. reflexivity. Qed.
