(* C13 / C12, translator tie (gray colours and BinaryColor; audit3 G3, G4): `gray_color!` (core/src/pixelcolor/gray_color.rs) once
   per invocation - Gray2 / Gray4 / Gray8 over RawU2 / RawU4 / RawU8: new, luma, MAX_LUMA, GRAY_50 - and BinaryColor
   (binary_color.rs) as its own two-variant type: From<bool>, From<RawU1>, From<BinaryColor> for RawU1, map_color (at u8), invert,
   is_on / is_off; regenerated from the source on every run by translate/r2c (coq/Gen/SrcGrayColor.v, coq/Gen/SrcBinaryColor.v).
   The conversion templates of C13_src_conv take these functions as the model's gray_new / luma_of / max_luma / gray_50 /
   bin_of_bool of the table row (functions.txt `mtype` lines); here they are tied to the source: they equal those model
   functions at the rows row_Gray2 / row_Gray4 / row_Gray8 / row_BinaryColor.  bin_z reads On / Off as the model's 1 / 0.
   Statements only (proofs: Proofs/SrcGrayBinary.v). *)
From EG Require Import Base.Prelude Base.Casts Gen.ColorConsts Gen.ColorTable Model.Colormodel Model.Rawdata.
From EG Require Import Gen.SrcRawData Gen.SrcGrayColor Gen.SrcBinaryColor Proofs.SrcGrayBinary.

Theorem C13_src_gray_new_is_model : forall v,
  src_Gray2_new v = gray_new row_Gray2 v /\ src_Gray4_new v = gray_new row_Gray4 v /\ src_Gray8_new v = gray_new row_Gray8 v.
Proof. exact src_gray_new_eq. Qed.
Theorem C13_src_gray_luma_is_model : forall c,
  src_Gray2_luma c = luma_of row_Gray2 c /\ src_Gray4_luma c = luma_of row_Gray4 c /\ src_Gray8_luma c = luma_of row_Gray8 c.
Proof. exact src_gray_luma_eq. Qed.
Theorem C13_src_gray_max_luma_is_model :
  src_Gray2_MAX_LUMA = max_luma row_Gray2 /\ src_Gray4_MAX_LUMA = max_luma row_Gray4 /\ src_Gray8_MAX_LUMA = max_luma row_Gray8.
Proof. exact src_gray_max_luma_eq. Qed.
Theorem C13_src_gray_50_is_model :
  src_Gray2_GRAY_50 = gray_50 row_Gray2 /\ src_Gray4_GRAY_50 = gray_50 row_Gray4 /\ src_Gray8_GRAY_50 = gray_50 row_Gray8.
Proof. exact src_gray_50_eq. Qed.

Theorem C13_src_binary_from_bool_is_model : forall b, bin_z (src_BinaryColor_from_bool b) = bin_of_bool b.
Proof. exact src_bin_from_bool_eq. Qed.
Theorem C13_src_binary_map_color_is_model : forall c off on, src_BinaryColor_map_color_u8 c off on = map_color (bin_z c) off on.
Proof. exact src_bin_map_color_eq. Qed.
Theorem C13_src_binary_from_raw_is_model : forall d, bin_z (src_BinaryColor_from_raw d) = from_raw row_BinaryColor d.
Proof. exact src_bin_from_raw_model. Qed.
Theorem C13_src_binary_to_raw_is_model : forall c, src_RawU1_from_BinaryColor c = to_raw row_BinaryColor (bin_z c).
Proof. exact src_bin_to_raw_model. Qed.
Theorem C13_src_binary_raw_roundtrip : forall c, src_BinaryColor_from_raw (src_RawU1_from_BinaryColor c) = c.
Proof. exact src_bin_raw_roundtrip. Qed.
Theorem C13_src_binary_invert_is_on_off : forall c,
  bin_z (src_BinaryColor_invert c) = 1 - bin_z c /\ src_BinaryColor_is_on c = (bin_z c =? bin_on) /\ src_BinaryColor_is_off c = (bin_z c =? bin_off).
Proof. exact src_bin_invert_is. Qed.

Example C13_src_gray_binary_nonvacuous :
  src_Gray2_new 255 = 3 /\ src_Gray4_GRAY_50 = 8 /\ src_Gray8_GRAY_50 = 128 /\ src_Gray2_GRAY_50 = 2 /\ src_Gray4_MAX_LUMA = 15 /\
  src_RawU1_from_BinaryColor (src_BinaryColor_from_bool true) = 1 /\ bin_z (src_BinaryColor_from_raw 0) = 0.
Proof. repeat split; vm_compute; reflexivity. Qed.
