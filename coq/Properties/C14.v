(* C14 - Text draws the glyph the font's mapping designates, in the right cell.
   Statements only; proofs are in Proofs/Fontmodel.v (any font record, any string) and
   Proofs/Fontbuiltin.v (reflection over Gen/FontTable.v, regenerated from the source on every run).

   Vocabulary (Model/Fontmodel.v = the code, line by line; Proofs/Fontmodel.v = specification terms):
     str_index data repl c      StrGlyphMapping::index            expand_chars data   StrGlyphMapping::chars
     glyph_area f gi            area of MonoFont::glyph           sub_image_visible   "ImageRaw draws this sub image"
     draw_string F s text pos b TextRenderer::draw_string of MonoTextStyle -> (calls on the target, next position)
     render calls p             colour of pixel p after the calls (None = untouched)
     cell_colour F s c dx dy    = if the cell of c is inside the atlas then (if atlas bit (cell + (dx,dy)) then text colour
                                  else background colour) else None          (None = untouched)
     origin f pos b             = (pos.x, pos.y - baseline_offset f b), top left of the line
     line_width f n             = n*cw + (n-1)*sp  (0 for n = 0)
     advance f s n              = line_width f n, or n*(cw+sp) when neither text nor background colour is set
     deco_pixel f s o w p       = if 0 < w: underline rectangle (o.x, o.y+ul.offset, w, ul.height) in its effective
                                  colour, else strikethrough rectangle (o.x, o.y+st.offset, w, st.height), else None
     font_ok f                  all fields non-negative, heights/offsets <= 2^28
     draw_ok f pos n            |pos| <= 2^28 and pos.x + n*(cw+sp) <= 2^28 (no i32 saturation is reached)
     index_ok F text            every character's glyph index fits MonoFont::glyph's u32/i32 arithmetic: 0 <= index < 2^32 and
                                (index / glyphs_per_row + 1) * ch < 2^31 (mod.rs:109-114 `index as u32`, `row * height`, `as i32`);
                                holds for every string with every built-in font (C14_builtin_index_ok)  *)
From EG Require Import Base.Prelude Model.Geometry Proofs.Geometry Model.Fontmodel Proofs.Fontmodel
  Gen.FontTable Model.Fontbuiltin Proofs.FontGolden Proofs.Fontbuiltin Model.Textmodel Proofs.Textmodel Proofs.Textbox Proofs.Textbuiltin.

(* ------------------------------------------------------------------ glyph mapping *)

(* index = position of the first occurrence in the expanded mapping string, else the replacement index *)
Theorem C14_index_spec : forall data repl c,
  (In c (expand_chars data) ->
     exists n, str_index data repl c = Z.of_nat n /\ nth_error (expand_chars data) n = Some c /\
               (forall m, (m < n)%nat -> nth_error (expand_chars data) m <> Some c)) /\
  (~ In c (expand_chars data) -> str_index data repl c = repl).
Proof. exact index_spec. Qed.

Theorem C14_index_injective_on_mapped : forall data repl c1 c2,
  In c1 (expand_chars data) -> In c2 (expand_chars data) ->
  str_index data repl c1 = str_index data repl c2 -> c1 = c2.
Proof. intros data repl. exact (index_injective_on_mapped (expand_chars data) repl). Qed.

Theorem C14_contains_spec : forall data c, str_contains data c = true <-> In c (expand_chars data).
Proof. exact str_contains_spec. Qed.

(* glyph(): index -> column (index mod glyphs_per_row), row (index / glyphs_per_row) of the atlas *)
Theorem C14_glyph_area_is_row_column_cell : forall f gi,
  0 < f_cw f <= f_iw f -> 0 <= gi ->
  let gpr := f_iw f / f_cw f in
  glyph_area f gi = R (P ((gi mod gpr) * f_cw f) ((gi / gpr) * f_ch f)) (S (f_cw f) (f_ch f)).
Proof. exact glyph_area_cell. Qed.

(* distinct indices designate distinct, even disjoint, cells *)
Theorem C14_glyph_cells_distinct : forall f i j,
  font_wf f -> 0 <= i -> 0 <= j -> glyph_area f i = glyph_area f j -> i = j.
Proof. exact glyph_area_injective. Qed.

Theorem C14_glyph_cells_disjoint : forall f i j p,
  font_wf f -> 0 <= i -> 0 <= j -> i <> j ->
  contains (glyph_area f i) p && contains (glyph_area f j) p = false.
Proof. exact glyph_areas_disjoint. Qed.

(* ------------------------------------------------------------------ draw_string: ANY font record, ANY string *)

(* the whole pixel map in one equation: decorations over cells/spacing (line_pixel is the recursive reading of
   "cell, spacing, cell, ..."; the next four theorems give its closed form) *)
Theorem C14_draw_string_pixel_map : forall F s text pos b p,
  font_ok (mf_geom F) -> draw_ok (mf_geom F) pos (length text) -> index_ok F text ->
  render (fst (draw_string F s text pos b)) p =
  let o := origin (mf_geom F) pos b in
  orelse (deco_pixel (mf_geom F) s o (advance (mf_geom F) s (length text)) p) (line_pixel F s o text p).
Proof. exact render_draw_string. Qed.

(* pixel (dx,dy) of the i-th cell, at x + i*(cw+sp): the designated atlas cell, on -> text colour,
   off -> background colour (None = untouched), unless a decoration covers it *)
Theorem C14_draw_string_cell : forall F s text pos b i c dx dy,
  font_ok (mf_geom F) -> draw_ok (mf_geom F) pos (length text) -> index_ok F text ->
  nth_error text i = Some c -> 0 <= dx < f_cw (mf_geom F) -> 0 <= dy < f_ch (mf_geom F) ->
  let f := mf_geom F in
  let p := P (px pos + Z.of_nat i * (f_cw f + f_sp f) + dx) (py pos - baseline_offset f b + dy) in
  render (fst (draw_string F s text pos b)) p =
  orelse (deco_pixel f s (origin f pos b) (advance f s (length text)) p) (cell_colour F s c dx dy).
Proof. exact draw_string_cell. Qed.

(* the spacing columns between cell i and cell i+1 get the background colour (None = untouched) *)
Theorem C14_draw_string_spacing : forall F s text pos b i dx dy,
  font_ok (mf_geom F) -> draw_ok (mf_geom F) pos (length text) -> index_ok F text ->
  (Datatypes.S i < length text)%nat -> 0 <= dx < f_sp (mf_geom F) -> 0 <= dy < f_ch (mf_geom F) ->
  let f := mf_geom F in
  let p := P (px pos + Z.of_nat i * (f_cw f + f_sp f) + f_cw f + dx) (py pos - baseline_offset f b + dy) in
  render (fst (draw_string F s text pos b)) p =
  orelse (deco_pixel f s (origin f pos b) (advance f s (length text)) p) (cs_bg s).
Proof. exact draw_string_spacing. Qed.

(* nothing else is touched: outside the line box only decoration pixels exist *)
Theorem C14_draw_string_elsewhere : forall F s text pos b p,
  font_ok (mf_geom F) -> draw_ok (mf_geom F) pos (length text) -> index_ok F text ->
  let f := mf_geom F in
  contains (R (origin f pos b) (S (line_width f (length text)) (f_ch f))) p = false ->
  render (fst (draw_string F s text pos b)) p =
  deco_pixel f s (origin f pos b) (advance f s (length text)) p.
Proof. exact draw_string_elsewhere. Qed.

(* without decoration colours the cell shows exactly the designated atlas cell *)
Theorem C14_draw_string_cell_plain : forall F s text pos b i c dx dy,
  font_ok (mf_geom F) -> draw_ok (mf_geom F) pos (length text) -> index_ok F text ->
  cs_ul s = DNone -> cs_st s = DNone ->
  nth_error text i = Some c -> 0 <= dx < f_cw (mf_geom F) -> 0 <= dy < f_ch (mf_geom F) ->
  let f := mf_geom F in
  render (fst (draw_string F s text pos b))
    (P (px pos + Z.of_nat i * (f_cw f + f_sp f) + dx) (py pos - baseline_offset f b + dy)) =
  cell_colour F s c dx dy.
Proof. exact draw_string_cell_plain. Qed.

(* underline and strikethrough cover [x, next.x) at the font's offsets; the underline is on top *)
Theorem C14_underline_covers_width : forall F s text pos b p col,
  font_ok (mf_geom F) -> draw_ok (mf_geom F) pos (length text) -> index_ok F text ->
  let f := mf_geom F in
  let next := snd (draw_string F s text pos b) in
  effective_color (cs_ul s) (cs_text s) = Some col ->
  px pos <= px p < px next ->
  py pos - baseline_offset f b + d_off (f_ul f) <= py p < py pos - baseline_offset f b + d_off (f_ul f) + d_h (f_ul f) ->
  render (fst (draw_string F s text pos b)) p = Some col.
Proof. exact underline_covers. Qed.

Theorem C14_strikethrough_covers_width : forall F s text pos b p col,
  font_ok (mf_geom F) -> draw_ok (mf_geom F) pos (length text) -> index_ok F text ->
  let f := mf_geom F in
  let next := snd (draw_string F s text pos b) in
  effective_color (cs_st s) (cs_text s) = Some col ->
  px pos <= px p < px next ->
  py pos - baseline_offset f b + d_off (f_st f) <= py p < py pos - baseline_offset f b + d_off (f_st f) + d_h (f_st f) ->
  deco_part (f_ul f) (effective_color (cs_ul s) (cs_text s)) (origin f pos b) (px next - px pos) p = None ->
  render (fst (draw_string F s text pos b)) p = Some col.
Proof. exact strikethrough_covers. Qed.

Theorem C14_draw_string_next_position : forall F s text pos b,
  snd (draw_string F s text pos b) = P (px pos + advance (mf_geom F) s (length text)) (py pos).
Proof. exact draw_string_next. Qed.

(* ------------------------------------------------------------------ Text with a MonoTextStyle *)

(* Text::draw of a text without '\n' is draw_string of the line at the aligned, baseline-adjusted position *)
Theorem C14_text_one_line_is_draw_string : forall F s ts pos l,
  no_nl l ->
  text_draw F s ts pos l =
  draw_string F s (strip_cr l) (line_position (mf_geom F) s ts pos (strip_cr l)) (t_base ts).
Proof. exact text_draw_one_line. Qed.

(* the i-th character of a left aligned one-line Text *)
Theorem C14_text_cell : forall F s ts pos text i c dx dy,
  font_ok (mf_geom F) -> draw_ok (mf_geom F) pos (length text) -> index_ok F text ->
  t_align ts = ALeft -> no_nl text -> strip_cr text = text ->
  nth_error text i = Some c -> 0 <= dx < f_cw (mf_geom F) -> 0 <= dy < f_ch (mf_geom F) ->
  let f := mf_geom F in
  let q := P (px pos + Z.of_nat i * (f_cw f + f_sp f) + dx) (py pos - baseline_offset f (t_base ts) + dy) in
  render (fst (text_draw F s ts pos text)) q =
  orelse (deco_pixel f s (origin f pos (t_base ts)) (advance f s (length text)) q) (cell_colour F s c dx dy).
Proof. exact text_cell. Qed.

(* any line of a multi-line Text: where no other line draws, the pixel is the one draw_string gives that line
   at the position Text::lines assigns to it (C15_alignment), so the cell theorems above apply to it *)
Theorem C14_text_line_pixels : forall F s ts pos text k line p q,
  nth_error (text_lines (mf_geom F) s ts pos text) k = Some (line, p) ->
  (forall j l' p', j <> k -> nth_error (text_lines (mf_geom F) s ts pos text) j = Some (l', p') ->
                   render (fst (draw_string F s l' p' (t_base ts))) q = None) ->
  render (fst (text_draw F s ts pos text)) q = render (fst (draw_string F s line p (t_base ts))) q.
Proof. exact text_line_pixels. Qed.

(* ------------------------------------------------------------------ built-in fonts (regenerated table) *)

(* end to end: with a built-in font, the i-th character c = n-th character of the font's mapping shows exactly
   atlas cell n (row n / glyphs_per_row, column n mod glyphs_per_row), on -> text colour, off -> background *)
Theorem C14_builtin_char_shows_its_cell : forall b atlas s text pos bl i c n dx dy,
  In b fonts ->
  let f := bf_font b in
  let F := MFont f (builtin_index b) atlas in
  draw_ok f pos (length text) -> cs_ul s = DNone -> cs_st s = DNone ->
  nth_error text i = Some c -> nth_error (builtin_chars b) n = Some c ->
  0 <= dx < f_cw f -> 0 <= dy < f_ch f ->
  let gpr := f_iw f / f_cw f in
  render (fst (draw_string F s text pos bl))
    (P (px pos + Z.of_nat i * f_cw f + dx) (py pos - baseline_offset f bl + dy)) =
  if atlas ((Z.of_nat n mod gpr) * f_cw f + dx) ((Z.of_nat n / gpr) * f_ch f + dy) then cs_text s else cs_bg s.
Proof. exact builtin_char_shows_its_cell. Qed.

(* ... and a character the mapping does not contain (control, non-BMP, ...) shows the cell of '?' *)
Theorem C14_builtin_unmapped_shows_question_mark : forall b atlas s text pos bl i c n dx dy,
  In b fonts ->
  let f := bf_font b in
  let F := MFont f (builtin_index b) atlas in
  draw_ok f pos (length text) -> cs_ul s = DNone -> cs_st s = DNone ->
  nth_error text i = Some c -> ~ In c (builtin_chars b) -> nth_error (builtin_chars b) n = Some 63 ->
  0 <= dx < f_cw f -> 0 <= dy < f_ch f ->
  let gpr := f_iw f / f_cw f in
  render (fst (draw_string F s text pos bl))
    (P (px pos + Z.of_nat i * f_cw f + dx) (py pos - baseline_offset f bl + dy)) =
  if atlas ((Z.of_nat n mod gpr) * f_cw f + dx) ((Z.of_nat n / gpr) * f_ch f + dy) then cs_text s else cs_bg s.
Proof. exact builtin_unmapped_shows_question_mark. Qed.

(* the index range hypothesis of the draw_string theorems holds for every string *)
Theorem C14_builtin_index_ok : forall b atlas text,
  In b fonts -> index_ok (MFont (bf_font b) (builtin_index b) atlas) text.
Proof. exact builtin_index_ok. Qed.

(* mapped characters own pairwise disjoint cells *)
Theorem C14_builtin_cells_disjoint : forall b c1 c2 p,
  In b fonts -> In c1 (builtin_chars b) -> In c2 (builtin_chars b) -> c1 <> c2 ->
  contains (glyph_area (bf_font b) (builtin_index b c1)) p && contains (glyph_area (bf_font b) (builtin_index b c2)) p = false.
Proof. exact builtin_cells_disjoint. Qed.


(* every index a built-in mapping can return - mapped or not - designates a cell completely inside the atlas *)
Theorem C14_builtin_cells_inside : forall b c,
  In b fonts -> sub_image_visible (bf_font b) (glyph_area (bf_font b) (builtin_index b c)) = true.
Proof. exact builtin_cells_inside. Qed.

Theorem C14_builtin_atlas_length : forall b,
  In b fonts -> bf_rawlen b = bytes_per_row (f_iw (bf_font b)) * f_ih (bf_font b).
Proof. exact builtin_atlas_length. Qed.

(* the atlas is a whole number of cells wide and has exactly the rows the mapping needs *)
Theorem C14_builtin_atlas_rows_exact : forall b,
  In b fonts ->
  let f := bf_font b in
  let gpr := f_iw f / f_cw f in
  f_iw f = gpr * f_cw f /\ f_ih f = ((Z.of_nat (length (builtin_chars b)) + gpr - 1) / gpr) * f_ch f.
Proof. exact builtin_atlas_rows. Qed.

(* decoration offsets of the built-in fonts: underline 2 below the baseline, strikethrough at half height *)
Theorem C14_builtin_decoration_offsets : forall b,
  In b fonts ->
  let f := bf_font b in
  f_ul f = Deco (f_base f + 2) 1 /\ f_st f = Deco (f_ch f / 2) 1.
Proof. exact builtin_deco_convention. Qed.

Theorem C14_builtin_font_wf : forall b, In b fonts -> font_wf (bf_font b) /\ f_sp (bf_font b) = 0.
Proof. exact builtin_font_wf. Qed.

(* each mapped character has its own index: the n-th character of the mapping has index n *)
Theorem C14_builtin_index_nth : forall b n c,
  In b fonts -> nth_error (builtin_chars b) n = Some c -> builtin_index b c = Z.of_nat n.
Proof. exact builtin_index_nth. Qed.

Theorem C14_builtin_index_injective : forall b c1 c2,
  In b fonts -> In c1 (builtin_chars b) -> In c2 (builtin_chars b) ->
  builtin_index b c1 = builtin_index b c2 -> c1 = c2.
Proof. exact builtin_index_injective. Qed.

(* characters missing from the mapping render the replacement glyph, which is the glyph of '?' *)
Theorem C14_builtin_unmapped_is_question_mark : forall b c,
  In b fonts -> ~ In c (builtin_chars b) -> builtin_index b c = builtin_index b 63 /\ In 63 (builtin_chars b).
Proof. exact builtin_unmapped_is_question_mark. Qed.

(* the glyph bitmaps (fonts/raw files) of the tree under test are the committed reference of Proofs/FontGolden.v:
   name and FNV-1a digest of every font; c14_bi ties the same digest to font.image of the running library *)
Theorem C14_builtin_bitmaps_unchanged : map (fun b => (bf_name b, bf_digest b)) fonts = golden_bitmaps.
Proof. exact builtin_bitmaps_unchanged. Qed.

(* the translator's own walk over each mapping string agrees with the model of StrGlyphMapping::chars *)
Theorem C14_builtin_expansion_agrees : forall m, In m mappings -> bm_chars m = expand_chars (bm_raw m).
Proof. exact builtin_expansion_agrees. Qed.

(* ------------------------------------------------------------------ NULL_FONT (default font of MonoTextStyleBuilder::new()) *)
(* src/mono_font/mod.rs NULL_FONT, regenerated into Gen/FontTable.v as `null_font`: every field is zero, the atlas is
   empty, the mapping is ASCII.  It is not font_wf; the side conditions that hold are listed, and it draws nothing. *)
Theorem C14_null_font_is_zero_sized :
  bf_font null_font = Font 0 0 0 0 0 0 (Deco 0 0) (Deco 0 0) /\ bf_rawlen null_font = 0 /\
  exists m, mapping_of null_font = Some m /\ bm_name m = [65; 83; 67; 73; 73].
Proof. exact null_font_all_zero. Qed.

Theorem C14_null_font_side_conditions : forall idx atlas s text,
  let F := MFont (bf_font null_font) idx atlas in
  font_ok (bf_font null_font) /\ deco_inside (bf_font null_font) /\ index_ok F text /\
  advance_consistent (bf_font null_font) s text /\ ~ font_wf (bf_font null_font).
Proof. exact null_font_side_conditions. Qed.

Theorem C14_null_font_draws_nothing : forall idx atlas s text pos bl,
  draw_string (MFont (bf_font null_font) idx atlas) s text pos bl = ([], pos).
Proof. exact null_font_draws_nothing. Qed.

Theorem C14_null_font_text_draws_nothing : forall idx atlas s ts pos text,
  fst (text_draw (MFont (bf_font null_font) idx atlas) s ts pos text) = [].
Proof. exact null_font_text_draws_nothing. Qed.

(* any font record with character width 0 and spacing 0 behaves like this *)
Theorem C14_zero_width_font_draws_nothing : forall F s text pos b,
  f_cw (mf_geom F) = 0 -> f_sp (mf_geom F) = 0 -> draw_string F s text pos b = ([], pos).
Proof. exact draw_string_zero_width. Qed.

(* ------------------------------------------------------------------ non-vacuity *)
Example C14_example_font : mfont :=
  MFont (Font 8 6 4 3 1 2 (Deco 4 1) (Deco 1 1)) (fun c => str_index [0; 97; 100] 1 c)
        (fun x y => Z.even (x + y)).
Example C14_example_renders :
  font_ok (mf_geom C14_example_font) /\ draw_ok (mf_geom C14_example_font) (P 10 20) 2 /\
  index_ok C14_example_font [99; 120] /\
  map (render (fst (draw_string C14_example_font (CStyle (Some 7) (Some 9) DTextColor DNone) [99; 120] (P 10 20) BTop)))
      [P 10 20; P 11 20; P 14 20; P 15 20; P 16 23; P 12 24; P 19 24; P 9 20]
  = [Some 9; Some 7; Some 9; Some 7; None; Some 7; None; None]
  /\ str_index [0; 97; 100] 1 120 = 1 /\ length fonts = 292%nat.
Proof.
  split; [unfold font_ok, half; cbn; lia|]. split; [unfold draw_ok, half; cbn; lia|].
  split.
  { intros c Hc. apply glyph_index_small_ok; destruct Hc as [<-|[<-|[]]];
      repeat split; vm_compute; (reflexivity || discriminate). }
  repeat split; vm_compute; reflexivity.
Qed.
