(* C14, translator tie (glyph area): MonoFont::glyph (src/mono_font/mod.rs:100-123), regenerated from the source on every run
   by translate/r2c (coq/Gen/SrcGlyph.v).  `&dyn GlyphMapping` is the function char -> index it computes (a field of the
   generated MonoFont record), `char` is its code point, SubImage::new_unchecked just pairs the image with the area.
   The area equals Fontmodel.glyph_area of the font geometry (font_of: the generated record read as the model's flat font
   record, the atlas width is image.size().width) at the glyph index `glyph_mapping.index(c)`, when that index is a u32 and
   the corner of the glyph fits i32.  Not covered: StrGlyphMapping::index / contains / chars (`core::iter::from_fn`
   generators with captured mutable state).  Statements only (proofs: Proofs/SrcGlyph.v). *)
From EG Require Import Base.Prelude Base.Casts Model.Geometry Model.Imageraw Model.Fontmodel Model.Textmodel.
From EG Require Import Gen.SrcGeometry Gen.SrcImage Gen.SrcFont Gen.SrcText Gen.SrcGlyph Proofs.SrcText Proofs.SrcGlyph.

Theorem C14_src_glyph_is_model : forall F c ih,
  let f := font_of F (sw (ir_size (MonoFont_image F))) ih in
  let gi := MonoFont_glyph_mapping F c in
  0 <= gi <= u32_max -> 0 <= f_iw f -> 0 <= f_cw f -> 0 <= f_ch f -> gi * f_cw f <= i32_max -> gi * f_ch f <= i32_max ->
  SubImage_ImageRaw_area (src_MonoFont_glyph F c) = glyph_area f gi /\
  SubImage_ImageRaw_parent (src_MonoFont_glyph F c) = MonoFont_image F.
Proof. exact src_glyph_area_eq. Qed.

Example C14_src_nonvacuous :
  let F := Build_MonoFont (IR [] (Geometry.S 96 27) 1 false) (Geometry.S 6 9) 0 7 (Deco 4 1) (Deco 8 1) (fun c => c - 32) in
  SubImage_ImageRaw_area (src_MonoFont_glyph F 65) = R (P 6 18) (Geometry.S 6 9) /\
  SubImage_ImageRaw_area (src_MonoFont_glyph (Build_MonoFont (IR [] (Geometry.S 4 27) 1 false) (Geometry.S 6 9) 0 7 (Deco 4 1) (Deco 8 1) (fun c => c - 32)) 65) = rect_zero.
Proof. split; vm_compute; reflexivity. Qed.
