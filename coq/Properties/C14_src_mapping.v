(* C14, translator tie (glyph mapping strings): StrGlyphMapping::new / chars / contains and GlyphMapping::index
   (src/mono_font/mapping.rs), regenerated from the source on every run by translate/r2c (coq/Gen/SrcMapping.v).  `&str` is the
   list of its chars (code points).  `chars()` returns `core::iter::from_fn(move || ..).flatten()`: the generator - a closure
   over the captured `self.data.chars()` iterator, with `?` as "finished" - is translated to the list of the items it yields
   (a Fixpoint over fuel: every pull consumes at least one char), `.flatten()` over RangeInclusive<char> to Casts.char_range
   (the surrogates are no chars); `any`, `enumerate().find(..).map(..).unwrap_or(..)` are list functions.  For strings of
   chars (chars_ok: no surrogate code points, as Rust guarantees) and fuel above the length, chars / contains / index equal
   Fontmodel.expand_chars / str_contains / str_index.  Statements only (proofs: Proofs/SrcMapping.v). *)
From EG Require Import Base.Prelude Base.Casts Model.Fontmodel Gen.SrcMapping Proofs.SrcMapping.

Theorem C14_src_chars_is_model : forall F m, chars_ok (StrGlyphMapping_data m) -> (length (StrGlyphMapping_data m) < F)%nat ->
  src_StrGlyphMapping_chars F m = Some (expand_chars (StrGlyphMapping_data m)).
Proof. exact src_chars_eq. Qed.
Theorem C14_src_contains_is_model : forall F m c, chars_ok (StrGlyphMapping_data m) -> (length (StrGlyphMapping_data m) < F)%nat ->
  src_StrGlyphMapping_contains F m c = Some (str_contains (StrGlyphMapping_data m) c).
Proof. exact src_contains_eq. Qed.
Theorem C14_src_index_is_model : forall F m c, chars_ok (StrGlyphMapping_data m) -> (length (StrGlyphMapping_data m) < F)%nat ->
  src_StrGlyphMapping_index F m c = Some (str_index (StrGlyphMapping_data m) (StrGlyphMapping_replacement_index m) c).
Proof. exact src_index_eq. Qed.

(* round 5: the constructor (mapping.rs:78-83) *)
Theorem C14_src_str_glyph_mapping_new : forall data r,
  StrGlyphMapping_data (src_StrGlyphMapping_new data r) = data /\ StrGlyphMapping_replacement_index (src_StrGlyphMapping_new data r) = r.
Proof. intros. split; reflexivity. Qed.

Example C14_src_mapping_nonvacuous :
  src_StrGlyphMapping_index 10 (src_StrGlyphMapping_new [0; 97; 102; 0; 49; 52] 31) 50 = Some 7 /\
  src_StrGlyphMapping_index 10 (src_StrGlyphMapping_new [0; 97; 102; 0; 49; 52] 31) 122 = Some 31 /\
  src_StrGlyphMapping_contains 10 (src_StrGlyphMapping_new [0; 97; 102; 0; 49] 31) 49 = Some false /\
  src_StrGlyphMapping_chars 3 (src_StrGlyphMapping_new [0; 55290; 57350] 0) = Some [55290; 55291; 55292; 55293; 55294; 55295; 57344; 57345; 57346; 57347; 57348; 57349; 57350].
Proof. repeat split; vm_compute; reflexivity. Qed.
