(* C15 - Text layout: positions, alignment, baselines and line breaks are consistent.
   Statements only; proofs in Proofs/Textmodel.v (on Proofs/Fontmodel.v).

   Vocabulary (Model/Textmodel.v = src/text/text.rs line by line, with a MonoTextStyle character style):
     text_lines f s ts pos text    Text::lines(): the (line, draw position) pairs ('\n' = 10 splits, one trailing '\r' = 13 stripped)
     text_draw F s ts pos text     Drawable::draw -> (calls on the target, returned next position)
     text_bbox f s ts pos text     Dimensions::bounding_box
     measure_string f s l p b      TextRenderer::measure_string -> (bounding box, next position)
     text_line_height f ts         LineHeight::to_absolute(character height), saturating to i32
     render calls p                colour of pixel p after the calls (None = untouched)
     shift_y p d = (p.x, p.y + d);  with_base ts b = ts with baseline b;  no_nl l = '\n' does not occur in l;
     clean_line l = no_nl l and l does not end in '\r';  crlf_ok: see C15_crlf_eq_lf_lines;  line_box f s ts (l,p) = measure_string box of l at p;  join_lines l0 [(crlf1,l1);...] = l0 sep1 l1 sep2 ... with
     sep = "\r\n" if crlf else "\n";  as_lf = the same lines, every separator "\n"
     advance_consistent f s l      spacing = 0 (all built-in fonts), or a text/background colour is set, or l is empty
     font_ok / draw_ok             range conditions of C14 (fields non-negative, |coordinates| <= 2^28)  *)
From EG Require Import Base.Prelude Model.Geometry Proofs.Geometry Model.Fontmodel Proofs.Fontmodel
  Model.Textmodel Proofs.Textmodel Proofs.Textbox Gen.FontTable Model.Fontbuiltin Proofs.Fontbuiltin Proofs.Textbuiltin.

(* draw_string returns the position that measure_string predicts *)
Theorem C15_draw_returns_measured : forall F s text pos b,
  0 <= f_cw (mf_geom F) -> 0 <= f_sp (mf_geom F) -> advance_consistent (mf_geom F) s text ->
  snd (draw_string F s text pos b) = snd (measure_string (mf_geom F) s text pos b).
Proof. exact draw_returns_measured. Qed.

(* Text::draw returns what measure_string predicts for the last line at the position Text::lines gives it *)
Theorem C15_text_draw_returns_measured : forall F s ts pos text line p,
  0 <= f_cw (mf_geom F) -> 0 <= f_sp (mf_geom F) -> advance_consistent (mf_geom F) s line ->
  last_opt (text_lines (mf_geom F) s ts pos text) = Some (line, p) ->
  snd (text_draw F s ts pos text) = snd (measure_string (mf_geom F) s line p (t_base ts)).
Proof. exact text_draw_returns_measured. Qed.

(* for every built-in font (spacing 0) the hypothesis holds for every style and string *)
Theorem C15_builtin_draw_returns_measured : forall b idx atlas s text pos bl,
  In b fonts ->
  let F := MFont (bf_font b) idx atlas in
  snd (draw_string F s text pos bl) = snd (measure_string (bf_font b) s text pos bl).
Proof. exact builtin_draw_returns_measured. Qed.

(* chaining (left alignment - the only alignment for which a continuation position is meaningful -, fonts
   without spacing, s1 not ending in '\r'): draw s1, draw s2 at the returned position = draw (s1 ++ s2) *)
Theorem C15_chain_left : forall F s ts pos s1 s2 p,
  t_align ts = ALeft -> font_ok (mf_geom F) -> f_sp (mf_geom F) = 0 ->
  no_nl s1 -> no_nl s2 -> strip_cr s1 = s1 -> draw_ok (mf_geom F) pos (length (s1 ++ s2)) ->
  index_ok F (s1 ++ s2) ->
  let r1 := text_draw F s ts pos s1 in
  let r2 := text_draw F s ts (snd r1) s2 in
  let r12 := text_draw F s ts pos (s1 ++ s2) in
  snd r2 = snd r12 /\ render (fst r1 ++ fst r2) p = render (fst r12) p.
Proof. exact text_chain_left. Qed.

Theorem C15_chain_left_after_lines : forall F s ts pos a lk s2 p,
  t_align ts = ALeft -> font_ok (mf_geom F) -> f_sp (mf_geom F) = 0 ->
  no_nl lk -> no_nl s2 -> strip_cr lk = lk ->
  let pos2 := shift_y pos (Z.of_nat (length (split_nl a)) * text_line_height (mf_geom F) ts) in
  draw_ok (mf_geom F) pos2 (length (lk ++ s2)) -> index_ok F (lk ++ s2) ->
  let s1 := a ++ 10 :: lk in
  let r1 := text_draw F s ts pos s1 in
  let r2 := text_draw F s ts (snd r1) s2 in
  let r12 := text_draw F s ts pos (s1 ++ s2) in
  snd r2 = snd r12 /\ render (fst r1 ++ fst r2) p = render (fst r12) p.
Proof. exact text_chain_left_multiline. Qed.

(* alignment: the k-th line is drawn k line heights lower; its box (measure_string) starts at x (Left),
   has its last column at x (Right), or is centred on x within half a pixel (Center) *)
Theorem C15_alignment : forall f s ts pos text k line p,
  0 <= f_cw f -> 0 <= f_sp f ->
  nth_error (text_lines f s ts pos text) k = Some (line, p) ->
  let bb := fst (measure_string f s line p (t_base ts)) in
  py p = py pos + Z.of_nat k * text_line_height f ts /\
  py (tl bb) = py p - baseline_offset f (t_base ts) /\
  sw (sz bb) = line_width f (length line) /\
  match t_align ts with
  | ALeft => px (tl bb) = px pos
  | ARight => px (tl bb) + sw (sz bb) - 1 = px pos
  | ACenter => -1 <= 2 * px pos - (2 * px (tl bb) + sw (sz bb) - 1) <= 1
  end.
Proof. exact text_alignment. Qed.

Theorem C15_align_left : forall f s ts pos text k line p,
  0 <= f_cw f -> 0 <= f_sp f -> t_align ts = ALeft ->
  nth_error (text_lines f s ts pos text) k = Some (line, p) ->
  px (tl (fst (measure_string f s line p (t_base ts)))) = px pos.
Proof. exact align_left. Qed.

Theorem C15_align_right : forall f s ts pos text k line p,
  0 <= f_cw f -> 0 <= f_sp f -> t_align ts = ARight ->
  nth_error (text_lines f s ts pos text) k = Some (line, p) ->
  let bb := fst (measure_string f s line p (t_base ts)) in
  px (tl bb) + sw (sz bb) - 1 = px pos.
Proof. exact align_right. Qed.

(* twice the distance between x and the centre of the box (left + (w-1)/2) is at most 1 *)
Theorem C15_align_center : forall f s ts pos text k line p,
  0 <= f_cw f -> 0 <= f_sp f -> t_align ts = ACenter ->
  nth_error (text_lines f s ts pos text) k = Some (line, p) ->
  let bb := fst (measure_string f s line p (t_base ts)) in
  -1 <= 2 * px pos - (2 * px (tl bb) + sw (sz bb) - 1) <= 1.
Proof. exact align_center. Qed.

(* baseline: the setting moves the text up by the documented offset and changes nothing else *)
Theorem C15_baseline_shift : forall F s ts pos text,
  let bo := baseline_offset (mf_geom F) (t_base ts) in
  text_draw F s ts pos text =
  (fst (text_draw F s (with_base ts BTop) (shift_y pos (- bo)) text),
   shift_y (snd (text_draw F s (with_base ts BTop) (shift_y pos (- bo)) text)) bo).
Proof. exact text_draw_baseline. Qed.

Theorem C15_baseline_offsets : forall f b,
  font_ok f ->
  baseline_offset f b =
  match b with
  | BTop => 0
  | BBottom => Z.max 0 (f_ch f - 1)
  | BMiddle => Z.max 0 (f_ch f - 1) / 2
  | BAlphabetic => f_base f
  end.
Proof. exact baseline_offset_spec. Qed.

(* text containing '\n' = its parts drawn separately, the second (number of lines of the first) line heights lower *)
Theorem C15_newline_split : forall F s ts pos l r,
  let k := Z.of_nat (length (split_nl l)) in
  let pos2 := shift_y pos (k * text_line_height (mf_geom F) ts) in
  text_draw F s ts pos (l ++ 10 :: r) =
  (fst (text_draw F s ts pos l) ++ fst (text_draw F s ts pos2 r), snd (text_draw F s ts pos2 r)).
Proof. exact text_draw_newline_split. Qed.

(* "\r\n" behaves exactly like "\n": same lines, same draw calls, same returned position, same bounding box.
   crlf_ok l0 rest: no line contains '\n', and a line that is FOLLOWED BY "\r\n" does not itself end in '\r'
   (Text strips exactly one trailing '\r' per line, so "x\r" + "\r\n" keeps one CR: C15_crlf_needs_condition).
   Mid-line and leading '\r', and a trailing '\r' of the last line or before a plain "\n", are allowed. *)
Theorem C15_crlf_eq_lf_lines : forall f s ts pos l0 rest,
  crlf_ok l0 rest ->
  text_lines f s ts pos (join_lines l0 rest) = text_lines f s ts pos (join_lines l0 (as_lf rest)).
Proof. exact text_lines_crlf_ok. Qed.

Theorem C15_crlf_eq_lf : forall F s ts pos l0 rest,
  crlf_ok l0 rest ->
  text_draw F s ts pos (join_lines l0 rest) = text_draw F s ts pos (join_lines l0 (as_lf rest)).
Proof. exact text_draw_crlf_ok. Qed.

Theorem C15_crlf_eq_lf_bounding_box : forall f s ts pos l0 rest,
  crlf_ok l0 rest ->
  text_bbox f s ts pos (join_lines l0 rest) = text_bbox f s ts pos (join_lines l0 (as_lf rest)).
Proof. exact text_bbox_crlf_ok. Qed.

(* and the lines that are drawn are exactly the joined lines, each without one trailing '\r' *)
Theorem C15_lines_of_joined_text : forall f s ts pos l0 rest,
  crlf_ok l0 rest ->
  map fst (text_lines f s ts pos (join_lines l0 rest)) = map strip_cr (l0 :: map snd rest).
Proof. exact text_lines_of_join_ok. Qed.

(* lines that do not end in '\r' at all satisfy the condition *)
Theorem C15_clean_lines_are_crlf_ok : forall l0 rest,
  clean_line l0 -> Forall (fun bl => clean_line (snd bl)) rest -> crlf_ok l0 rest.
Proof. exact clean_crlf_ok. Qed.

(* the condition is necessary: "x\r\r\n" is not "x\r\n"; and it is not needed for the last line *)
Example C15_crlf_needs_condition :
  let f := Font 8 6 4 3 0 2 (Deco 4 1) (Deco 1 1) in
  let s := CStyle (Some 7) None DNone DNone in
  let ts := TStyle ARight BTop (LHPixels 5) in
  text_lines f s ts (P 0 0) [120; 13; 13; 10] <> text_lines f s ts (P 0 0) [120; 13; 10] /\
  ~ crlf_ok [120; 13] [(true, [])] /\
  text_lines f s ts (P 0 0) [97; 13; 98; 13; 10; 99; 100; 13] = text_lines f s ts (P 0 0) [97; 13; 98; 10; 99; 100; 13] /\
  crlf_ok [97; 13; 98] [(true, [99; 100; 13])].
Proof.
  cbn zeta. split; [vm_compute; discriminate|]. split.
  { intros (_ & H & _). specialize (H eq_refl). vm_compute in H. discriminate. }
  split; [vm_compute; reflexivity|].
  cbn [crlf_ok]. unfold no_nl. repeat split; try (vm_compute; reflexivity); cbn [In]; intuition discriminate.
Qed.

(* ------------------------------------------------------------------ exact positions, bounding box *)

(* where Text::lines puts the k-th line, exactly (fixes the rounding direction of Center: towards x for
   widths >= 1, i.e. left = x - trunc((w-1)/2)) *)
Theorem C15_line_position_exact : forall f s ts pos text k line p,
  0 <= f_cw f -> 0 <= f_sp f ->
  nth_error (text_lines f s ts pos text) k = Some (line, p) ->
  let w := line_width f (length line) in
  p = P (px pos - match t_align ts with ALeft => 0 | ARight => w - 1 | ACenter => Z.quot (w - 1) 2 end)
        (py pos + Z.of_nat k * text_line_height f ts).
Proof. exact line_position_exact. Qed.

(* Text::bounding_box is the hull of the per-line measure_string boxes: it contains each of them ... *)
Theorem C15_bbox_contains_line_boxes : forall f s ts pos text lp q,
  In lp (text_lines f s ts pos text) -> contains (line_box f s ts lp) q = true ->
  contains (text_bbox f s ts pos text) q = true.
Proof. exact text_bbox_contains_line_boxes. Qed.

(* ... and is the smallest rectangle that does (tightness) ... *)
Theorem C15_bbox_is_hull : forall f s ts pos text c,
  (forall lp q, In lp (text_lines f s ts pos text) -> contains (line_box f s ts lp) q = true -> contains c q = true) ->
  forall q, contains (text_bbox f s ts pos text) q = true -> contains c q = true.
Proof. exact text_bbox_smallest. Qed.

(* ... and without any non-empty line it is the zero-sized rectangle at the text position *)
Theorem C15_bbox_of_empty_lines : forall f s ts pos text,
  0 <= f_cw f -> 0 <= f_sp f ->
  (forall line p, In (line, p) (text_lines f s ts pos text) -> line = []) ->
  text_bbox f s ts pos text = R pos (S 0 0).
Proof. exact text_bbox_all_empty. Qed.

(* ------------------------------------------------------------------ on the property's quantifier: built-in fonts *)
Theorem C15_builtin_text_draw_returns_measured : forall b idx atlas s ts pos text line p,
  In b fonts ->
  let F := MFont (bf_font b) idx atlas in
  last_opt (text_lines (bf_font b) s ts pos text) = Some (line, p) ->
  snd (text_draw F s ts pos text) = snd (measure_string (bf_font b) s line p (t_base ts)).
Proof. exact builtin_text_draw_returns_measured. Qed.

Theorem C15_builtin_chain_left : forall b atlas s ts pos s1 s2 q,
  In b fonts ->
  let F := MFont (bf_font b) (builtin_index b) atlas in
  t_align ts = ALeft -> no_nl s1 -> no_nl s2 -> strip_cr s1 = s1 -> draw_ok (bf_font b) pos (length (s1 ++ s2)) ->
  let r1 := text_draw F s ts pos s1 in
  let r2 := text_draw F s ts (snd r1) s2 in
  let r12 := text_draw F s ts pos (s1 ++ s2) in
  snd r2 = snd r12 /\ render (fst r1 ++ fst r2) q = render (fst r12) q.
Proof. exact builtin_chain_left. Qed.

(* the crate-private NULL_FONT (default font of MonoTextStyleBuilder::new(), Gen/FontTable.v `null_font`) *)
Theorem C15_null_font_draw_returns_measured : forall idx atlas s text pos bl,
  snd (draw_string (MFont (bf_font null_font) idx atlas) s text pos bl) =
  snd (measure_string (bf_font null_font) s text pos bl).
Proof. exact null_font_draw_returns_measured. Qed.

Theorem C15_null_font_text_draw_returns_measured : forall idx atlas s ts pos text line p,
  last_opt (text_lines (bf_font null_font) s ts pos text) = Some (line, p) ->
  snd (text_draw (MFont (bf_font null_font) idx atlas) s ts pos text) =
  snd (measure_string (bf_font null_font) s line p (t_base ts)).
Proof. exact null_font_text_draw_returns_measured. Qed.

(* ------------------------------------------------------------------ non-vacuity *)
Example C15_example :
  let f := Font 8 6 4 3 0 2 (Deco 4 1) (Deco 1 1) in
  let s := CStyle (Some 7) None DNone DNone in
  let text := join_lines [97; 98] [(true, [99]); (false, [])] in
  text = [97; 98; 13; 10; 99; 10] /\
  text_lines f s (TStyle ARight BBottom (LHPercent 150)) (P 30 10) text = [([97; 98], P 23 10); ([99], P 27 14); ([], P 31 18)] /\
  text_lines f s (TStyle ACenter BTop (LHPixels 5)) (P 30 10) text = [([97; 98], P 27 10); ([99], P 29 15); ([], P 30 20)] /\
  clean_line [97; 98] /\ text_bbox f s (TStyle ARight BBottom (LHPercent 150)) (P 30 10) text = R (P 23 8) (S 8 7).
Proof. cbn zeta. repeat split; try (vm_compute; reflexivity); intros H; cbn in H; intuition discriminate. Qed.
