(* C15, translator tie: DecorationDimensions::new / get_bounding_box of src/mono_font/mod.rs (the underline and
   strikethrough boxes), regenerated from the source on every run by translate/r2c (coq/Gen/SrcFont.v), equal
   Deco / deco_box of Model/Fontmodel.v.  The offset is cast to i32 by `Point + Size`.  Statements only. *)
From EG Require Import Base.Prelude Base.Casts Model.Geometry Model.Fontmodel Gen.SrcGeometry Gen.SrcFont Proofs.SrcMisc.

Theorem C15_src_decoration_new_is_model : forall o h, src_DecorationDimensions_new o h = Deco o h.
Proof. exact src_deco_new_eq. Qed.
Theorem C15_src_decoration_box_is_model : forall d position width,
  0 <= d_off d <= i32_max -> src_DecorationDimensions_get_bounding_box d position width = deco_box d position width.
Proof. exact src_deco_box_eq. Qed.

Example C15_src_nonvacuous :
  src_DecorationDimensions_get_bounding_box (src_DecorationDimensions_default_underline 9) (P 3 4) 12 = R (P 3 14) (S 12 1).
Proof. vm_compute. reflexivity. Qed.
