(* C15, translator tie (text metrics, whitespace, lines): MonoTextStyle::measure_string / draw_decorations / draw_whitespace,
   DecorationColor::is_none / effective_color (src/mono_font/mono_text_style.rs, src/text/mod.rs) and Text::line_height /
   Text::lines (src/text/text.rs, the instance for the character style MonoTextStyle), regenerated from the source on every run
   by translate/r2c (coq/Gen/SrcTextStyle.v, coq/Gen/SrcTextLines.v).  cstyle_of / font_of read the generated records as the
   model's; the draw target is a log of Target.call, `target.fill_solid(..)` a function parameter (log_solid), fcall_of
   reads the log as Fontmodel.call.  `self.text.split('\n').map(move |line| ..)` with its captured mutable position is a
   Fixpoint by structural recursion on the raw lines.
   draw_whitespace has no model function of its own: whitespace_calls / whitespace_next (Proofs/SrcTextStyle.v) state it from
   the model's pieces (background fill_solid of width x character height at position - baseline offset, then
   Fontmodel.draw_decorations; next = position + (width.saturating_as(), 0)).
   Statements only (proofs: Proofs/SrcTextStyle.v, Proofs/SrcTextLines.v). *)
From EG Require Import Base.Prelude Base.Casts Model.Geometry Model.Imageraw Model.Fontmodel Model.Textmodel Model.Target.
From EG Require Import Gen.SrcGeometry Gen.SrcFont Gen.SrcText Gen.SrcTextStyle Gen.SrcTextLines.
From EG Require Import Proofs.SrcText Proofs.SrcTextStyle Proofs.SrcTextLines.

Theorem C15_src_measure_string_is_model : forall s text position b iw ih,
  let f := font_of (MonoTextStyle_font s) iw ih in
  Z.of_nat (length text) <= u32_max ->
  0 <= sat_sub_u32 (Z.of_nat (length text) * (f_cw f + f_sp f)) (f_sp f) <= i32_max ->
  let m := src_MonoTextStyle_measure_string s text position b in
  (TextMetrics_bounding_box m, TextMetrics_next_position m) = measure_string f (cstyle_of s) text position b.
Proof. exact src_measure_string_eq. Qed.

Theorem C15_src_draw_decorations_is_model : forall s width position log iw ih,
  let f := font_of (MonoTextStyle_font s) iw ih in
  0 <= d_off (f_st f) <= i32_max -> 0 <= d_off (f_ul f) <= i32_max ->
  let r := src_MonoTextStyle_draw_decorations log_solid s width position log in
  map fcall_of (fst r) = map fcall_of log ++ draw_decorations f (cstyle_of s) width position /\ snd r = inl tt.
Proof. exact src_draw_decorations_eq. Qed.

Theorem C15_src_draw_whitespace_spec : forall s width position b log iw ih,
  let f := font_of (MonoTextStyle_font s) iw ih in
  0 <= d_off (f_st f) <= i32_max -> 0 <= d_off (f_ul f) <= i32_max ->
  let r := src_MonoTextStyle_draw_whitespace log_solid s width position b log in
  map fcall_of (fst r) = map fcall_of log ++ whitespace_calls f (cstyle_of s) width position b /\
  snd r = inl (whitespace_next f width position).
Proof. exact src_draw_whitespace_eq. Qed.

Theorem C15_src_text_line_height_is_model : forall t iw ih,
  src_Text_MonoTextStyle_line_height t = text_line_height (font_of (MonoTextStyle_font (Text_MonoTextStyle_character_style t)) iw ih) (Text_MonoTextStyle_text_style t).
Proof. exact src_text_line_height_eq. Qed.

Theorem C15_src_text_lines_is_model : forall t iw ih,
  let f := font_of (MonoTextStyle_font (Text_MonoTextStyle_character_style t)) iw ih in
  Forall (fun raw => line_ok f (strip_cr raw)) (split_nl (Text_MonoTextStyle_text t)) ->
  src_Text_MonoTextStyle_lines t
  = text_lines f (cstyle_of (Text_MonoTextStyle_character_style t)) (Text_MonoTextStyle_text_style t) (Text_MonoTextStyle_position t) (Text_MonoTextStyle_text t).
Proof. exact src_text_lines_eq. Qed.

(* round 5: DecorationColor::is_none (mono_font/mono_text_style.rs) is the model's dcolor_is_none *)
Theorem C15_src_decoration_color_is_none_is_model : forall d, src_DecorationColor_is_none d = dcolor_is_none d.
Proof. intros []; reflexivity. Qed.

Example C15_src_style_nonvacuous :
  let font := Build_MonoFont (IR [] (Geometry.S 96 27) 1 false) (Geometry.S 6 9) 1 7 (Deco 4 1) (Deco 8 1) (fun c => c - 32) in
  let st := Build_MonoTextStyle (Some 1) (Some 0) DTextColor DNone font in
  map snd (src_Text_MonoTextStyle_lines (Build_Text_MonoTextStyle [97; 98; 13; 10; 99] (P 50 10) st (TStyle ARight BTop (LHPercent 100))))
    = [P 38 10; P 45 19] /\
  map fcall_of (fst (src_MonoTextStyle_draw_whitespace log_solid st 5 (P 0 0) BTop []))
    = [Fontmodel.FillSolid (R (P 0 0) (Geometry.S 5 9)) 0; Fontmodel.FillSolid (R (P 0 8) (Geometry.S 5 1)) 1].
Proof. split; vm_compute; reflexivity. Qed.
