(* C15 / C14, translator tie (text metrics): LineHeight::to_absolute, MonoTextStyle::line_height / baseline_offset,
   regenerated from the source on every run by translate/r2c (coq/Gen/SrcText.v), equal Model/Textmodel.v and
   Model/Fontmodel.v (font_of: the generated MonoFont record as the model's font record).  Statements only. *)
From EG Require Import Base.Prelude Base.Casts Model.Geometry Model.Imageraw Model.Fontmodel Model.Textmodel.
From EG Require Import Gen.SrcGeometry Gen.SrcFont Gen.SrcText Proofs.SrcText.
From EG Require Import Proofs.SrcHelpers.

Theorem C15_src_to_absolute_is_model : forall lh b, src_LineHeight_to_absolute lh b = to_absolute lh b.
Proof. exact src_to_absolute_eq. Qed.
Theorem C15_src_line_height_is_model : forall s iw ih,
  src_MonoTextStyle_line_height s = cs_line_height (font_of (MonoTextStyle_font s) iw ih).
Proof. exact src_line_height_eq. Qed.
Theorem C15_src_baseline_offset_is_model : forall s b iw ih,
  src_MonoTextStyle_baseline_offset s b = baseline_offset (font_of (MonoTextStyle_font s) iw ih) b.
Proof. exact src_baseline_offset_eq. Qed.

(* round 5: the decoration defaults (mono_font/mod.rs:194-204): strikethrough at half the glyph height (saturating), underline one
   row below the glyph, both one pixel high *)
Theorem C15_src_decoration_defaults : forall h,
  src_DecorationDimensions_default_strikethrough h = Deco (sat_sub_u32 h 1 / 2) 1 /\
  src_DecorationDimensions_default_underline h = Deco (h + 1) 1.
Proof. exact src_decoration_defaults. Qed.

Example C15_src_text_nonvacuous : src_LineHeight_to_absolute (LHPercent 150) 9 = 13.
Proof. vm_compute. reflexivity. Qed.
