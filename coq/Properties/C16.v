(* C16 - Rectangle operations agree with the set of points they describe.
   This file contains statements only; every proof is `exact <lemma>` from Proofs/Geometry.v.
   rect_ok / size_ok / point_ok: coordinates within +-2^29, extents within 0..2^29, the range in
   which the unbounded-Z model and the i32/u32 implementation coincide (no saturation reached). *)
From EG Require Import Base.Prelude Model.Geometry Proofs.Geometry.
From Coq Require Import Sorting.Sorted.

Theorem C16_contains_is_top_left_plus_size : forall r p,
  contains r p = true <->
  px (tl r) <= px p < px (tl r) + sw (sz r) /\ py (tl r) <= py p < py (tl r) + sh (sz r).
Proof. exact contains_spec. Qed.

Theorem C16_bottom_right : forall r,
  match bottom_right r with
  | Some br => contains r br = true /\ (forall p, contains r p = true -> px p <= px br /\ py p <= py br)
  | None => forall p, contains r p = false
  end.
Proof. exact bottom_right_spec. Qed.

(* intersection = exactly the common points, for ALL rectangles (no range hypothesis needed) *)
Theorem C16_intersection_exact : forall a b p,
  contains (intersection a b) p = contains a p && contains b p.
Proof. exact intersection_spec. Qed.

Theorem C16_intersection_zero_sized_when_disjoint : forall a b,
  size_nonneg a -> size_nonneg b ->
  (forall p, contains a p && contains b p = false) -> is_zero_sized (intersection a b) = true.
Proof. exact intersection_empty. Qed.

Theorem C16_intersection_either_order : forall a b p,
  contains (intersection a b) p = contains (intersection b a) p.
Proof. exact intersection_comm_pts. Qed.

Theorem C16_intersection_in_left : forall a b p,
  contains (intersection a b) p = true -> contains a p = true.
Proof. exact intersection_sub_l. Qed.

Theorem C16_intersection_in_right : forall a b p,
  contains (intersection a b) p = true -> contains b p = true.
Proof. exact intersection_sub_r. Qed.

(* envelope: an upper bound of both (zero extents counted as 1, as documented) and the least one *)
Theorem C16_envelope_contains_both : forall a b p,
  rect_ok a -> rect_ok b ->
  contains (widen1 a) p = true \/ contains (widen1 b) p = true -> contains (envelope a b) p = true.
Proof. exact envelope_upper. Qed.

Theorem C16_envelope_smallest : forall a b c,
  rect_ok a -> rect_ok b ->
  (forall p, contains (widen1 a) p = true \/ contains (widen1 b) p = true -> contains c p = true) ->
  forall p, contains (envelope a b) p = true -> contains c p = true.
Proof. exact envelope_least. Qed.

Theorem C16_with_corners : forall c1 c2 p,
  contains (with_corners c1 c2) p = true <->
  Z.min (px c1) (px c2) <= px p <= Z.max (px c1) (px c2) /\
  Z.min (py c1) (py c2) <= py p <= Z.max (py c1) (py c2).
Proof. exact with_corners_spec. Qed.

Theorem C16_with_center_center_identity : forall r, rect_ok r -> with_center (center r) (sz r) = r.
Proof. exact with_center_center. Qed.

Theorem C16_center_of_with_center : forall c s, size_ok s -> center (with_center c s) = c.
Proof. exact center_with_center. Qed.

Theorem C16_center_is_midpoint : forall r br,
  rect_ok r -> bottom_right r = Some br ->
  0 <= px (tl r) + px br - 2 * px (center r) <= 1 /\ 0 <= py (tl r) + py br - 2 * py (center r) <= 1.
Proof. exact center_within. Qed.

Theorem C16_anchor_point : forall r a,
  rect_ok r ->
  let w := Z.max 1 (sw (sz r)) in let h := Z.max 1 (sh (sz r)) in
  px (anchor_point r a) = px (tl r) + match ax a with AXLeft => 0 | AXCenter => (w - 1) / 2 | AXRight => w - 1 end /\
  py (anchor_point r a) = py (tl r) + match ay a with AYTop => 0 | AYCenter => (h - 1) / 2 | AYBottom => h - 1 end.
Proof. exact anchor_point_spec. Qed.

Theorem C16_resized_keeps_edge_anchor : forall r s a,
  rect_ok r -> size_ok s ->
  (ax a <> AXCenter -> px (anchor_point (resized r s a) a) = px (anchor_point r a)) /\
  (ay a <> AYCenter -> py (anchor_point (resized r s a) a) = py (anchor_point r a)).
Proof. exact resized_anchor_fixed. Qed.

Theorem C16_resized_centre_anchor_within_one : forall r s a,
  rect_ok r -> size_ok s ->
  Z.abs (px (anchor_point (resized r s a) a) - px (anchor_point r a)) <= 1 /\
  Z.abs (py (anchor_point (resized r s a) a) - py (anchor_point r a)) <= 1.
Proof. exact resized_center_near. Qed.

Theorem C16_resized_size : forall r s a, sz (resized r s a) = s.
Proof. exact resized_size. Qed.

Theorem C16_offset_grow : forall r n p,
  rect_ok r -> 0 <= n <= bound -> 0 < sw (sz r) -> 0 < sh (sz r) ->
  (contains (offset r n) p = true <->
   px (tl r) - n <= px p < px (tl r) + sw (sz r) + n /\ py (tl r) - n <= py p < py (tl r) + sh (sz r) + n).
Proof. exact offset_grow. Qed.

Theorem C16_offset_shrink : forall r n,
  rect_ok r -> 0 < n <= bound ->
  let o := offset r (- n) in
  (2 * n < sw (sz r) -> px (tl o) = px (tl r) + n /\ sw (sz o) = sw (sz r) - 2 * n) /\
  (sw (sz r) <= 2 * n -> sw (sz o) = 0) /\
  (2 * n < sh (sz r) -> py (tl o) = py (tl r) + n /\ sh (sz o) = sh (sz r) - 2 * n) /\
  (sh (sz r) <= 2 * n -> sh (sz o) = 0).
Proof. exact offset_shrink. Qed.

Theorem C16_rows_columns : forall r,
  rect_ok r ->
  rows r = (py (tl r), py (tl r) + sh (sz r)) /\ columns r = (px (tl r), px (tl r) + sw (sz r)).
Proof. exact rows_columns_spec. Qed.

Theorem C16_points_are_contained_points : forall r p, rect_ok r -> (In p (points r) <-> contains r p = true).
Proof. exact points_spec. Qed.

Theorem C16_points_row_major_sorted : forall r, rect_ok r -> StronglySorted lt_yx (points r).
Proof. exact points_sorted. Qed.

Theorem C16_points_each_once : forall r, rect_ok r -> NoDup (points r).
Proof. exact points_nodup. Qed.

Theorem C16_points_count : forall r, rect_ok r -> Z.of_nat (length (points r)) = sw (sz r) * sh (sz r).
Proof. exact points_length. Qed.

(* non-vacuity: the hypotheses are met by ordinary rectangles, and the operations compute *)
Example C16_nonvacuous :
  rect_ok (R (P (-3) 4) (S 5 0)) /\ size_nonneg (R (P 1 1) (S 4 4)) /\
  intersection (R (P 0 0) (S 4 4)) (R (P 2 1) (S 5 2)) = R (P 2 1) (S 2 2) /\
  envelope (R (P 0 0) (S 0 0)) (R (P 2 1) (S 5 2)) = R (P 0 0) (S 7 3) /\
  offset (R (P 0 0) (S 4 5)) (-2) = R (P 1 2) (S 0 1) /\
  length (points (R (P (-1) (-1)) (S 3 2))) = 6%nat.
Proof. unfold rect_ok, point_ok, size_ok, size_nonneg, bound. cbn [tl sz px py sw sh]. repeat split; try reflexivity; lia. Qed.

(* ---- added after the independent audit (round 1) ---- *)
Theorem C16_resized_width_is_resized : forall r w a,
  resized_width r w (ax a) = resized r (S w (sh (sz r))) a.
Proof. exact resized_width_is_resized. Qed.

Theorem C16_resized_height_is_resized : forall r h a,
  resized_height r h (ay a) = resized r (S (sw (sz r)) h) a.
Proof. exact resized_height_is_resized. Qed.

(* offset by n >= 0 per axis, zero extents INCLUDED (they grow to 2n around the degenerate centre,
   starting n-1 before the old position) *)
Theorem C16_offset_grow_axis : forall r n, rect_ok r -> 0 <= n <= bound ->
  let o := offset r n in
  (0 < sw (sz r) -> px (tl o) = px (tl r) - n /\ sw (sz o) = sw (sz r) + 2*n) /\
  (sw (sz r) = 0 -> 0 < n -> px (tl o) = px (tl r) - (n-1) /\ sw (sz o) = 2*n) /\
  (0 < sh (sz r) -> py (tl o) = py (tl r) - n /\ sh (sz o) = sh (sz r) + 2*n) /\
  (sh (sz r) = 0 -> 0 < n -> py (tl o) = py (tl r) - (n-1) /\ sh (sz o) = 2*n).
Proof. exact offset_grow_axis. Qed.

(* envelope is the smallest rectangle containing both, for rectangles that have points
   (C16_envelope_smallest is the general form, with zero-sized operands widened to 1x1 as documented) *)
Theorem C16_envelope_smallest_nonzero : forall a b c, rect_ok a -> rect_ok b ->
  0 < sw (sz a) -> 0 < sh (sz a) -> 0 < sw (sz b) -> 0 < sh (sz b) ->
  (forall p, contains a p = true \/ contains b p = true -> contains c p = true) ->
  forall p, contains (envelope a b) p = true -> contains c p = true.
Proof. exact envelope_least_nonzero. Qed.

Example C16_offset_zero_extent_example : offset (R (P 10 10) (S 0 3)) 2 = R (P 9 8) (S 4 7).
Proof. reflexivity. Qed.

Print Assumptions C16_contains_is_top_left_plus_size.
Print Assumptions C16_bottom_right.
Print Assumptions C16_intersection_exact.
Print Assumptions C16_intersection_zero_sized_when_disjoint.
Print Assumptions C16_intersection_either_order.
Print Assumptions C16_intersection_in_left.
Print Assumptions C16_intersection_in_right.
Print Assumptions C16_envelope_contains_both.
Print Assumptions C16_envelope_smallest.
Print Assumptions C16_with_corners.
Print Assumptions C16_with_center_center_identity.
Print Assumptions C16_center_of_with_center.
Print Assumptions C16_center_is_midpoint.
Print Assumptions C16_anchor_point.
Print Assumptions C16_resized_keeps_edge_anchor.
Print Assumptions C16_resized_centre_anchor_within_one.
Print Assumptions C16_resized_size.
Print Assumptions C16_offset_grow.
Print Assumptions C16_offset_shrink.
Print Assumptions C16_rows_columns.
Print Assumptions C16_points_are_contained_points.
Print Assumptions C16_points_row_major_sorted.
Print Assumptions C16_points_each_once.
Print Assumptions C16_points_count.
