(* C16, translator tie: the Gallina definitions that translate/r2c regenerates from the Rust source of
   Point / Size / Rectangle on every run (coq/Gen/SrcGeometry.v, one definition per Rust function, with
   file:lines and a hash of the source text) are equal to the hand-written model coq/Model/Geometry.v that
   the C16 theorems are about.  Statements only; proofs are in Proofs/SrcGeometry.v.
   size_i32 s: both extents are values of i32 (0..2^31-1); size_u32 s: both extents are values of u32.
   Where such a hypothesis appears the Rust code casts the u32 extent to i32 (`Point + Size`): beyond it the
   code fails a debug assertion (wraps in release) while the model is unbounded; C16's own theorems are
   stated for extents <= 2^29, well inside. *)
From EG Require Import Base.Prelude Base.Casts Model.Geometry Gen.SrcGeometry Proofs.SrcGeometry.

Theorem C16_src_component_min_is_model : forall a b, src_Point_component_min a b = component_min a b.
Proof. exact src_Point_component_min_eq. Qed.
Theorem C16_src_component_max_is_model : forall a b, src_Point_component_max a b = component_max a b.
Proof. exact src_Point_component_max_eq. Qed.
Theorem C16_src_point_add_is_model : forall a b, src_Point_add a b = padd a b.
Proof. exact src_Point_add_eq. Qed.
Theorem C16_src_point_sub_is_model : forall a b, src_Point_sub a b = psub a b.
Proof. exact src_Point_sub_eq. Qed.
Theorem C16_src_point_neg_is_model : forall a, src_Point_neg a = pneg a.
Proof. exact src_Point_neg_eq. Qed.
Theorem C16_src_point_add_size_is_model : forall p s, size_i32 s -> src_Point_add_Size p s = padd_size p s.
Proof. exact src_Point_add_Size_eq. Qed.
Theorem C16_src_point_sub_size_is_model : forall p s, size_i32 s -> src_Point_sub_size p s = psub_size p s.
Proof. exact src_Point_sub_size_eq. Qed.
Theorem C16_src_size_saturating_add_is_model : forall a b, src_Size_saturating_add a b = size_sat_add a b.
Proof. exact src_Size_saturating_add_eq. Qed.
Theorem C16_src_size_saturating_sub_is_model : forall a b, src_Size_saturating_sub a b = size_sat_sub a b.
Proof. exact src_Size_saturating_sub_eq. Qed.
Theorem C16_src_size_new_equal_is_model : forall v, src_Size_new_equal v = S v v.
Proof. exact src_Size_new_equal_eq. Qed.
Theorem C16_src_size_from_bounding_box_is_model : forall a b, src_Size_from_bounding_box a b = size_from_bounding_box a b.
Proof. exact src_Size_from_bounding_box_eq. Qed.

Theorem C16_src_center_offset_is_model : forall s, src_center_offset s = center_offset s.
Proof. exact src_center_offset_eq. Qed.
Theorem C16_src_overlaps_is_model : forall a1 a2 b1 b2, src_overlaps (a1, a2) (b1, b2) = overlaps a1 a2 b1 b2.
Proof. exact src_overlaps_eq. Qed.
Theorem C16_src_zero_is_model : src_Rectangle_zero = rect_zero.
Proof. exact src_Rectangle_zero_eq. Qed.
Theorem C16_src_with_corners_is_model : forall a b, src_Rectangle_with_corners a b = with_corners a b.
Proof. exact src_Rectangle_with_corners_eq. Qed.
Theorem C16_src_with_center_is_model : forall c s, size_u32 s -> src_Rectangle_with_center c s = with_center c s.
Proof. exact src_Rectangle_with_center_eq. Qed.
Theorem C16_src_center_is_model : forall r, size_u32 (sz r) -> src_Rectangle_center r = center r.
Proof. exact src_Rectangle_center_eq. Qed.
Theorem C16_src_bottom_right_is_model : forall r, size_i32 (sz r) -> src_Rectangle_bottom_right r = bottom_right r.
Proof. exact src_Rectangle_bottom_right_eq. Qed.
Theorem C16_src_contains_is_model : forall r p, size_i32 (sz r) -> src_Rectangle_contains r p = contains r p.
Proof. exact src_Rectangle_contains_eq. Qed.
Theorem C16_src_intersection_is_model : forall a b,
  size_i32 (sz a) -> size_i32 (sz b) -> src_Rectangle_intersection a b = intersection a b.
Proof. exact src_Rectangle_intersection_eq. Qed.
Theorem C16_src_anchor_x_is_model : forall r a, src_Rectangle_anchor_x r a = anchor_x_of r a.
Proof. exact src_Rectangle_anchor_x_eq. Qed.
Theorem C16_src_anchor_y_is_model : forall r a, src_Rectangle_anchor_y r a = anchor_y_of r a.
Proof. exact src_Rectangle_anchor_y_eq. Qed.
(* the source has a 9-variant AnchorPoint, the model the pair of its x()/y() components; anchor_of uses the
   translated AnchorPoint::x / AnchorPoint::y, and from_xy is their inverse *)
Theorem C16_src_anchor_point_is_model : forall r ap, src_Rectangle_anchor_point r ap = anchor_point r (anchor_of ap).
Proof. exact src_Rectangle_anchor_point_eq. Qed.
Theorem C16_src_anchor_from_xy_is_model : forall x y, anchor_of (src_AnchorPoint_from_xy x y) = A x y.
Proof. exact anchor_of_from_xy. Qed.
Theorem C16_src_envelope_is_model : forall a b, src_Rectangle_envelope a b = envelope a b.
Proof. exact src_Rectangle_envelope_eq. Qed.
Theorem C16_src_resized_width_is_model : forall r w a, src_Rectangle_resized_width r w a = resized_width r w a.
Proof. exact src_Rectangle_resized_width_eq. Qed.
Theorem C16_src_resized_height_is_model : forall r h a, src_Rectangle_resized_height r h a = resized_height r h a.
Proof. exact src_Rectangle_resized_height_eq. Qed.
Theorem C16_src_resized_is_model : forall r s ap, src_Rectangle_resized r s ap = resized r s (anchor_of ap).
Proof. exact src_Rectangle_resized_eq. Qed.
Theorem C16_src_offset_is_model : forall r n,
  size_u32 (sz r) -> i32_min <= n <= i32_max -> src_Rectangle_offset r n = offset r n.
Proof. exact src_Rectangle_offset_eq. Qed.
Theorem C16_src_rows_is_model : forall r, src_Rectangle_rows r = rows r.
Proof. exact src_Rectangle_rows_eq. Qed.
Theorem C16_src_columns_is_model : forall r, src_Rectangle_columns r = columns r.
Proof. exact src_Rectangle_columns_eq. Qed.
Theorem C16_src_is_zero_sized_is_model : forall r, src_Rectangle_is_zero_sized r = is_zero_sized r.
Proof. exact src_Rectangle_is_zero_sized_eq. Qed.

(* non-vacuity: the generated definitions compute, the hypotheses are satisfiable *)
Example C16_src_nonvacuous :
  size_i32 (S 7 8) /\
  src_Rectangle_intersection (R (P 0 0) (S 7 8)) (R (P 2 3) (S 10 7)) = R (P 2 3) (S 5 5) /\
  src_Rectangle_offset (R (P 10 20) (S 3 4)) (-1) = R (P 11 21) (S 1 2) /\
  src_Rectangle_anchor_point (R (P 20 20) (S 11 21)) AnchorPoint_BottomCenter = P 25 40.
Proof. repeat split; try (unfold i32_max; cbn; lia); vm_compute; reflexivity. Qed.
