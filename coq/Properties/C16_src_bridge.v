(* C16, translator tie (domain bridge; audit3 1.1, A2).  Six theorems of Properties/C16.v are unconditional statements about the
   exact-integer model (contains_is_top_left_plus_size, bottom_right, intersection_exact / _either_order / _in_left / _in_right);
   the source follows that model where the extents are values of i32 (`Point + Size` casts `u32 as i32`).  Here the six
   properties are stated for the GENERATED functions (coq/Gen/SrcGeometry.v) on that domain, and the domain of C16's conditional
   theorems (rect_ok: 2^29) is shown to imply it.  Statements only (proofs: Proofs/SrcBridges.v, Proofs/SrcRectFacts.v). *)
From EG Require Import Base.Prelude Base.Casts Model.Geometry Proofs.Geometry Gen.SrcGeometry Proofs.SrcGeometry Proofs.SrcRectFacts Proofs.SrcBridges.

Theorem C16_src_rect_ok_implies_src_domain : forall r, rect_ok r -> size_i32 (sz r) /\ size_u32 (sz r).
Proof. exact rect_ok_size_i32. Qed.

Theorem C16_src_intersection_extents_i32 : forall a b, size_i32 (sz a) -> size_i32 (sz b) -> size_i32 (sz (intersection a b)).
Proof. exact intersection_size_i32. Qed.

Theorem C16_src_contains_is_top_left_plus_size : forall r p, size_i32 (sz r) ->
  (src_Rectangle_contains r p = true <->
   px (tl r) <= px p < px (tl r) + sw (sz r) /\ py (tl r) <= py p < py (tl r) + sh (sz r)).
Proof. exact src_contains_spec. Qed.

Theorem C16_src_bottom_right : forall r, size_i32 (sz r) ->
  match src_Rectangle_bottom_right r with
  | Some br => src_Rectangle_contains r br = true /\ (forall p, src_Rectangle_contains r p = true -> px p <= px br /\ py p <= py br)
  | None => forall p, src_Rectangle_contains r p = false
  end.
Proof. exact src_bottom_right_spec. Qed.

Theorem C16_src_intersection_exact : forall a b p, size_i32 (sz a) -> size_i32 (sz b) ->
  src_Rectangle_contains (src_Rectangle_intersection a b) p = src_Rectangle_contains a p && src_Rectangle_contains b p.
Proof. exact src_intersection_spec. Qed.
Theorem C16_src_intersection_either_order : forall a b p, size_i32 (sz a) -> size_i32 (sz b) ->
  src_Rectangle_contains (src_Rectangle_intersection a b) p = src_Rectangle_contains (src_Rectangle_intersection b a) p.
Proof. exact src_intersection_comm_pts. Qed.
Theorem C16_src_intersection_in_left : forall a b p, size_i32 (sz a) -> size_i32 (sz b) ->
  src_Rectangle_contains (src_Rectangle_intersection a b) p = true -> src_Rectangle_contains a p = true.
Proof. exact src_intersection_sub_l. Qed.
Theorem C16_src_intersection_in_right : forall a b p, size_i32 (sz a) -> size_i32 (sz b) ->
  src_Rectangle_contains (src_Rectangle_intersection a b) p = true -> src_Rectangle_contains b p = true.
Proof. exact src_intersection_sub_r. Qed.

Example C16_src_bridge_nonvacuous :
  size_i32 (sz (R (P (-3) 4) (S 2147483647 1))) /\ src_Rectangle_contains (R (P (-3) 4) (S 2147483647 1)) (P 2147483643 4) = true /\
  src_Rectangle_contains (src_Rectangle_intersection (R (P 0 0) (S 4 4)) (R (P 2 2) (S 5 5))) (P 3 3) = true.
Proof. repeat split; vm_compute; try reflexivity; discriminate. Qed.
