(* C16, translator tie (operators and small constructors of Point / Size / Rectangle that no theorem referenced; audit3):
   core/src/geometry/point.rs, size.rs and Rectangle::new_at_origin, regenerated from the source on every run by translate/r2c
   (coq/Gen/SrcGeometry.v).  Closed forms over exact integers (as everywhere in the generated code, `+ - *` are exact and
   `/` on i32 is Z.quot); every `*_assign` operator impl (the generated definition returns the new self) equals the by-value
   operator.  Statements only (proofs: Proofs/SrcHelpers.v). *)
From EG Require Import Base.Prelude Base.Casts Model.Geometry Gen.SrcGeometry Proofs.SrcHelpers.

Theorem C16_src_point_helpers : forall a b k s,
  src_Point_swap_xy a = P (py a) (px a) /\
  src_Point_component_mul a b = P (px a * px b) (py a * py b) /\
  src_Point_component_div a b = P (Z.quot (px a) (px b)) (Z.quot (py a) (py b)) /\
  src_Point_mul_assign_i32 a k = src_Point_mul_i32 a k /\
  src_Point_div_assign_i32 a k = src_Point_div_i32 a k /\
  src_Point_add_assign_Size a s = src_Point_add_Size a s /\
  src_Point_sub_assign_Size a s = src_Point_sub_Size a s.
Proof. exact src_point_helpers. Qed.

Theorem C16_src_size_helpers : forall a b k,
  src_Size_swap_xy a = S (sh a) (sw a) /\
  src_Size_add a b = S (sw a + sw b) (sh a + sh b) /\
  src_Size_sub a b = S (sw a - sw b) (sh a - sh b) /\
  src_Size_add_assign a b = src_Size_add a b /\
  src_Size_sub_assign a b = src_Size_sub a b /\
  src_Size_component_mul a b = S (sw a * sw b) (sh a * sh b) /\
  src_Size_component_div a b = S (sw a / sw b) (sh a / sh b) /\
  src_Size_component_min a b = S (Z.min (sw a) (sw b)) (Z.min (sh a) (sh b)) /\
  src_Size_component_max a b = S (Z.max (sw a) (sw b)) (Z.max (sh a) (sh b)) /\
  src_Size_mul_assign_u32 a k = src_Size_mul_u32 a k /\
  src_Size_div_assign_u32 a k = src_Size_div_op_u32 a k.
Proof. exact src_size_helpers. Qed.

Theorem C16_src_new_at_origin_is_model : forall s, src_Rectangle_new_at_origin s = R (P 0 0) s.
Proof. exact src_rectangle_new_at_origin_eq. Qed.

Example C16_src_helpers_nonvacuous :
  src_Point_component_div (P (-7) 9) (P 2 (-2)) = P (-3) (-4) /\ src_Size_component_div (S 7 9) (S 2 4) = S 3 2 /\
  src_Point_sub_assign_Size (P 1 1) (S 3 4) = P (-2) (-3) /\ src_Size_swap_xy (S 1 2) = S 2 1.
Proof. repeat split; vm_compute; reflexivity. Qed.
