(* C16, translator tie (points iterator): rectangle::Points::new / Iterator::next of core/src/primitives/rectangle/points.rs
   (its `while` loop is generated as a Fixpoint over explicit fuel; 3 per call always suffices), regenerated from the
   source on every run by translate/r2c (coq/Gen/SrcRectPoints.v): the translated `next` driven from `Points::new(r)`
   until its first None (src_rect_points_collect n: None = the step budget n ran out before the iterator finished, so "finished"
   and "out of budget" are distinct results) yields exactly Geometry.points r when n exceeds their number, and does not finish
   otherwise.  Statement only (proof: Proofs/SrcRectPoints.v). *)
From EG Require Import Base.Prelude Base.Casts Model.Geometry Proofs.Geometry Gen.SrcGeometry Gen.SrcRectPoints Proofs.SrcRectPoints.

Theorem C16_src_rectangle_points_is_model : forall r n,
  rect_ok r ->
  src_rect_points_collect n (src_rectangle_Points_new r) = if (length (points r) <? n)%nat then Some (points r) else None.
Proof. exact src_rect_points_eq. Qed.

Example C16_src_points_nonvacuous :
  src_rect_points_collect 9 (src_rectangle_Points_new (R (P 1 2) (S 2 2))) = Some [P 1 2; P 2 2; P 1 3; P 2 3] /\
  src_rect_points_collect 4 (src_rectangle_Points_new (R (P 1 2) (S 2 2))) = None /\
  src_rect_points_collect 1 (src_rectangle_Points_new (R (P 1 2) (S 0 2))) = Some [].
Proof. repeat split; vm_compute; reflexivity. Qed.
