(* C16, translator tie (points iterator): rectangle::Points::new / Iterator::next of core/src/primitives/rectangle/points.rs
   (its `while` loop is generated as a Fixpoint over explicit fuel; 3 per call always suffices), regenerated from the
   source on every run by translate/r2c (coq/Gen/SrcRectPoints.v): driving the translated `next` from `Points::new(r)`
   yields exactly Geometry.points r, and nothing after it.  Statement only (proof: Proofs/SrcRectPoints.v). *)
From EG Require Import Base.Prelude Base.Casts Model.Geometry Proofs.Geometry Gen.SrcGeometry Gen.SrcRectPoints Proofs.SrcRectPoints.

Theorem C16_src_rectangle_points_is_model : forall r extra,
  rect_ok r ->
  src_rect_points_run (length (points r) + extra) (src_rectangle_Points_new r) = points r.
Proof. exact src_rect_points_eq. Qed.

Example C16_src_points_nonvacuous :
  src_rect_points_run 9 (src_rectangle_Points_new (R (P 1 2) (S 2 2))) = [P 1 2; P 2 2; P 1 3; P 2 3].
Proof. vm_compute. reflexivity. Qed.
