(* C16, translator tie (the trait copies): in the main crate `impl ContainsPoint / OffsetOutline / Transform for Rectangle`
   (src/primitives/rectangle/mod.rs) are separate copies of the logic of the inherent methods of core
   (core/src/primitives/rectangle/mod.rs, tied by C16_src.v): generic code (`P: OffsetOutline`, `T: Transform`, styled
   drawing) runs THESE.  They are translated on their own, regenerated from the source on every run by translate/r2c
   (coq/Gen/SrcTraitCopies.v, SrcAreas.v, SrcRrect2.v), and equal the same model functions Geometry.contains / offset /
   translate_rect.  Statements only (proofs: Proofs/SrcTraitCopies.v, Proofs/SrcAreas.v). *)
From EG Require Import Base.Prelude Base.Casts Model.Geometry Model.Rrect Model.Circle Model.Ellipse Model.Line.
From EG Require Import Gen.SrcGeometry Gen.SrcCircle Gen.SrcLine Gen.SrcRrect Gen.SrcRrect2 Gen.SrcAreas Gen.SrcTraitCopies.
From EG Require Import Proofs.SrcGeometry Proofs.SrcAreas Proofs.SrcTraitCopies.

Theorem C16_src_trait_contains_is_model : forall r p, size_i32 (sz r) -> src_Rectangle_trait_contains r p = contains r p.
Proof. exact src_trait_contains_eq. Qed.
Theorem C16_src_trait_offset_is_model : forall r n,
  size_u32 (sz r) -> i32_min <= n <= i32_max -> src_Rectangle_outline_offset r n = offset r n.
Proof. exact src_Rectangle_outline_offset_eq. Qed.
Theorem C16_src_trait_translate_is_model : forall r d, src_Rectangle_translate r d = translate_rect r d.
Proof. exact src_trait_translate_eq. Qed.
Theorem C16_src_trait_translate_mut_is_model : forall r d, src_Rectangle_trait_translate_mut r d = translate_rect r d.
Proof. exact src_trait_translate_mut_eq. Qed.

Example C16_src_trait_nonvacuous :
  src_Rectangle_trait_contains (R (P 1 1) (Geometry.S 2 2)) (P 2 2) = true /\
  src_Rectangle_trait_contains (R (P 1 1) (Geometry.S 2 2)) (P 3 2) = false /\
  src_Rectangle_outline_offset (R (P 0 0) (Geometry.S 4 4)) (-1) = R (P 1 1) (Geometry.S 2 2) /\
  src_Rectangle_trait_translate_mut (R (P 1 1) (Geometry.S 2 2)) (P 3 (-4)) = R (P 4 (-3)) (Geometry.S 2 2).
Proof. repeat split; vm_compute; reflexivity. Qed.
