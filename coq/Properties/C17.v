(* C17 - Lines connect their end points and stay on the ideal line.
   Statements only; every proof is `exact <lemma>` from Proofs/Line.v (thin lines, Line::points())
   and Proofs/Thickline.v, Proofs/ThicklineCheck.v, Proofs/ThicklineGrid.v (stroked lines, Styled<Line>::pixels()).
   line_ok l: all four coordinates within +-2^28, the range in which no value of the i32 error
   accumulator overflows (C17_line_no_overflow); the other thin-line theorems hold for the unbounded
   model without it and carry it only to say where model and machine arithmetic coincide.
   ldx/ldy = end - start per axis, sgn x = 1 if 0 <= x else -1, y_major l = |dx| <= |dy|. *)
From EG Require Import Base.Prelude Model.Geometry Model.Style Model.Line Model.Thickline
                       Proofs.Line Proofs.Thickline Proofs.ThicklineCheck Proofs.ThicklineGrid Proofs.ThicklineNoDup Proofs.ThicklineRot Proofs.ThicklineEnds.

Theorem C17_line_first : forall l, line_ok l -> hd_error (line_points l) = Some (l_start l).
Proof. intros l _. apply line_first. Qed.

Theorem C17_line_last : forall l, line_ok l -> last_opt (line_points l) = Some (l_end l).
Proof. intros l _. apply line_last. Qed.

Theorem C17_line_length : forall l, line_ok l ->
  Z.of_nat (length (line_points l)) = Z.max (Z.abs (ldx l)) (Z.abs (ldy l)) + 1.
Proof. intros l _. apply line_length. Qed.

(* step_ok l p q  :=  if y_major l then py q = py p + sgn dy /\ (px q = px p \/ px q = px p + sgn dx)
                                   else px q = px p + sgn dx /\ (py q = py p \/ py q = py p + sgn dy) *)
Theorem C17_line_step : forall l i p q, line_ok l ->
  nth_error (line_points l) i = Some p -> nth_error (line_points l) (Datatypes.S i) = Some q ->
  step_ok l p q.
Proof. intros l i p q _. apply line_step. Qed.

(* half_pixel_ok l k p (y-major case; the x-major case is symmetric), with (ox, oy) = p - start:
     oy = k * sgn dy  /\  ox = |ox| * sgn dx  /\  2 * | |ox| * |dy| - k * |dx| | <= |dy| *)
Theorem C17_line_half_pixel : forall l i p, line_ok l ->
  nth_error (line_points l) i = Some p -> half_pixel_ok l (Z.of_nat i) p.
Proof. intros l i p _. apply line_half_pixel. Qed.

(* frame-free: cross_to l p = (p - start) x (end - start); |cross| / max(|dx|,|dy|) is the distance to the
   ideal line measured along the minor axis *)
Theorem C17_line_half_pixel_cross : forall l i p, line_ok l ->
  nth_error (line_points l) i = Some p ->
  2 * Z.abs (cross_to l p) <= Z.max (Z.abs (ldx l)) (Z.abs (ldy l)).
Proof. intros l i p _. apply line_cross_half. Qed.

(* Euclidean distance to the ideal line <= 1/2:  dist^2 = cross^2 / (dx^2 + dy^2) <= 1/4 *)
Theorem C17_line_half_pixel_euclid : forall l i p, line_ok l ->
  nth_error (line_points l) i = Some p ->
  4 * (cross_to l p * cross_to l p) <= ldx l * ldx l + ldy l * ldy l.
Proof. intros l i p _. apply line_euclid_half. Qed.

(* ... and the foot of the perpendicular is on the segment, so this is the distance to the segment *)
Theorem C17_line_within_ends : forall l i p, line_ok l ->
  nth_error (line_points l) i = Some p ->
  0 <= dot_to l p <= ldx l * ldx l + ldy l * ldy l.
Proof. intros l i p _. apply line_within_ends. Qed.

Theorem C17_line_monotone : forall l i j p q, line_ok l ->
  (i <= j)%nat -> nth_error (line_points l) i = Some p -> nth_error (line_points l) j = Some q ->
  0 <= sgn (ldx l) * (px q - px p) /\ 0 <= sgn (ldy l) * (py q - py p).
Proof. intros l i j p q _. apply line_monotone. Qed.

(* the whole sequence in closed form: the k-th point is start + k*major_step + m_k*minor_step with
   m_k = (2*k*dmin + dmaj - 1) / (2*dmaj)  (k*dmin/dmaj rounded to nearest, ties towards the start) *)
Theorem C17_line_closed_form : forall l, line_ok l ->
  line_points l = map (line_pt l) (range 0 (Z.max (Z.abs (ldx l)) (Z.abs (ldy l)) + 1)).
Proof. intros l _. apply line_points_closed. Qed.

Theorem C17_line_points_translate : forall l d,
  line_points (translate_line l d) = map (fun p => padd p d) (line_points l).
Proof. exact line_points_translate. Qed.

(* Line::with_delta (start, delta) and Line::delta are inverse to each other *)
Theorem C17_line_with_delta_delta : forall l, with_delta (l_start l) (line_delta l) = l.
Proof. exact with_delta_delta. Qed.

Theorem C17_line_delta_with_delta : forall s d,
  line_delta (with_delta s d) = d /\ l_start (with_delta s d) = s.
Proof. exact delta_with_delta. Qed.

(* under line_ok every value Points::new / Bresenham::next computes fits its machine type
   (bstates = the iterator states before each call of next; err_after_test = the value of `error`
   between the threshold test and the major step) *)
Theorem C17_line_no_overflow : forall l st, line_ok l ->
  In st (bstates (bparams_new l) (BS (l_start l) 0) (Z.to_nat (major_length l))) ->
  let p := bparams_new l in
  i32 (ldx l) /\ i32 (ldy l) /\ i32 (error_threshold p) /\ i32 (error_step_major p) /\ i32 (error_step_minor p) /\
  0 <= major_length l <= 4294967295 /\
  i32 (b_error st) /\ i32 (err_after_test p st).
Proof. exact line_no_overflow. Qed.

(* ======================================================================================== *)
(* Stroked lines: Styled<Line>::pixels() = StyledPixelsIterator over ThickPoints (Model/Thickline.v).
   thick_points l w : option (list point) is the ThickPoints iterator for `ThickPoints::new(l, w)` as the list
   it yields (None = the model's fuel ran out: C17_thick_terminates shows it never does);
   styled_line_pixels l st pairs it with the effective stroke colour; colored c ps = map (fun p => (p, c)) ps. *)

(* width 1 = Line::points(), in the same order *)
Theorem C17_thick_w1_is_points : forall l st c,
  stroke_color st = Some c -> stroke_width st = 1 ->
  styled_line_pixels l st = Some (colored c (line_points l)).
Proof. exact styled_w1_is_points. Qed.

(* width 0 or no stroke colour: nothing is drawn *)
Theorem C17_thick_w0_draws_nothing : forall l st,
  stroke_color st = None \/ stroke_width st = 0 -> styled_line_pixels l st = Some [].
Proof. exact styled_no_stroke. Qed.

Theorem C17_thick_points_w0_empty : forall l, thick_points l 0 = Some [].
Proof. exact thick_w0_empty. Qed.

(* a stroked line of any width >= 1 contains the thin line: its first major_length pixels ARE Line::points() *)
Theorem C17_thick_starts_with_thin : forall l st c,
  stroke_color st = Some c -> 1 <= stroke_width st ->
  exists rest, styled_line_pixels l st = Some (colored c (line_points l) ++ rest).
Proof. exact styled_starts_with_thin. Qed.

Theorem C17_thick_contains_thin : forall l w ps p,
  1 <= w -> thick_points l w = Some ps -> In p (line_points l) -> In p ps.
Proof. exact thick_contains_thin. Qed.

(* termination: ParallelsIterator yields at most 3w+2 parallels for every line, every width and every stroke
   offset (so the model's fuel 4w+8 never runs out), hence at most (3w+2) * (max(|dx|,|dy|)+1) pixels *)
Theorem C17_thick_parallels_bound : forall l w so, 0 <= w ->
  exists ps, parallels l w so = Some ps /\ Z.of_nat (length ps) <= 3 * w + 2.
Proof. exact parallels_total. Qed.

Theorem C17_thick_terminates : forall l st, 0 <= stroke_width st ->
  exists pcs, styled_line_pixels l st = Some pcs /\
              Z.of_nat (length pcs) <= (3 * Z.min (stroke_width st) i32_max + 2) * major_length l.
Proof. exact styled_total. Qed.

(* the stroke moves with the line *)
Theorem C17_thick_points_translate : forall l d w,
  thick_points (translate_line l d) w = option_map (shift d) (thick_points l w).
Proof. exact thick_points_translate. Qed.

(* no pixel twice -- ALL lines, ALL widths (the model's fuel never runs out, C17_thick_terminates, so `= Some ps` is
   the iterator's output).  Proof: every parallel, Normal or Extra, lies in its own band of the cross product,
   2*(A x B)*cross in (j*a - D, j*a + D] with a = +-2*dmaj and a different j for every parallel (Proofs/ThicklineNoDup.v) *)
Theorem C17_thick_no_duplicate : forall l w ps, thick_points l w = Some ps -> NoDup ps.
Proof. exact thick_points_NoDup. Qed.

(* a coarse bound on the distance to the ideal line for ALL (non-degenerate) lines and widths:
   2 |cross| <= (6w+5) * dmaj <= (6w+5) * len, i.e. distance <= 3w + 2.5.
   `_partial`: the property's bound w/2 + 2.5 is FALSE from width 34 on (C17_thick_distance_refuted, finding
   K17_wide_stroke); for w <= 33 it is OPEN beyond the grid theorem below *)
Theorem C17_thick_distance_partial : forall l w ps p, 0 <= w -> 1 <= ldmaj l ->
  thick_points l w = Some ps -> In p ps -> 2 * Z.abs (cross_to l p) <= (6 * w + 5) * ldmaj l.
Proof. exact thick_points_strip. Qed.

(* finding K17_wide_stroke, machine checked on the model: Line (0,0)-(24,11), stroke 34 paints (12,-16),
   19.55 px from the ideal line, more than w/2 + 2.5 = 19.5 *)
Definition K17_wide_stroke (w : Z) : bool := 34 <=? w.
Theorem C17_thick_distance_refuted : exists l w ps p,
  K17_wide_stroke w = true /\ thick_points l w = Some ps /\ In p ps /\ ~ dist_ok l w p.
Proof. exact thick_distance_refuted. Qed.

(* at most one pixel beyond the two ends -- ALL lines, ALL widths; in fact at most half a major step:
   -dmaj <= 2 * dot  and  2 * (dot - len^2) <= dmaj, dot = (p - start).(end - start), i.e. the projection of every pixel
   onto the line lies within dmaj / (2 len) <= 1/2 pixel of the segment.  ends_ok l p (Proofs/ThicklineCheck.v) is the
   property's form: (0 <= dot \/ dot^2 <= len^2) /\ (dot <= len^2 \/ (dot - len^2)^2 <= len^2). *)
Theorem C17_thick_within_ends : forall l w ps p,
  thick_points l w = Some ps -> In p ps ->
  - ldmaj l <= 2 * dot_to l p /\ 2 * (dot_to l p - (ldx l * ldx l + ldy l * ldy l)) <= ldmaj l.
Proof. exact thick_points_ends. Qed.

Theorem C17_thick_within_one_pixel_of_ends : forall l w ps p,
  thick_points l w = Some ps -> In p ps -> ends_ok l p.
Proof. exact thick_points_ends_ok. Qed.

(* rotation by 90 degrees, rot (x, y) = (-y, x): for every line that is neither axis-parallel nor diagonal the stroke of
   the rotated line is the rotated stroke, same order (reflections and reversal do not commute with stroking) *)
Theorem C17_thick_points_rot : forall l w, generic l ->
  thick_points (rot_line l) w = option_map (map rot) (thick_points l w).
Proof. exact thick_points_rot. Qed.

(* The remaining clauses -- within w/2 + 2.5 pixels of the ideal line, at most one pixel beyond
   the two ends, at least w - 1 pixels wide at the middle -- for every line of the property's quantifier
   domain: |dx|, |dy| <= 24 (all pairs of end points of the grid [-12,12]^2, and all their translates anywhere
   in the plane) and stroke widths 0..16 (the sweep runs over one quadrant of deltas plus the axis-parallel and
   diagonal lines; the other quadrants follow by the rotation equivariance C17_thick_points_rot).  thick_ok (Proofs/ThicklineCheck.v):
     exists ps, thick_points l w = Some ps /\ NoDup ps /\
       (forall p, In p ps -> 4 cross^2 <= (w+5)^2 len^2                       (dist_ok)
                          /\ -len <= dot/len <= len + 1)                       (ends_ok)
       /\ (2 <= w -> two pixels projecting within 1 px of the midpoint lie (w-2) pixel distances apart across the line)
   `_partial`: proved by computation on this finite domain, not for arbitrarily long lines / wide strokes
   (OPEN, see Proofs/ThicklineCheck.v); beyond it the clauses are searched on the implementation (p_thick). *)
Theorem C17_thick_grid_partial : forall l w,
  -24 <= ldx l <= 24 -> -24 <= ldy l <= 24 -> 0 <= w <= 16 -> thick_ok l w.
Proof. exact thick_ok_grid. Qed.

Example C17_nonvacuous :
  line_ok (L (P 1 2) (P 5 4)) /\
  line_points (L (P 1 2) (P 5 4)) = [P 1 2; P 2 2; P 3 3; P 4 3; P 5 4].
Proof. split; [unfold line_ok, lpoint_ok, lbound; cbn; lia | vm_compute; reflexivity]. Qed.

Example C17_thick_nonvacuous :
  thick_points (L (P 0 0) (P 5 2)) 3 =
  Some [P 0 0; P 1 0; P 2 1; P 3 1; P 4 2; P 5 2; P 0 (-1); P 1 (-1); P 2 0; P 3 0; P 4 1; P 5 1;
        P 0 1; P 1 1; P 2 2; P 3 2; P 4 3; P 5 3].
Proof. vm_compute. reflexivity. Qed.
