(* C17 - Lines connect their end points and stay on the ideal line.
   Statements only; every proof is `exact <lemma>` from Proofs/Line.v (thin lines, Line::points())
   and Proofs/Thickline.v (stroked lines, Styled<Line>::pixels()).
   line_ok l: all four coordinates within +-2^28, the range in which no value of the i32 error
   accumulator overflows (C17_line_no_overflow); the other thin-line theorems hold for the unbounded
   model without it and carry it only to say where model and machine arithmetic coincide.
   ldx/ldy = end - start per axis, sgn x = 1 if 0 <= x else -1, y_major l = |dx| <= |dy|. *)
From EG Require Import Base.Prelude Model.Geometry Model.Style Model.Line Proofs.Line.

Theorem C17_line_first : forall l, line_ok l -> hd_error (line_points l) = Some (l_start l).
Proof. intros l _. apply line_first. Qed.

Theorem C17_line_last : forall l, line_ok l -> last_opt (line_points l) = Some (l_end l).
Proof. intros l _. apply line_last. Qed.

Theorem C17_line_length : forall l, line_ok l ->
  Z.of_nat (length (line_points l)) = Z.max (Z.abs (ldx l)) (Z.abs (ldy l)) + 1.
Proof. intros l _. apply line_length. Qed.

(* step_ok l p q  :=  if y_major l then py q = py p + sgn dy /\ (px q = px p \/ px q = px p + sgn dx)
                                   else px q = px p + sgn dx /\ (py q = py p \/ py q = py p + sgn dy) *)
Theorem C17_line_step : forall l i p q, line_ok l ->
  nth_error (line_points l) i = Some p -> nth_error (line_points l) (Datatypes.S i) = Some q ->
  step_ok l p q.
Proof. intros l i p q _. apply line_step. Qed.

(* half_pixel_ok l k p (y-major case; the x-major case is symmetric), with (ox, oy) = p - start:
     oy = k * sgn dy  /\  ox = |ox| * sgn dx  /\  2 * | |ox| * |dy| - k * |dx| | <= |dy| *)
Theorem C17_line_half_pixel : forall l i p, line_ok l ->
  nth_error (line_points l) i = Some p -> half_pixel_ok l (Z.of_nat i) p.
Proof. intros l i p _. apply line_half_pixel. Qed.

(* frame-free: cross_to l p = (p - start) x (end - start); |cross| / max(|dx|,|dy|) is the distance to the
   ideal line measured along the minor axis *)
Theorem C17_line_half_pixel_cross : forall l i p, line_ok l ->
  nth_error (line_points l) i = Some p ->
  2 * Z.abs (cross_to l p) <= Z.max (Z.abs (ldx l)) (Z.abs (ldy l)).
Proof. intros l i p _. apply line_cross_half. Qed.

(* Euclidean distance to the ideal line <= 1/2:  dist^2 = cross^2 / (dx^2 + dy^2) <= 1/4 *)
Theorem C17_line_half_pixel_euclid : forall l i p, line_ok l ->
  nth_error (line_points l) i = Some p ->
  4 * (cross_to l p * cross_to l p) <= ldx l * ldx l + ldy l * ldy l.
Proof. intros l i p _. apply line_euclid_half. Qed.

(* ... and the foot of the perpendicular is on the segment, so this is the distance to the segment *)
Theorem C17_line_within_ends : forall l i p, line_ok l ->
  nth_error (line_points l) i = Some p ->
  0 <= dot_to l p <= ldx l * ldx l + ldy l * ldy l.
Proof. intros l i p _. apply line_within_ends. Qed.

Theorem C17_line_monotone : forall l i j p q, line_ok l ->
  (i <= j)%nat -> nth_error (line_points l) i = Some p -> nth_error (line_points l) j = Some q ->
  0 <= sgn (ldx l) * (px q - px p) /\ 0 <= sgn (ldy l) * (py q - py p).
Proof. intros l i j p q _. apply line_monotone. Qed.

(* the whole sequence in closed form: the k-th point is start + k*major_step + m_k*minor_step with
   m_k = (2*k*dmin + dmaj - 1) / (2*dmaj)  (k*dmin/dmaj rounded to nearest, ties towards the start) *)
Theorem C17_line_closed_form : forall l, line_ok l ->
  line_points l = map (line_pt l) (range 0 (Z.max (Z.abs (ldx l)) (Z.abs (ldy l)) + 1)).
Proof. intros l _. apply line_points_closed. Qed.

Theorem C17_line_points_translate : forall l d,
  line_points (translate_line l d) = map (fun p => padd p d) (line_points l).
Proof. exact line_points_translate. Qed.

(* under line_ok every value Points::new / Bresenham::next computes fits its machine type
   (bstates = the iterator states before each call of next; err_after_test = the value of `error`
   between the threshold test and the major step) *)
Theorem C17_line_no_overflow : forall l st, line_ok l ->
  In st (bstates (bparams_new l) (BS (l_start l) 0) (Z.to_nat (major_length l))) ->
  let p := bparams_new l in
  i32 (ldx l) /\ i32 (ldy l) /\ i32 (error_threshold p) /\ i32 (error_step_major p) /\ i32 (error_step_minor p) /\
  0 <= major_length l <= 4294967295 /\
  i32 (b_error st) /\ i32 (err_after_test p st).
Proof. exact line_no_overflow. Qed.

Example C17_nonvacuous :
  line_ok (L (P 1 2) (P 5 4)) /\
  line_points (L (P 1 2) (P 5 4)) = [P 1 2; P 2 2; P 3 3; P 4 3; P 5 4].
Proof. split; [unfold line_ok, lpoint_ok, lbound; cbn; lia | vm_compute; reflexivity]. Qed.
