(* C17 - Lines connect their end points and stay on the ideal line.
   Statements only; every proof is `exact <lemma>` from Proofs/Line.v (thin lines, Line::points())
   and Proofs/Thickline.v (stroked lines, Styled<Line>::pixels()).
   line_ok l: all four coordinates within +-2^28, the range in which no value of the i32 error
   accumulator overflows (C17_line_no_overflow); the other thin-line theorems hold for the unbounded
   model without it and carry it only to say where model and machine arithmetic coincide.
   ldx/ldy = end - start per axis, sgn x = 1 if 0 <= x else -1, y_major l = |dx| <= |dy|. *)
From EG Require Import Base.Prelude Model.Geometry Model.Style Model.Line Proofs.Line.

Theorem C17_line_first : forall l, line_ok l -> hd_error (line_points l) = Some (l_start l).
Proof. intros l _. apply line_first. Qed.

Theorem C17_line_last : forall l, line_ok l -> last_opt (line_points l) = Some (l_end l).
Proof. intros l _. apply line_last. Qed.

Theorem C17_line_length : forall l, line_ok l ->
  Z.of_nat (length (line_points l)) = Z.max (Z.abs (ldx l)) (Z.abs (ldy l)) + 1.
Proof. intros l _. apply line_length. Qed.

(* step_ok l p q  :=  if y_major l then py q = py p + sgn dy /\ (px q = px p \/ px q = px p + sgn dx)
                                   else px q = px p + sgn dx /\ (py q = py p \/ py q = py p + sgn dy) *)
Theorem C17_line_step : forall l i p q, line_ok l ->
  nth_error (line_points l) i = Some p -> nth_error (line_points l) (Datatypes.S i) = Some q ->
  step_ok l p q.
Proof. intros l i p q _. apply line_step. Qed.

(* half_pixel_ok l k p (y-major case; the x-major case is symmetric), with (ox, oy) = p - start:
     oy = k * sgn dy  /\  ox = |ox| * sgn dx  /\  2 * | |ox| * |dy| - k * |dx| | <= |dy| *)
Theorem C17_line_half_pixel : forall l i p, line_ok l ->
  nth_error (line_points l) i = Some p -> half_pixel_ok l (Z.of_nat i) p.
Proof. intros l i p _. apply line_half_pixel. Qed.

Example C17_nonvacuous :
  line_ok (L (P 1 2) (P 5 4)) /\
  line_points (L (P 1 2) (P 5 4)) = [P 1 2; P 2 2; P 3 3; P 4 3; P 5 4].
Proof. split; [unfold line_ok, lpoint_ok, lbound; cbn; lia | vm_compute; reflexivity]. Qed.
