(* C17, translator tie: src/primitives/line/bresenham.rs (BresenhamParameters::new, mirror_extra_points, Bresenham::new /
   next / next_all / previous_all as state-passing step functions, major_length), regenerated from the source on every
   run by translate/r2c (coq/Gen/SrcLine.v), equals Model/Line.v and Model/Thickline.v.
   bp_of, bs_of, bpt_of (Proofs/SrcLine.v) convert the generated Records that mirror the Rust structs (nested
   MajorMinor<i32> / MajorMinor<Point>) field by field into the flat model records.
   A `&mut self` method m is translated to  src_m self args = (self after the call, result).  Statements only. *)
From EG Require Import Base.Prelude Base.Casts Model.Geometry Model.Line Model.Thickline.
From EG Require Import Gen.SrcGeometry Gen.SrcJoin Gen.SrcLine Proofs.SrcLine.

Theorem C17_src_bresenham_parameters_new_is_model : forall l, bp_of (src_BresenhamParameters_new l) = bparams_new l.
Proof. exact src_bparams_new_eq. Qed.
Theorem C17_src_mirror_extra_points_is_model : forall p,
  src_BresenhamParameters_mirror_extra_points p = mirror_extra_points (bp_of p).
Proof. exact src_mirror_extra_points_eq. Qed.
Theorem C17_src_bresenham_new_is_model : forall p, bs_of (src_Bresenham_new p) = BS p 0.
Proof. exact src_bresenham_new_eq. Qed.
Theorem C17_src_bresenham_next_is_model : forall s p,
  (snd (src_Bresenham_next s p), bs_of (fst (src_Bresenham_next s p))) = bnext (bp_of p) (bs_of s).
Proof. exact src_bnext_eq. Qed.
Theorem C17_src_bresenham_next_all_is_model : forall s p,
  (bpt_of (snd (src_Bresenham_next_all s p)), bs_of (fst (src_Bresenham_next_all s p))) = bnext_all (bp_of p) (bs_of s).
Proof. exact src_bnext_all_eq. Qed.
Theorem C17_src_bresenham_previous_all_is_model : forall s p,
  (bpt_of (snd (src_Bresenham_previous_all s p)), bs_of (fst (src_Bresenham_previous_all s p))) = bprevious_all (bp_of p) (bs_of s).
Proof. exact src_bprevious_all_eq. Qed.
Theorem C17_src_major_length_is_model : forall l,
  i32_min <= px (l_start l) <= i32_max -> i32_min <= py (l_start l) <= i32_max ->
  i32_min <= px (l_end l) <= i32_max -> i32_min <= py (l_end l) <= i32_max ->
  src_major_length l = major_length l.
Proof. exact src_major_length_eq. Qed.

Theorem C17_src_side_swap_is_model : forall s, src_LineSide_swap s = side_swap s.
Proof. exact src_side_swap_eq. Qed.
Theorem C17_src_perpendicular_is_model : forall l, src_Line_perpendicular l = Thickline.perpendicular l.
Proof. exact src_perpendicular_eq. Qed.
Theorem C17_src_line_bounding_box_is_model : forall l, src_Line_bounding_box l = with_corners (l_start l) (l_end l).
Proof. exact src_line_bounding_box_eq. Qed.
Theorem C17_src_line_translate_is_model : forall l d, src_Line_translate l d = translate_line l d.
Proof. exact src_line_translate_eq. Qed.

Example C17_src_nonvacuous :
  let p := src_BresenhamParameters_new (L (P 0 0) (P 5 2)) in
  let s1 := src_Bresenham_next (src_Bresenham_new (P 0 0)) p in
  let s2 := src_Bresenham_next (fst s1) p in
  let s3 := src_Bresenham_next (fst s2) p in
  (snd s1, snd s2, snd s3) = (P 0 0, P 1 0, P 2 1) /\ src_major_length (L (P 0 0) (P 5 2)) = 6.
Proof. split; vm_compute; reflexivity. Qed.
