(* C17, translator tie (thick line part): increase_error / decrease_error (`&mut i32` parameters: the generated
   definitions return (new error, result)), ParallelsIterator::next_parallel / new / Iterator::next of
   src/primitives/line/thick_points.rs and line::Points of src/primitives/line/points.rs, regenerated from the source on
   every run by translate/r2c (coq/Gen/SrcThick.v), equal Model/Thickline.v and Model/Line.v.
   Functions with a loop are generated with explicit fuel, like the model; ps_of / np_of / step_of (Proofs/SrcThick.v)
   convert the generated records and results field by field.  Statements only. *)
From EG Require Import Base.Prelude Base.Casts Model.Geometry Model.Line Model.Thickline.
From EG Require Import Gen.SrcGeometry Gen.SrcJoin Gen.SrcLine Gen.SrcThick Proofs.SrcLine Proofs.SrcThick.

Theorem C17_src_increase_error_is_model : forall p e, src_BresenhamParameters_increase_error p e = increase_error (bp_of p) e.
Proof. exact src_increase_error_eq. Qed.
Theorem C17_src_decrease_error_is_model : forall p e, src_BresenhamParameters_decrease_error p e = decrease_error (bp_of p) e.
Proof. exact src_decrease_error_eq. Qed.
Theorem C17_src_next_parallel_is_model : forall fuel s sd,
  option_map np_of (src_ParallelsIterator_next_parallel fuel s sd) = next_parallel fuel (ps_of s) sd.
Proof. exact src_next_parallel_eq. Qed.
Theorem C17_src_parallels_new_is_model : forall l thickness so,
  option_map ps_of (src_ParallelsIterator_new np_fuel l thickness so) = parallels_new l thickness so.
Proof. exact src_parallels_new_eq. Qed.
Theorem C17_src_parallels_next_is_model : forall s, step_of (src_ParallelsIterator_next np_fuel s) = parallels_next (ps_of s).
Proof. exact src_parallels_next_eq. Qed.
(* line::Points: driving the translated `next` from Points::new(l) yields the model's list (and stays exhausted) *)
Theorem C17_src_line_points_is_model : forall l extra,
  i32_min <= px (l_start l) <= i32_max -> i32_min <= py (l_start l) <= i32_max ->
  i32_min <= px (l_end l) <= i32_max -> i32_min <= py (l_end l) <= i32_max ->
  src_line_points_run (Z.to_nat (major_length l) + extra) (src_line_Points_new l) = line_points l.
Proof. exact src_line_points_eq. Qed.

Example C17_src_thick_nonvacuous :
  src_line_points_run 10 (src_line_Points_new (L (P 0 0) (P 3 1))) = [P 0 0; P 1 0; P 2 1; P 3 1] /\
  option_map (fun s => ParallelsIterator_thickness_accumulator s) (src_ParallelsIterator_new np_fuel (L (P 0 0) (P 5 2)) 3 SONone) <> None.
Proof. split; vm_compute; [reflexivity|discriminate]. Qed.
