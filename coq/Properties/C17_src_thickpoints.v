(* C17, translator tie (ThickPoints): driving the generated ThickPoints::next (src/primitives/line/thick_points.rs, a `loop`
   over the ParallelsIterator: a Fixpoint over explicit fuel) from ThickPoints::new(l, w) yields the points of the model's
   parallels in order: for S0 = parallels_new l w and ps = the list parallels_run yields from S0, the first K answers are
   firstn K (flat_map (points of each parallel) ps) - and thick_points l w is by definition that flat_map
   (C17_src_thick_points_unfold).  Per-call fuel: more than the number of parallels + 1; line endpoints are values of i32.
   Statements only (proofs: Proofs/SrcThickPoints.v). *)
From EG Require Import Base.Prelude Base.Casts Model.Geometry Model.Style Model.Line Model.Thickline Proofs.Thickline.
From EG Require Import Gen.SrcGeometry Gen.SrcThick Proofs.SrcThickPoints.

Theorem C17_src_thick_points_is_model : forall l w S0 ps n F K,
  i32_min <= px (l_start l) <= i32_max -> i32_min <= py (l_start l) <= i32_max ->
  i32_min <= px (l_end l) <= i32_max -> i32_min <= py (l_end l) <= i32_max ->
  parallels_new l w SONone = Some S0 -> parallels_run n S0 = Some ps -> (length ps + 1 < F)%nat ->
  exists s0, src_ThickPoints_new F l w = Some s0 /\
             src_thick_run K F s0 = Some (firstn K (flat_map (par_points (bparams_new (eff_line l)) (major_length l)) ps)).
Proof. exact src_thick_points_run. Qed.

Theorem C17_src_thick_points_unfold : forall l w S0 ps,
  parallels_new l w SONone = Some S0 -> parallels_run (parallels_fuel l w) S0 = Some ps ->
  thick_points l w = Some (flat_map (par_points (bparams_new (eff_line l)) (major_length l)) ps).
Proof. exact thick_points_unfold. Qed.

(* round 5: line::Points::empty (thick_points.rs / points.rs) yields nothing and stays empty *)
Theorem C17_src_line_points_empty_yields_nothing :
  src_line_Points_next src_line_Points_empty = (src_line_Points_empty, None) /\ line_Points_points_remaining src_line_Points_empty = 0.
Proof. split; vm_compute; reflexivity. Qed.

Example C17_src_thickpoints_nonvacuous :
  match src_ThickPoints_new 30 (L (P 0 0) (P 3 0)) 2 with
  | Some s0 => src_thick_run 20 30 s0 = thick_points (L (P 0 0) (P 3 0)) 2
  | None => False
  end /\ thick_points (L (P 0 0) (P 3 0)) 2 = Some [P 0 0; P 1 0; P 2 0; P 3 0; P 0 (-1); P 1 (-1); P 2 (-1); P 3 (-1)].
Proof. split; vm_compute; reflexivity. Qed.
