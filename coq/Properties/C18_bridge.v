(* C18 bridges between separately built models (statements only; proofs in Proofs/Rrectbridge.v).
   The rounded-rectangle model carries a private copy of the ellipse test; it IS Model/Ellipse.v's ellipse_contains, so the
   clause "a rounded rectangle with even sides and every radius half a side equals the ellipse" concludes about the same
   ellipse model the C05 / C06 / C18 ellipse theorems are about. *)
From EG Require Import Base.Prelude Model.Geometry Model.Style Model.Circle Model.Ellipse Model.Rrect
  Proofs.Geometry Proofs.Rrect Proofs.Rrectbridge.

Theorem C18_bridge_rr_ellipse_contains_is_ellipse_contains : forall t s p,
  rr_ellipse_contains t s p = Ellipse.ellipse_contains (Ell t s) p.
Proof. exact rr_ellipse_contains_eq. Qed.

Theorem C18_rrect_half_eq_ellipse_model : forall t a b p,
  point_ok t -> 0 <= 2 * a <= bound -> 0 <= 2 * b <= bound ->
  rr_contains (RR (R t (S (a * 2) (b * 2))) (radii_equal (S a b))) p =
  Ellipse.ellipse_contains (Ell t (S (a * 2) (b * 2))) p.
Proof. exact rr_half_eq_ellipse_model. Qed.

Example C18_bridge_example :
  rr_contains (RR (R (P 0 0) (S 6 4)) (radii_equal (S 3 2))) (P 0 0) = false /\
  Ellipse.ellipse_contains (Ell (P 0 0) (S 6 4)) (P 0 0) = false /\
  rr_contains (RR (R (P 0 0) (S 6 4)) (radii_equal (S 3 2))) (P 1 0) = Ellipse.ellipse_contains (Ell (P 0 0) (S 6 4)) (P 1 0).
Proof. repeat split; reflexivity. Qed.
