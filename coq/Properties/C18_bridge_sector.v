(* C18, clauses "a sector sweeping 360 degrees or more equals the circle and such an arc equals the circle's
   one-pixel inside ring", stated against the CIRCLE family's model (Model/Circle.v: circle_points is the scanline
   iterator of circle/points.rs, circle_contains / circle_offset those of circle/mod.rs), not against the sector
   model's private copies.  |sweep| >= 360 deg -> OpEntirePlane is the first clause of trig_hypothesis
   (Proofs/Sectorangle.v), tested by p_entire / p_trig_*.  Statements only; proofs in Proofs/Sectorbridge.v. *)
From EG Require Import Base.Prelude Model.Geometry Model.Circle Model.Sectormodel Proofs.Circle Proofs.Sectorbridge.

Theorem C18_sector_full_eq_circle_points : forall s,
  circle_ok (Circ (se_tl s) (se_d s)) -> ps_op (se_ps s) = OpEntirePlane ->
  se_points s = circle_points (Circ (se_tl s) (se_d s)).
Proof. exact sector_full_eq_circle_points. Qed.

Theorem C18_arc_full_eq_circle_ring : forall a,
  circle_ok (Circ (ar_tl a) (ar_d a)) -> ps_op (ar_ps a) = OpEntirePlane ->
  ar_points a =
  filter (fun p => negb (circle_contains (circle_offset (Circ (ar_tl a) (ar_d a)) (-1)) p))
         (circle_points (Circ (ar_tl a) (ar_d a))).
Proof. exact arc_full_eq_circle_ring. Qed.

(* the sector model's circle functions ARE the circle model's *)
Theorem C18_sector_circle_copy_is_circle : forall c p n,
  sc_contains c p = circle_contains (circle_of c) p /\
  circle_of (sc_offset c n) = circle_offset (circle_of c) n /\
  sc_bbox c = circle_bbox (circle_of c).
Proof. intros c p n. repeat split. Qed.

Example C18_bridge_sector_example :
  se_points (Sec (P 2 (-1)) 7 (PS (P 0 1024) (P 0 1024) OpEntirePlane)) = circle_points (Circ (P 2 (-1)) 7)
  /\ length (circle_points (Circ (P 2 (-1)) 7)) = 37%nat.
Proof. vm_compute. split; reflexivity. Qed.
