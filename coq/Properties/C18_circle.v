(* C18 (integer part, Circle and Ellipse) - curved primitives match their mathematical shapes and each other.
   Statements only; proofs in Proofs/Curvefacts.v.  The rounded-rectangle, arc and sector clauses are separate parts.

   rel2 tl ext v  = 2*v - (2*tl + ext - 1): the doubled coordinate of a pixel centre relative to the exact centre
                    of the bounding box;  cdist2 c p = squared doubled distance of p from the circle's centre
   ideal_in w h X Y = h^2 X + w^2 Y < h^2 w^2: (X, Y) = squared doubled coordinates lies inside the ideal ellipse with
                    (doubled) semi-axes w, h;  eX e p, eY e p = squared doubled coordinates of p relative to e's centre
   mirror_x / mirror_y = reflection in the vertical / horizontal centre line of the box *)
From EG Require Import Base.Prelude Model.Geometry Model.Style Model.Circle Model.Ellipse
  Proofs.Geometry Proofs.Scanline Proofs.Circle Proofs.Ellipse Proofs.Curvefacts Proofs.Circlestyled Proofs.Ellipsestyled Proofs.Circlefits.

(* Range: circle_mok c = top-left within +-2^29, d <= 2^15; probe_ok c p = every intermediate of contains(p) fits its Rust
   type (exact condition, see C05_circle_probe_ok_exact); ellipse_mok e = within +-2^29, w*h <= 2^31; eprobe_ok likewise.
   In that range the unbounded model is the machine computation; outside it contains() panics (overflow checks) or wraps. *)

(* half-pixel band (in doubled units: ideal radius d, band d-1 .. d+1); includes the diameter <= 4 correction *)
Theorem C18_circle_band : forall c p,
  circle_mok c -> probe_ok c p -> 1 <= c_d c ->
  (circle_contains c p = true -> cdist2 c p < (c_d c + 1) * (c_d c + 1)) /\
  (cdist2 c p < (c_d c - 1) * (c_d c - 1) -> circle_contains c p = true).
Proof. exact circle_band_m. Qed.

Theorem C18_ellipse_band : forall e p,
  ellipse_mok e -> eprobe_ok e p -> 1 <= sw (e_sz e) -> 1 <= sh (e_sz e) ->
  (ellipse_contains e p = true -> ideal_in (sw (e_sz e) + 1) (sh (e_sz e) + 1) (eX e p) (eY e p)) /\
  (ideal_in (sw (e_sz e) - 1) (sh (e_sz e) - 1) (eX e p) (eY e p) -> ellipse_contains e p = true).
Proof. exact ellipse_band_m. Qed.

(* degenerate sizes accept nothing *)
Theorem C18_circle_zero_diameter_empty : forall c p, c_d c = 0 -> circle_contains c p = false.
Proof. exact circle_zero_empty. Qed.

Theorem C18_ellipse_zero_axis_empty : forall e p,
  ellipse_ok e -> sw (e_sz e) = 0 \/ sh (e_sz e) = 0 -> ellipse_contains e p = false.
Proof. exact ellipse_contains_degenerate. Qed.

(* mirror symmetry about both centre lines (the mirror image of a fine probe is a fine probe) *)
Theorem C18_circle_sym_x : forall c p,
  circle_mok c -> probe_ok c p -> 1 <= c_d c ->
  probe_ok c (mirror_x (px (c_tl c)) (c_d c) p) /\
  circle_contains c (mirror_x (px (c_tl c)) (c_d c) p) = circle_contains c p.
Proof. exact circle_sym_x_m. Qed.

Theorem C18_circle_sym_y : forall c p,
  circle_mok c -> probe_ok c p -> 1 <= c_d c ->
  probe_ok c (mirror_y (py (c_tl c)) (c_d c) p) /\
  circle_contains c (mirror_y (py (c_tl c)) (c_d c) p) = circle_contains c p.
Proof. exact circle_sym_y_m. Qed.

Theorem C18_ellipse_sym_x : forall e p,
  ellipse_mok e -> eprobe_ok e p -> 1 <= sw (e_sz e) -> 1 <= sh (e_sz e) ->
  ellipse_contains e (mirror_x (px (e_tl e)) (sw (e_sz e)) p) = ellipse_contains e p.
Proof. exact ellipse_sym_x_m. Qed.

Theorem C18_ellipse_sym_y : forall e p,
  ellipse_mok e -> eprobe_ok e p -> 1 <= sw (e_sz e) -> 1 <= sh (e_sz e) ->
  ellipse_contains e (mirror_y (py (e_tl e)) (sh (e_sz e)) p) = ellipse_contains e p.
Proof. exact ellipse_sym_y_m. Qed.

(* every row and every column is one contiguous run (points between two accepted ones are fine probes and accepted) *)
Theorem C18_circle_row_contiguous : forall c y x1 x2 x3,
  circle_mok c -> probe_ok c (P x1 y) -> probe_ok c (P x3 y) ->
  x1 <= x2 <= x3 -> circle_contains c (P x1 y) = true -> circle_contains c (P x3 y) = true ->
  probe_ok c (P x2 y) /\ circle_contains c (P x2 y) = true.
Proof. exact circle_row_contiguous_m. Qed.

Theorem C18_circle_col_contiguous : forall c x y1 y2 y3,
  circle_mok c -> probe_ok c (P x y1) -> probe_ok c (P x y3) ->
  y1 <= y2 <= y3 -> circle_contains c (P x y1) = true -> circle_contains c (P x y3) = true ->
  probe_ok c (P x y2) /\ circle_contains c (P x y2) = true.
Proof. exact circle_col_contiguous_m. Qed.

Theorem C18_ellipse_row_contiguous : forall e y x1 x2 x3,
  ellipse_mok e -> eprobe_ok e (P x1 y) -> eprobe_ok e (P x3 y) ->
  x1 <= x2 <= x3 -> ellipse_contains e (P x1 y) = true -> ellipse_contains e (P x3 y) = true ->
  eprobe_ok e (P x2 y) /\ ellipse_contains e (P x2 y) = true.
Proof. exact ellipse_row_contiguous_m. Qed.

Theorem C18_ellipse_col_contiguous : forall e x y1 y2 y3,
  ellipse_mok e -> eprobe_ok e (P x y1) -> eprobe_ok e (P x y3) ->
  y1 <= y2 <= y3 -> ellipse_contains e (P x y1) = true -> ellipse_contains e (P x y3) = true ->
  eprobe_ok e (P x y2) /\ ellipse_contains e (P x y2) = true.
Proof. exact ellipse_col_contiguous_m. Qed.

(* a circle touches all four sides of its bounding box *)
Theorem C18_circle_touches_box : forall c,
  circle_mok c -> 1 <= c_d c ->
  let x0 := px (c_tl c) in let y0 := py (c_tl c) in let d := c_d c in
  (exists x, x0 <= x < x0 + d /\ circle_contains c (P x y0) = true) /\
  (exists x, x0 <= x < x0 + d /\ circle_contains c (P x (y0 + d - 1)) = true) /\
  (exists y, y0 <= y < y0 + d /\ circle_contains c (P x0 y) = true) /\
  (exists y, y0 <= y < y0 + d /\ circle_contains c (P (x0 + d - 1) y) = true).
Proof. exact circle_touches_box_m. Qed.

(* a circle is the ellipse with equal axes: same contains() (threshold correction included), same points() *)
Theorem C18_circle_eq_ellipse : forall c p,
  circle_mok c -> probe_ok c p -> eprobe_ok (circle_as_ellipse c) p ->
  ellipse_contains (circle_as_ellipse c) p = circle_contains c p.
Proof. exact circle_eq_ellipse_m. Qed.

Theorem C18_circle_points_eq_ellipse : forall c, circle_mok c -> ellipse_points (circle_as_ellipse c) = circle_points c.
Proof. exact circle_points_eq_ellipse_m. Qed.

Theorem C18_circle_as_ellipse_in_range : forall c, circle_mok c -> ellipse_mok (circle_as_ellipse c).
Proof. exact circle_as_ellipse_mok. Qed.

(* non-vacuity: diameter 4 (corrected threshold 14): (1,0) is accepted (distance^2 = 10), the corner (0,0) is not (18) *)
Example C18_example :
  let c := Circ (P 0 0) 4 in
  circle_ok c /\ circle_contains c (P 1 0) = true /\ cdist2 c (P 1 0) = 10 /\
  circle_contains c (P 0 0) = false /\ cdist2 c (P 0 0) = 18 /\ ellipse_contains (circle_as_ellipse c) (P 0 0) = false.
Proof. cbv zeta. unfold circle_ok, point_ok, bound. cbn [c_tl c_d px py]. repeat split; try lia; reflexivity. Qed.
