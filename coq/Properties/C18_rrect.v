(* C18, RoundedRectangle part: confine_radii, zero radii = rectangle, contiguity.
   Statements only; proofs are in Proofs/Rrect.v. *)
From EG Require Import Base.Prelude Model.Geometry Model.Style Model.Rrect Proofs.Geometry Proofs.Curvefacts Proofs.Rrect Proofs.Rrect2.

(* Domain of the shape theorems: rr_dom r = rr_ok r /\ rr_arith_ok r = true (see C05_rrect.v / C08_rrect.v).

   CornerRadii::confine (as repaired by 00acb94): the confined radii on each side sum to at most that side.
   The first statement is about the unbounded-Z model, for all non-negative radii and sides.  The code computes radius * side
   in u32: model and code coincide exactly when confine_arith_ok c bb = true (C18_rrect_confine_sound_machine states the
   property under that hypothesis; C08_rrect_confine_arith_fits: radii and sides <= 65535 suffice). *)
Theorem C18_rrect_confine_sound : forall c bb,
  radii_nonneg c -> sz_nonneg bb -> radii_fit (confine c bb) bb.
Proof. intros; eapply confine_sound; eauto using rr_dom_ok, styled_dom_ok. Qed.

Theorem C18_rrect_confine_sound_machine : forall c bb,
  radii_nonneg c -> sz_nonneg bb -> confine_arith_ok c bb = true -> radii_fit (confine c bb) bb.
Proof. intros c bb H1 H2 _. exact (confine_sound c bb H1 H2). Qed.

Theorem C18_rrect_confine_keeps_fitting_radii : forall c bb, radii_fit c bb -> confine c bb = c.
Proof. intros; eapply confine_fit_id; eauto using rr_dom_ok, styled_dom_ok. Qed.

Theorem C18_rrect_confine_idempotent : forall c bb,
  radii_nonneg c -> sz_nonneg bb -> confine (confine c bb) bb = confine c bb.
Proof. intros; eapply confine_idempotent; eauto using rr_dom_ok, styled_dom_ok. Qed.

(* zero radii: the rounded rectangle is the rectangle (hit test and point enumeration); rect_ok is the whole domain here:
   with zero radii confine multiplies nothing and every quadrant has radius 0 *)
Theorem C18_rrect_zero_radii_eq_rect : forall rc p,
  rect_ok rc -> rr_contains (RR rc zero_radii) p = contains rc p.
Proof. intros; eapply rr_zero_radii_contains; eauto using rr_dom_ok, styled_dom_ok. Qed.

Theorem C18_rrect_zero_radii_points_eq_rect : forall rc,
  rect_ok rc -> rr_points (RR rc zero_radii) = points rc.
Proof. intros; eapply rr_zero_radii_points; eauto using rr_dom_ok, styled_dom_ok. Qed.

(* every row of a rounded rectangle is one contiguous run *)
Theorem C18_rrect_row_contiguous : forall r y x1 x2 x3,
  rr_dom r -> x1 <= x2 <= x3 ->
  rr_contains r (P x1 y) = true -> rr_contains r (P x3 y) = true -> rr_contains r (P x2 y) = true.
Proof. intros; eapply rr_row_contiguous; eauto using rr_dom_ok, styled_dom_ok. Qed.

(* ... and every column *)
Theorem C18_rrect_col_contiguous : forall r x y1 y2 y3,
  rr_dom r -> y1 <= y2 <= y3 ->
  rr_contains r (P x y1) = true -> rr_contains r (P x y3) = true -> rr_contains r (P x y2) = true.
Proof. intros; eapply rr_col_contiguous; eauto using rr_dom_ok, styled_dom_ok. Qed.

(* even sides 2a x 2b, every radius (a, b): the rounded rectangle is the ellipse with the same bounding box.
   rr_ellipse_contains is the line-by-line model of Ellipse::contains (ellipse/mod.rs:109-130, 188-218, incl. the circle
   threshold), tied to the real Ellipse by the correspondence suite rr_ellipse_pt and proved equal to Model/Ellipse.v's
   ellipse_contains in C18_bridge.v (C18_rrect_half_eq_ellipse_model).  Sides <= 16383: the arithmetic range (C08_rrect). *)
Theorem C18_rrect_half_eq_ellipse : forall t a b p,
  point_ok t -> 0 <= 2 * a <= 16383 -> 0 <= 2 * b <= 16383 ->
  rr_contains (RR (R t (S (a * 2) (b * 2))) (radii_equal (S a b))) p =
  rr_ellipse_contains t (S (a * 2) (b * 2)) p.
Proof. intros; eapply rr_half_eq_ellipse; unfold bound; auto; lia. Qed.

(* the corners are ellipse quadrants: contains() = inside the base rectangle and, for every corner box the point lies in,
   inside the ellipse of twice the (confined) corner radius whose quadrant fills that box.  With the half-pixel band of the
   ellipse test (ellipse part of C18) this is the band statement for rounded-rectangle corners. *)
Theorem C18_rrect_corners_are_ellipse_quadrants : forall r p,
  rr_dom r ->
  rr_contains r p =
  contains (rr_rect r) p &&
  forallb (fun q => let e := corner_quadrant r q in negb (contains (eq_bbox e) p) || eq_contains e p) quadrants.
Proof. intros; eapply rr_contains_quadrants; eauto using rr_dom_ok, styled_dom_ok. Qed.

Theorem C18_rrect_quadrant_is_ellipse : forall t rad q p,
  eq_contains (eq_new t rad q) p =
  rr_ellipse_contains (quadrant_ellipse_top_left t rad q) (S (sw rad * 2) (sh rad * 2)) p.
Proof. intros; eapply eq_contains_is_ellipse; eauto using rr_dom_ok, styled_dom_ok. Qed.

(* half-pixel band of the corners.  e = the confined corner quadrant q, (a, b) its radius (>= 1), X / Y = squared doubled
   offsets of the pixel centre from the centre of the corner's ellipse (the inner corner of the quadrant box,
   C18_rrect_quadrant_center).  For a point of the corner box: accepted => inside the ideal ellipse with semi-axes a + 1/2,
   b + 1/2; inside the ideal ellipse with semi-axes a - 1/2, b - 1/2 (and in no other corner box) => accepted.
   ideal_in / ellipse_band: Proofs/Curvefacts.v (the ellipse part of C18). *)
Theorem C18_rrect_corner_band : forall r q p,
  rr_dom r ->
  let e := corner_quadrant r q in
  let a := sw (q_radius (conf r) q) in let b := sh (q_radius (conf r) q) in
  1 <= a -> 1 <= b -> contains (eq_bbox e) p = true ->
  (rr_contains r p = true -> ideal_in (2 * a + 1) (2 * b + 1) (qX e p) (qY e p)) /\
  (contains (rr_rect r) p = true ->
   (forall q', q' <> q -> contains (eq_bbox (corner_quadrant r q')) p = false) ->
   ideal_in (2 * a - 1) (2 * b - 1) (qX e p) (qY e p) -> rr_contains r p = true).
Proof. intros r q p H. exact (rr_corner_band r q p (rr_dom_ok r H)). Qed.

(* the same band for a single EllipseQuadrant *)
Theorem C18_rrect_quadrant_band : forall t rad q p,
  1 <= sw rad -> 1 <= sh rad ->
  let e := eq_new t rad q in
  (eq_contains e p = true -> ideal_in (2 * sw rad + 1) (2 * sh rad + 1) (qX e p) (qY e p)) /\
  (ideal_in (2 * sw rad - 1) (2 * sh rad - 1) (qX e p) (qY e p) -> eq_contains e p = true).
Proof. exact eq_band. Qed.

Theorem C18_rrect_quadrant_center : forall t rad q,
  1 <= sw rad -> 1 <= sh rad ->
  eq_center_2x (eq_new t rad q) =
  P (2 * (if is_left q then px t + sw rad else px t) - 1) (2 * (if is_top q then py t + sh rad else py t) - 1).
Proof. exact quadrant_center_ideal. Qed.

(* non-vacuity: the input of the repaired defect h *)
Example C18_rrect_nonvacuous :
  let c := CR (S 60 10) (S 50 0) (S 0 0) (S 0 9) in
  radii_nonneg c /\ confine c (S 100 10) = CR (S 31 5) (S 26 0) (S 0 0) (S 0 4).
Proof. cbv zeta. unfold radii_nonneg, sz_nonneg. cbn [r_tl r_tr r_br r_bl sw sh]. split; [lia|vm_compute; reflexivity]. Qed.
