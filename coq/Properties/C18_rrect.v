(* C18, RoundedRectangle part: confine_radii, zero radii = rectangle, contiguity.
   Statements only; proofs are in Proofs/Rrect.v. *)
From EG Require Import Base.Prelude Model.Geometry Model.Rrect Proofs.Geometry Proofs.Rrect.

(* CornerRadii::confine (as repaired by 00acb94): the confined radii on each side sum to at most that side.
   Unbounded-Z statement for all non-negative radii and sides; the code computes radius*side in u32, so model and
   code coincide while radius * side < 2^32 (see ASSUMPTIONS of props/C18_rrect.py). *)
Theorem C18_rrect_confine_sound : forall c bb,
  radii_nonneg c -> sz_nonneg bb -> radii_fit (confine c bb) bb.
Proof. exact confine_sound. Qed.

Theorem C18_rrect_confine_keeps_fitting_radii : forall c bb, radii_fit c bb -> confine c bb = c.
Proof. exact confine_fit_id. Qed.

Theorem C18_rrect_confine_idempotent : forall c bb,
  radii_nonneg c -> sz_nonneg bb -> confine (confine c bb) bb = confine c bb.
Proof. exact confine_idempotent. Qed.

(* zero radii: the rounded rectangle is the rectangle (hit test and point enumeration) *)
Theorem C18_rrect_zero_radii_eq_rect : forall rc p,
  rect_ok rc -> rr_contains (RR rc zero_radii) p = contains rc p.
Proof. exact rr_zero_radii_contains. Qed.

Theorem C18_rrect_zero_radii_points_eq_rect : forall rc,
  rect_ok rc -> rr_points (RR rc zero_radii) = points rc.
Proof. exact rr_zero_radii_points. Qed.

(* every row of a rounded rectangle is one contiguous run *)
Theorem C18_rrect_row_contiguous : forall r y x1 x2 x3,
  rr_ok r -> x1 <= x2 <= x3 ->
  rr_contains r (P x1 y) = true -> rr_contains r (P x3 y) = true -> rr_contains r (P x2 y) = true.
Proof. exact rr_row_contiguous. Qed.

(* ... and every column *)
Theorem C18_rrect_col_contiguous : forall r x y1 y2 y3,
  rr_ok r -> y1 <= y2 <= y3 ->
  rr_contains r (P x y1) = true -> rr_contains r (P x y3) = true -> rr_contains r (P x y2) = true.
Proof. exact rr_col_contiguous. Qed.

(* even sides 2a x 2b, every radius (a, b): the rounded rectangle is the ellipse with the same bounding box.
   rr_ellipse_contains is the line-by-line model of Ellipse::contains (ellipse/mod.rs:109-130, 188-218, incl. the circle
   threshold), tied to the real Ellipse by the correspondence suite rr_ellipse_pt. *)
Theorem C18_rrect_half_eq_ellipse : forall t a b p,
  point_ok t -> 0 <= 2 * a <= bound -> 0 <= 2 * b <= bound ->
  rr_contains (RR (R t (S (a * 2) (b * 2))) (radii_equal (S a b))) p =
  rr_ellipse_contains t (S (a * 2) (b * 2)) p.
Proof. exact rr_half_eq_ellipse. Qed.

(* the corners are ellipse quadrants: contains() = inside the base rectangle and, for every corner box the point lies in,
   inside the ellipse of twice the (confined) corner radius whose quadrant fills that box.  With the half-pixel band of the
   ellipse test (ellipse part of C18) this is the band statement for rounded-rectangle corners. *)
Theorem C18_rrect_corners_are_ellipse_quadrants : forall r p,
  rr_ok r ->
  rr_contains r p =
  contains (rr_rect r) p &&
  forallb (fun q => let e := corner_quadrant r q in negb (contains (eq_bbox e) p) || eq_contains e p) quadrants.
Proof. exact rr_contains_quadrants. Qed.

Theorem C18_rrect_quadrant_is_ellipse : forall t rad q p,
  eq_contains (eq_new t rad q) p =
  rr_ellipse_contains (quadrant_ellipse_top_left t rad q) (S (sw rad * 2) (sh rad * 2)) p.
Proof. exact eq_contains_is_ellipse. Qed.

(* non-vacuity: the input of the repaired defect h *)
Example C18_rrect_nonvacuous :
  let c := CR (S 60 10) (S 50 0) (S 0 0) (S 0 9) in
  radii_nonneg c /\ confine c (S 100 10) = CR (S 31 5) (S 26 0) (S 0 0) (S 0 4).
Proof. cbv zeta. unfold radii_nonneg, sz_nonneg. cbn [r_tl r_tr r_br r_bl sw sh]. split; [lia|vm_compute; reflexivity]. Qed.
