(* C18, angular part (Sector, Arc): statements only; proofs are in Proofs/Sectormodel.v (integers) and
   Proofs/Sectorreal.v (accuracy over the reals).

   The model (Model/Sectormodel.v) takes the RESULT of `PlaneSector::new(angle_start, angle_sweep)` - two integer
   normal vectors and the set operation - as a parameter `plane_sector`; the theorems below quantify over ALL
   such values.  What links a concrete pair of angles to a `plane_sector` is an external call (sin/cos); it is
   validated against the real code through the hook `verif_hooks::plane_sector_parts` (p_trig_* suites):
     - |sweep| >= 360 deg  =>  operation = OpEntirePlane
     - otherwise |n - 1024*u| <= eps componentwise for both normals (eps measured 2.12 in the f32 build),
       u = (-sin t, cos t) for t = start / start+sweep (swapped for a negative sweep), Union iff |sweep| >= 180 deg.
   delta = 2*p - center_2x is the doubled offset of p from the centre; `rdot ux uy delta` is twice the true signed
   distance of p from the radial line with unit normal u, so the constant 3 below is 1.5 px. *)
From EG Require Import Base.Prelude Model.Geometry Model.Style Model.Sectormodel
  Proofs.Geometry Proofs.Sectormodel Proofs.Sectorreal Proofs.Sectorangle.
From Coq Require Import Reals Lra Lia Sorting.Sorted.

(* ---- integer part, all normals and operations ------------------------------------------- *)
Theorem C18_sector_points_spec : forall s,
  se_points s =
  filter (fun p => sc_contains (se_to_circle s) p && ps_contains (se_ps s) (sm_delta (se_center_2x s) p))
         (points (se_bbox s)).
Proof. exact sector_points_spec. Qed.

Theorem C18_arc_points_spec : forall a,
  0 <= ar_d a ->
  ar_points a =
  filter (fun p => sc_contains (ar_to_circle a) p && negb (sc_contains (sc_offset (ar_to_circle a) (-1)) p)
                   && ps_contains (ar_ps a) (sm_delta (sc_center_2x (ar_to_circle a)) p))
         (points (ar_bbox a)).
Proof. exact arc_points_spec. Qed.

(* the circle test keeps every sector point inside the circle's (= the sector's) bounding box *)
Theorem C18_sector_in_circle : forall s p,
  se_contains s p = true -> sc_contains (se_to_circle s) p = true.
Proof. intros s p H. rewrite se_contains_unfold in H. apply andb_prop in H. exact (proj1 H). Qed.

(* |sweep| >= 360 deg: the sector is the circle, the arc is the circle's one-pixel inside ring *)
Theorem C18_sector_entire_plane_contains : forall s p,
  ps_op (se_ps s) = OpEntirePlane -> se_contains s p = sc_contains (se_to_circle s) p.
Proof. exact sector_entire_plane_contains. Qed.

Theorem C18_sector_entire_plane_eq_circle : forall s,
  ps_op (se_ps s) = OpEntirePlane ->
  se_points s = filter (sc_contains (se_to_circle s)) (points (sc_bbox (se_to_circle s))).
Proof. exact sector_entire_plane_eq_circle. Qed.

Theorem C18_arc_entire_plane_eq_ring : forall a,
  0 <= ar_d a -> ps_op (ar_ps a) = OpEntirePlane ->
  ar_points a =
  filter (fun p => sc_contains (ar_to_circle a) p && negb (sc_contains (sc_offset (ar_to_circle a) (-1)) p))
         (points (sc_bbox (ar_to_circle a))).
Proof. exact arc_entire_plane_eq_ring. Qed.

Theorem C18_arc_points_row_major_in_bbox : forall a,
  rect_ok (ar_bbox a) ->
  StronglySorted lt_yx (ar_points a) /\ (forall p, In p (ar_points a) -> contains (ar_bbox a) p = true).
Proof. intros a H. split; [apply arc_points_sorted, H | intros p; apply arc_points_in_bbox, H]. Qed.

(* K18_tiny_sweep_opposite_side is also true (det = 0) for exactly opposite rounded normals - sweeps just below
   180 deg; nothing is wrong there: the Intersection is exactly one closed half plane *)
Theorem C18_sector_opposite_normals_half_plane : forall ps dl,
  ps_op ps = OpIntersection -> ps_left ps = pneg (ps_right ps) ->
  ps_contains ps dl = (0 <=? sm_odist (ps_right ps) dl).
Proof. exact sector_opposite_normals_half_plane. Qed.

(* ---- constructors (Sector / Arc ::with_center, ::center, ::from_circle, ::to_circle) ----------------------
   center() = top_left + (d - 1) / 2 per axis (floor: for an even diameter the upper-left of the four central
   pixels), as for Circle and Rectangle; with_center is its exact inverse for odd and even diameters. *)
Theorem C18_sector_with_center_center : forall s,
  rect_ok (se_bbox s) -> se_with_center (se_center s) (se_d s) (se_ps s) = s.
Proof. exact sector_with_center_center. Qed.

Theorem C18_sector_center_with_center : forall c d ps,
  0 <= d <= Proofs.Geometry.bound -> se_center (se_with_center c d ps) = c.
Proof. exact sector_center_with_center. Qed.

Theorem C18_sector_center_formula : forall s,
  0 <= se_d s ->
  se_center s = P (px (se_tl s) + (Z.max (se_d s - 1) 0) / 2) (py (se_tl s) + (Z.max (se_d s - 1) 0) / 2).
Proof. exact sector_center_formula. Qed.

Theorem C18_sector_from_circle_to_circle : forall s, se_from_circle (se_to_circle s) (se_ps s) = s.
Proof. exact sector_from_circle_to_circle. Qed.

Theorem C18_arc_with_center_center : forall a,
  rect_ok (ar_bbox a) -> ar_with_center (ar_center a) (ar_d a) (ar_ps a) = a.
Proof. exact arc_with_center_center. Qed.

Theorem C18_arc_center_with_center : forall c d ps,
  0 <= d <= Proofs.Geometry.bound -> ar_center (ar_with_center c d ps) = c.
Proof. exact arc_center_with_center. Qed.

Theorem C18_arc_from_circle_to_circle : forall a, ar_from_circle (ar_to_circle a) (ar_ps a) = a.
Proof. exact arc_from_circle_to_circle. Qed.

(* a sector of 180 deg or more (operation Union), exactly: the circle minus the open integer cone that lies
   strictly beyond BOTH radial lines - centre-near points included *)
Theorem C18_sector_union_exact : forall s p,
  ps_op (se_ps s) = OpUnion ->
  se_contains s p =
  sc_contains (se_to_circle s) p &&
  negb ((0 <? sm_odist (ps_left (se_ps s)) (sm_delta (se_center_2x s) p)) &&
        (sm_odist (ps_right (se_ps s)) (sm_delta (se_center_2x s) p) <? 0)).
Proof. exact sector_union_exact. Qed.

(* ---- "inside the swept angle" read as RAYS (not lines), with the recorded finding excluded ----------
   K18_tiny_sweep_opposite_side ps = (operation is Intersection and det(right normal, left normal) <= 0): the
   two radial rays are not in proper counter-clockwise position - in practice |sweep| below the resolution of the
   1024-scaled normals, where both normals coincide (known_findings.txt class tiny_sweep_opposite_side).
   The p_trig_* suites check det > 0 for every Intersection sector with 0.12 deg <= |sweep| <= 179.88 deg.
   Outside that class every accepted point of a < 180 deg sector is in front of at least one radial ray;
   inside it the statement is false, witnessed by the real case Sector (0,0) d=11, 0 deg, sweep 0 deg, point (0,5). *)
Theorem C18_sector_in_front_of_a_ray : forall s p,
  ps_op (se_ps s) = OpIntersection -> K18_tiny_sweep_opposite_side (se_ps s) = false ->
  se_contains s p = true -> in_front_of_a_ray s p.
Proof. exact sector_front. Qed.

Theorem C18_sector_in_front_of_a_ray_refuted :
  exists s p, ps_op (se_ps s) = OpIntersection /\ K18_tiny_sweep_opposite_side (se_ps s) = true /\
    In p (se_points s) /\ ~ in_front_of_a_ray s p.
Proof. exact sector_front_refuted. Qed.

(* ---- accuracy of the half-plane construction (reals) -------------------------------------- *)
Local Open Scope R_scope.

(* the integer distance n.delta is 1024 * (u.delta) up to eps * |delta|_1 *)
Theorem C18_sector_halfplane_error : forall (n d : point) (ux uy eps : R),
  Rabs (IZR (px n) - 1024 * ux) <= eps ->
  Rabs (IZR (py n) - 1024 * uy) <= eps ->
  Rabs (IZR (sm_odist n d) - 1024 * rdot ux uy d) <= eps * IZR (norm1 d).
Proof. exact halfplane_error. Qed.

(* eps <= 16, diameter <= 128: a point at least 1.5 px from the true radial line is classified correctly,
   and a point classified as on one side is less than 1.5 px on the other *)
Theorem C18_sector_halfplane_accuracy : forall (n d : point) (ux uy eps : R) (D : Z),
  Rabs (IZR (px n) - 1024 * ux) <= eps ->
  Rabs (IZR (py n) - 1024 * uy) <= eps ->
  0 <= eps <= 16 -> (0 <= D <= 128)%Z -> (sm_len2 d < D * D)%Z ->
  (3 <= rdot ux uy d -> (0 < sm_odist n d)%Z) /\
  (rdot ux uy d <= - 3 -> (sm_odist n d < 0)%Z) /\
  ((0 <= sm_odist n d)%Z -> - 3 < rdot ux uy d) /\
  ((sm_odist n d <= 0)%Z -> rdot ux uy d < 3).
Proof.
  intros n d ux uy eps D Hx Hy He HD Hin. repeat split.
  - exact (classify_pos n d ux uy eps D Hx Hy He HD Hin).
  - exact (classify_neg n d ux uy eps D Hx Hy He HD Hin).
  - exact (classified_nonneg n d ux uy eps D Hx Hy He HD Hin).
  - exact (classified_nonpos n d ux uy eps D Hx Hy He HD Hin).
Qed.

(* sector points lie in the circle and inside the sweep up to 1.5 px at each radial line ... *)
Theorem C18_sector_within_sweep : forall (s : sector) (p : point) (lx ly rx ry eps : R),
  Rabs (IZR (px (ps_left (se_ps s))) - 1024 * lx) <= eps ->
  Rabs (IZR (py (ps_left (se_ps s))) - 1024 * ly) <= eps ->
  Rabs (IZR (px (ps_right (se_ps s))) - 1024 * rx) <= eps ->
  Rabs (IZR (py (ps_right (se_ps s))) - 1024 * ry) <= eps ->
  0 <= eps <= 16 -> (0 <= se_d s <= 128)%Z ->
  se_contains s p = true ->
  sc_contains (se_to_circle s) p = true /\
  sweep_pred (ps_op (se_ps s))
    (rdot lx ly (sm_delta (se_center_2x s) p) < 3) (- 3 < rdot rx ry (sm_delta (se_center_2x s) p)).
Proof. exact sector_within_sweep. Qed.

(* ... and every circle point more than 1.5 px inside the sweep is a sector point *)
Theorem C18_sector_covers_sweep : forall (s : sector) (p : point) (lx ly rx ry eps : R),
  Rabs (IZR (px (ps_left (se_ps s))) - 1024 * lx) <= eps ->
  Rabs (IZR (py (ps_left (se_ps s))) - 1024 * ly) <= eps ->
  Rabs (IZR (px (ps_right (se_ps s))) - 1024 * rx) <= eps ->
  Rabs (IZR (py (ps_right (se_ps s))) - 1024 * ry) <= eps ->
  0 <= eps <= 16 -> (0 <= se_d s <= 128)%Z ->
  sc_contains (se_to_circle s) p = true ->
  sweep_pred (ps_op (se_ps s))
    (rdot lx ly (sm_delta (se_center_2x s) p) <= - 3) (3 <= rdot rx ry (sm_delta (se_center_2x s) p)) ->
  se_contains s p = true.
Proof. exact sector_covers_sweep. Qed.

Theorem C18_arc_within_sweep : forall (a : arc) (p : point) (lx ly rx ry eps : R),
  Rabs (IZR (px (ps_left (ar_ps a))) - 1024 * lx) <= eps ->
  Rabs (IZR (py (ps_left (ar_ps a))) - 1024 * ly) <= eps ->
  Rabs (IZR (px (ps_right (ar_ps a))) - 1024 * rx) <= eps ->
  Rabs (IZR (py (ps_right (ar_ps a))) - 1024 * ry) <= eps ->
  0 <= eps <= 16 -> (0 <= ar_d a <= 128)%Z ->
  In p (ar_points a) ->
  sc_contains (ar_to_circle a) p = true /\ sc_contains (sc_offset (ar_to_circle a) (-1)) p = false /\
  sweep_pred (ps_op (ar_ps a))
    (rdot lx ly (sm_delta (sc_center_2x (ar_to_circle a)) p) < 3)
    (- 3 < rdot rx ry (sm_delta (sc_center_2x (ar_to_circle a)) p)).
Proof. exact arc_within_sweep. Qed.

Theorem C18_arc_covers_sweep : forall (a : arc) (p : point) (lx ly rx ry eps : R),
  Rabs (IZR (px (ps_left (ar_ps a))) - 1024 * lx) <= eps ->
  Rabs (IZR (py (ps_left (ar_ps a))) - 1024 * ly) <= eps ->
  Rabs (IZR (px (ps_right (ar_ps a))) - 1024 * rx) <= eps ->
  Rabs (IZR (py (ps_right (ar_ps a))) - 1024 * ry) <= eps ->
  0 <= eps <= 16 -> (0 <= ar_d a <= 128)%Z ->
  In p (points (ar_bbox a)) ->
  sc_contains (ar_to_circle a) p = true -> sc_contains (sc_offset (ar_to_circle a) (-1)) p = false ->
  sweep_pred (ps_op (ar_ps a))
    (rdot lx ly (sm_delta (sc_center_2x (ar_to_circle a)) p) <= - 3)
    (3 <= rdot rx ry (sm_delta (sc_center_2x (ar_to_circle a)) p)) ->
  In p (ar_points a).
Proof. exact arc_covers_sweep. Qed.

(* ---- the same with ANGLES: Coq's sin / cos, the named trig hypothesis, the true sector --------------------
   Definitions (Proofs/Sectorangle.v), start / sweep in degrees as handed to Sector::new / Arc::new:
     trig_hypothesis ps start sweep eps   what PlaneSector::new is assumed to return for (start, sweep): operation
          EntirePlane iff |sweep| >= 360 (up to f32 rounding: only from 359.999 on), Intersection below 179.999,
          Union from 180.001; right / left normal within eps (componentwise) of 1024 (-sin t, cos t) for
          t = min(start, start+sweep) resp. t + |sweep|.  `trig_check` of harness/src/suites/c18_sector.rs is its
          executable counterpart (f64), run by p_trig_deg / p_trig_pairs / p_trig_rand / p_trig_stride / p_trig_bits
          on both builds: measured eps over EVERY f32 angle in +-1440 deg: 2.118 (f32), 9.858 (fixed_point).
     rays_proper ps      det > 0 of the two rays (Intersection: negation of K18_tiny_sweep_opposite_side; Union: for
          the complement cone, or both normals equal); tested by trig_check outside the resolution bands.
     sweep_unambiguous   |sweep| not in [179.999, 180.001) or [359.999, 360), where the f32 comparisons go either way.
     true_sector start sweep qx qy   (qx,qy) = rho (cos t, sin t), rho >= 0, t between the rays (all for >= 360).
     near_true_sector start sweep d  some point of the true sector is within 3 (doubled units = 1.5 px) of d.
     disc_strictly_inside start sweep d   every point within 1.5 px of d is off both radial lines, inside the sweep.
   delta below is the doubled offset 2p - center_2x; screen coordinates (y down). *)
Theorem C18_sector_ideal_sector_is_true_sector : forall start sweep qx qy,
  ideal_sector start sweep qx qy <-> true_sector start sweep qx qy.
Proof. exact ideal_sector_is_true_sector. Qed.

(* every sector point is within 1.5 px of the true swept cone, for the eps of BOTH builds (eps <= 10) *)
Theorem C18_sector_near_cone : forall (s : sector) (p : point) (start sweep eps : R),
  trig_hypothesis (se_ps s) start sweep eps -> sweep_unambiguous sweep -> rays_proper (se_ps s) ->
  0 <= eps <= 10 -> (0 <= se_d s <= 128)%Z ->
  se_contains s p = true -> near_true_sector start sweep (sm_delta (se_center_2x s) p).
Proof. exact sector_near_cone. Qed.

(* every circle point whose 1.5-px neighbourhood is strictly inside the sweep is a sector point *)
Theorem C18_sector_covers_cone : forall (s : sector) (p : point) (start sweep eps : R),
  trig_hypothesis (se_ps s) start sweep eps -> sweep_unambiguous sweep -> rays_proper (se_ps s) ->
  0 <= eps <= 10 -> (0 <= se_d s <= 128)%Z ->
  sc_contains (se_to_circle s) p = true ->
  disc_strictly_inside start sweep (sm_delta (se_center_2x s) p) ->
  se_contains s p = true.
Proof. exact sector_covers_cone. Qed.

Theorem C18_arc_near_cone : forall (a : arc) (p : point) (start sweep eps : R),
  trig_hypothesis (ar_ps a) start sweep eps -> sweep_unambiguous sweep -> rays_proper (ar_ps a) ->
  0 <= eps <= 10 -> (0 <= ar_d a <= 128)%Z ->
  In p (ar_points a) -> near_true_sector start sweep (sm_delta (sc_center_2x (ar_to_circle a)) p).
Proof. exact arc_near_cone. Qed.

Theorem C18_arc_covers_cone : forall (a : arc) (p : point) (start sweep eps : R),
  trig_hypothesis (ar_ps a) start sweep eps -> sweep_unambiguous sweep -> rays_proper (ar_ps a) ->
  0 <= eps <= 10 -> (0 <= ar_d a <= 128)%Z ->
  In p (points (ar_bbox a)) ->
  sc_contains (ar_to_circle a) p = true -> sc_contains (sc_offset (ar_to_circle a) (-1)) p = false ->
  disc_strictly_inside start sweep (sm_delta (sc_center_2x (ar_to_circle a)) p) ->
  In p (ar_points a).
Proof. exact arc_covers_cone. Qed.

(* instantiated at the validated accuracies: eps = 3 (f32 / micromath build), eps = 10 (fixed_point build) *)
Theorem C18_sector_near_cone_f32 : forall (s : sector) (p : point) (start sweep : R),
  trig_hypothesis (se_ps s) start sweep 3 -> sweep_unambiguous sweep -> rays_proper (se_ps s) ->
  (0 <= se_d s <= 128)%Z ->
  se_contains s p = true -> near_true_sector start sweep (sm_delta (se_center_2x s) p).
Proof. intros s p start sweep H1 H2 H3. apply (sector_near_cone s p start sweep 3 H1 H2 H3). lra. Qed.

Theorem C18_sector_near_cone_fixed_point : forall (s : sector) (p : point) (start sweep : R),
  trig_hypothesis (se_ps s) start sweep 10 -> sweep_unambiguous sweep -> rays_proper (se_ps s) ->
  (0 <= se_d s <= 128)%Z ->
  se_contains s p = true -> near_true_sector start sweep (sm_delta (se_center_2x s) p).
Proof. intros s p start sweep H1 H2 H3. apply (sector_near_cone s p start sweep 10 H1 H2 H3). lra. Qed.

Theorem C18_sector_covers_cone_f32 : forall (s : sector) (p : point) (start sweep : R),
  trig_hypothesis (se_ps s) start sweep 3 -> sweep_unambiguous sweep -> rays_proper (se_ps s) ->
  (0 <= se_d s <= 128)%Z -> sc_contains (se_to_circle s) p = true ->
  disc_strictly_inside start sweep (sm_delta (se_center_2x s) p) -> se_contains s p = true.
Proof. intros s p start sweep H1 H2 H3. apply (sector_covers_cone s p start sweep 3 H1 H2 H3). lra. Qed.

Theorem C18_sector_covers_cone_fixed_point : forall (s : sector) (p : point) (start sweep : R),
  trig_hypothesis (se_ps s) start sweep 10 -> sweep_unambiguous sweep -> rays_proper (se_ps s) ->
  (0 <= se_d s <= 128)%Z -> sc_contains (se_to_circle s) p = true ->
  disc_strictly_inside start sweep (sm_delta (se_center_2x s) p) -> se_contains s p = true.
Proof. intros s p start sweep H1 H2 H3. apply (sector_covers_cone s p start sweep 10 H1 H2 H3). lra. Qed.

(* non-vacuity: the quadrant sector 0 deg .. 90 deg with its exact normals satisfies the hypotheses (eps = 0),
   and its point (7,7) (delta = (5,5) for d = 10) is within 1.5 px of the true sector *)
Example C18_sector_trig_hypothesis_example :
  let ps := PS (P (-1024) 0) (P 0 1024) OpIntersection in
  trig_hypothesis ps 0 90 0 /\ rays_proper ps /\ sweep_unambiguous 90 /\
  near_true_sector 0 90 (sm_delta (se_center_2x (Sec (P 0 0) 10 ps)) (P 7 7)).
Proof.
  cbv zeta.
  assert (A90 : Rabs 90 = 90) by (apply Rabs_pos_eq; lra).
  assert (Hrs : ray_start 0 90 = 0) by (unfold ray_start; apply Rmin_left; lra).
  assert (HT : trig_hypothesis (PS (P (-1024) 0) (P 0 1024) OpIntersection) 0 90 0).
  { unfold trig_hypothesis. cbn [ps_op ps_left ps_right]. rewrite A90, Hrs.
    split; [intros; lra|]. split; [intros _; discriminate|]. intros _.
    assert (R0 : rad 0 = 0) by (unfold rad; field).
    assert (R90 : rad 0 + rad 90 = PI / 2) by (unfold rad; field).
    rewrite R90, R0. unfold normal_close. cbn [px py]. rewrite sin_0, cos_0, sin_PI2, cos_PI2.
    repeat split; try (intros; reflexivity || lra).
    - replace (0 + 1024 * 0) with 0 by ring. rewrite Rabs_R0. lra.
    - replace (1024 - 1024 * 1) with 0 by ring. rewrite Rabs_R0. lra.
    - replace (-1024 + 1024 * 1) with 0 by ring. rewrite Rabs_R0. lra.
    - replace (0 - 1024 * 0) with 0 by ring. rewrite Rabs_R0. lra. }
  assert (HP : rays_proper (PS (P (-1024) 0) (P 0 1024) OpIntersection)) by (vm_compute; reflexivity).
  assert (HU : sweep_unambiguous 90) by (unfold sweep_unambiguous; rewrite A90; split; left; lra).
  split; [exact HT|]. split; [exact HP|]. split; [exact HU|].
  apply (C18_sector_near_cone (Sec (P 0 0) 10 (PS (P (-1024) 0) (P 0 1024) OpIntersection)) (P 7 7) 0 90 0 HT HU HP).
  - lra.
  - cbn [se_d]. lia.
  - vm_compute. reflexivity.
Qed.

Local Close Scope R_scope.

(* non-vacuity: the 9-px sector of sector/styled.rs `tiny_sector` (210 deg, sweep 120 deg; normals as the
   hook reports them) has 23 points, the arc 11; and the accuracy hypotheses are satisfiable (exact normal). *)
Example C18_sector_example :
  length (se_points (Sec (P 0 0) 9 (PS (P 511 887) (P 512 (-887)) OpIntersection))) = 23%nat /\
  length (ar_points (Arc (P 0 0) 9 (PS (P 511 887) (P 512 (-887)) OpIntersection))) = 11%nat /\
  se_contains (Sec (P 0 0) 9 (PS (P 511 887) (P 512 (-887)) OpIntersection)) (P 4 4) = true /\
  se_contains (Sec (P 0 0) 9 (PS (P 511 887) (P 512 (-887)) OpIntersection)) (P 4 5) = false.
Proof. vm_compute. repeat split. Qed.

Example C18_sector_accuracy_example :
  (0 < sm_odist (P 0 1024) (P 5 3))%Z.
Proof.
  pose proof (C18_sector_halfplane_accuracy (P 0 1024) (P 5 3) 0%R 1%R 0%R 128) as H.
  unfold rdot in H. cbn [px py] in H.
  apply H.
  - replace (0 - 1024 * 0)%R with 0%R by lra. rewrite Rabs_R0. lra.
  - replace (1024 - 1024 * 1)%R with 0%R by lra. rewrite Rabs_R0. lra.
  - lra.
  - lia.
  - vm_compute. reflexivity.
  - lra.
Qed.
