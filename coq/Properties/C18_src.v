(* C18, translator tie: DistanceIterator::new / Iterator::next of src/primitives/common/distance_iterator.rs, regenerated
   from the source on every run by translate/r2c (coq/Gen/SrcRectPoints.v): driving the translated `next` until its first None (src_distances_collect
   n: None = the step budget ran out first; Some l = finished) yields, for a budget above the number of points, the
   model's list map (sm_dist_item c2x) (points bbox) (Model/Sectormodel.v: sc_distances), provided every squared
   distance is a value of u32 (the code computes it in i32 and casts).  Statement only. *)
From EG Require Import Base.Prelude Base.Casts Model.Geometry Model.Sectormodel Proofs.Geometry.
From EG Require Import Gen.SrcGeometry Gen.SrcRectPoints Proofs.SrcRectPoints.

Theorem C18_src_distance_iterator_is_model : forall c2x r n,
  rect_ok r ->
  (forall p, In p (points r) -> sm_len2 (psub (sm_twice p) c2x) <= u32_max) ->
  src_distances_collect n (src_DistanceIterator_new c2x r)
  = if (length (points r) <? n)%nat then Some (map (sm_dist_item c2x) (points r)) else None.
Proof. exact src_distances_eq. Qed.

(* round 5: DistanceIterator::empty yields nothing and stays empty (fuel 1 suffices) *)
Theorem C18_src_distance_iterator_empty_yields_nothing : forall F, (1 <= F)%nat ->
  src_DistanceIterator_next F src_DistanceIterator_empty = Some (src_DistanceIterator_empty, None).
Proof. intros [|F] H; [lia|]. destruct F; vm_compute; reflexivity. Qed.

Example C18_src_nonvacuous :
  src_distances_collect 5 (src_DistanceIterator_new (P 2 2) (R (P 0 0) (S 2 1))) = Some [(P 0 0, P (-2) (-2), 8); (P 1 0, P 0 (-2), 4)] /\
  src_distances_collect 2 (src_DistanceIterator_new (P 2 2) (R (P 0 0) (S 2 1))) = None.
Proof. split; vm_compute; reflexivity. Qed.
