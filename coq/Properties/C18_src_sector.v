(* C18, translator tie (plane sector, integer part): Operation::execute, OriginLinearEquation::distance,
   PlaneSector::contains / point_type, regenerated from the source on every run by translate/r2c (coq/Gen/SrcSector.v),
   equal Model/Sectormodel.v (sector_of: the generated record seen as the model's pair of normals + operation).
   PlaneSector::new (trigonometry) stays with the hook + validated hypothesis of C18.  Statements only. *)
From EG Require Import Base.Prelude Base.Casts Model.Geometry Model.Thickline Model.Sectormodel.
From EG Require Import Gen.SrcGeometry Gen.SrcSector Proofs.SrcSector.
From EG Require Import Gen.SrcJoin Proofs.SrcHelpers.

Theorem C18_src_operation_execute_is_model : forall o a b, src_Operation_execute o a b = sm_exec o a b.
Proof. exact src_execute_eq. Qed.
Theorem C18_src_origin_distance_is_model : forall e p,
  src_OriginLinearEquation_distance e p = sm_odist (OriginLinearEquation_normal_vector e) p.
Proof. exact src_odist_eq. Qed.
Theorem C18_src_plane_sector_contains_is_model : forall s p, src_PlaneSector_contains s p = ps_contains (sector_of s) p.
Proof. exact src_ps_contains_eq. Qed.
Theorem C18_src_plane_sector_point_type_is_model : forall s p i o,
  src_PlaneSector_point_type s p i o = ps_point_type (sector_of s) p i o.
Proof. exact src_ps_point_type_eq. Qed.

(* round 5: NORMAL_VECTOR_SCALE (linear_equation.rs:7) and OriginLinearEquation::new_horizontal *)
Theorem C18_src_normal_vector_scale_is_model : src_NORMAL_VECTOR_SCALE = sm_normal_vector_scale.
Proof. exact src_normal_vector_scale_eq. Qed.
Theorem C18_src_new_horizontal_is_model :
  OriginLinearEquation_normal_vector src_OriginLinearEquation_new_horizontal = P 0 sm_normal_vector_scale.
Proof. exact src_new_horizontal_eq. Qed.

Example C18_src_sector_nonvacuous :
  src_PlaneSector_contains (Build_PlaneSector (Build_OriginLinearEquation (P 0 1024)) (Build_OriginLinearEquation (P 1024 0)) OpIntersection) (P 3 (-2)) = true.
Proof. vm_compute. reflexivity. Qed.
