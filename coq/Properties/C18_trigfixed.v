(* C18, `fixed_point` feature set: the trig hypothesis of the angular clauses is a THEOREM here.
   Model/Trigfixed.v = exact integer model of the I16F16 code behind PlaneSector::new (real.rs / angle.rs fixed_point
   impls, with_angle, PlaneSector::new) on angle BIT PATTERNS (value = bits / 65536 radians); constants and the
   91-entry table are regenerated from the source by translate/gen_sin.py into Gen/SinTable.v; the model is tied to
   the fixed_point binary by the fx_parts correspondence (props/C18_sector.py).
     fx_val b = b / 65536 (radians),  fx_deg b = the same angle in degrees,  fx_angle_bound = 1_900_000 (+-1661 deg).
   Statements only; proofs in Proofs/Trigfixed.v (Coq Interval for the numeric bounds; Reals axioms). *)
From EG Require Import Base.Prelude Model.Geometry Model.Sectormodel Gen.SinTable Model.Trigfixed
  Proofs.Sectormodel Proofs.Sectorreal Proofs.Sectorangle Proofs.Trigfixed.
From Coq Require Import Reals.
Local Open Scope R_scope.

(* every table entry is sin(d degrees) * 65536 up to 0.501 *)
Theorem C18_trigfixed_table_accurate : forall d : Z,
  (0 <= d <= 90)%Z ->
  Rabs (IZR (nth (Z.to_nat d) sin_table 0%Z) - 65536 * sin (IZR d * PI / 180)) <= 501 / 1000.
Proof. exact table_accurate. Qed.

(* the quadrant symmetry + rem_euclid(360): the looked-up value for ANY integer degree D is sin(D degrees) *)
Theorem C18_trigfixed_lookup_accurate : forall D : Z,
  Rabs (IZR (fx_sin_of_degree (D mod 360)) - 65536 * sin (IZR D * PI / 180)) <= 501 / 1000.
Proof. exact sin_lookup_accurate. Qed.

(* `degree` (I16F16 multiplication, division by the PI constant, round) is within 0.008789 rad = 0.5036 deg of the angle *)
Theorem C18_trigfixed_degree_close : forall a : Z,
  (Z.abs a <= 2003000)%Z ->
  Rabs (IZR (fx_degree a) * PI / 180 - IZR a / 65536) <= 8789 / 1000000.
Proof. exact fx_degree_close. Qed.

(* the integer normal of OriginLinearEquation::with_angle is within eps = 10 of 1024 (-sin t, cos t), t the REAL angle *)
Theorem C18_trigfixed_normal_error : forall a : Z,
  (Z.abs a <= fx_angle_bound)%Z -> normal_close (fx_with_angle a) (fx_val a) 10.
Proof. exact fx_with_angle_close. Qed.

(* PlaneSector::new of the fixed_point build satisfies the trig hypothesis with eps = 10 - no assumption left *)
Theorem C18_trigfixed_hypothesis : forall a s : Z,
  (Z.abs a <= fx_angle_bound)%Z -> (Z.abs (a + s) <= fx_angle_bound)%Z ->
  trig_hypothesis (fx_plane_sector a s) (fx_deg a) (fx_deg s) 10.
Proof. exact fx_trig_hypothesis. Qed.

(* hence, for sectors drawn by the fixed_point build (start, sweep = the Angle values, as bit patterns): *)
Theorem C18_trigfixed_sector_near_cone : forall (s : sector) (p : point) (a sw : Z),
  se_ps s = fx_plane_sector a sw ->
  (Z.abs a <= fx_angle_bound)%Z -> (Z.abs (a + sw) <= fx_angle_bound)%Z ->
  ((Z.abs sw <= 205886 \/ 205889 <= Z.abs sw) /\ (Z.abs sw <= 411773 \/ 411775 <= Z.abs sw))%Z ->
  rays_proper (se_ps s) -> (0 <= se_d s <= 128)%Z ->
  se_contains s p = true -> near_true_sector (fx_deg a) (fx_deg sw) (sm_delta (se_center_2x s) p).
Proof. exact fx_sector_near_cone. Qed.

Theorem C18_trigfixed_sector_covers_cone : forall (s : sector) (p : point) (a sw : Z),
  se_ps s = fx_plane_sector a sw ->
  (Z.abs a <= fx_angle_bound)%Z -> (Z.abs (a + sw) <= fx_angle_bound)%Z ->
  ((Z.abs sw <= 205886 \/ 205889 <= Z.abs sw) /\ (Z.abs sw <= 411773 \/ 411775 <= Z.abs sw))%Z ->
  rays_proper (se_ps s) -> (0 <= se_d s <= 128)%Z ->
  sc_contains (se_to_circle s) p = true ->
  disc_strictly_inside (fx_deg a) (fx_deg sw) (sm_delta (se_center_2x s) p) ->
  se_contains s p = true.
Proof. exact fx_sector_covers_cone. Qed.

(* the two rays are in proper position (rays_proper) - by an integer argument on `degree` plus a finite check over all
   pairs of whole degrees - for sweeps of 2.0003..176.9997 deg, 183.0003..357.9997 deg (bit patterns) and >= 360 deg *)
Theorem C18_trigfixed_rays_proper : forall a s : Z,
  fx_sweep_covered s -> rays_proper (fx_plane_sector a s).
Proof. exact fx_rays_proper. Qed.

(* NO assumption on the trigonometry left (fixed_point build, model Trigfixed): every sector point is within 1.5 px of
   the true swept cone, and every circle point whose 1.5-px neighbourhood is strictly inside the sweep is a sector point *)
Theorem C18_trigfixed_sector_near_cone_closed : forall (s : sector) (p : point) (a sw : Z),
  se_ps s = fx_plane_sector a sw ->
  (Z.abs a <= fx_angle_bound)%Z -> (Z.abs (a + sw) <= fx_angle_bound)%Z -> fx_sweep_covered sw ->
  (0 <= se_d s <= 128)%Z ->
  se_contains s p = true -> near_true_sector (fx_deg a) (fx_deg sw) (sm_delta (se_center_2x s) p).
Proof. exact fx_sector_near_cone_closed. Qed.

Theorem C18_trigfixed_sector_covers_cone_closed : forall (s : sector) (p : point) (a sw : Z),
  se_ps s = fx_plane_sector a sw ->
  (Z.abs a <= fx_angle_bound)%Z -> (Z.abs (a + sw) <= fx_angle_bound)%Z -> fx_sweep_covered sw ->
  (0 <= se_d s <= 128)%Z ->
  sc_contains (se_to_circle s) p = true ->
  disc_strictly_inside (fx_deg a) (fx_deg sw) (sm_delta (se_center_2x s) p) ->
  se_contains s p = true.
Proof. exact fx_sector_covers_cone_closed. Qed.

(* |sweep| >= 360 deg (bits >= TAU) gives EntirePlane: with C18_sector_full_eq_circle_points the sector is the circle *)
Theorem C18_trigfixed_full_sweep : forall a s : Z,
  (411775 <= Z.abs s)%Z -> ps_op (fx_plane_sector a s) = OpEntirePlane.
Proof.
  intros a s H. unfold fx_plane_sector, tau_bits. destruct (Z.leb_spec 411775 (Z.abs s)); [reflexivity|].
  exfalso. apply (Z.lt_irrefl (Z.abs s)). eapply Z.lt_le_trans; eassumption.
Qed.

Local Close Scope R_scope.

(* non-vacuity: the model computes the quadrant sector 0 .. 90 deg (FRAC_PI_2 bits) and a 300-degree Union sector *)
Example C18_trigfixed_example :
  fx_plane_sector 0 102944 = PS (P (-1024) 0) (P 0 1024) OpIntersection /\
  fx_plane_sector 34308 (-345033) = PS (P (-512) 886) (P (-1023) 35) OpUnion /\
  rays_proper (fx_plane_sector 0 102944) /\ fx_degree 34308 = 30.
Proof. vm_compute. repeat split. Qed.
