(* C19 - Triangles cover their interior and polylines are the union of their segments.
   Statements only; the proofs are `exact <lemma>` from Proofs/Polyline.v / Proofs/Triangle.v / Proofs/Tristyled.v or a
   two-line composition of such lemmas. *)
From EG Require Import Base.Prelude Model.Geometry Model.Line Model.Style Model.Polyline Model.Triangle Model.Tristyled
  Proofs.Geometry Proofs.TriLine Proofs.Polyline Proofs.Triangle Proofs.Tristyled.
From Coq Require Import Sorting.Sorted.

(* ---- polylines --------------------------------------------------------------------------- *)

(* points() of ANY vertex list (0, 1 or more vertices, repeated vertices, reversals) and any translate
   field: the line of the first segment followed by the line of every further segment without its first
   point (the shared joint is emitted once).  `segments` are the consecutive vertex pairs, `shift` adds the
   translate field to every vertex. *)
Theorem C19_polyline_points_spec : forall pl,
  polyline_points pl =
  match segments (shift (pl_translate pl) (pl_vertices pl)) with
  | [] => []
  | s :: r => line_points s ++ flat_map (fun l => List.tl (line_points l)) r
  end.
Proof. exact polyline_points_spec. Qed.

Theorem C19_polyline_short_is_empty : forall tr vs, (length vs < 2)%nat -> polyline_points (PL tr vs) = [].
Proof. exact polyline_points_short. Qed.

Theorem C19_polyline_translate_field_is_vertex_shift : forall tr vs,
  polyline_points (PL tr vs) = polyline_points (PL (P 0 0) (shift tr vs)).
Proof. exact polyline_translate_field. Qed.

Theorem C19_polyline_translate_points : forall pl d,
  polyline_points (polyline_translate pl d) = map (fun p => padd p d) (polyline_points pl).
Proof. exact polyline_translate_points. Qed.

(* the one pixel wide Styled<Polyline> (Model/Tristyled.v: pixels() and the single draw_iter of draw()): the same list in
   the stroke colour - the union of the segment lines, shared joints emitted once *)
Theorem C19_polyline_w1_pixels : forall st pl c, stroke_color st = Some c -> stroke_width st = 1 ->
  poly_styled_pixels_thin st pl =
  map (fun p => (p, c))
    match segments (shift (pl_translate pl) (pl_vertices pl)) with
    | [] => []
    | s :: r => line_points s ++ flat_map (fun l => List.tl (line_points l)) r
    end /\
  poly_draw_styled_thin st pl = poly_styled_pixels_thin st pl.
Proof. exact poly_w1_pixels. Qed.

(* non-vacuity: a polyline with a repeated vertex and a reversal *)
Example C19_polyline_example :
  polyline_points (PL (P 1 1) [P 0 0; P 3 1; P 3 1; P 0 0])
  = [P 1 1; P 2 1; P 3 2; P 4 2; P 3 2; P 2 1; P 1 1].
Proof. vm_compute. reflexivity. Qed.

(* ---- filled triangles (Triangle::points(), model: Model/Triangle.v tri_points) ----------------------------
   Vocabulary (Proofs/Triangle.v):
     tri_ok t            all six vertex coordinates within +-8192 (2^13): the range in which the unbounded model
                         and the i32 arithmetic of area_doubled / contains / the bounding box coincide
     perm3 t u           u has the vertices of t in one of the 6 orders
     cross o a b         (a - o) x (b - o)
     in_closed_tri t q   q is on the same side of (or on) all three directed edge lines v1v2, v2v3, v3v1
     sorted_edge a b     the line from the (y,x)-smaller to the (y,x)-larger of a, b  (what mod.rs:216-236 rasterises)
     tri_fill_edges t    the Bresenham pixels of the three sorted edges (colinear vertices: of the edge between
                         the two extreme vertices only)
     lt_yx a b           a before b in row-major order *)

(* the points do not depend on the order of the vertices: same list, not only same set *)
Theorem C19_tri_order_independent : forall t u, tri_ok t -> perm3 t u -> tri_points u = tri_points t.
Proof. intros t u _. apply tri_points_perm. Qed.

Theorem C19_tri_bbox_order_independent : forall t u, perm3 t u -> tri_bounding_box u = tri_bounding_box t.
Proof. exact bounding_box_perm. Qed.

(* every lattice point of the closed mathematical triangle is covered (non-zero area: no further hypothesis) *)
Theorem C19_tri_covers_interior : forall t q, tri_ok t -> area_doubled t <> 0 ->
  in_closed_tri t q -> In q (tri_points t).
Proof. exact covers_interior_nondeg. Qed.

(* colinear / coincident vertices: the closed triangle is the segment between the extreme vertices
   (in_closed_tri alone holds on the whole line through them, hence the bounding box) *)
Theorem C19_tri_covers_interior_degenerate : forall t q, tri_ok t -> area_doubled t = 0 ->
  in_closed_tri t q -> contains (tri_bounding_box t) q = true -> In q (tri_points t).
Proof. exact covers_interior_deg. Qed.

(* the Bresenham lines between the sorted vertices are part of the fill *)
Theorem C19_tri_contains_edges : forall t p, tri_ok t -> In p (tri_fill_edges t) -> In p (tri_points t).
Proof. exact fill_edges_in_points. Qed.

(* ... and for a non-degenerate triangle these are the sorted edges between ANY two of its vertices *)
Theorem C19_tri_contains_sorted_edge : forall t u p, tri_ok t -> perm3 t u -> area_doubled t <> 0 ->
  In p (line_points (sorted_edge (v1 u) (v2 u))) -> In p (tri_points t).
Proof. intros t u p Hok Hp Ha H. apply fill_edges_in_points; [assumption|]. eapply sorted_edge_in_fill_edges; eassumption. Qed.

Theorem C19_sorted_edge_symmetric : forall a b, sorted_edge a b = sorted_edge b a.
Proof. exact sorted_edge_sym. Qed.

(* two triangles on one edge a-b: the same pixels along that edge, and no gap *)
Theorem C19_shared_edge_same_pixels : forall a b c d p,
  tri_ok (T a b c) -> tri_ok (T a b d) -> area_doubled (T a b c) <> 0 -> area_doubled (T a b d) <> 0 ->
  In p (line_points (sorted_edge a b)) -> In p (tri_points (T a b c)) /\ In p (tri_points (T a b d)).
Proof. exact shared_edge_same_pixels. Qed.

Theorem C19_shared_edge_no_gap : forall a b c d q,
  tri_ok (T a b c) -> tri_ok (T a b d) -> area_doubled (T a b c) <> 0 -> area_doubled (T a b d) <> 0 ->
  in_closed_tri (T a b c) q \/ in_closed_tri (T a b d) q ->
  In q (tri_points (T a b c)) \/ In q (tri_points (T a b d)).
Proof. exact shared_edge_no_gap. Qed.

(* row-major order, no point twice, all inside the bounding box *)
Theorem C19_tri_points_row_major : forall t, tri_ok t -> StronglySorted lt_yx (tri_points t).
Proof. exact tri_points_row_major. Qed.

Theorem C19_tri_points_in_bbox : forall t q, tri_ok t -> In q (tri_points t) -> contains (tri_bounding_box t) q = true.
Proof. exact points_in_bbox. Qed.

(* tri_within_one_pixel: every covered point is inside the closed triangle or is a Bresenham pixel of one of the three
   sorted edges ... *)
Theorem C19_tri_within_one_pixel : forall t q, tri_ok t -> area_doubled t <> 0 -> In q (tri_points t) ->
  in_closed_tri t q \/ In q (tri_fill_edges t).
Proof. exact points_closed_or_edge. Qed.

(* ... which puts it within HALF a pixel of an edge segment.  near_edge l q :=
     4 * cross_to l q ^2 <= |end - start|^2   (distance to the line <= 1/2)   /\
     0 <= dot_to l q <= |end - start|^2       (the foot of the perpendicular is on the segment) *)
Theorem C19_tri_within_half_pixel : forall t q, tri_ok t -> area_doubled t <> 0 -> In q (tri_points t) ->
  in_closed_tri t q \/
  let st := sorted_yx t in
  near_edge (L (v1 st) (v2 st)) q \/ near_edge (L (v1 st) (v3 st)) q \/ near_edge (L (v2 st) (v3 st)) q.
Proof. exact points_within_half_pixel. Qed.

(* colinear / coincident vertices: exactly the Bresenham line between the extreme vertices *)
Theorem C19_tri_degenerate_is_line : forall t q, tri_ok t -> area_doubled t = 0 ->
  (In q (tri_points t) <-> In q (line_points (L (v1 (sorted_yx t)) (v3 (sorted_yx t))))).
Proof.
  intros t q Hok Ha. split; [apply points_deg_on_line; assumption|].
  intros H. apply fill_edges_in_points; [assumption|]. apply long_edge_in_fill_edges, H.
Qed.

(* complete description of points(): the lattice points that lie in their row between two pixels of the sorted edge lines *)
Theorem C19_tri_points_spec : forall t q, tri_ok t ->
  (In q (tri_points t) <->
   exists a b, In (P a (py q)) (tri_fill_edges t) /\ In (P b (py q)) (tri_fill_edges t) /\ a <= px q <= b).
Proof. exact tri_points_spec. Qed.

(* The same clauses observed at Styled<Triangle>::pixels() / draw() with a fill and stroke width 0 (any alignment, stroke colour
   present or not; Model/Tristyled.v: the step-by-step StyledPixelsIterator over the un-fused scanline iterator, and draw_styled):
   pixels() yields exactly Triangle::points(), in the same order, in the fill colour (nothing without a fill colour), and the
   fill_solid calls of draw() write the same list.  Clauses 1-5 above therefore hold verbatim for the styled fill.
   (colored (Some c) ps = map (fun p => (p, c)) ps, colored None ps = [];  fill_writes (r, c) = c at every point of r.) *)
Theorem C19_tri_styled_fill_is_points : forall st t,
  tri_styled_pixels_w0 st t = colored (fill_color st) (tri_points t).
Proof. exact tri_styled_pixels_w0_spec. Qed.

Theorem C19_tri_styled_fill_draw_is_points : forall st t, tri_ok t ->
  flat_map fill_writes (tri_draw_styled_w0 st t) = colored (fill_color st) (tri_points t).
Proof. intros st t Hok. rewrite tri_w0_pixels_draw by assumption. apply tri_styled_pixels_w0_spec. Qed.

Theorem C19_tri_styled_fill_covers_interior : forall st t q c, tri_ok t -> area_doubled t <> 0 -> fill_color st = Some c ->
  in_closed_tri t q -> In (q, c) (tri_styled_pixels_w0 st t).
Proof.
  intros st t q c Hok Ha Hc Hin. rewrite tri_styled_pixels_w0_spec, Hc. cbn [colored].
  apply in_map_iff. exists q. split; [reflexivity|]. apply covers_interior_nondeg; assumption.
Qed.

(* what tri_ok is for: inside it (and for the points inside the bounding box, the only ones for which contains() gets that
   far) every product and partial sum of area_doubled, of the barycentric s and t, and s + t fits an i32 (fits_i32) *)
Theorem C19_tri_range_no_overflow : forall t p, tri_ok t -> contains (tri_bounding_box t) p = true ->
  let x1 := px (v1 t) in let y1 := py (v1 t) in let x2 := px (v2 t) in let y2 := py (v2 t) in
  let x3 := px (v3 t) in let y3 := py (v3 t) in let qx := px p in let qy := py p in
  fits_i32 ((- y2) * x3) /\ fits_i32 (y1 * (x3 - x2)) /\ fits_i32 ((- y2) * x3 + y1 * (x3 - x2)) /\
  fits_i32 (x1 * (y2 - y3)) /\ fits_i32 ((- y2) * x3 + y1 * (x3 - x2) + x1 * (y2 - y3)) /\
  fits_i32 (x2 * y3) /\ fits_i32 (area_doubled t) /\
  fits_i32 (y1 * x3) /\ fits_i32 (x1 * y3) /\ fits_i32 (y1 * x3 - x1 * y3) /\
  fits_i32 ((y3 - y1) * qx) /\ fits_i32 (y1 * x3 - x1 * y3 + (y3 - y1) * qx) /\
  fits_i32 ((x1 - x3) * qy) /\ fits_i32 (y1 * x3 - x1 * y3 + (y3 - y1) * qx + (x1 - x3) * qy) /\
  fits_i32 (x1 * y2) /\ fits_i32 (y1 * x2) /\ fits_i32 (x1 * y2 - y1 * x2) /\
  fits_i32 ((y1 - y2) * qx) /\ fits_i32 (x1 * y2 - y1 * x2 + (y1 - y2) * qx) /\
  fits_i32 ((x2 - x1) * qy) /\ fits_i32 (x1 * y2 - y1 * x2 + (y1 - y2) * qx + (x2 - x1) * qy) /\
  fits_i32 (y1 * x3 - x1 * y3 + (y3 - y1) * qx + (x1 - x3) * qy + (x1 * y2 - y1 * x2 + (y1 - y2) * qx + (x2 - x1) * qy)).
Proof. exact tri_no_overflow. Qed.

(* non-vacuity: a triangle with a shallow and a steep edge, given in two orders; a colinear one *)
Example C19_tri_example :
  tri_ok (T (P 0 0) (P 5 2) (P 1 4)) /\ area_doubled (T (P 0 0) (P 5 2) (P 1 4)) = 18 /\
  tri_points (T (P 0 0) (P 5 2) (P 1 4)) =
    [P 0 0; P 1 0; P 0 1; P 1 1; P 2 1; P 3 1; P 0 2; P 1 2; P 2 2; P 3 2; P 4 2; P 5 2; P 1 3; P 2 3; P 3 3; P 1 4] /\
  tri_points (T (P 1 4) (P 0 0) (P 5 2)) = tri_points (T (P 0 0) (P 5 2) (P 1 4)) /\
  in_closed_tri (T (P 0 0) (P 5 2) (P 1 4)) (P 2 2) /\
  tri_points (T (P 0 0) (P 4 2) (P 2 1)) = [P 0 0; P 1 0; P 2 1; P 3 1; P 4 2].
Proof.
  repeat split; try (vm_compute; reflexivity); try (unfold tpoint_ok, tbound; cbn; lia).
  unfold in_closed_tri, cross. cbn. lia.
Qed.
