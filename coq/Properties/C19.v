(* C19 - Triangles cover their interior and polylines are the union of their segments.
   Statements only; every proof is `exact <lemma>` from Proofs/Polyline.v / Proofs/Triangle.v. *)
From EG Require Import Base.Prelude Model.Geometry Model.Line Model.Polyline Proofs.Polyline.

(* ---- polylines --------------------------------------------------------------------------- *)

(* points() of ANY vertex list (0, 1 or more vertices, repeated vertices, reversals) and any translate
   field: the line of the first segment followed by the line of every further segment without its first
   point (the shared joint is emitted once).  `segments` are the consecutive vertex pairs, `shift` adds the
   translate field to every vertex. *)
Theorem C19_polyline_points_spec : forall pl,
  polyline_points pl =
  match segments (shift (pl_translate pl) (pl_vertices pl)) with
  | [] => []
  | s :: r => line_points s ++ flat_map (fun l => List.tl (line_points l)) r
  end.
Proof. exact polyline_points_spec. Qed.

Theorem C19_polyline_short_is_empty : forall tr vs, (length vs < 2)%nat -> polyline_points (PL tr vs) = [].
Proof. exact polyline_points_short. Qed.

Theorem C19_polyline_translate_field_is_vertex_shift : forall tr vs,
  polyline_points (PL tr vs) = polyline_points (PL (P 0 0) (shift tr vs)).
Proof. exact polyline_translate_field. Qed.

Theorem C19_polyline_translate_points : forall pl d,
  polyline_points (polyline_translate pl d) = map (fun p => padd p d) (polyline_points pl).
Proof. exact polyline_translate_points. Qed.

(* non-vacuity: a polyline with a repeated vertex and a reversal *)
Example C19_polyline_example :
  polyline_points (PL (P 1 1) [P 0 0; P 3 1; P 3 1; P 0 0])
  = [P 1 1; P 2 1; P 3 2; P 4 2; P 3 2; P 2 1; P 1 1].
Proof. vm_compute. reflexivity. Qed.
