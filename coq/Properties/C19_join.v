(* C19 - triangles / polylines; part: the 1 px outline of a triangle runs through the thick stroke machinery
   (Model/Join.v, Model/JoinTri.v) with stroke width 1.  Statements only; proofs in Proofs/JoinW1.v.

   Center alignment (StrokeOffset::None).  With thickness 1 Line::extents returns the line itself twice, both edge
   intersections of LineJoin::from_points are exactly the middle vertex (the numerators are vertex * denominator), so every
   join - miter, bevel, degenerate or colinear - has all four corners in its middle vertex; every thick segment is then a
   "skeleton" and ThickSegment::intersection is the scanline of the Bresenham line between its two vertices.  Hence the three
   segments of the stroke are the three Bresenham lines between the CLOCKWISE-ordered vertices v1->v2, v2->v0, v0->v1.

   C19_join_tri_outline_w1 (Center alignment) is the full statement: pixels() = exactly the union of these three lines.  The
   merge step of triangle::ScanlineIntersections::edge_intersections keeps at most two scanlines per row and silently drops a
   third one that touches neither; for three edges of one triangle all three meet a row only in the row of a vertex whose y is
   the median, where two of them share that vertex's pixel, so nothing is dropped (Proofs/JoinOutline.v, with the row lemmas
   of the tri builder's Proofs/Triangle.v - line_row_run and the scanline hull - generalised to lines of any direction).
   Every row between the top and the bottom vertex has a pixel, so the un-fused scanline iterator never stops early.

   Inside / Outside alignment with width 1: the implementation takes the same path (extents with thickness 1 is the line itself
   for StrokeOffset::Left / Right as well: C19_join_extents_w1_any below, also checked by the suites joinh_extents /
   join_tri_pixels); the statements for every alignment are at the end of this file.
   RANGE: theorems with the hypothesis tri_big (+-2^29) are statements about the unbounded model; the i32 arithmetic of the
   implementation (area_doubled, LinearEquation, the intersection denominator) agrees with it for vertices within +-V with
   V + 14 <= 8191 (range_ok V 1 / tri_within V, the range of C01_join_*_range and of the C07 / C08 join theorems): the `_range`
   forms at the end carry exactly that hypothesis and are the ones the tie to the code is claimed for.
   Inside alignment has one more case: when Triangle::is_collapsed holds (a degenerate join, or the inner corner of a join
   on the wrong side of the opposite edge: always for colinear triangles) every row is Triangle::scanline_intersection of the
   clockwise triangle painted in the stroke colour, i.e. the FILLED triangle between the (y,x)-sorted Bresenham edges (for a
   colinear triangle: the single line from the first to the last vertex in (y,x) order), not the three clockwise lines.

   Polylines: width <= 1 never reaches this machinery (polyline/styled.rs: draw_iter over points(), StyledIter::Thin), so
   there is no `polyline_w1_is_thin` statement to make here; it is C19_polyline_* of the tri builder. *)
From EG Require Import Base.Prelude Model.Geometry Model.Line Model.Thickline Model.Join Model.JoinTri.
From EG Require Proofs.JoinRange Proofs.JoinW1All.
From EG Require Import Proofs.Join Proofs.JoinTri Proofs.JoinW1 Proofs.JoinTriDraw Proofs.JoinOutline Proofs.JoinOutlineAny Proofs.JoinCollapsed Proofs.JoinW1Collapsed Proofs.JoinW1Line.
Set Default Timeout 60.

Theorem C19_join_extents_w1 : forall l, extents l 1 SONone = Some (l, l).
Proof. exact extents_w1. Qed.

(* all four corners of a width-1 join are its middle vertex (coordinates of the vertex in i32) *)
Theorem C19_join_linejoin_w1 : forall a b c, pt_in_i32 b = true ->
  exists j, lj_from_points a b c 1 SONone = Some j /\ join_at b j.
Proof. exact lj_from_points_w1. Qed.

(* a thick segment between two such joins is the Bresenham line between the two vertices *)
Theorem C19_join_thick_segment_w1 : forall sj ej m1 m2 y, join_at m1 sj -> join_at m2 ej ->
  ts_intersection (TS sj ej) y = bresenham_intersection (sl_new_empty y) (L m1 m2).
Proof. exact ts_intersection_w1. Qed.

(* triangle, stroke width 1, Center: edge idx of the stroke is the Bresenham line from vertex idx+1 to vertex idx+2 of the
   clockwise triangle ct = jt_sorted_clockwise t *)
Theorem C19_join_tri_outline_w1_partial : forall ct idx y,
  pt_in_i32 (fst (fst ct)) = true -> pt_in_i32 (snd (fst ct)) = true -> pt_in_i32 (snd ct) = true ->
  jt_edge_scanline ct 1 SONone idx y =
  Some (bresenham_intersection (sl_new_empty y) (L (vtx ct (idx + 1)) (vtx ct (idx + 2)))).
Proof. exact jt_edge_scanline_w1. Qed.

(* the full statement, Center alignment: as a set, pixels() of a triangle with stroke width 1 and no fill is the union of the
   three Bresenham lines between the clockwise-ordered vertices (a, b, c) = jt_sorted_clockwise t: b->c, c->a, a->b; every item
   carries the stroke colour.  Vertices within +-2^29. *)
Theorem C19_join_tri_outline_w1 : forall t, tri_big t ->
  let '(a, b, c) := jt_sorted_clockwise t in
  exists px, jt_pixels t 1 Style.Center None = Some px /\
    (forall pc, In pc px -> snd pc = 1) /\
    (forall p, In p (map fst px) <-> In p (line_points (L b c)) \/ In p (line_points (L c a)) \/ In p (line_points (L a b))).
Proof. exact tri_outline_w1. Qed.

(* the row lemmas behind it, for lines of any direction *)
Theorem C19_join_line_row_is_a_run : forall l a b x y,
  In (P a y) (line_points l) -> In (P b y) (line_points l) -> a <= x <= b -> In (P x y) (line_points l).
Proof. exact line_row_run_any. Qed.

Theorem C19_join_line_meets_every_row : forall l y,
  Z.min (py (l_start l)) (py (l_end l)) <= y <= Z.max (py (l_start l)) (py (l_end l)) ->
  exists p, In p (line_points l) /\ py p = y.
Proof. exact line_row_nonempty_any. Qed.

(* non-vacuity: a triangle given counter-clockwise; its outline (width 1, Center, no fill) has 4 + 5 + 5 - 3 = 11 pixels *)
Example C19_join_nonvacuous :
  let t := (P 0 0, P 0 4, P 3 0) in
  jt_sorted_clockwise t = (P 0 4, P 0 0, P 3 0) /\
  option_map (@length (point * Z)) (jt_pixels t 1 Style.Center None) = Some 11%nat.
Proof. vm_compute. split; reflexivity. Qed.

(* ---- every stroke alignment (Proofs/JoinOutlineAny.v) ------------------------------------------------------------------
   With thickness 1 the parallels iterator yields the centre line only for StrokeOffset::Left and ::Right as well (the "skip
   centre" call of ParallelsIterator::new advances the other side), so Line::extents is the line itself twice for every
   offset and the whole chain above holds for every alignment. *)
Theorem C19_join_parallels_w1_left : forall l, parallels l 1 SOLeft = Some [(BS (l_start l) 0, LNormal)].
Proof. exact parallels_w1_left. Qed.

Theorem C19_join_parallels_w1_right : forall l, parallels l 1 SORight = Some [(BS (l_start l) 0, LNormal)].
Proof. exact parallels_w1_right. Qed.

Theorem C19_join_extents_w1_any : forall l so, extents l 1 so = Some (l, l).
Proof. exact extents_w1_any. Qed.

Theorem C19_join_linejoin_w1_any : forall so a b c, pt_in_i32 b = true ->
  exists j, lj_from_points a b c 1 so = Some j /\ join_at b j.
Proof. exact lj_from_points_w1_any. Qed.

Theorem C19_join_tri_edge_w1_any : forall so ct idx y,
  pt_in_i32 (fst (fst ct)) = true -> pt_in_i32 (snd (fst ct)) = true -> pt_in_i32 (snd ct) = true ->
  jt_edge_scanline ct 1 so idx y =
  Some (bresenham_intersection (sl_new_empty y) (L (vtx ct (idx + 1)) (vtx ct (idx + 2)))).
Proof. exact jt_edge_scanline_w1_any. Qed.

(* the model of Triangle::is_collapsed is defined for width 1 (the fuel of the parallels iterator suffices); superseded by
   C19_join_is_collapsed_w1 below, which gives its value *)
Theorem C19_join_is_collapsed_w1_defined : forall so a b c,
  pt_in_i32 a = true -> pt_in_i32 b = true -> pt_in_i32 c = true ->
  exists r, jt_is_collapsed (a, b, c) 1 so = Some r.
Proof. exact jt_is_collapsed_w1_some_any. Qed.

(* the full statement for every alignment: Center and Outside unconditionally; Inside (the only alignment for which
   ScanlineIntersections::new honours is_collapsed) whenever Triangle::is_collapsed is false - a collapsed Inside stroke
   paints Triangle::scanline_intersection of the whole triangle instead (header), which is not "its three edge lines" read
   literally; p_tri_outline compares that case.  w1_outline_case t al = match al with Inside => jt_is_collapsed
   (jt_sorted_clockwise t) 1 SORight = Some false | _ => True end. *)
Theorem C19_join_tri_outline_w1_any : forall t al, tri_big t -> w1_outline_case t al ->
  let '(a, b, c) := jt_sorted_clockwise t in
  exists px, jt_pixels t 1 al None = Some px /\
    (forall pc, In pc px -> snd pc = 1) /\
    (forall p, In p (map fst px) <-> In p (line_points (L b c)) \/ In p (line_points (L c a)) \/ In p (line_points (L a b))).
Proof. exact tri_outline_w1_any. Qed.

Theorem C19_join_tri_outline_w1_outside : forall t, tri_big t ->
  let '(a, b, c) := jt_sorted_clockwise t in
  exists px, jt_pixels t 1 Style.Outside None = Some px /\
    (forall pc, In pc px -> snd pc = 1) /\
    (forall p, In p (map fst px) <-> In p (line_points (L b c)) \/ In p (line_points (L c a)) \/ In p (line_points (L a b))).
Proof. exact tri_outline_w1_outside. Qed.

(* the Inside hypothesis is satisfiable: a proper triangle whose Inside stroke of width 1 is not collapsed *)
Theorem C19_join_w1_inside_case_nonvacuous : w1_outline_case (P 0 0, P 20 0, P 0 20) Style.Inside.
Proof. exact w1_inside_not_collapsed. Qed.

(* ---- the collapsed Inside stroke (Proofs/JoinCollapsed.v), any width >= 1, with or without a fill colour: pixels() is, as a
   set, the rows of Triangle::scanline_intersection of the clockwise triangle between the top and the bottom vertex (the same
   function Triangle::points() iterates; no formal link to the points() model is stated here), every item in the stroke colour.  With width 1 only degenerate (colinear / coincident)
   triangles collapse, and the rows are those of the single Bresenham line between the first and the last vertex in (y,x) order.
   With C19_join_tri_outline_w1_any this gives, as a SET of points, the width-1 stroke-only (fill = None) pixels() of every
   triangle and every alignment; order and multiplicity are not stated here, and with a fill colour only the C01 / C02
   consequences are proved (C01_join_triangle_pixels_draw_w1_all, C02_join_triangle_w1_all_drawn_in_bbox).
   tylo / tyhi = smallest / largest vertex y. *)
Theorem C19_join_collapsed_inside_pixels : forall t w fill, tri_big t -> 0 < w ->
  jt_is_collapsed (jt_sorted_clockwise t) w SORight = Some true ->
  exists px, jt_pixels t w Style.Inside fill = Some px /\
    (forall pc, In pc px -> snd pc = 1) /\
    (forall p, In p (map fst px) <->
               tylo t <= py p <= tyhi t /\ In p (sl_points (jt_scanline_intersection (jt_sorted_clockwise t) (py p)))).
Proof. exact collapsed_inside_pixels. Qed.

Theorem C19_join_collapsed_inside_nonvacuous :
  jt_is_collapsed (jt_sorted_clockwise (P 0 0, P 10 1, P 20 0)) 3 SORight = Some true /\
  jt_is_collapsed (jt_sorted_clockwise (P 0 0, P 5 5, P 9 9)) 1 SORight = Some true.
Proof. exact collapsed_inside_exists. Qed.

(* ---- Triangle::is_collapsed with stroke width 1 (Proofs/JoinW1Collapsed.v): a width-1 join is never Degenerate, and the
   inner corner (the vertex itself) is on the wrong side of the opposite edge exactly when the triangle has no area.  So
   w1_outline_case holds for EVERY proper triangle and every alignment, and clause 6 reads: the 1 px outline of a triangle with
   non-zero area is the union of its three edge lines, for Inside, Center and Outside alignment alike; a triangle without area
   (colinear / coincident vertices) is the same three lines for Center and Outside and the rows of scanline_intersection - the
   single Bresenham line between its extreme vertices, C19_join_flat_inside_w1_is_line - for Inside. *)
Theorem C19_join_is_collapsed_w1 : forall so t, tri_big t ->
  jt_is_collapsed (jt_sorted_clockwise t) 1 so = Some (jt_area_doubled t =? 0).
Proof. exact jt_is_collapsed_w1_iff_degenerate. Qed.

Theorem C19_join_linejoin_w1_never_degenerate : forall x y z,
  is_degenerate (lj_from_extents y 1 (L x y) (L x y) (L y z) (L y z)) = false.
Proof. exact lj_w1_not_degenerate. Qed.

Theorem C19_join_tri_outline_w1_proper : forall t al, tri_big t -> jt_area_doubled t <> 0 ->
  let '(a, b, c) := jt_sorted_clockwise t in
  exists px, jt_pixels t 1 al None = Some px /\
    (forall pc, In pc px -> snd pc = 1) /\
    (forall p, In p (map fst px) <-> In p (line_points (L b c)) \/ In p (line_points (L c a)) \/ In p (line_points (L a b))).
Proof. exact tri_outline_w1_proper. Qed.

(* ... and the remaining case made explicit: a triangle WITHOUT area with a stroke of width 1 and Inside alignment paints exactly
   the Bresenham line between its first and last vertex in (y,x) order.  This is NOT in general the union of the three directed
   edge lines that Center / Outside paint for the same vertices (Bresenham ties differ with direction; notes/audit2/C19.md counts
   160 of 9000 colinear samples where they differ): read literally, clause 6 does not hold for flat triangles with Inside
   alignment, and the theorem states what the code does instead (reported as an observation, DESIGN 10.4; the property text is
   about triangles, which have area). *)
Theorem C19_join_flat_inside_w1_is_line : forall t fill, tri_big t -> jt_area_doubled t = 0 ->
  let '(p1, p2, p3) := jt_sorted_yx (jt_sorted_clockwise t) in
  exists px, jt_pixels t 1 Style.Inside fill = Some px /\
    (forall pc, In pc px -> snd pc = 1) /\
    (forall p, In p (map fst px) <-> In p (line_points (L p1 p3))).
Proof. exact flat_inside_w1_is_line. Qed.

(* ---- the machine range: vertices within +-V with V + 14 <= 8191, where the i32 arithmetic of the implementation agrees with
   the model; these are the forms the tie to the code is claimed for ------------------------------------------------------- *)
Theorem C19_join_tri_outline_w1_proper_range : forall V t al, Proofs.JoinRange.range_ok V 1 -> Proofs.JoinRange.tri_within V t ->
  jt_area_doubled t <> 0 ->
  let '(a, b, c) := jt_sorted_clockwise t in
  exists px, jt_pixels t 1 al None = Some px /\
    (forall pc, In pc px -> snd pc = 1) /\
    (forall p, In p (map fst px) <-> In p (line_points (L b c)) \/ In p (line_points (L c a)) \/ In p (line_points (L a b))).
Proof. exact Proofs.JoinW1All.tri_outline_w1_proper_range. Qed.

Theorem C19_join_flat_inside_w1_is_line_range : forall V t fill, Proofs.JoinRange.range_ok V 1 -> Proofs.JoinRange.tri_within V t ->
  jt_area_doubled t = 0 ->
  let '(p1, p2, p3) := jt_sorted_yx (jt_sorted_clockwise t) in
  exists px, jt_pixels t 1 Style.Inside fill = Some px /\
    (forall pc, In pc px -> snd pc = 1) /\
    (forall p, In p (map fst px) <-> In p (line_points (L p1 p3))).
Proof. exact flat_inside_w1_is_line_range. Qed.

Example C19_join_range_nonvacuous : Proofs.JoinRange.range_ok 8000 1 /\ Proofs.JoinRange.tri_within 8000 (P 0 0, P 20 0, P 0 20).
Proof. split; [unfold Proofs.JoinRange.range_ok, Proofs.JoinRange.rbound; lia | unfold Proofs.JoinRange.tri_within, Proofs.JoinRange.within; cbn; lia]. Qed.
