(* C19 - triangles / polylines; part: the 1 px outline of a triangle runs through the thick stroke machinery
   (Model/Join.v, Model/JoinTri.v) with stroke width 1.  Statements only; proofs in Proofs/JoinW1.v.

   Center alignment (StrokeOffset::None).  With thickness 1 Line::extents returns the line itself twice, both edge
   intersections of LineJoin::from_points are exactly the middle vertex (the numerators are vertex * denominator), so every
   join - miter, bevel, degenerate or colinear - has all four corners in its middle vertex; every thick segment is then a
   "skeleton" and ThickSegment::intersection is the scanline of the Bresenham line between its two vertices.  Hence the three
   segments of the stroke are the three Bresenham lines between the CLOCKWISE-ordered vertices v1->v2, v2->v0, v0->v1.

   OPEN (C19_join_tri_outline_w1): pixels() = exactly the union of these three lines.  What is missing is the merge step of
   triangle::ScanlineIntersections::edge_intersections: it keeps at most two scanlines per row and silently drops a third one
   that touches neither; that cannot happen for three edges of one triangle (all three meet a row only in the row of the
   middle vertex, where two of them share that vertex's pixel), but this needs "all points of a Bresenham line in one row are
   consecutive" and is not proved here.  Inside / Outside alignment use StrokeOffset::Right / Left, for which
   extents with thickness 1 is not covered by a lemma yet.  The executable model of the whole pipeline is compared with the
   implementation for widths 0, 1 and all alignments (suites join_tri_pixels / join_tri_rects).

   Polylines: width <= 1 never reaches this machinery (polyline/styled.rs: draw_iter over points(), StyledIter::Thin), so
   there is no `polyline_w1_is_thin` statement to make here; it is C19_polyline_* of the tri builder. *)
From EG Require Import Base.Prelude Model.Geometry Model.Line Model.Thickline Model.Join Model.JoinTri.
From EG Require Import Proofs.Join Proofs.JoinTri Proofs.JoinW1.
Set Default Timeout 60.

Theorem C19_join_extents_w1 : forall l, extents l 1 SONone = Some (l, l).
Proof. exact extents_w1. Qed.

(* all four corners of a width-1 join are its middle vertex (coordinates of the vertex in i32) *)
Theorem C19_join_linejoin_w1 : forall a b c, pt_in_i32 b = true ->
  exists j, lj_from_points a b c 1 SONone = Some j /\ join_at b j.
Proof. exact lj_from_points_w1. Qed.

(* a thick segment between two such joins is the Bresenham line between the two vertices *)
Theorem C19_join_thick_segment_w1 : forall sj ej m1 m2 y, join_at m1 sj -> join_at m2 ej ->
  ts_intersection (TS sj ej) y = bresenham_intersection (sl_new_empty y) (L m1 m2).
Proof. exact ts_intersection_w1. Qed.

(* triangle, stroke width 1, Center: edge idx of the stroke is the Bresenham line from vertex idx+1 to vertex idx+2 of the
   clockwise triangle ct = jt_sorted_clockwise t *)
Theorem C19_join_tri_outline_w1_partial : forall ct idx y,
  pt_in_i32 (fst (fst ct)) = true -> pt_in_i32 (snd (fst ct)) = true -> pt_in_i32 (snd ct) = true ->
  jt_edge_scanline ct 1 SONone idx y =
  Some (bresenham_intersection (sl_new_empty y) (L (vtx ct (idx + 1)) (vtx ct (idx + 2)))).
Proof. exact jt_edge_scanline_w1. Qed.

(* non-vacuity: a triangle given counter-clockwise; its outline (width 1, Center, no fill) has 4 + 5 + 5 - 3 = 11 pixels *)
Example C19_join_nonvacuous :
  let t := (P 0 0, P 0 4, P 3 0) in
  jt_sorted_clockwise t = (P 0 4, P 0 0, P 3 0) /\
  option_map (@length (point * Z)) (jt_pixels t 1 Style.Center None) = Some 11%nat.
Proof. vm_compute. split; reflexivity. Qed.
