(* C19 - triangles / polylines; part: the 1 px outline of a triangle runs through the thick stroke machinery
   (Model/Join.v, Model/JoinTri.v) with stroke width 1.  Statements only; proofs in Proofs/JoinW1.v.

   Center alignment (StrokeOffset::None).  With thickness 1 Line::extents returns the line itself twice, both edge
   intersections of LineJoin::from_points are exactly the middle vertex (the numerators are vertex * denominator), so every
   join - miter, bevel, degenerate or colinear - has all four corners in its middle vertex; every thick segment is then a
   "skeleton" and ThickSegment::intersection is the scanline of the Bresenham line between its two vertices.  Hence the three
   segments of the stroke are the three Bresenham lines between the CLOCKWISE-ordered vertices v1->v2, v2->v0, v0->v1.

   C19_join_tri_outline_w1 (Center alignment) is the full statement: pixels() = exactly the union of these three lines.  The
   merge step of triangle::ScanlineIntersections::edge_intersections keeps at most two scanlines per row and silently drops a
   third one that touches neither; for three edges of one triangle all three meet a row only in the row of a vertex whose y is
   the median, where two of them share that vertex's pixel, so nothing is dropped (Proofs/JoinOutline.v, with the row lemmas
   of the tri builder's Proofs/Triangle.v - line_row_run and the scanline hull - generalised to lines of any direction).
   Every row between the top and the bottom vertex has a pixel, so the un-fused scanline iterator never stops early.

   Inside / Outside alignment with width 1: the implementation takes the same path (extents with thickness 1 is the line itself
   for StrokeOffset::Left / Right as well - checked by the suites joinh_extents / join_tri_pixels), but the lemma
   "parallels l 1 so" exists for StrokeOffset::None only (line builder), so the theorem is stated for Center.
   Inside alignment has one more case: when Triangle::is_collapsed holds (a degenerate join, or the inner corner of a join
   on the wrong side of the opposite edge: always for colinear triangles) every row is Triangle::scanline_intersection of the
   clockwise triangle painted in the stroke colour, i.e. the FILLED triangle between the (y,x)-sorted Bresenham edges (for a
   colinear triangle: the single line from the first to the last vertex in (y,x) order), not the three clockwise lines.

   Polylines: width <= 1 never reaches this machinery (polyline/styled.rs: draw_iter over points(), StyledIter::Thin), so
   there is no `polyline_w1_is_thin` statement to make here; it is C19_polyline_* of the tri builder. *)
From EG Require Import Base.Prelude Model.Geometry Model.Line Model.Thickline Model.Join Model.JoinTri.
From EG Require Import Proofs.Join Proofs.JoinTri Proofs.JoinW1 Proofs.JoinTriDraw Proofs.JoinOutline.
Set Default Timeout 60.

Theorem C19_join_extents_w1 : forall l, extents l 1 SONone = Some (l, l).
Proof. exact extents_w1. Qed.

(* all four corners of a width-1 join are its middle vertex (coordinates of the vertex in i32) *)
Theorem C19_join_linejoin_w1 : forall a b c, pt_in_i32 b = true ->
  exists j, lj_from_points a b c 1 SONone = Some j /\ join_at b j.
Proof. exact lj_from_points_w1. Qed.

(* a thick segment between two such joins is the Bresenham line between the two vertices *)
Theorem C19_join_thick_segment_w1 : forall sj ej m1 m2 y, join_at m1 sj -> join_at m2 ej ->
  ts_intersection (TS sj ej) y = bresenham_intersection (sl_new_empty y) (L m1 m2).
Proof. exact ts_intersection_w1. Qed.

(* triangle, stroke width 1, Center: edge idx of the stroke is the Bresenham line from vertex idx+1 to vertex idx+2 of the
   clockwise triangle ct = jt_sorted_clockwise t *)
Theorem C19_join_tri_outline_w1_partial : forall ct idx y,
  pt_in_i32 (fst (fst ct)) = true -> pt_in_i32 (snd (fst ct)) = true -> pt_in_i32 (snd ct) = true ->
  jt_edge_scanline ct 1 SONone idx y =
  Some (bresenham_intersection (sl_new_empty y) (L (vtx ct (idx + 1)) (vtx ct (idx + 2)))).
Proof. exact jt_edge_scanline_w1. Qed.

(* the full statement, Center alignment: as a set, pixels() of a triangle with stroke width 1 and no fill is the union of the
   three Bresenham lines between the clockwise-ordered vertices (a, b, c) = jt_sorted_clockwise t: b->c, c->a, a->b; every item
   carries the stroke colour.  Vertices within +-2^29. *)
Theorem C19_join_tri_outline_w1 : forall t, tri_big t ->
  let '(a, b, c) := jt_sorted_clockwise t in
  exists px, jt_pixels t 1 Style.Center None = Some px /\
    (forall pc, In pc px -> snd pc = 1) /\
    (forall p, In p (map fst px) <-> In p (line_points (L b c)) \/ In p (line_points (L c a)) \/ In p (line_points (L a b))).
Proof. exact tri_outline_w1. Qed.

(* the row lemmas behind it, for lines of any direction *)
Theorem C19_join_line_row_is_a_run : forall l a b x y,
  In (P a y) (line_points l) -> In (P b y) (line_points l) -> a <= x <= b -> In (P x y) (line_points l).
Proof. exact line_row_run_any. Qed.

Theorem C19_join_line_meets_every_row : forall l y,
  Z.min (py (l_start l)) (py (l_end l)) <= y <= Z.max (py (l_start l)) (py (l_end l)) ->
  exists p, In p (line_points l) /\ py p = y.
Proof. exact line_row_nonempty_any. Qed.

(* non-vacuity: a triangle given counter-clockwise; its outline (width 1, Center, no fill) has 4 + 5 + 5 - 3 = 11 pixels *)
Example C19_join_nonvacuous :
  let t := (P 0 0, P 0 4, P 3 0) in
  jt_sorted_clockwise t = (P 0 4, P 0 0, P 3 0) /\
  option_map (@length (point * Z)) (jt_pixels t 1 Style.Center None) = Some 11%nat.
Proof. vm_compute. split; reflexivity. Qed.
