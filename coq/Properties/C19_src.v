(* C19, translator tie: the vertex arithmetic of src/primitives/triangle/mod.rs (area_doubled, sort_two_yx, sorted_yx,
   sorted_clockwise, bounding_box), regenerated from the source on every run by translate/r2c (coq/Gen/SrcTriangle.v),
   equals Model/Triangle.v.  tri_of converts the generated Record (one field `vertices : point * point * point`, the
   Rust array) into the model's three-field record.  No range hypotheses.  Statements only (proofs: Proofs/SrcLine.v).
   Triangle::contains is NOT translated: it ends in an iterator chain over Line::points() (outside the subset). *)
From EG Require Import Base.Prelude Base.Casts Model.Geometry Model.Line Model.Triangle.
From EG Require Import Gen.SrcGeometry Gen.SrcTriangle Proofs.SrcLine.

Theorem C19_src_sort_two_yx_is_model : forall a b, src_sort_two_yx a b = sort_two_yx a b.
Proof. exact src_sort_two_yx_eq. Qed.
Theorem C19_src_new_is_model : forall a b c, tri_of (src_Triangle_new a b c) = T a b c.
Proof. exact src_triangle_new_eq. Qed.
Theorem C19_src_area_doubled_is_model : forall t, src_Triangle_area_doubled t = area_doubled (tri_of t).
Proof. exact src_area_doubled_eq. Qed.
Theorem C19_src_sorted_yx_is_model : forall t, tri_of (src_Triangle_sorted_yx t) = sorted_yx (tri_of t).
Proof. exact src_sorted_yx_eq. Qed.
Theorem C19_src_sorted_clockwise_is_model : forall t, tri_of (src_Triangle_sorted_clockwise t) = sorted_clockwise (tri_of t).
Proof. exact src_sorted_clockwise_eq. Qed.
Theorem C19_src_bounding_box_is_model : forall t, src_Triangle_bounding_box t = tri_bounding_box (tri_of t).
Proof. exact src_tri_bounding_box_eq. Qed.

Example C19_src_nonvacuous :
  src_Triangle_area_doubled (src_Triangle_new (P 0 0) (P 4 0) (P 0 3)) = 12 /\
  tri_of (src_Triangle_sorted_yx (src_Triangle_new (P 5 5) (P 1 2) (P 3 2))) = T (P 1 2) (P 3 2) (P 5 5).
Proof. split; vm_compute; reflexivity. Qed.
