(* C19, translator tie (triangle scanline intersections, the per-row state): ScanlineIntersections::empty and its
   Iterator::next (src/primitives/triangle/scanline_intersections.rs), regenerated from the source on every run by translate/r2c
   (coq/Gen/SrcTriScan.v).  Pulling the generated `next` from a state whose lines are (first, second, internal, internal_type)
   yields the non-empty ones among internal (with its type), first (Stroke), second (Stroke), in this order, then None: the
   shape of one row of JoinTri.jt_row.  Not covered: edge_intersections / generate_lines (a `core::iter::from_fn` generator
   with captured mutable state and a `while` loop with `continue`), ScanlineIterator::next (`or_else` with a mutating
   closure).  Statements only (proofs: Proofs/SrcTriScan.v). *)
From EG Require Import Base.Prelude Base.Casts Model.Geometry Model.Line Model.Thickline Model.Sectormodel Model.Join.
From EG Require Import Gen.SrcGeometry Gen.SrcJoin Gen.SrcCircle Gen.SrcLine Gen.SrcScanline Gen.SrcTriangle Gen.SrcSector Gen.SrcTriScan Proofs.SrcTriScan.

Theorem C19_src_tri_intersections_next_run : forall f s i ty t w so hf col n, (4 <= n)%nat ->
  src_tri_si_drive n (Build_ScanlineIntersections (Build_LineConfig f s i ty) t w so hf col)
  = nonempty i ty ++ nonempty f PtStroke ++ nonempty s PtStroke.
Proof. exact src_tri_si_next_run. Qed.

(* round 5: ScanlineIntersections::empty yields nothing *)
Theorem C19_src_scanline_intersections_empty_yields_nothing :
  snd (src_ScanlineIntersections_next src_ScanlineIntersections_empty) = None.
Proof. vm_compute. reflexivity. Qed.

Example C19_src_triscan_nonvacuous :
  src_tri_si_drive 4 (Build_ScanlineIntersections (Build_LineConfig (Build_Scanline 3 (1, 4)) (Build_Scanline 3 (9, 9)) (Build_Scanline 3 (4, 8)) PtFill)
                       (Build_Triangle (P 0 0, P 1 1, P 2 2)) 1 SONone true false)
  = [(Build_Scanline 3 (4, 8), PtFill); (Build_Scanline 3 (1, 4), PtStroke)] /\
  src_tri_si_drive 4 src_ScanlineIntersections_empty = [].
Proof. split; vm_compute; reflexivity. Qed.
