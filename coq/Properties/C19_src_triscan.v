(* C19, translator tie (triangle scanline intersections, the per-row state): ScanlineIntersections::empty and its
   Iterator::next (src/primitives/triangle/scanline_intersections.rs), regenerated from the source on every run by translate/r2c
   (coq/Gen/SrcTriScan.v).  Pulling the generated `next` from a state whose lines are (first, second, internal, internal_type)
   yields the non-empty ones among internal (with its type), first (Stroke), second (Stroke), in this order, then None: the
   shape of one row of JoinTri.jt_row.  Not covered: edge_intersections / generate_lines (a `core::iter::from_fn` generator
   with captured mutable state and a `while` loop with `continue`), ScanlineIterator::next (`or_else` with a mutating
   closure).  Statements only (proofs: Proofs/SrcTriScan.v). *)
From EG Require Import Base.Prelude Base.Casts Model.Geometry Model.Line Model.Thickline Model.Sectormodel Model.Join.
From EG Require Import Gen.SrcGeometry Gen.SrcJoin Gen.SrcCircle Gen.SrcLine Gen.SrcScanline Gen.SrcTriangle Gen.SrcSector Gen.SrcTriScan Proofs.SrcTriScan.
From EG Require Import Model.JoinTri Proofs.SrcScanline Proofs.SrcTriRow.

Theorem C19_src_tri_intersections_next_run : forall f s i ty t w so hf col n, (4 <= n)%nat ->
  src_tri_si_drive n (Build_ScanlineIntersections (Build_LineConfig f s i ty) t w so hf col)
  = nonempty i ty ++ nonempty f PtStroke ++ nonempty s PtStroke.
Proof. exact src_tri_si_next_run. Qed.

(* round 5: ScanlineIntersections::empty yields nothing *)
Theorem C19_src_scanline_intersections_empty_yields_nothing :
  snd (src_ScanlineIntersections_next src_ScanlineIntersections_empty) = None.
Proof. vm_compute. reflexivity. Qed.

(* round 5: against JoinTri.jt_row itself.  `generate_lines` (a `from_fn` generator, outside the subset) is the HYPOTHESIS that the
   LineConfig holds the lines jt_row computes: the edge scanlines es of jt_edge_intersections as first / second (an absent one as
   an empty scanline) and jt_row's internal line (jt_internal, Proofs/SrcTriRow.v: the `internal` of JoinTri.jt_row); under it the
   items the generated `next` yields, converted field by field (item_of = sl_of x pt_of), are exactly the model's row *)
Theorem C19_src_tri_row_is_jt_row : forall t w so hf y es f s i tri sw sso hfl col n, (4 <= n)%nat ->
  jt_edge_intersections t w so y = Some es ->
  filter (fun x => negb (sl_is_empty x)) [sl_of f; sl_of s] = es ->
  sl_of i = jt_internal t hf y es ->
  jt_row t w so hf false y
  = Some (map item_of (src_tri_si_drive n (Build_ScanlineIntersections (Build_LineConfig f s i PtFill) tri sw sso hfl col))).
Proof. exact src_tri_row_is_jt_row. Qed.
Theorem C19_src_tri_row_collapsed_is_jt_row : forall t w so hf y f s i tri sw sso hfl col n, (4 <= n)%nat ->
  sl_is_empty (sl_of f) = true -> sl_is_empty (sl_of s) = true ->
  sl_of i = jt_scanline_intersection t y ->
  jt_row t w so hf true y
  = Some (map item_of (src_tri_si_drive n (Build_ScanlineIntersections (Build_LineConfig f s i PtStroke) tri sw sso hfl col))).
Proof. exact src_tri_row_collapsed_is_jt_row. Qed.

Example C19_src_triscan_nonvacuous :
  src_tri_si_drive 4 (Build_ScanlineIntersections (Build_LineConfig (Build_Scanline 3 (1, 4)) (Build_Scanline 3 (9, 9)) (Build_Scanline 3 (4, 8)) PtFill)
                       (Build_Triangle (P 0 0, P 1 1, P 2 2)) 1 SONone true false)
  = [(Build_Scanline 3 (4, 8), PtFill); (Build_Scanline 3 (1, 4), PtStroke)] /\
  src_tri_si_drive 4 src_ScanlineIntersections_empty = [].
Proof. split; vm_compute; reflexivity. Qed.
