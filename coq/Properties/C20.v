(* C20 - MockDisplay is a faithful test oracle.
   Statements only; every proof is `exact <lemma>` from Proofs/Mockdisplay.v.  The model is Model/Mockdisplay.v
   (src/mock_display/mod.rs as it is now: 4096-cell array with its index arithmetic, two flags, every panic as a value);
   the ColorMapping tables and SIZE are regenerated from the source by translate/gen_mock.py (Gen/MockConsts.v).

   Vocabulary (Proofs/Mockdisplay.v, part 0 - none of it mentions the array):
     in_display p / in_displayb p   0 <= x < SIZE and 0 <= y < SIZE
     requested o                    the pixel writes an operation asks for, in order (trait defaults unfolded)
     events o                       the same as (point, new content) pairs; set_pixel contributes (p, v), v may be None
     last_event p evs / last_write p ws    content given to p by the last event / write at p
     scan ao ab seen ws             the panic rule: first write outside the display while out-of-bounds drawing is not
                                    allowed, or to a cell already drawn while overdraw is not allowed
     touched d p                    get_pixel d p finds a colour
     colset m / charset m           colours that have their own pattern character, and those characters
     cc m c ch                      cell content c prints as ch and ch parses as c
     normalise pat                  rows padded with ' ' to SIZE columns, trailing blank rows dropped *)
From EG Require Import Base.Prelude Model.Geometry Gen.MockConsts Model.Mockdisplay Proofs.Mockdisplay.
From Coq Require Import FMapPositive.

(* ---- get_pixel after any history ------------------------------------------------------------------- *)
Theorem C20_mock_history : forall ops d,
  run new_display ops = Ok d ->
  forall p, get_pixel d p =
            Ok (if in_displayb p then match last_event p (flat_map events ops) with Some v => v | None => None end
                else None).
Proof. exact mock_history. Qed.

Theorem C20_mock_history_last_drawn : forall ops d,
  forallb is_draw ops = true ->
  run new_display ops = Ok d ->
  forall p, get_pixel d p = Ok (if in_displayb p then last_write p (flat_map requested ops) else None).
Proof. exact mock_history_draws. Qed.

Theorem C20_history_from_any_state : forall d ops d',
  run d ops = Ok d' ->
  forall p c, get_pixel d p = Ok c ->
    get_pixel d' p = Ok (if in_displayb p then match last_event p (flat_map events ops) with Some v => v | None => c end else None).
Proof. exact history_from_any_state. Qed.

(* get_pixel is total (the index never leaves the array) and None outside the display, in every state *)
Theorem C20_get_pixel_outside_none : forall d p, ~ in_display p -> get_pixel d p = Ok None.
Proof. exact get_pixel_outside. Qed.

Theorem C20_get_pixel_total : forall d p, exists c, get_pixel d p = Ok c.
Proof. exact get_pixel_total. Qed.

Theorem C20_draw_pixel_effect : forall d p c d',
  draw_pixel d p c = Ok d' ->
  allow_overdraw d' = allow_overdraw d /\ allow_oob d' = allow_oob d /\
  forall q, get_pixel d' q = if in_displayb p && point_eqb q p then Ok (Some c) else get_pixel d q.
Proof. exact draw_pixel_effect. Qed.

(* ---- panics ------------------------------------------------------------------------------------------ *)
Theorem C20_mock_panic_iff_pixel : forall d p c k,
  draw_pixel d p c = Panic k <->
  (~ in_display p /\ allow_oob d = false /\ k = POutOfBounds) \/
  (in_display p /\ allow_overdraw d = false /\ touched d p /\ k = POverdraw).
Proof. exact draw_pixel_panic_iff. Qed.

Theorem C20_mock_panic_iff : forall ao ab ops k,
  forallb is_draw ops = true ->
  (run (D (PositiveMap.empty Z) ao ab) ops = Panic k <-> scan ao ab [] (flat_map requested ops) = Panic k).
Proof. exact mock_panic_iff. Qed.

Theorem C20_mock_no_panic_iff : forall ao ab ops,
  forallb is_draw ops = true ->
  ((exists d, run (D (PositiveMap.empty Z) ao ab) ops = Ok d) <-> (exists s, scan ao ab [] (flat_map requested ops) = Ok s)).
Proof. exact mock_no_panic_iff. Qed.

(* ANY history (flag changes and set_pixel included): the array implementation and the array-free reference machine
   (ref_run: state = both flags + the list of cell events so far; content = last event; same panic rule) either panic at the
   same operation with the same kind, or both finish, with equal flags and get_pixel reading the reference content.
   agree Rel x y := both Ok and related, or both Panic with the same kind. *)
Theorem C20_mock_refines_reference : forall ops,
  agree (fun d s => allow_overdraw d = r_ao s /\ allow_oob d = r_ab s /\
                    forall p, get_pixel d p = Ok (if in_displayb p then content (r_evs s) p else None))
        (run new_display ops) (ref_run (RS false false []) ops).
Proof. exact mock_refines_reference. Qed.

Theorem C20_mock_panic_iff_any_history : forall ops k,
  run new_display ops = Panic k <-> ref_run (RS false false []) ops = Panic k.
Proof. exact mock_panic_iff_any. Qed.

(* MockDisplay implements ONLY draw_iter (gen_mock.py refuses a source whose `impl DrawTarget for MockDisplay` has any other
   method): the fills and clear are the trait defaults, i.e. draw_iter over the row-major points of the area, so every
   pixel of a fill goes through draw_pixel's checks *)
Theorem C20_only_draw_iter : forall d,
  DRAWTARGET_ONLY_DRAW_ITER = true /\
  (forall r c, apply_op d (OpFillSolid r c) = draw_iter d (map (fun p => (p, c)) (points r))) /\
  (forall r cs, apply_op d (OpFillContiguous r cs) = draw_iter d (zip (points r) cs)) /\
  (forall c, apply_op d (OpClear c) = draw_iter d (map (fun p => (p, c)) (points (R (P 0 0) (S SIZE SIZE))))).
Proof. exact only_draw_iter. Qed.

Theorem C20_only_documented_panics : forall d o k,
  apply_op d o = Panic k -> k = POutOfBounds \/ k = POverdraw \/ k = PSetPixel.
Proof. exact apply_op_panic_kind. Qed.

(* ---- affected_area ----------------------------------------------------------------------------------- *)
Theorem C20_affected_area_untouched : forall d, (forall p, ~ touched d p) -> affected_area d = rect_zero.
Proof. exact affected_area_none. Qed.

Theorem C20_affected_area_contains_touched : forall d p, touched d p -> contains (affected_area d) p = true.
Proof. exact affected_area_contains. Qed.

Theorem C20_affected_area_tight : forall d r,
  (forall p, touched d p -> contains r p = true) ->
  forall q, contains (affected_area d) q = true -> contains r q = true.
Proof. exact affected_area_least. Qed.

Theorem C20_affected_area_sides : forall d,
  (exists p, touched d p) ->
  exists x0 y0 x1 y1,
    affected_area d = R (P x0 y0) (S (x1 - x0 + 1) (y1 - y0 + 1)) /\
    (forall p, touched d p -> x0 <= px p <= x1 /\ y0 <= py p <= y1) /\
    (exists p, touched d p /\ px p = x0) /\ (exists p, touched d p /\ py p = y0) /\
    (exists p, touched d p /\ px p = x1) /\ (exists p, touched d p /\ py p = y1).
Proof. exact affected_area_sides. Qed.

(* ---- eq and diff ------------------------------------------------------------------------------------- *)
Theorem C20_eq_iff_cells : forall a b,
  mock_eq a b = true <-> forall x y, 0 <= x < SIZE -> 0 <= y < SIZE -> get_pixel a (P x y) = get_pixel b (P x y).
Proof. exact eq_iff_cells. Qed.

Theorem C20_eq_iff_get_pixel : forall a b, mock_eq a b = true <-> forall p, get_pixel a p = get_pixel b p.
Proof. exact eq_iff_get_pixel. Qed.

Theorem C20_diff_total : forall a b, exists df, diff a b = Ok df.
Proof. exact diff_total. Qed.

Theorem C20_diff_pixel : forall a b df p ca cb,
  diff a b = Ok df -> get_pixel a p = Ok ca -> get_pixel b p = Ok cb ->
  get_pixel df p = Ok (if in_displayb p then diff_color ca cb else None).
Proof. exact diff_pixel'. Qed.

(* Rgb888 raw values: GREEN = only in self, RED = only in other, BLUE = both set but different *)
Theorem C20_diff_colours : DIFF_ONLY_SELF = 65280 /\ DIFF_ONLY_OTHER = 16711680 /\ DIFF_DIFFERENT = 255.
Proof. exact diff_colours. Qed.

Theorem C20_diff_empty_iff_eq : forall a b df,
  diff a b = Ok df -> ((forall p, get_pixel df p = Ok None) <-> mock_eq a b = true).
Proof. exact diff_empty_iff_eq. Qed.

Theorem C20_diff_equals_new_iff_eq : forall a b df,
  diff a b = Ok df -> (mock_eq df new_display = true <-> mock_eq a b = true).
Proof. exact diff_empty_iff_eq_new. Qed.

Theorem C20_swap_xy : forall a, exists s, swap_xy a = Ok s /\ forall x y, get_pixel s (P x y) = get_pixel a (P y x).
Proof. exact swap_xy_spec. Qed.

Theorem C20_map : forall f a,
  exists t, map_display f a = Ok t /\
    forall p, get_pixel t p = match get_pixel a p with Ok c => Ok (option_map f c) | Panic k => Panic k end.
Proof. exact map_display_spec. Qed.

Theorem C20_from_points : forall l c,
  (forallb in_displayb l = false -> from_points l c = Panic PSetPixel) /\
  (forallb in_displayb l = true ->
     exists d, from_points l c = Ok d /\
       forall p, get_pixel d p = Ok (if existsb (point_eqb p) l then Some c else None)).
Proof. exact from_points_spec. Qed.

(* ---- patterns and Debug ------------------------------------------------------------------------------ *)
Theorem C20_colour_to_char_and_back : forall m v,
  In m all_mappings -> In v (colset m) ->
  exists ch, color_to_char m v = Ok ch /\ char_to_color m ch = Ok v /\ ch <> SPACE /\ In ch (charset m).
Proof. exact colset_roundtrip. Qed.

Theorem C20_char_to_colour_and_back : forall m ch,
  In m all_mappings -> In ch (charset m) ->
  exists v, char_to_color m ch = Ok v /\ color_to_char m v = Ok ch /\ ch <> SPACE /\ In v (colset m).
Proof. exact charset_roundtrip. Qed.

(* no lossy character: whatever char_to_color accepts prints back as itself (lower-case hex digits as upper case) *)
Theorem C20_accepted_chars_roundtrip : forall m ch v,
  In m all_mappings -> char_to_color m ch = Ok v ->
  color_to_char m v = Ok (ascii_upper ch) /\ In (ascii_upper ch) (charset m).
Proof. exact accepted_chars_roundtrip. Qed.

Theorem C20_character_sets :
  m_col2c map_BinaryColor = [(0, 46); (1, 35)] /\
  m_col2c map_Gray2 = zip (range 0 4) (firstn 4 HEX_UPPER) /\
  m_col2c map_Gray4 = zip (range 0 16) HEX_UPPER /\
  m_col2c map_Gray8 = zip (map (fun k => 17 * k) (range 0 16)) HEX_UPPER /\
  Forall (fun m => charset m = RGB_CHARS /\ NoDup (colset m))
         [map_Rgb332; map_Rgb444; map_Rgb555; map_Bgr555; map_Rgb565; map_Bgr565; map_Rgb888; map_Bgr888] /\
  colset map_Rgb888 = [0; 16711680; 65280; 255; 16776960; 16711935; 65535; 16777215] /\
  all_mappings = [map_BinaryColor; map_Gray2; map_Gray4; map_Gray8; map_Rgb332; map_Rgb444; map_Rgb555; map_Bgr555;
                  map_Rgb565; map_Bgr565; map_Rgb888; map_Bgr888].
Proof. exact character_sets. Qed.

(* the default arm of color_to_char is '?' (where there is one), never ' ' and never the character of a colour; hence
   what Debug prints identifies the colour: a character of the set is printed only for THE colour of that character *)
Theorem C20_default_chars : Forall (fun m => m_default m = None \/ m_default m = Some 63) all_mappings.
Proof. exact default_chars. Qed.

Theorem C20_debug_char_identifies_colour : forall m v ch,
  In m all_mappings -> color_to_char m v = Ok ch ->
  ch <> SPACE /\ (In ch (charset m) -> In v (colset m) /\ char_to_color m ch = Ok v).
Proof. exact debug_char_identifies_colour. Qed.

Theorem C20_debug_chars_distinct : forall m v1 v2 ch,
  In m all_mappings -> In v1 (colset m) -> color_to_char m v1 = Ok ch -> color_to_char m v2 = Ok ch -> v1 = v2.
Proof. exact debug_chars_distinct. Qed.

Theorem C20_rgb_colour_sets :
  colset map_Rgb332 = [0; 224; 28; 3; 252; 227; 31; 255] /\
  colset map_Rgb444 = [0; 3840; 240; 15; 4080; 3855; 255; 4095] /\
  colset map_Rgb555 = [0; 31744; 992; 31; 32736; 31775; 1023; 32767] /\
  colset map_Bgr555 = [0; 31; 992; 31744; 1023; 31775; 32736; 32767] /\
  colset map_Rgb565 = [0; 63488; 2016; 31; 65504; 63519; 2047; 65535] /\
  colset map_Bgr565 = [0; 31; 2016; 63488; 2047; 63519; 65504; 65535] /\
  colset map_Rgb888 = [0; 16711680; 65280; 255; 16776960; 16711935; 65535; 16777215] /\
  colset map_Bgr888 = [0; 255; 65280; 16711680; 65535; 16711935; 16776960; 16777215].
Proof. exact rgb_colour_sets. Qed.

(* Debug never panics: every raw value of every colour type has a character (its own or '?') *)
Theorem C20_color_to_char_total : forall m v,
  In m all_mappings -> 0 <= v < m_nvalues m -> exists ch, color_to_char m v = Ok ch.
Proof. exact color_to_char_total. Qed.

Theorem C20_debug_rows_total : forall m d,
  In m all_mappings ->
  (forall p v, get_pixel d p = Ok (Some v) -> 0 <= v < m_nvalues m) ->
  exists rows, debug_rows m d = Ok rows /\ (length rows <= NS)%nat /\ Forall (fun r => length r = NS) rows.
Proof. exact debug_rows_total. Qed.

(* Debug -> from_pattern: same 4096 cells *)
Theorem C20_debug_then_pattern : forall m d,
  In m all_mappings -> display_over m d ->
  exists rows d', debug_rows m d = Ok rows /\ Forall (Forall (char_valid m)) rows /\
                  from_pattern m rows = Ok d' /\ mock_eq d' d = true.
Proof. exact debug_then_pattern. Qed.

(* from_pattern -> Debug: the pattern is printed back; and what a pattern means cell by cell *)
Theorem C20_pattern_debug_roundtrip : forall m pat,
  In m all_mappings -> pattern_wf m pat ->
  exists d, from_pattern m pat = Ok d /\
    debug_rows m d = Ok (normalise pat) /\
    forall x y, 0 <= x < SIZE -> 0 <= y < SIZE ->
      exists c, get_pixel d (P x y) = Ok c /\ cc m c (nth (Z.to_nat x) (nth (Z.to_nat y) pat []) SPACE).
Proof. exact pattern_then_debug. Qed.

(* the same for patterns in any accepted spelling: lower-case hex digits are accepted and are printed back in upper case *)
Theorem C20_pattern_debug_roundtrip_any_case : forall m pat,
  In m all_mappings -> pattern_wf_any m pat ->
  exists d, from_pattern m pat = Ok d /\
    debug_rows m d = Ok (normalise (map (map ascii_upper) pat)) /\
    forall x y, 0 <= x < SIZE -> 0 <= y < SIZE ->
      exists c, get_pixel d (P x y) = Ok c /\ pattern_char m (nth (Z.to_nat x) (nth (Z.to_nat y) pat []) SPACE) = Ok c.
Proof. exact pattern_then_debug_any_case. Qed.

(* the text Debug writes, in terms of the printed rows: "MockDisplay[", the rows, "(n empty rows skipped)" with
   n = 64 - number of printed rows when n > 0, "]"; n in decimal *)
Theorem C20_debug_string_rows : forall m d rows,
  debug_rows m d = Ok rows ->
  zlen rows <= SIZE /\
  debug_string m d =
    Ok (STR_HEAD ++ [10] ++ concat (map (fun r => r ++ [10]) rows)
        ++ (if zlen rows <? SIZE then [40] ++ decimal (SIZE - zlen rows) ++ STR_SKIP ++ [10] else []) ++ [93; 10]).
Proof. exact debug_string_rows. Qed.

Theorem C20_decimal : forall n, 0 <= n < 100 -> decimal n = if n <? 10 then [48 + n] else [48 + n / 10; 48 + n mod 10].
Proof. exact decimal_spec. Qed.

Theorem C20_pattern_debug_pattern : forall m pat d,
  In m all_mappings -> pattern_wf m pat -> from_pattern m pat = Ok d ->
  exists d', from_pattern m (normalise pat) = Ok d' /\ mock_eq d' d = true.
Proof. exact pattern_debug_pattern. Qed.

(* ---- non-vacuity: the functions compute, the hypotheses are satisfiable ------------------------------- *)
Example C20_example_history :
  let ops := [OpSetAllowOverdraw true; OpFillSolid (R (P 1 1) (S 2 2)) 7; OpDrawPixel (P 2 2) 9; OpSetPixel (P 1 1) None] in
  exists d, run new_display ops = Ok d /\
    get_pixel d (P 2 2) = Ok (Some 9) /\ get_pixel d (P 2 1) = Ok (Some 7) /\ get_pixel d (P 1 1) = Ok None /\
    get_pixel d (P 66 0) = Ok None /\ affected_area d = R (P 1 1) (S 2 2).
Proof. cbv zeta. eexists. split; [vm_compute; reflexivity|]. repeat split; vm_compute; reflexivity. Qed.

Example C20_example_panics :
  run new_display [OpDrawPixel (P 0 1) 1; OpDrawPixel (P 0 1) 1] = Panic POverdraw /\
  run new_display [OpDrawPixel (P 64 0) 1] = Panic POutOfBounds /\
  scan false false [] [(P 0 1, 1); (P 0 1, 1)] = Panic POverdraw /\
  (exists d, run new_display [OpSetAllowOob true; OpDrawPixel (P 64 0) 1; OpDrawPixel (P 0 1) 3] = Ok d /\
             get_pixel d (P 64 0) = Ok None /\ get_pixel d (P 0 1) = Ok (Some 3)).
Proof. repeat split; try (vm_compute; reflexivity). eexists. split; [vm_compute; reflexivity|]. split; vm_compute; reflexivity. Qed.

Example C20_example_pattern :
  (* Rgb888 pattern ["R ", " W"] *)
  pattern_wf map_Rgb888 [[82; 32]; [32; 87]] /\
  exists d, from_pattern map_Rgb888 [[82; 32]; [32; 87]] = Ok d /\
    get_pixel d (P 0 0) = Ok (Some 16711680) /\ get_pixel d (P 1 1) = Ok (Some 16777215) /\ get_pixel d (P 1 0) = Ok None /\
    option_map (firstn 2) (match debug_rows map_Rgb888 d with Ok (r :: _) => Some r | _ => None end) = Some [82; 32].
Proof.
  split.
  - split; [vm_compute; lia|]. split.
    + exists 2%nat. split; [vm_compute; lia|]. repeat constructor.
    + repeat constructor; (left; reflexivity) || (right; vm_compute; tauto).
  - eexists. split; [vm_compute; reflexivity|]. repeat split; vm_compute; reflexivity.
Qed.
