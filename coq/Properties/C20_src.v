(* C20, translator tie (MockDisplay pixel access): MockDisplay::get_pixel / set_pixel_unchecked / set_pixel /
   set_allow_out_of_bounds_drawing / set_allow_overdraw and SIZE (src/mock_display/mod.rs), regenerated from the source on
   every run by translate/r2c (coq/Gen/SrcMock.v).  The pixel array `[Option<C>; SIZE * SIZE]` is a list of options
   (`self.pixels[i]`: Casts.slice_get, None out of range; `self.pixels[i] = v`: Casts.slice_set under the range test); the model keeps the cells in a finite map
   and makes panics explicit (result).  drepr s d: the generated display s represents the model display d (4096 cells with
   the same contents, the same flags).  The generated get_pixel / set_pixel_unchecked / set_pixel are option-valued: None is a
   Rust panic (the `assert!` of set_pixel, an array index out of range).  On representing displays they panic exactly when the
   model does (Panic k) and otherwise yield equal values / representing displays.  Statements only (proofs: Proofs/SrcMock.v). *)
From EG Require Import Base.Prelude Base.Casts Model.Geometry Gen.MockConsts Model.Mockdisplay Gen.SrcGeometry Gen.SrcMock Proofs.SrcMock.
(* the generated definitions that cast to usize (`as usize`, `usize::try_from`) take the width of usize as Casts.UsizeW; the model
   of this property works with 64-bit usize (exact integers in range): taken at that width *)
#[local] Existing Instance Casts.usize64_w.

Theorem C20_src_SIZE_is_model : src_SIZE = SIZE.
Proof. exact src_SIZE_eq. Qed.
(* res_rel R o r (Proofs/SrcMock.v): o = None and r = Panic k, or o = Some a, r = Ok b and R a b *)
Theorem C20_src_get_pixel_is_model : forall s d p, drepr s d ->
  res_rel eq (src_MockDisplay_get_pixel s p) (get_pixel d p).
Proof. exact src_mock_get_pixel_eq. Qed.
Theorem C20_src_set_pixel_unchecked_is_model : forall s d p v, drepr s d ->
  i32_min <= px p + py p * SIZE <= i32_max ->
  res_rel drepr (src_MockDisplay_set_pixel_unchecked s p v) (set_pixel_unchecked d p v).
Proof. exact src_mock_set_pixel_unchecked_rel. Qed.
Theorem C20_src_set_pixel_is_model : forall s d p v, drepr s d ->
  i32_min <= px p <= i32_max -> i32_min <= py p <= i32_max ->
  res_rel drepr (src_MockDisplay_set_pixel s p v) (set_pixel d p v).
Proof. exact src_mock_set_pixel_rel. Qed.
(* the two readings of res_rel, spelled out for set_pixel: the source panics exactly when the model does, and a model value
   is represented by the source value *)
Theorem C20_src_set_pixel_panics_iff_model : forall s d p v, drepr s d ->
  i32_min <= px p <= i32_max -> i32_min <= py p <= i32_max ->
  ((exists k, set_pixel d p v = Panic k) <-> src_MockDisplay_set_pixel s p v = None).
Proof. intros s d p v H Hx Hy. exact (res_rel_panic drepr _ _ (src_mock_set_pixel_rel s d p v H Hx Hy)). Qed.
Theorem C20_src_set_pixel_ok_is_model : forall s d p v d', drepr s d ->
  i32_min <= px p <= i32_max -> i32_min <= py p <= i32_max ->
  set_pixel d p v = Ok d' -> exists s', src_MockDisplay_set_pixel s p v = Some s' /\ drepr s' d'.
Proof. intros s d p v d' H Hx Hy. exact (res_rel_ok drepr _ _ d' (src_mock_set_pixel_rel s d p v H Hx Hy)). Qed.
Theorem C20_src_set_pixel_unchecked_panics_iff_model : forall s d p v, drepr s d ->
  i32_min <= px p + py p * SIZE <= i32_max ->
  ((exists k, set_pixel_unchecked d p v = Panic k) <-> src_MockDisplay_set_pixel_unchecked s p v = None).
Proof. intros s d p v H Hi. exact (res_rel_panic drepr _ _ (src_mock_set_pixel_unchecked_rel s d p v H Hi)). Qed.
Theorem C20_src_set_allow_oob_is_model : forall s d b, drepr s d -> drepr (src_MockDisplay_set_allow_out_of_bounds_drawing s b) (set_allow_oob d b).
Proof. exact src_mock_set_allow_oob_eq. Qed.
Theorem C20_src_set_allow_overdraw_is_model : forall s d b, drepr s d -> drepr (src_MockDisplay_set_allow_overdraw s b) (set_allow_overdraw d b).
Proof. exact src_mock_set_allow_overdraw_eq. Qed.

(* the representation relation is inhabited: the empty display *)
Example C20_src_nonvacuous :
  let s0 := Build_MockDisplay (repeat None 4096) false false in
  drepr s0 new_display /\
  (exists s1, src_MockDisplay_set_pixel s0 (P 3 2) (Some 7) = Some s1 /\
     src_MockDisplay_get_pixel s1 (P 3 2) = Some (Some 7) /\ src_MockDisplay_get_pixel s1 (P 2 3) = Some None) /\
  src_MockDisplay_set_pixel s0 (P 64 2) (Some 7) = None /\ set_pixel new_display (P 64 2) (Some 7) = Panic PSetPixel /\
  src_MockDisplay_set_pixel_unchecked s0 (P 0 64) (Some 7) = None /\ src_MockDisplay_set_pixel_unchecked s0 (P (-1) 0) (Some 7) = None /\
  src_MockDisplay_get_pixel (Build_MockDisplay (repeat None 100) false false) (P 3 2) = None.
Proof.
  split; [exact drepr_new|]. split; [eexists; split; [vm_compute; reflexivity|split; vm_compute; reflexivity]|].
  repeat split; vm_compute; reflexivity.
Qed.
