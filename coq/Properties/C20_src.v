(* C20, translator tie (MockDisplay pixel access): MockDisplay::get_pixel / set_pixel_unchecked / set_pixel /
   set_allow_out_of_bounds_drawing / set_allow_overdraw and SIZE (src/mock_display/mod.rs), regenerated from the source on
   every run by translate/r2c (coq/Gen/SrcMock.v).  The pixel array `[Option<C>; SIZE * SIZE]` is a list of options
   (`self.pixels[i]`: Casts.slice_nth None; `self.pixels[i] = v`: Casts.slice_set); the model keeps the cells in a finite map
   and makes panics explicit (result).  drepr s d: the generated display s represents the model display d (4096 cells with
   the same contents, the same flags).  On representing displays get_pixel agrees; whenever the model's set_pixel_unchecked /
   set_pixel does not panic, the generated one yields a representing display (`assert!` only panics and is not translated;
   Rust's index panic is the model's Panic PIndex).  Statements only (proofs: Proofs/SrcMock.v). *)
From EG Require Import Base.Prelude Base.Casts Model.Geometry Gen.MockConsts Model.Mockdisplay Gen.SrcGeometry Gen.SrcMock Proofs.SrcMock.

Theorem C20_src_SIZE_is_model : src_SIZE = SIZE.
Proof. exact src_SIZE_eq. Qed.
Theorem C20_src_get_pixel_is_model : forall s d p, drepr s d -> Ok (src_MockDisplay_get_pixel s p) = get_pixel d p.
Proof. exact src_mock_get_pixel_eq. Qed.
Theorem C20_src_set_pixel_unchecked_is_model : forall s d p v d', drepr s d ->
  i32_min <= px p <= i32_max -> i32_min <= py p <= i32_max ->
  set_pixel_unchecked d p v = Ok d' -> drepr (src_MockDisplay_set_pixel_unchecked s p v) d'.
Proof. exact src_mock_set_pixel_unchecked_ok. Qed.
Theorem C20_src_set_pixel_is_model : forall s d p v d', drepr s d ->
  i32_min <= px p <= i32_max -> i32_min <= py p <= i32_max ->
  set_pixel d p v = Ok d' -> drepr (src_MockDisplay_set_pixel s p v) d'.
Proof. exact src_mock_set_pixel_ok. Qed.
Theorem C20_src_set_allow_oob_is_model : forall s d b, drepr s d -> drepr (src_MockDisplay_set_allow_out_of_bounds_drawing s b) (set_allow_oob d b).
Proof. exact src_mock_set_allow_oob_eq. Qed.
Theorem C20_src_set_allow_overdraw_is_model : forall s d b, drepr s d -> drepr (src_MockDisplay_set_allow_overdraw s b) (set_allow_overdraw d b).
Proof. exact src_mock_set_allow_overdraw_eq. Qed.

(* the representation relation is inhabited: the empty display *)
Example C20_src_nonvacuous :
  drepr (Build_MockDisplay (repeat None 4096) false false) new_display /\
  src_MockDisplay_get_pixel (src_MockDisplay_set_pixel (Build_MockDisplay (repeat None 4096) false false) (P 3 2) (Some 7)) (P 3 2) = Some 7 /\
  src_MockDisplay_get_pixel (src_MockDisplay_set_pixel (Build_MockDisplay (repeat None 4096) false false) (P 3 2) (Some 7)) (P 2 3) = None.
Proof. split; [exact drepr_new | split; vm_compute; reflexivity]. Qed.
