(* C20, translator tie (MockDisplay::draw_pixel, affected_area): regenerated from the source on every run by translate/r2c
   (coq/Gen/SrcMock2.v), with DISPLAY_AREA, OriginDimensions::size and the blanket Dimensions::bounding_box instance.
   draw_pixel is option-valued (None = the `panic!`s of the source or a panic of get_pixel / set_pixel_unchecked): on
   representing displays it panics exactly when the model's draw_pixel does, and otherwise yields a representing display.
   affected_area: `self.bounding_box().points().zip(self.pixels.iter()).filter_map(..).fold(..)`: the rectangle points iterator
   is driven to the list it yields (a collect driver over fuel; its `next` gets the constant fuel 3), zip / filter_map / fold
   are List.combine / flat_map / fold_left; on representing displays and with fuel above 4096 it equals the model's
   affected_area.  Statements only (proofs: Proofs/SrcMock2.v). *)
From EG Require Import Base.Prelude Base.Casts Model.Geometry Gen.MockConsts Model.Mockdisplay Gen.SrcGeometry Gen.SrcCircle Gen.SrcRectPoints Gen.SrcMock Gen.SrcMock2.
From EG Require Import Proofs.SrcMock Proofs.SrcMock2.
(* the generated definitions that cast to usize (`as usize`, `usize::try_from`) take the width of usize as Casts.UsizeW; the model
   of this property works with 64-bit usize (exact integers in range): taken at that width *)
#[local] Existing Instance Casts.usize64_w.

Theorem C20_src_draw_pixel_is_model : forall s d p c, drepr s d ->
  i32_min <= px p <= i32_max -> i32_min <= py p <= i32_max ->
  res_rel drepr (src_MockDisplay_draw_pixel s p c) (draw_pixel d p c).
Proof. exact src_draw_pixel_rel. Qed.
Theorem C20_src_draw_pixel_panics_iff_model : forall s d p c, drepr s d ->
  i32_min <= px p <= i32_max -> i32_min <= py p <= i32_max ->
  ((exists k, draw_pixel d p c = Panic k) <-> src_MockDisplay_draw_pixel s p c = None).
Proof. intros s d p c H Hx Hy. exact (res_rel_panic drepr _ _ (src_draw_pixel_rel s d p c H Hx Hy)). Qed.
Theorem C20_src_draw_pixel_ok_is_model : forall s d p c d', drepr s d ->
  i32_min <= px p <= i32_max -> i32_min <= py p <= i32_max ->
  draw_pixel d p c = Ok d' -> exists s', src_MockDisplay_draw_pixel s p c = Some s' /\ drepr s' d'.
Proof. intros s d p c d' H Hx Hy. exact (res_rel_ok drepr _ _ d' (src_draw_pixel_rel s d p c H Hx Hy)). Qed.

Theorem C20_src_affected_area_is_model : forall F s d, drepr s d -> (4096 < F)%nat ->
  src_MockDisplay_affected_area F s = Some (affected_area d).
Proof. exact src_affected_area_eq. Qed.

Theorem C20_src_display_area_is_model : src_DISPLAY_AREA = DISPLAY_AREA.
Proof. exact src_display_area_eq. Qed.

Example C20_src_area_nonvacuous :
  let s0 := Build_MockDisplay (repeat None 4096) false false in
  exists s1 s2, src_MockDisplay_draw_pixel s0 (P 3 2) 7 = Some s1 /\ src_MockDisplay_draw_pixel s1 (P 10 5) 1 = Some s2 /\
  src_MockDisplay_affected_area 4100 s2 = Some (R (P 3 2) (Geometry.S 8 4)) /\
  src_MockDisplay_draw_pixel s2 (P 3 2) 9 = None /\                       (* overdraw: panic *)
  src_MockDisplay_draw_pixel s2 (P 64 2) 9 = None /\                      (* out of bounds: panic *)
  src_MockDisplay_draw_pixel (src_MockDisplay_set_allow_out_of_bounds_drawing s2 true) (P 64 2) 9 = Some (src_MockDisplay_set_allow_out_of_bounds_drawing s2 true) /\
  (exists s3, src_MockDisplay_draw_pixel (src_MockDisplay_set_allow_overdraw s2 true) (P 3 2) 9 = Some s3 /\ src_MockDisplay_get_pixel s3 (P 3 2) = Some (Some 9)).
Proof.
  do 2 eexists. split; [vm_compute; reflexivity|]. split; [vm_compute; reflexivity|].
  repeat split; try (vm_compute; reflexivity). eexists. split; vm_compute; reflexivity.
Qed.
