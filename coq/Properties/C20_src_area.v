(* C20, translator tie (MockDisplay::draw_pixel, affected_area): regenerated from the source on every run by translate/r2c
   (coq/Gen/SrcMock2.v), with DISPLAY_AREA, OriginDimensions::size and the blanket Dimensions::bounding_box instance.
   draw_pixel: the `panic!` paths of the source end with the display unchanged (the generated definitions describe the
   non-panicking runs); whenever the model's draw_pixel does not panic the generated one yields a representing display.
   affected_area: `self.bounding_box().points().zip(self.pixels.iter()).filter_map(..).fold(..)`: the rectangle points iterator
   is driven to the list it yields (a collect driver over fuel; its `next` gets the constant fuel 3), zip / filter_map / fold
   are List.combine / flat_map / fold_left; on representing displays and with fuel above 4096 it equals the model's
   affected_area.  Statements only (proofs: Proofs/SrcMock2.v). *)
From EG Require Import Base.Prelude Base.Casts Model.Geometry Gen.MockConsts Model.Mockdisplay Gen.SrcGeometry Gen.SrcCircle Gen.SrcRectPoints Gen.SrcMock Gen.SrcMock2.
From EG Require Import Proofs.SrcMock Proofs.SrcMock2.

Theorem C20_src_draw_pixel_is_model : forall s d p c d', drepr s d ->
  i32_min <= px p <= i32_max -> i32_min <= py p <= i32_max ->
  draw_pixel d p c = Ok d' -> drepr (src_MockDisplay_draw_pixel s p c) d'.
Proof. exact src_draw_pixel_ok. Qed.

Theorem C20_src_affected_area_is_model : forall F s d, drepr s d -> (4096 < F)%nat ->
  src_MockDisplay_affected_area F s = Some (affected_area d).
Proof. exact src_affected_area_eq. Qed.

Theorem C20_src_display_area_is_model : src_DISPLAY_AREA = DISPLAY_AREA.
Proof. exact src_display_area_eq. Qed.

Example C20_src_area_nonvacuous :
  let s := src_MockDisplay_draw_pixel (src_MockDisplay_draw_pixel (Build_MockDisplay (repeat None 4096) false false) (P 3 2) 7) (P 10 5) 1 in
  src_MockDisplay_affected_area 4100 s = Some (R (P 3 2) (Geometry.S 8 4)) /\
  src_MockDisplay_get_pixel (src_MockDisplay_draw_pixel s (P 3 2) 9) (P 3 2) = Some 7.
Proof. split; vm_compute; reflexivity. Qed.
