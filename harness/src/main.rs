//! eg_oracle: runs the real embedded-graphics on one case per line "<suite> <args...>" and
//! prints one canonical result line per case (same protocol as ocaml/main.ml).
use std::io::{self, BufRead, Write};
use std::panic;

pub mod util;
mod suites;

fn main() {
    panic::set_hook(Box::new(|info| {
        let loc = info
            .location()
            .map(|l| format!("{}:{}", l.file(), l.line()))
            .unwrap_or_default();
        util::LAST_PANIC.with(|p| *p.borrow_mut() = loc);
    }));
    let stdin = io::stdin();
    let stdout = io::stdout();
    let mut out = io::BufWriter::new(stdout.lock());
    for line in stdin.lock().lines() {
        let line = line.unwrap();
        let toks: Vec<&str> = line.split_whitespace().collect();
        if toks.is_empty() {
            writeln!(out).unwrap();
            continue;
        }
        let suite = toks[0];
        let args = &toks[1..];
        let res = panic::catch_unwind(|| suites::dispatch(suite, args));
        match res {
            Ok(Some(s)) => writeln!(out, "{}", s).unwrap(),
            Ok(None) => writeln!(out, "UNKNOWN-SUITE {}", suite).unwrap(),
            Err(_) => {
                let loc = util::LAST_PANIC.with(|p| p.borrow().clone());
                writeln!(out, "PANIC {}", loc).unwrap()
            }
        }
    }
}
