//! eg_oracle: runs the real embedded-graphics on one case per line "<suite> <args...>" and
//! prints one canonical result line per case (same protocol as ocaml/main.ml).
use std::io::{self, BufRead, Write};
use std::panic;

pub mod util;
pub mod zoo;
mod suites;

/// Counting global allocator: C08 ("no heap allocation") reads the counter around library calls.
pub struct CountingAlloc;
pub static ALLOCS: std::sync::atomic::AtomicUsize = std::sync::atomic::AtomicUsize::new(0);
unsafe impl std::alloc::GlobalAlloc for CountingAlloc {
    unsafe fn alloc(&self, l: std::alloc::Layout) -> *mut u8 {
        ALLOCS.fetch_add(1, std::sync::atomic::Ordering::Relaxed);
        std::alloc::System.alloc(l)
    }
    unsafe fn dealloc(&self, p: *mut u8, l: std::alloc::Layout) {
        std::alloc::System.dealloc(p, l)
    }
    unsafe fn realloc(&self, p: *mut u8, l: std::alloc::Layout, n: usize) -> *mut u8 {
        ALLOCS.fetch_add(1, std::sync::atomic::Ordering::Relaxed);
        std::alloc::System.realloc(p, l, n)
    }
}
#[global_allocator]
static GLOBAL: CountingAlloc = CountingAlloc;
pub fn allocs() -> usize {
    ALLOCS.load(std::sync::atomic::Ordering::Relaxed)
}

fn main() {
    if std::env::var("EG_BT").is_err() { panic::set_hook(Box::new(|info| {
        let loc = info
            .location()
            .map(|l| format!("{}:{}", l.file(), l.line()))
            .unwrap_or_default();
        let msg = if let Some(s) = info.payload().downcast_ref::<&str>() {
            s.to_string()
        } else if let Some(s) = info.payload().downcast_ref::<String>() {
            s.clone()
        } else {
            String::new()
        };
        util::LAST_PANIC.with(|p| *p.borrow_mut() = loc);
        util::LAST_PANIC_MSG.with(|p| *p.borrow_mut() = msg);
    })); }
    let stdin = io::stdin();
    let stdout = io::stdout();
    let mut out = io::BufWriter::new(stdout.lock());
    for line in stdin.lock().lines() {
        let line = line.unwrap();
        let toks: Vec<&str> = line.split_whitespace().collect();
        if toks.is_empty() {
            writeln!(out).unwrap();
            continue;
        }
        let suite = toks[0];
        let args = &toks[1..];
        let res = panic::catch_unwind(|| suites::dispatch(suite, args));
        match res {
            Ok(Some(s)) => writeln!(out, "{}", s).unwrap(),
            Ok(None) => writeln!(out, "UNKNOWN-SUITE {}", suite).unwrap(),
            Err(_) => {
                let loc = util::LAST_PANIC.with(|p| p.borrow().clone());
                writeln!(out, "PANIC {}", loc).unwrap()
            }
        }
        // one answer per case, visible at once: the driver finds the case that hangs by the first missing answer
        out.flush().unwrap();
    }
}
