//! C01 (implementation-side search): one image per drawable, whichever drawing path the target offers.
//!   p_paths <bx> <by> <bw> <bh> <zoo case...>
//! Three paths are compared on a target whose bounding box is (bx,by,bw,bh) (non-origin, may cut the object
//! or miss it completely): draw() on a draw_iter-only target (trait defaults), draw() on a target with native
//! fill_contiguous / fill_solid / clear following their documented meaning, and pixels() fed to draw_iter.
use crate::util::*;
use crate::zoo::*;
use embedded_graphics::{pixelcolor::Rgb565, prelude::*, primitives::Rectangle};
use std::collections::BTreeMap;

fn first_diff(a: &BTreeMap<(i32, i32), u32>, b: &BTreeMap<(i32, i32), u32>) -> String {
    for (k, v) in a {
        if b.get(k) != Some(v) {
            return format!("({},{}) {} vs {:?}", k.1, k.0, v, b.get(k));
        }
    }
    for (k, v) in b {
        if !a.contains_key(k) {
            return format!("({},{}) none vs {}", k.1, k.0, v);
        }
    }
    "none".into()
}

pub fn run(suite: &str, a: &[&str]) -> Option<String> {
    if suite != "p_paths" {
        return None;
    }
    let bb = rc(a[0], a[1], a[2], a[3]);
    let z = Zoo::parse(&a[4..]);
    let mut ti = IterTarget::<Rgb565>::new(bb);
    z.draw(&mut ti).unwrap();
    let mut tn = NativeTarget::<Rgb565>::new(bb);
    z.draw(&mut tn).unwrap();
    if ti.map != tn.map {
        return Some(format!(
            "FAIL draw_iter-only vs native target: {} ({} vs {} px)",
            first_diff(&ti.map, &tn.map),
            ti.map.len(),
            tn.map.len()
        ));
    }
    // a draining native target must see the same picture (surplus colours are ignored)
    let mut td = NativeTarget::<Rgb565>::new(bb);
    td.drain = true;
    z.draw(&mut td).unwrap();
    if td.map != tn.map {
        return Some(format!("FAIL draining native target differs: {}", first_diff(&tn.map, &td.map)));
    }
    if let Some(px) = z.pixels(4_000_000) {
        let mut tp = IterTarget::<Rgb565>::new(bb);
        tp.draw_iter(px.into_iter()).unwrap();
        if tp.map != tn.map {
            return Some(format!(
                "FAIL pixels() via draw_iter vs draw(): {} ({} vs {} px)",
                first_diff(&tp.map, &tn.map),
                tp.map.len(),
                tn.map.len()
            ));
        }
    }
    Some(format!("OK {}", tn.map.len()))
}
