//! C01 image part.
//! Correspondence suite: fc_call (one fill_contiguous call through the REAL trait default on a draw_iter-only target).
//! Search suites: p_fc_call (trait default = native target = explicit row-major reference, any stream length),
//!                p_img_paths (an Image / SubImage gives the same pixel map on both kinds of target).
use super::c09::{dispatch, observe_case, C32};
use crate::util::*;
use embedded_graphics::{
    iterator::raw::RawDataSlice,
    pixelcolor::{
        raw::{BigEndianLsb0, DataOrder, LittleEndianMsb0},
        BinaryColor, Gray2, Gray4, Gray8, Rgb565, Rgb888,
    },
    prelude::*,
};
use std::collections::BTreeMap;

fn colors(n: usize, seed: u64) -> Vec<Gray8> {
    (0..n as u64).map(|i| Gray8::new(((seed + i * 7) % 251) as u8)).collect()
}

/// args: ax ay aw ah n seed bx by bw bh
fn fc_call(a: &[&str]) -> String {
    let area = rc(a[0], a[1], a[2], a[3]);
    let bb = rc(a[6], a[7], a[8], a[9]);
    let mut t = IterTarget::<Gray8>::new(bb);
    t.fill_contiguous(&area, colors(us(a[4]), a[5].parse().unwrap())).unwrap();
    smap(&t.map)
}

fn p_fc_call(a: &[&str]) -> String {
    let area = rc(a[0], a[1], a[2], a[3]);
    let bb = rc(a[6], a[7], a[8], a[9]);
    let cols = colors(us(a[4]), a[5].parse().unwrap());
    let mut t0 = IterTarget::<Gray8>::new(bb);
    t0.fill_contiguous(&area, cols.clone()).unwrap();
    let mut t1 = NativeTarget::<Gray8>::new(bb);
    t1.fill_contiguous(&area, cols.clone()).unwrap();
    // explicit reference: colour of (x,y) = item (y - ay) * w + (x - ax), for points of the area inside the box
    let mut want: BTreeMap<(i32, i32), u32> = BTreeMap::new();
    let (ax, ay, w, h) = (area.top_left.x as i64, area.top_left.y as i64, area.size.width as i64, area.size.height as i64);
    let (bx, by, bw, bh) = (bb.top_left.x as i64, bb.top_left.y as i64, bb.size.width as i64, bb.size.height as i64);
    for y in ay..ay + h {
        for x in ax..ax + w {
            let k = ((y - ay) * w + (x - ax)) as usize;
            if k < cols.len() && x >= bx && x < bx + bw && y >= by && y < by + bh {
                want.insert((y as i32, x as i32), cols[k].luma() as u32);
            }
        }
    }
    if t0.map != want {
        return format!("FAIL trait default paints {} pixels, reference {}", t0.map.len(), want.len());
    }
    if t1.map != want {
        return format!("FAIL native target paints {} pixels, reference {}", t1.map.len(), want.len());
    }
    format!("OK {}", want.len())
}

/// args as img_draw (suite c09); the target kind argument is overridden
fn p_img_paths<C, O>(a: &[&str]) -> String
where
    C: Tag,
    O: DataOrder,
    for<'a> RawDataSlice<'a, C::Raw, O>: IntoIterator<Item = C::Raw>,
{
    let mut v: Vec<&str> = a.to_vec();
    v[9] = "0";
    let o0 = match observe_case::<C, O>(&v) {
        Ok(o) => o,
        Err(_) => return "FAIL new rejected the documented length".to_string(),
    };
    v[9] = "1";
    let o1 = observe_case::<C, O>(&v).ok().unwrap();
    v[9] = "2";
    let o2 = observe_case::<C, O>(&v).ok().unwrap();
    if o0.map != o1.map {
        return format!("FAIL draw_iter-only target has {} pixels, native target {}", o0.map.len(), o1.map.len());
    }
    if o2.map != o1.map {
        return "FAIL draining native target differs".to_string();
    }
    if o0.bbox != o1.bbox {
        return "FAIL bounding boxes differ".to_string();
    }
    match &o1.log {
        Some(l) if l.len() <= 1 => {}
        other => return format!("FAIL expected at most one fill_contiguous call, got {:?}", other),
    }
    format!("OK {}", o0.map.len())
}

pub fn run(suite: &str, a: &[&str]) -> Option<String> {
    Some(match suite {
        "fc_call" => fc_call(a),
        "p_fc_call" => p_fc_call(a),
        "p_img_paths" => dispatch!(p_img_paths, a),
        _ => return None,
    })
}
