//! C01 part (a): a draw_iter-only target (real trait defaults) and a native target end up with the same
//! pixel map.
//!   p_c01_calls <bb x y w h> <nad> <adapters> <nops> <ops>     (case syntax of c03.rs, without the kind)
//!       runs the history on IterTarget (trait defaults of core/src/draw_target/mod.rs) and on NativeTarget
//!       (documented meaning) and compares root pixel maps and every reported bounding box.
//!   p_c01_zoo <bb x y w h> <zoo case...>
//!       draw() of a built-in drawable (harness/src/zoo.rs) on both targets with bounding box bb, optionally
//!       through a clipped+translated stack; the two pixel maps must be equal and the native target must
//!       have received only calls whose effect the default path reproduces.
use super::c03::{parse, run_case};
use crate::util::*;
use crate::zoo::Zoo;
use embedded_graphics::{pixelcolor::Rgb565, prelude::*};

fn diff(a: &std::collections::BTreeMap<(i32, i32), u32>, b: &std::collections::BTreeMap<(i32, i32), u32>) -> Option<String> {
    if a == b {
        return None;
    }
    a.iter()
        .find(|(k, v)| b.get(k) != Some(v))
        .map(|(k, v)| format!("({},{}) draw_iter-only {} native {:?}", k.1, k.0, v, b.get(k)))
        .or_else(|| b.iter().find(|(k, _)| !a.contains_key(k)).map(|(k, v)| format!("({},{}) draw_iter-only none native {}", k.1, k.0, v)))
}

pub fn run(suite: &str, a: &[&str]) -> Option<String> {
    Some(match suite {
        "p_c01_calls" => {
            let mut args = vec!["0"];
            args.extend_from_slice(a);
            let mut c = parse(&args);
            c.kind = 0;
            let (m0, b0, _) = run_case(&c);
            c.kind = 1;
            let (m1, b1, _) = run_case(&c);
            if b0 != b1 {
                return Some(format!("FAIL bounding boxes differ {:?} {:?}", b0, b1));
            }
            for (i, (x, y)) in m0.iter().zip(m1.iter()).enumerate() {
                if let Some(d) = diff(x, y) {
                    return Some(format!("FAIL class=default_vs_native pixel maps differ after op {}: {}", i + 1, d));
                }
            }
            format!("OK {}", m0.last().map(|m| m.len()).unwrap_or(0))
        }
        "p_c01_zoo" => {
            let bb = rc(a[0], a[1], a[2], a[3]);
            let mode = u(a[4]);
            let z = Zoo::parse(&a[5..]);
            let mut t0: IterTarget<Rgb565> = IterTarget::new(bb);
            let mut t1: NativeTarget<Rgb565> = NativeTarget::new(bb);
            match mode {
                0 => {
                    z.draw(&mut t0).unwrap();
                    z.draw(&mut t1).unwrap();
                }
                1 => {
                    let clip = bb.offset(-1);
                    z.draw(&mut t0.clipped(&clip)).unwrap();
                    z.draw(&mut t1.clipped(&clip)).unwrap();
                }
                _ => {
                    let d = Point::new(3, -2);
                    let crop = bb.offset(-1);
                    z.draw(&mut t0.translated(d).cropped(&crop.translate(-d))).unwrap();
                    z.draw(&mut t1.translated(d).cropped(&crop.translate(-d))).unwrap();
                }
            }
            match diff(&t0.map, &t1.map) {
                Some(d) => format!("FAIL class=default_vs_native pixel maps differ: {}", d),
                None => format!("OK {}", t0.map.len()),
            }
        }
        _ => return None,
    })
}
