//! Cross-cutting parts for the triangle / polyline family (C01 b, C02, C07 clauses), implementation side.
//!
//! correspondence (model: coq/Model/Tristyled.v):
//!   tri_styled_w0 x1 y1 x2 y2 x3 y3 fill stroke align     Styled<Triangle> with stroke width 0: pixels() as x:y:c list
//!   tri_styled_w0_draw ...same...                         draw() on a native target: the fill_solid calls x:y:w:h:c
//!   poly_styled_thin tx ty stroke width n x1 y1 ...       Styled<Polyline> with width <= 1: pixels() as x:y:c list
//! search (property itself, any stroke width):
//!   p_tri_styled <zoo case of family tri or poly>
use crate::util::*;
use crate::zoo::*;
use embedded_graphics::{
    pixelcolor::Rgb565,
    prelude::*,
    primitives::{Polyline, PrimitiveStyle, PrimitiveStyleBuilder, Rectangle, StrokeAlignment, Triangle},
    Pixel,
};
use std::collections::BTreeMap;

fn w0_style(fill: &str, stroke: &str, align: &str) -> PrimitiveStyle<Rgb565> {
    let mut b = PrimitiveStyleBuilder::new().stroke_width(0);
    if fill == "1" {
        b = b.fill_color(FILL);
    }
    if stroke == "1" {
        b = b.stroke_color(STROKE);
    }
    b.stroke_alignment(match align {
        "0" => StrokeAlignment::Inside,
        "1" => StrokeAlignment::Center,
        _ => StrokeAlignment::Outside,
    })
    .build()
}
fn ctag(c: Rgb565) -> u32 {
    c.tag()
}
fn spix<I: Iterator<Item = Pixel<Rgb565>>>(it: I) -> String {
    it.map(|Pixel(p, c)| format!("{}:{}:{}", p.x, p.y, ctag(c))).collect::<Vec<_>>().join(",")
}
fn big() -> Rectangle {
    Rectangle::new(Point::new(-20000, -20000), Size::new(40000, 40000))
}

pub fn run(suite: &str, a: &[&str]) -> Option<String> {
    Some(match suite {
        "tri_styled_w0" => {
            let t = Triangle::new(pt(a[0], a[1]), pt(a[2], a[3]), pt(a[4], a[5]));
            spix(t.into_styled(w0_style(a[6], a[7], a[8])).pixels())
        }
        "tri_styled_w0_draw" => {
            let t = Triangle::new(pt(a[0], a[1]), pt(a[2], a[3]), pt(a[4], a[5]));
            let mut tg = NativeTarget::<Rgb565>::new(big());
            t.into_styled(w0_style(a[6], a[7], a[8])).draw(&mut tg).unwrap();
            tg.log
                .iter()
                .map(|c| match c {
                    Call::FillSolid(r, c) => format!("{}:{}:{}:{}:{}", r.top_left.x, r.top_left.y, r.size.width, r.size.height, c),
                    other => format!("UNEXPECTED-CALL {:?}", other),
                })
                .collect::<Vec<_>>()
                .join(",")
        }
        "poly_styled_thin" => {
            let n = us(a[4]);
            let vs: Vec<Point> = (0..n).map(|k| pt(a[5 + 2 * k], a[6 + 2 * k])).collect();
            let mut b = PrimitiveStyleBuilder::new().stroke_width(u(a[3]));
            if a[2] == "1" {
                b = b.stroke_color(STROKE);
            }
            spix(Polyline::new(&vs).translate(pt(a[0], a[1])).into_styled(b.build()).pixels())
        }
        "p_tri_styled" => check_styled(a),
        _ => return None,
    })
}

fn map_of(px: &[Pixel<Rgb565>]) -> BTreeMap<(i32, i32), u32> {
    let mut m = BTreeMap::new();
    for Pixel(p, c) in px {
        m.insert((p.y, p.x), ctag(*c));
    }
    m
}

fn check_styled(a: &[&str]) -> String {
    let z = Zoo::parse(a);
    let st = z.style;
    let px = z.pixels(4_000_000).unwrap();
    let pm = map_of(&px);
    // C01 (b): pixels() and draw() give the same image, on both kinds of target
    let mut it = IterTarget::<Rgb565>::new(big());
    z.draw(&mut it).unwrap();
    let mut nt = NativeTarget::<Rgb565>::new(big());
    z.draw(&mut nt).unwrap();
    if it.map != pm {
        return format!("FAIL pixels() and draw() (draw_iter-only target) differ: {} vs {} pixels", pm.len(), it.map.len());
    }
    if nt.map != pm {
        return format!("FAIL pixels() and draw() (native target) differ: {} vs {} pixels", pm.len(), nt.map.len());
    }
    // no pixel is given two different colours by pixels() (stroke and fill do not overlap)
    let mut seen: BTreeMap<(i32, i32), u32> = BTreeMap::new();
    for Pixel(p, c) in &px {
        if let Some(old) = seen.insert((p.y, p.x), ctag(*c)) {
            if old != ctag(*c) {
                return format!("FAIL pixels() yields {:?} with two colours", p);
            }
        }
    }
    // C02: everything inside the styled bounding box; transparent draws nothing
    let bb = z.bounding_box();
    for Pixel(p, _) in &px {
        if !bb.contains(*p) {
            return format!("FAIL pixel {:?} outside the styled bounding box {:?}", p, bb);
        }
    }
    if st.is_transparent() && !pm.is_empty() {
        return "FAIL transparent style draws".into();
    }
    // stroke colour without width / width without colour never shows the stroke colour
    if (st.stroke_color.is_none() || st.stroke_width == 0) && pm.values().any(|c| *c == ctag(STROKE)) {
        return "FAIL stroke colour drawn although the stroke is invisible".into();
    }
    if st.fill_color.is_none() && pm.values().any(|c| *c == ctag(FILL)) {
        return "FAIL fill colour drawn although there is no fill".into();
    }
    match &z.geo {
        Geo::Tri(t) => {
            // width 0, non-degenerate: exactly points(), in the same order, in the fill colour (nothing without fill).
            // (colinear vertices with Inside alignment: finding K19_inside_fill_colinear, reported by C19's p_tri_fill)
            let [p1, p2, p3] = t.vertices;
            let area2 = (p2.x as i64 - p1.x as i64) * (p3.y as i64 - p1.y as i64) - (p2.y as i64 - p1.y as i64) * (p3.x as i64 - p1.x as i64);
            if st.stroke_width == 0 && area2 != 0 {
                let want: Vec<(Point, u32)> = if st.fill_color.is_some() { t.points().map(|p| (p, ctag(FILL))).collect() } else { vec![] };
                let got: Vec<(Point, u32)> = px.iter().map(|Pixel(p, c)| (*p, ctag(*c))).collect();
                if got != want {
                    return format!("FAIL width 0: pixels() is not points() in the fill colour ({} vs {})", got.len(), want.len());
                }
            }
        }
        Geo::Poly(tr, v) => {
            let pl = Polyline::new(v).translate(*tr);
            if st.stroke_width <= 1 {
                let want: Vec<(Point, u32)> = if st.stroke_color.is_some() && st.stroke_width == 1 {
                    pl.points().map(|p| (p, ctag(STROKE))).collect()
                } else {
                    vec![]
                };
                let got: Vec<(Point, u32)> = px.iter().map(|Pixel(p, c)| (*p, ctag(*c))).collect();
                if got != want {
                    return format!("FAIL thin polyline: pixels() is not points() in the stroke colour ({} vs {})", got.len(), want.len());
                }
            }
            if pm.values().any(|c| *c == ctag(FILL)) {
                return "FAIL polyline drawn in the fill colour".into();
            }
        }
        _ => return "BAD-ARGS family".into(),
    }
    format!("OK {}", pm.len())
}
