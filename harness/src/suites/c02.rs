//! C02 (implementation-side search): bounding boxes contain everything drawn; transparent draws nothing.
//!   p_bbox <zoo case...>
use crate::util::*;
use crate::zoo::*;
use embedded_graphics::{pixelcolor::Rgb565, prelude::*, primitives::Rectangle};

pub fn run(suite: &str, a: &[&str]) -> Option<String> {
    if suite != "p_bbox" {
        return None;
    }
    let z = Zoo::parse(a);
    let bb = z.bounding_box();
    let big = Rectangle::new(Point::new(-6000, -6000), Size::new(12000, 12000));
    let mut t = NativeTarget::<Rgb565>::new(big);
    z.draw(&mut t).unwrap();
    let mut t2 = IterTarget::<Rgb565>::new(big);
    z.draw(&mut t2).unwrap();
    for m in [&t.map, &t2.map] {
        for ((y, x), _) in m.iter() {
            if !bb.contains(Point::new(*x, *y)) {
                return Some(format!("FAIL pixel ({},{}) drawn outside bounding_box {:?}", x, y, bb));
            }
        }
    }
    if let Some(px) = z.pixels(4_000_000) {
        for p in px {
            if !bb.contains(p.0) {
                return Some(format!("FAIL pixels() yields {:?} outside bounding_box {:?}", p.0, bb));
            }
        }
    }
    if z.is_transparent() && !(t.map.is_empty() && t2.map.is_empty()) {
        return Some(format!("FAIL transparent style drew {} pixels", t.map.len()));
    }
    Some(format!("OK {}", t.map.len()))
}
