//! C02 (join part, implementation-side search): every pixel of a thick polyline / stroked triangle lies inside the
//! styled bounding box.
//!   p_thick_bbox poly <w> x1 y1 ...
//!   p_thick_bbox tri <w> <align> x1 y1 x2 y2 x3 y3
//! A failure is classified `class=K02_thick_skeleton_bbox` when it is the recorded defect: a join of the polyline whose
//! two corners were rounded to the same point, which makes ThickSegment::is_skeleton() true for a stroke wider than
//! 1 px; the segment is then drawn along its RIGHT edge but its bounding box is taken from its LEFT edge.
use crate::util::*;
use embedded_graphics::{pixelcolor::Rgb565, prelude::*, primitives::verif_hooks as vh, primitives::*};

fn pts(a: &[&str]) -> Vec<Point> {
    a.chunks(2).filter(|c| c.len() == 2).map(|c| pt(c[0], c[1])).collect()
}
fn big() -> Rectangle {
    Rectangle::new(Point::new(-100000, -100000), Size::new(200000, 200000))
}

/// p_thick_grid tri <w> <align> <kx> <ky> <i>  /  p_thick_grid poly <w> <kx> <ky> <i>
/// exhaustive stratum: ALL ordered vertex triples of a kx x ky grid whose first vertex has index i (x = i % kx, y = i / kx);
/// every pixels() item of the stroked triangle / 3-vertex polyline must lie in the styled bounding_box().  Small grids at
/// width 2..3 are where join corners round to one point (ThickSegment::is_skeleton() for a stroke wider than 1 px) --
/// about 1 in 10^5 random triangles, so the random strata of p_thick_bbox do not reach them (mutation
/// closed_thick_segment_iter.rs `ThickSegment::new(end_join, start_join)`: Triangle (2,0),(0,3),(3,8) width 2 Center).
fn thick_grid(a: &[&str]) -> String {
    let poly = a[0] == "poly";
    let w = u(a[1]);
    let o = if poly { 2 } else { 3 };
    let (kx, ky, i) = (i(a[o]), i(a[o + 1]), i(a[o + 2]));
    let p = |n: i32| Point::new(n % kx, n / kx);
    let b = PrimitiveStyleBuilder::new().stroke_color(Rgb565::GREEN).stroke_width(w);
    let st = if poly {
        b.build()
    } else {
        b.stroke_alignment(match a[2] {
            "0" => StrokeAlignment::Inside,
            "1" => StrokeAlignment::Center,
            _ => StrokeAlignment::Outside,
        })
        .build()
    };
    let mut n = 0usize;
    for j in 0..kx * ky {
        for k in 0..kx * ky {
            let v = [p(i), p(j), p(k)];
            let (bb, bad) = if poly {
                let s = Polyline::new(&v).into_styled(st);
                let bb = s.bounding_box();
                (bb, s.pixels().map(|Pixel(q, _)| q).find(|q| !bb.contains(*q)))
            } else {
                let s = Triangle::new(v[0], v[1], v[2]).into_styled(st);
                let bb = s.bounding_box();
                (bb, s.pixels().map(|Pixel(q, _)| q).find(|q| !bb.contains(*q)))
            };
            if let Some(q) = bad {
                return format!(
                    "FAIL {} ({},{}) ({},{}) ({},{}) width {}: pixel ({},{}) is outside the styled bounding box {} {} {} {}",
                    a[0], v[0].x, v[0].y, v[1].x, v[1].y, v[2].x, v[2].y, w, q.x, q.y, bb.top_left.x, bb.top_left.y, bb.size.width, bb.size.height
                );
            }
            n += 1;
        }
    }
    format!("OK {}", n)
}

/// p_thick_skel <w> <kx> <ky> <i>: directed stratum for collapsed joins.  For every ordered vertex triple (a, b, c) of the
/// kx x ky grid with first vertex index i whose join at b has two coincident corners (hook `line_join`; this is what makes
/// ThickSegment::is_skeleton() true for a stroke wider than 1 px), the polylines [p,a,b,c], [a,b,c,q] and [p,a,b,c,q] for
/// p, q on a ring around a and c, and the three triangles (a,b,c) x alignment, must draw inside their styled bounding_box().
/// (Random polylines hit a collapsed interior join next to another interior join about once in 10^6 cases.)
fn thick_skel(a: &[&str]) -> String {
    let w = u(a[0]);
    let (kx, ky, i0) = (i(a[1]), i(a[2]), i(a[3]));
    let p = |n: i32| Point::new(n % kx, n / kx);
    // neighbours at several distances and all angles (a sharp reversal next to the collapsed join makes a bevel whose outer
    // corner is an extreme point of the box)
    const D: [i32; 7] = [-14, -7, -3, 0, 3, 7, 14];
    let ring: Vec<(i32, i32)> = D.iter().flat_map(|x| D.iter().map(move |y| (*x, *y))).filter(|o| *o != (0, 0)).collect();
    let ring2 = [(3, 0), (0, 7), (-7, -3), (14, -7), (-3, 14), (-14, 3)];
    let st = PrimitiveStyle::with_stroke(Rgb565::GREEN, w);
    let check = |v: &[Point]| -> Option<String> {
        let s = Polyline::new(v).into_styled(st);
        let bb = s.bounding_box();
        s.pixels().map(|Pixel(q, _)| q).find(|q| !bb.contains(*q)).map(|q| {
            format!(
                "FAIL poly {} width {}: pixel ({},{}) is outside the styled bounding box {} {} {} {}",
                v.iter().map(|p| format!("({},{})", p.x, p.y)).collect::<Vec<_>>().join(" "),
                w, q.x, q.y, bb.top_left.x, bb.top_left.y, bb.size.width, bb.size.height
            )
        })
    };
    let (mut joins, mut n) = (0usize, 0usize);
    for j in 0..kx * ky {
        for k in 0..kx * ky {
            let (va, vb, vc) = (p(i0), p(j), p(k));
            let (_, _, c) = vh::line_join(2, va, vb, vc, w, 0);
            if !(c[0] == c[1] || c[2] == c[3]) {
                continue;
            }
            joins += 1;
            for (dx, dy) in ring.iter().copied() {
                let (pp, qq) = (va + Point::new(dx, dy), vc + Point::new(dx, dy));
                for v in [&[pp, va, vb, vc][..], &[va, vb, vc, qq][..]] {
                    n += 1;
                    if let Some(f) = check(v) {
                        return f;
                    }
                }
                for (ex, ey) in ring2 {
                    n += 1;
                    if let Some(f) = check(&[pp, va, vb, vc, vc + Point::new(ex, ey)]) {
                        return f;
                    }
                }
            }
            for al in [StrokeAlignment::Inside, StrokeAlignment::Center, StrokeAlignment::Outside] {
                let s = Triangle::new(va, vb, vc)
                    .into_styled(PrimitiveStyleBuilder::new().stroke_color(Rgb565::GREEN).stroke_width(w).stroke_alignment(al).build());
                let bb = s.bounding_box();
                n += 1;
                if let Some(q) = s.pixels().map(|Pixel(q, _)| q).find(|q| !bb.contains(*q)) {
                    return format!("FAIL tri ({},{}) ({},{}) ({},{}) width {} {:?}: pixel ({},{}) is outside the styled bounding box", va.x, va.y, vb.x, vb.y, vc.x, vc.y, w, al, q.x, q.y);
                }
            }
        }
    }
    format!("OK {} collapsed joins, {} shapes", joins, n)
}

pub fn run(suite: &str, a: &[&str]) -> Option<String> {
    if suite == "p_thick_grid" {
        return Some(thick_grid(a));
    }
    if suite == "p_thick_skel" {
        return Some(thick_skel(a));
    }
    if suite != "p_thick_bbox" {
        return None;
    }
    let mut t = NativeTarget::<Rgb565>::new(big());
    let (bb, collapsed_join) = match a[0] {
        "poly" => {
            let w = u(a[1]);
            let v = pts(&a[2..]);
            let st = PrimitiveStyle::with_stroke(Rgb565::GREEN, w);
            Polyline::new(&v).into_styled(st).draw(&mut t).unwrap();
            let collapsed = w > 1
                && v.windows(3).any(|s| {
                    let (_, _, c) = vh::line_join(2, s[0], s[1], s[2], w, 0);
                    c[0] == c[1] || c[2] == c[3]
                });
            (Polyline::new(&v).into_styled(st).bounding_box(), collapsed)
        }
        "tri" => {
            let v = pts(&a[3..]);
            let st = PrimitiveStyleBuilder::new()
                .stroke_color(Rgb565::GREEN)
                .stroke_width(u(a[1]))
                .stroke_alignment(match a[2] {
                    "0" => StrokeAlignment::Inside,
                    "1" => StrokeAlignment::Center,
                    _ => StrokeAlignment::Outside,
                })
                .build();
            let tri = Triangle::new(v[0], v[1], v[2]);
            tri.into_styled(st).draw(&mut t).unwrap();
            (tri.into_styled(st).bounding_box(), false)
        }
        _ => return Some("BAD-ARGS".into()),
    };
    if let Some(((y, x), _)) = t.map.iter().find(|((y, x), _)| !bb.contains(Point::new(*x, *y))) {
        return Some(format!(
            "FAIL {}pixel ({},{}) is drawn outside the styled bounding box {} {} {} {}",
            if collapsed_join { "class=K02_thick_skeleton_bbox " } else { "" },
            x, y, bb.top_left.x, bb.top_left.y, bb.size.width, bb.size.height
        ));
    }
    Some(format!("OK {}", t.map.len()))
}
