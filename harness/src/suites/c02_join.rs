//! C02 (join part, implementation-side search): every pixel of a thick polyline / stroked triangle lies inside the
//! styled bounding box.
//!   p_thick_bbox poly <w> x1 y1 ...
//!   p_thick_bbox tri <w> <align> x1 y1 x2 y2 x3 y3
//! A failure is classified `class=K02_thick_skeleton_bbox` when it is the recorded defect: a join of the polyline whose
//! two corners were rounded to the same point, which makes ThickSegment::is_skeleton() true for a stroke wider than
//! 1 px; the segment is then drawn along its RIGHT edge but its bounding box is taken from its LEFT edge.
use crate::util::*;
use embedded_graphics::{pixelcolor::Rgb565, prelude::*, primitives::verif_hooks as vh, primitives::*};

fn pts(a: &[&str]) -> Vec<Point> {
    a.chunks(2).filter(|c| c.len() == 2).map(|c| pt(c[0], c[1])).collect()
}
fn big() -> Rectangle {
    Rectangle::new(Point::new(-100000, -100000), Size::new(200000, 200000))
}

pub fn run(suite: &str, a: &[&str]) -> Option<String> {
    if suite != "p_thick_bbox" {
        return None;
    }
    let mut t = NativeTarget::<Rgb565>::new(big());
    let (bb, collapsed_join) = match a[0] {
        "poly" => {
            let w = u(a[1]);
            let v = pts(&a[2..]);
            let st = PrimitiveStyle::with_stroke(Rgb565::GREEN, w);
            Polyline::new(&v).into_styled(st).draw(&mut t).unwrap();
            let collapsed = w > 1
                && v.windows(3).any(|s| {
                    let (_, _, c) = vh::line_join(2, s[0], s[1], s[2], w, 0);
                    c[0] == c[1] || c[2] == c[3]
                });
            (Polyline::new(&v).into_styled(st).bounding_box(), collapsed)
        }
        "tri" => {
            let v = pts(&a[3..]);
            let st = PrimitiveStyleBuilder::new()
                .stroke_color(Rgb565::GREEN)
                .stroke_width(u(a[1]))
                .stroke_alignment(match a[2] {
                    "0" => StrokeAlignment::Inside,
                    "1" => StrokeAlignment::Center,
                    _ => StrokeAlignment::Outside,
                })
                .build();
            let tri = Triangle::new(v[0], v[1], v[2]);
            tri.into_styled(st).draw(&mut t).unwrap();
            (tri.into_styled(st).bounding_box(), false)
        }
        _ => return Some("BAD-ARGS".into()),
    };
    if let Some(((y, x), _)) = t.map.iter().find(|((y, x), _)| !bb.contains(Point::new(*x, *y))) {
        return Some(format!(
            "FAIL {}pixel ({},{}) is drawn outside the styled bounding box {} {} {} {}",
            if collapsed_join { "class=K02_thick_skeleton_bbox " } else { "" },
            x, y, bb.top_left.x, bb.top_left.y, bb.size.width, bb.size.height
        ));
    }
    Some(format!("OK {}", t.map.len()))
}
