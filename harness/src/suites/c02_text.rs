//! C02 text clause (implementation side): every pixel Text::draw touches lies in Text::bounding_box();
//! a transparent character style draws nothing.
//!   p_c02_text <builtin font> <style:4> align base lhk lhv x y <n text..>
//!   p_c02_text_synth <font:10> <style:4> align base lhk lhv x y repl <n map..> <n text..>   (custom font records)
use crate::suites::c14::*;
use crate::suites::c15::*;
use crate::util::*;
use embedded_graphics::{mono_font::MonoTextStyle, pixelcolor::Gray8, prelude::*, text::{Text, TextStyle}};

fn check(st: MonoTextStyle<'_, Gray8>, ts: TextStyle, text: &str, pos: Point) -> String {
    let t = Text::with_text_style(text, pos, st, ts);
    let bb = t.bounding_box();
    let mut nat = NativeTarget::<Gray8>::new(big());
    t.draw(&mut nat).unwrap();
    let mut it = IterTarget::<Gray8>::new(big());
    t.draw(&mut it).unwrap();
    for m in [&nat.map, &it.map] {
        for ((y, x), _) in m.iter() {
            if !bb.contains(Point::new(*x, *y)) {
                return format!("FAIL pixel ({},{}) drawn outside bounding_box {:?} text {:?}", x, y, bb, text);
            }
        }
    }
    if st.is_transparent() && (!nat.map.is_empty() || !nat.log.is_empty() || !it.map.is_empty()) {
        return format!("FAIL transparent style reached the target ({} calls)", nat.log.len());
    }
    format!("OK {}", nat.map.len())
}

pub fn run(suite: &str, a: &[&str]) -> Option<String> {
    Some(match suite {
        "p_c02_text" => {
            let (font, _) = match find_font(a[0]) { Some(x) => x, None => return Some("FAIL no such font".into()) };
            let st = mk_style(font, &a[1..5]);
            let ts = tstyle(&a[5..9]);
            let (text, _) = parse_list(a, 11);
            check(st, ts, &to_string(&text), Point::new(i(a[9]), i(a[10])))
        }
        "p_c02_text_synth" => {
            let (spec, k) = parse_font(a);
            let sty = &a[k..k + 4];
            let ts = tstyle(&a[k + 4..k + 8]);
            let (x, y, repl) = (i(a[k + 8]), i(a[k + 9]), us(a[k + 10]));
            let (map, k2) = parse_list(a, k + 11);
            let (text, _) = parse_list(a, k2);
            // the clause is stated for advance_consistent lines: spacing 0 or a text/background colour
            if spec.sp > 0 && sty[0] == "0" && sty[1] == "0" { return Some("OK skipped".into()); }
            // and for font records whose strikethrough lies inside the glyph height (font_wf)
            if spec.so + spec.sh > spec.ch { return Some("OK skipped".into()); }
            let (mapstr, text) = (to_string(&map), to_string(&text));
            with_synth_font(&spec, repl, &mapstr, |font| check(mk_style(font, sty), ts, &text, Point::new(x, y)))
        }
        _ => return None,
    })
}
