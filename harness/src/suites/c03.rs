//! C03: clipped / cropped / translated / colour-converted targets and the trait defaults.
//!
//! Case line (shared with ocaml/suites/c03.ml):
//!   tstack <kind 0=draw_iter-only|1=native> <bb x y w h> <nad> <adapters, innermost first> <nops> <ops>
//!     adapter:  C x y w h (clipped) | R x y w h (cropped) | T dx dy (translated) | V (color_converted)
//!     op:       D n (x y c)*n (draw_iter) | P x y c (`Pixel(p, c).draw(t)`, core/src/drawable.rs:146)
//!               | DI n (x y c)*n (`pixels.into_iter().draw(t)`, PixelIteratorExt::draw, src/iterator/mod.rs:51)
//!               | DT dx dy n (x y c)*n (`pixels.into_iter().translated(d).draw(t)`, iterator/pixel.rs)
//!               | F x y w h L n c*n | F x y w h G n a b (n colours (a*i+b) mod 251)
//!               | F x y w h I c (endless repeat) | S x y w h c | K c
//!   result:  BB <outermost bounding_box()> MAP <root pixel map after op 1> | <after op 2> | ...
//!            (each map sorted by (y,x); the state of the innermost parent after EVERY operation)
//!   tcalls: same input (kind ignored, native parent); result = the calls that reached the parent.
//!   tcrop <w> <h> <crop x y w h> <stream>: the Cropped colour iterator through a clipped target.
//!   p_stack: same input as tstack; evaluates the property against a set-theoretic reference after every op.
//!
//! How the stack is built (`go`): up to depth 3 the adapters are the concrete nested library types
//! (`Clipped<Cropped<Translated<..>>>` in whatever order the case asks for, each created by calling the
//! `DrawTargetExt` constructor on the already adapted target) and the operations are issued through the public
//! `DrawTarget` methods of that concrete type; deeper stacks continue behind a type-erasing forwarder (`Dyn`).
//! `p_chain` additionally runs literal method chains on temporaries (`t.translated(d).cropped(&r)...`).
use crate::util::*;
use embedded_graphics::{
    pixelcolor::{raw::RawU8, PixelColor},
    prelude::*,
    primitives::Rectangle,
    Pixel,
};
use std::collections::BTreeMap;

// ---- test colours: K is the parent's colour type, K2 converts into K by c -> (7c+3) mod 256 ----
#[derive(Clone, Copy, PartialEq, Debug)]
pub struct K(pub u8);
impl PixelColor for K {
    type Raw = RawU8;
}
impl From<RawU8> for K {
    fn from(r: RawU8) -> Self {
        K(r.into_inner())
    }
}
impl From<K> for RawU8 {
    fn from(k: K) -> Self {
        RawU8::new(k.0)
    }
}
#[derive(Clone, Copy, PartialEq, Debug)]
pub struct K2(pub u8);
impl PixelColor for K2 {
    type Raw = RawU8;
}
impl From<RawU8> for K2 {
    fn from(r: RawU8) -> Self {
        K2(r.into_inner())
    }
}
impl From<K2> for RawU8 {
    fn from(k: K2) -> Self {
        RawU8::new(k.0)
    }
}
pub fn conv_test(c: u32) -> u32 {
    (c * 7 + 3) % 256
}
impl From<K2> for K {
    fn from(c: K2) -> K {
        K(conv_test(c.0 as u32) as u8)
    }
}

// ---- type erasure so that adapter stacks of any depth have one Rust type -------------------
pub trait DynT<C: PixelColor, E> {
    fn d_draw_iter(&mut self, it: &mut dyn Iterator<Item = Pixel<C>>) -> Result<(), E>;
    fn d_fill_contiguous(&mut self, area: &Rectangle, it: &mut dyn Iterator<Item = C>) -> Result<(), E>;
    fn d_fill_solid(&mut self, area: &Rectangle, c: C) -> Result<(), E>;
    fn d_clear(&mut self, c: C) -> Result<(), E>;
    fn d_bb(&self) -> Rectangle;
}
impl<T: DrawTarget> DynT<T::Color, T::Error> for T {
    fn d_draw_iter(&mut self, it: &mut dyn Iterator<Item = Pixel<T::Color>>) -> Result<(), T::Error> {
        self.draw_iter(it)
    }
    fn d_fill_contiguous(&mut self, area: &Rectangle, it: &mut dyn Iterator<Item = T::Color>) -> Result<(), T::Error> {
        self.fill_contiguous(area, it)
    }
    fn d_fill_solid(&mut self, area: &Rectangle, c: T::Color) -> Result<(), T::Error> {
        self.fill_solid(area, c)
    }
    fn d_clear(&mut self, c: T::Color) -> Result<(), T::Error> {
        self.clear(c)
    }
    fn d_bb(&self) -> Rectangle {
        self.bounding_box()
    }
}
/// Forwards each of the four methods to the same method of the erased target (no default is used).
pub struct Dyn<'a, C: PixelColor, E>(pub &'a mut dyn DynT<C, E>);
impl<C: PixelColor, E> Dimensions for Dyn<'_, C, E> {
    fn bounding_box(&self) -> Rectangle {
        self.0.d_bb()
    }
}
impl<C: PixelColor, E> DrawTarget for Dyn<'_, C, E> {
    type Color = C;
    type Error = E;
    fn draw_iter<I: IntoIterator<Item = Pixel<C>>>(&mut self, pixels: I) -> Result<(), E> {
        self.0.d_draw_iter(&mut pixels.into_iter())
    }
    fn fill_contiguous<I: IntoIterator<Item = C>>(&mut self, area: &Rectangle, colors: I) -> Result<(), E> {
        self.0.d_fill_contiguous(area, &mut colors.into_iter())
    }
    fn fill_solid(&mut self, area: &Rectangle, color: C) -> Result<(), E> {
        self.0.d_fill_solid(area, color)
    }
    fn clear(&mut self, color: C) -> Result<(), E> {
        self.0.d_clear(color)
    }
}
/// Presents a K2 target as a K target by relabelling K(c) as K2(c) (so that a stack keeps one colour
/// type; the real ColorConverted<_, K2> sits directly below and does the conversion under test).
struct Relabel<'a, T>(&'a mut T);
impl<T: Dimensions> Dimensions for Relabel<'_, T> {
    fn bounding_box(&self) -> Rectangle {
        self.0.bounding_box()
    }
}
impl<T: DrawTarget<Color = K2>> DrawTarget for Relabel<'_, T> {
    type Color = K;
    type Error = T::Error;
    fn draw_iter<I: IntoIterator<Item = Pixel<K>>>(&mut self, pixels: I) -> Result<(), T::Error> {
        self.0.draw_iter(pixels.into_iter().map(|Pixel(p, c)| Pixel(p, K2(c.0))))
    }
    fn fill_contiguous<I: IntoIterator<Item = K>>(&mut self, area: &Rectangle, colors: I) -> Result<(), T::Error> {
        self.0.fill_contiguous(area, colors.into_iter().map(|c| K2(c.0)))
    }
    fn fill_solid(&mut self, area: &Rectangle, color: K) -> Result<(), T::Error> {
        self.0.fill_solid(area, K2(color.0))
    }
    fn clear(&mut self, color: K) -> Result<(), T::Error> {
        self.0.clear(K2(color.0))
    }
}

#[derive(Clone, Debug)]
pub enum Ad {
    Clip(Rectangle),
    Crop(Rectangle),
    Transl(Point),
    Conv,
}
#[derive(Clone, Debug)]
pub enum Op {
    D(Vec<(Point, u32)>),
    P(Point, u32),
    DI(Vec<(Point, u32)>),
    DT(Point, Vec<(Point, u32)>),
    F(Rectangle, Vec<u32>),
    FRep(Rectangle, u32),
    S(Rectangle, u32),
    K(u32),
}

/// Builds the stack (ads[0] is applied to the root first) and calls `f` on the outermost target;
/// `boxes` receives the bounding_box() reported at every level, root first.
pub fn go<E>(t: &mut dyn DynT<K, E>, ads: &[Ad], boxes: &mut Vec<Rectangle>, f: &mut dyn FnMut(&mut Dyn<K, E>)) {
    let mut d = Dyn(t);
    boxes.push(d.bounding_box());
    match ads.split_first() {
        None => f(&mut d),
        Some((Ad::Clip(r), rest)) => {
            let mut a = d.clipped(r);
            go(&mut a, rest, boxes, f)
        }
        Some((Ad::Crop(r), rest)) => {
            let mut a = d.cropped(r);
            go(&mut a, rest, boxes, f)
        }
        Some((Ad::Transl(p), rest)) => {
            let mut a = d.translated(*p);
            go(&mut a, rest, boxes, f)
        }
        Some((Ad::Conv, rest)) => {
            let mut a = d.color_converted::<K2>();
            let mut s = Relabel(&mut a);
            go(&mut s, rest, boxes, f)
        }
    }
}

pub fn apply<T: DrawTarget<Color = K>>(t: &mut T, op: &Op) -> Result<(), T::Error> {
    match op {
        Op::D(ps) => t.draw_iter(ps.iter().map(|&(p, c)| Pixel(p, K(c as u8)))),
        // the public entry points that end in draw_iter: Drawable for Pixel, PixelIteratorExt::draw / translated
        Op::P(p, c) => Pixel(*p, K(*c as u8)).draw(t),
        Op::DI(ps) => ps.iter().map(|&(p, c)| Pixel(p, K(c as u8))).draw(t),
        Op::DT(d, ps) => ps.iter().map(|&(p, c)| Pixel(p, K(c as u8))).translated(*d).draw(t),
        Op::F(r, cs) => t.fill_contiguous(r, cs.iter().map(|&c| K(c as u8))),
        Op::FRep(r, c) => t.fill_contiguous(r, core::iter::repeat(K(*c as u8))),
        Op::S(r, c) => t.fill_solid(r, K(*c as u8)),
        Op::K(c) => t.clear(K(*c as u8)),
    }
}

// ---- statically typed stacks: the concrete nested adapter types, constructors called on the adapted target ----
macro_rules! static_level {
    ($name:ident, $next:ident) => {
        fn $name<T: DrawTarget<Color = K>>(t: &mut T, ads: &[Ad], boxes: &mut Vec<Rectangle>, ops: &[Op])
        where
            T::Error: core::fmt::Debug,
        {
            match ads.split_first() {
                None => {
                    boxes.push(t.bounding_box());
                    for op in ops {
                        apply(t, op).unwrap();
                    }
                }
                Some((Ad::Clip(r), rest)) => {
                    boxes.push(t.bounding_box());
                    let mut a = t.clipped(r);
                    $next(&mut a, rest, boxes, ops)
                }
                Some((Ad::Crop(r), rest)) => {
                    boxes.push(t.bounding_box());
                    let mut a = t.cropped(r);
                    $next(&mut a, rest, boxes, ops)
                }
                Some((Ad::Transl(p), rest)) => {
                    boxes.push(t.bounding_box());
                    let mut a = t.translated(*p);
                    $next(&mut a, rest, boxes, ops)
                }
                Some((Ad::Conv, rest)) => {
                    boxes.push(t.bounding_box());
                    let mut a = t.color_converted::<K2>();
                    let mut s = Relabel(&mut a);
                    $next(&mut s, rest, boxes, ops)
                }
            }
        }
    };
}
/// beyond the static depth: continue behind the type-erasing forwarder
fn go_dyn<T: DrawTarget<Color = K>>(t: &mut T, ads: &[Ad], boxes: &mut Vec<Rectangle>, ops: &[Op])
where
    T::Error: core::fmt::Debug,
{
    go(t, ads, boxes, &mut |d| {
        for op in ops {
            apply(d, op).unwrap();
        }
    })
}
static_level!(go_s2, go_dyn);
static_level!(go_s1, go_s2);
static_level!(go_s0, go_s1);

/// Literal method chains on temporaries, as users write them (`display.translated(d).cropped(&r).clear(c)`):
/// every operation builds the chain anew. Returns the equivalent adapter list (innermost first).
pub const CHAINS: u32 = 8;
pub fn chain_ads(v: u32, r: Rectangle, r2: Rectangle, d: Point) -> Vec<Ad> {
    match v {
        0 => vec![Ad::Transl(d), Ad::Crop(r)],
        1 => vec![Ad::Crop(r), Ad::Transl(d)],
        2 => vec![Ad::Clip(r), Ad::Transl(d), Ad::Clip(r2)],
        3 => vec![Ad::Transl(d), Ad::Clip(r), Ad::Crop(r2)],
        4 => vec![Ad::Clip(r), Ad::Conv],
        5 => vec![Ad::Crop(r), Ad::Crop(r2), Ad::Clip(r)],
        6 => vec![Ad::Conv, Ad::Transl(d), Ad::Crop(r), Ad::Conv],
        _ => vec![Ad::Crop(r), Ad::Clip(r2), Ad::Transl(d), Ad::Transl(d)],
    }
}
pub fn chain_apply<T: DrawTarget<Color = K>>(t: &mut T, v: u32, r: Rectangle, r2: Rectangle, d: Point, op: &Op)
where
    T::Error: core::fmt::Debug,
{
    match v {
        0 => apply(&mut t.translated(d).cropped(&r), op).unwrap(),
        1 => apply(&mut t.cropped(&r).translated(d), op).unwrap(),
        2 => apply(&mut t.clipped(&r).translated(d).clipped(&r2), op).unwrap(),
        3 => apply(&mut t.translated(d).clipped(&r).cropped(&r2), op).unwrap(),
        4 => apply(&mut Relabel(&mut t.clipped(&r).color_converted::<K2>()), op).unwrap(),
        5 => apply(&mut t.cropped(&r).cropped(&r2).clipped(&r), op).unwrap(),
        6 => apply(&mut Relabel(&mut Relabel(&mut t.color_converted::<K2>()).translated(d).cropped(&r).color_converted::<K2>()), op).unwrap(),
        _ => apply(&mut t.cropped(&r).clipped(&r2).translated(d).translated(d), op).unwrap(),
    }
}

pub struct Case {
    pub kind: u32,
    pub bb: Rectangle,
    pub ads: Vec<Ad>,
    pub ops: Vec<Op>,
}

pub fn parse(a: &[&str]) -> Case {
    let mut i = 0usize;
    let mut nx = || {
        let s = a[i];
        i += 1;
        s
    };
    let kind = u(nx());
    let bb = rc(nx(), nx(), nx(), nx());
    let nad = us(nx());
    let mut ads = Vec::new();
    for _ in 0..nad {
        ads.push(match nx() {
            "C" => Ad::Clip(rc(nx(), nx(), nx(), nx())),
            "R" => Ad::Crop(rc(nx(), nx(), nx(), nx())),
            "T" => Ad::Transl(pt(nx(), nx())),
            "V" => Ad::Conv,
            x => panic!("bad adapter {}", x),
        });
    }
    let nops = us(nx());
    let mut ops = Vec::new();
    for _ in 0..nops {
        ops.push(match nx() {
            "D" => {
                let n = us(nx());
                Op::D((0..n).map(|_| (pt(nx(), nx()), u(nx()))).collect())
            }
            "P" => Op::P(pt(nx(), nx()), u(nx())),
            "DI" => {
                let n = us(nx());
                Op::DI((0..n).map(|_| (pt(nx(), nx()), u(nx()))).collect())
            }
            "DT" => {
                let d = pt(nx(), nx());
                let n = us(nx());
                Op::DT(d, (0..n).map(|_| (pt(nx(), nx()), u(nx()))).collect())
            }
            "F" => {
                let r = rc(nx(), nx(), nx(), nx());
                match nx() {
                    "L" => {
                        let n = us(nx());
                        Op::F(r, (0..n).map(|_| u(nx())).collect())
                    }
                    "G" => {
                        let (n, ga, gb) = (us(nx()), us(nx()), us(nx()));
                        Op::F(r, (0..n).map(|i| ((ga * i + gb) % 251) as u32).collect())
                    }
                    _ => Op::FRep(r, u(nx())),
                }
            }
            "S" => Op::S(rc(nx(), nx(), nx(), nx()), u(nx())),
            "K" => Op::K(u(nx())),
            x => panic!("bad op {}", x),
        });
    }
    Case { kind, bb, ads, ops }
}

pub type Map = BTreeMap<(i32, i32), u32>;

/// Runs the case on the real library. The history is replayed once per prefix (fresh parent, fresh stack) so that
/// the state of the innermost parent after EVERY operation is observed.
/// Returns (root pixel map after each op, boxes per level root first, call log of the full history if native).
pub fn run_case(c: &Case) -> (Vec<Map>, Vec<Rectangle>, Vec<Call>) {
    let mut maps = Vec::new();
    let mut boxes = Vec::new();
    let mut log = Vec::new();
    let n = c.ops.len();
    for i in (if n == 0 { 0 } else { 1 })..=n {
        boxes.clear();
        if c.kind == 0 {
            let mut t: IterTarget<K> = IterTarget::new(c.bb);
            go_s0(&mut t, &c.ads, &mut boxes, &c.ops[..i]);
            maps.push(t.map);
        } else {
            let mut t: NativeTarget<K> = NativeTarget::new(c.bb);
            go_s0(&mut t, &c.ads, &mut boxes, &c.ops[..i]);
            maps.push(t.map);
            log = t.log;
        }
    }
    (maps, boxes, log)
}

/// the same through the type-erased builder only (every level behind `Dyn`), final map only
pub fn run_case_dyn(c: &Case) -> Map {
    let mut boxes = Vec::new();
    if c.kind == 0 {
        let mut t: IterTarget<K> = IterTarget::new(c.bb);
        go_dyn(&mut t, &c.ads, &mut boxes, &c.ops);
        t.map
    } else {
        let mut t: NativeTarget<K> = NativeTarget::new(c.bb);
        go_dyn(&mut t, &c.ads, &mut boxes, &c.ops);
        t.map
    }
}

fn scall(c: &Call) -> String {
    match c {
        Call::DrawIter(ps) => format!("D {}", ps.iter().map(|(p, c)| format!("{}:{}:{}", p.x, p.y, c)).collect::<Vec<_>>().join(",")),
        Call::FillContiguous(r, cs) => format!("F {} {}", src(*r), cs.iter().map(|c| c.to_string()).collect::<Vec<_>>().join(",")),
        Call::FillSolid(r, c) => format!("S {} {}", src(*r), c),
        Call::Clear(c) => format!("K {}", c),
    }
}

pub fn run(suite: &str, a: &[&str]) -> Option<String> {
    Some(match suite {
        "tstack" => {
            let c = parse(a);
            let (maps, boxes, _) = run_case(&c);
            format!("BB {} MAP {}", src(*boxes.last().unwrap()), maps.iter().map(smap).collect::<Vec<_>>().join(" | "))
        }
        "tcalls" => {
            let mut c = parse(a);
            c.kind = 1;
            let (_, _, log) = run_case(&c);
            log.iter().map(scall).collect::<Vec<_>>().join(" ; ")
        }
        "tcrop" => tcrop(a),
        "p_stack" => p_stack(&parse(a)),
        "p_chain" => p_chain(a),
        "tinto" => into_pixels_list(a).iter().map(|(p, c)| format!("{}:{}:{}", p.x, p.y, c)).collect::<Vec<_>>().join(","),
        "p_into_pixels" => p_into_pixels(a),
        _ => return None,
    })
}

/// The `Cropped` colour iterator (pub(crate)) observed through the public API: a clipped target whose
/// clip area is the crop rectangle re-cuts the stream of `fill_contiguous(Rectangle(0,0,w,h), stream)` with
/// `Cropped::new(stream, (w,h), crop /\ area)`; the colours that reach the native parent are the items the
/// iterator yields (at most width*height of the intersection, which is all it can yield).
///   tcrop <w> <h> <crop x y w h> L n c*n | I c
fn tcrop(a: &[&str]) -> String {
    let area = Rectangle::new(Point::zero(), Size::new(u(a[0]), u(a[1])));
    let crop = rc(a[2], a[3], a[4], a[5]);
    let mut t: NativeTarget<K> = NativeTarget::new(crop);
    {
        let mut c = t.clipped(&crop);
        if a[6] == "L" {
            let n = us(a[7]);
            let cs: Vec<u32> = (0..n).map(|i| u(a[8 + i])).collect();
            c.fill_contiguous(&area, cs.iter().map(|&c| K(c as u8))).unwrap();
        } else if a[6] == "G" {
            let (n, ga, gb) = (us(a[7]), us(a[8]), us(a[9]));
            c.fill_contiguous(&area, (0..n).map(|i| K(((ga * i + gb) % 251) as u8))).unwrap();
        } else {
            c.fill_contiguous(&area, core::iter::repeat(K(u(a[7]) as u8))).unwrap();
        }
    }
    match t.log.last() {
        Some(Call::FillContiguous(_, cs)) => cs.iter().map(|c| c.to_string()).collect::<Vec<_>>().join(","),
        _ => "NO-CALL".into(),
    }
}

// ---- direct property search: set-theoretic reference, written without the library's geometry ----
/// A rectangle as the documentation describes it: top left + extents, all in i64 (no library arithmetic).
#[derive(Clone, Copy, PartialEq, Debug)]
struct R64 {
    x: i64,
    y: i64,
    w: i64,
    h: i64,
}
const ZERO: R64 = R64 { x: 0, y: 0, w: 0, h: 0 };
fn r64(r: &Rectangle) -> R64 {
    R64 { x: r.top_left.x as i64, y: r.top_left.y as i64, w: r.size.width as i64, h: r.size.height as i64 }
}
impl R64 {
    fn empty(&self) -> bool {
        self.w == 0 || self.h == 0
    }
    fn has(&self, x: i64, y: i64) -> bool {
        !self.empty() && x >= self.x && x < self.x + self.w && y >= self.y && y < self.y + self.h
    }
    fn shift(&self, dx: i64, dy: i64) -> R64 {
        R64 { x: self.x + dx, y: self.y + dy, ..*self }
    }
    /// `self.intersection(other)` as documented: the common points; a zero sized operand whose top left lies in
    /// the other (non-empty) operand is returned unchanged; everything else without common points is the zero
    /// rectangle at the origin.
    fn isect(&self, o: &R64) -> R64 {
        match (self.empty(), o.empty()) {
            (false, false) => {
                let (x0, y0) = (self.x.max(o.x), self.y.max(o.y));
                let (x1, y1) = ((self.x + self.w).min(o.x + o.w), (self.y + self.h).min(o.y + o.h));
                if x0 < x1 && y0 < y1 {
                    R64 { x: x0, y: y0, w: x1 - x0, h: y1 - y0 }
                } else {
                    ZERO
                }
            }
            (true, false) => {
                if o.has(self.x, self.y) {
                    *self
                } else {
                    ZERO
                }
            }
            (false, true) => {
                if self.has(o.x, o.y) {
                    *o
                } else {
                    ZERO
                }
            }
            (true, true) => ZERO,
        }
    }
}

/// The reference: the stack as one shift `off` (outermost coordinates -> root coordinates), a list of clip sets in
/// root coordinates, a number of colour conversions, and the exact box every level must report.
struct Reference {
    off: (i64, i64),
    clips: Vec<R64>,
    nconv: u32,
    level: R64,
}
fn reference(c: &Case, boxes: &[Rectangle]) -> Result<Reference, String> {
    let mut level = r64(&c.bb);
    let mut off = (0i64, 0i64);
    let mut clips = vec![level];
    let mut nconv = 0;
    for (i, ad) in c.ads.iter().enumerate() {
        if r64(&boxes[i]) != level {
            return Err(format!("FAIL level {} bounding_box {:?} is not the expected {:?}", i, boxes[i], level));
        }
        match ad {
            Ad::Clip(r) => {
                level = r64(r).isect(&level);
                clips.push(level.shift(off.0, off.1));
            }
            Ad::Crop(r) => {
                let s = r64(r).isect(&level);
                off = (off.0 + s.x, off.1 + s.y);
                level = R64 { x: 0, y: 0, w: s.w, h: s.h };
            }
            Ad::Transl(d) => {
                off = (off.0 + d.x as i64, off.1 + d.y as i64);
                level = level.shift(-(d.x as i64), -(d.y as i64));
            }
            Ad::Conv => nconv += 1,
        }
    }
    let top = boxes[c.ads.len()];
    if r64(&top) != level {
        return Err(format!("FAIL outermost bounding_box {:?} is not the expected {:?}", top, level));
    }
    Ok(Reference { off, clips, nconv, level })
}

fn expect_after(rf: &Reference, expect: &mut Map, op: &Op) {
    let mut put = |x: i64, y: i64, col: u32| {
        let (rx, ry) = (x + rf.off.0, y + rf.off.1);
        if rf.clips.iter().all(|b| b.has(rx, ry)) {
            let mut k = col;
            for _ in 0..rf.nconv {
                k = (k * 7 + 3) % 256;
            }
            expect.insert((ry as i32, rx as i32), k);
        }
    };
    match op {
        Op::D(ps) | Op::DI(ps) => {
            for (p, col) in ps {
                put(p.x as i64, p.y as i64, *col)
            }
        }
        Op::P(p, col) => put(p.x as i64, p.y as i64, *col),
        Op::DT(d, ps) => {
            for (p, col) in ps {
                put(p.x as i64 + d.x as i64, p.y as i64 + d.y as i64, *col)
            }
        }
        Op::F(r, cs) => {
            let (w, h) = (r.size.width as i64, r.size.height as i64);
            for j in 0..h {
                for i in 0..w {
                    if let Some(col) = cs.get((j * w + i) as usize) {
                        put(r.top_left.x as i64 + i, r.top_left.y as i64 + j, *col)
                    }
                }
            }
        }
        Op::FRep(r, col) | Op::S(r, col) => {
            for j in 0..r.size.height as i64 {
                for i in 0..r.size.width as i64 {
                    put(r.top_left.x as i64 + i, r.top_left.y as i64 + j, *col)
                }
            }
        }
        Op::K(col) => {
            // clear = fill the target's own bounding box
            let b = rf.level;
            if !b.empty() {
                for y in b.y..b.y + b.h {
                    for x in b.x..b.x + b.w {
                        put(x, y, *col)
                    }
                }
            }
        }
    }
}

fn map_diff(expect: &Map, map: &Map) -> Option<String> {
    if expect == map {
        return None;
    }
    expect
        .iter()
        .find(|(k, v)| map.get(k) != Some(v))
        .map(|(k, v)| format!("({},{}) expected {} got {:?}", k.1, k.0, v, map.get(k)))
        .or_else(|| map.iter().find(|(k, _)| !expect.contains_key(k)).map(|(k, v)| format!("({},{}) unexpected {}", k.1, k.0, v)))
}

fn p_stack(c: &Case) -> String {
    let (maps, boxes, _) = run_case(c);
    let rf = match reference(c, &boxes) {
        Ok(r) => r,
        Err(e) => return e,
    };
    let mut expect: Map = BTreeMap::new();
    for (i, op) in c.ops.iter().enumerate() {
        expect_after(&rf, &mut expect, op);
        if let Some(d) = map_diff(&expect, &maps[i]) {
            return format!("FAIL after op {} the root pixel map differs from the reference: {}", i + 1, d);
        }
    }
    // the same history through the type-erased builder (every level behind a forwarder) must agree
    if let Some(last) = maps.last() {
        if let Some(d) = map_diff(last, &run_case_dyn(c)) {
            return format!("FAIL concrete nested adapter types and forwarded stack disagree: {}", d);
        }
    }
    format!("OK {}", maps.last().map(|m| m.len()).unwrap_or(0))
}

///   p_chain <kind> <bb x y w h> <variant> <r x y w h> <r2 x y w h> <dx dy> <nops> <ops>
/// literal constructor chains on temporaries, rebuilt for every operation, against the reference
fn p_chain(a: &[&str]) -> String {
    let kind = u(a[0]);
    let bb = rc(a[1], a[2], a[3], a[4]);
    let v = u(a[5]) % CHAINS;
    let r = rc(a[6], a[7], a[8], a[9]);
    let r2 = rc(a[10], a[11], a[12], a[13]);
    let d = pt(a[14], a[15]);
    // re-use the op parser: a case line with no adapters
    let mut args: Vec<&str> = vec![a[0], a[1], a[2], a[3], a[4], "0"];
    args.extend_from_slice(&a[16..]);
    let mut c = parse(&args);
    c.ads = chain_ads(v, r, r2, d);
    // boxes of the equivalent stack (and its maps: p_stack's subject)
    let (_, boxes, _) = run_case(&c);
    let rf = match reference(&c, &boxes) {
        Ok(r) => r,
        Err(e) => return e,
    };
    let mut expect: Map = BTreeMap::new();
    let mut t0: IterTarget<K> = IterTarget::new(bb);
    let mut t1: NativeTarget<K> = NativeTarget::new(bb);
    for (i, op) in c.ops.iter().enumerate() {
        expect_after(&rf, &mut expect, op);
        let map = if kind == 0 {
            chain_apply(&mut t0, v, r, r2, d, op);
            &t0.map
        } else {
            chain_apply(&mut t1, v, r, r2, d, op);
            &t1.map
        };
        if let Some(df) = map_diff(&expect, map) {
            return format!("FAIL chain {} after op {}: {}", v, i + 1, df);
        }
    }
    format!("OK {}", expect.len())
}

// ---- ContiguousIteratorExt::into_pixels (src/iterator/mod.rs:26, contiguous.rs IntoPixels) ----
///   tinto / p_into_pixels <x y w h> L n c*n | G n a b | I c
/// `colors.into_iter().into_pixels(&area)` collected (an endless stream ends with the area)
fn stream_of(a: &[&str]) -> (Vec<u32>, Option<u32>) {
    match a[0] {
        "L" => ((0..us(a[1])).map(|i| u(a[2 + i])).collect(), None),
        "G" => {
            let (n, ga, gb) = (us(a[1]), us(a[2]), us(a[3]));
            ((0..n).map(|i| ((ga * i + gb) % 251) as u32).collect(), None)
        }
        _ => (Vec::new(), Some(u(a[1]))),
    }
}
fn into_pixels_list(a: &[&str]) -> Vec<(Point, u32)> {
    use embedded_graphics::iterator::ContiguousIteratorExt;
    let area = rc(a[0], a[1], a[2], a[3]);
    let (cs, rep) = stream_of(&a[4..]);
    match rep {
        None => cs.iter().map(|&c| K(c as u8)).into_pixels(&area).map(|Pixel(p, c)| (p, c.0 as u32)).collect(),
        Some(c) => core::iter::repeat(K(c as u8)).into_pixels(&area).take(4_000_000).map(|Pixel(p, c)| (p, c.0 as u32)).collect(),
    }
}
/// the explicit reference: the i-th colour goes to (x + i mod w, y + i div w) for i < min(stream length, w*h)
fn p_into_pixels(a: &[&str]) -> String {
    let got = into_pixels_list(a);
    let (x, y, w, h) = (a[0].parse::<i64>().unwrap(), a[1].parse::<i64>().unwrap(), a[2].parse::<i64>().unwrap(), a[3].parse::<i64>().unwrap());
    let (cs, rep) = stream_of(&a[4..]);
    let n = w * h;
    let len = match rep {
        Some(_) => n,
        None => n.min(cs.len() as i64),
    };
    if got.len() as i64 != len {
        return format!("FAIL {} pixels, expected {}", got.len(), len);
    }
    for i in 0..len {
        let e = (x + i % w, y + i / w, rep.unwrap_or_else(|| cs[i as usize]));
        let g = got[i as usize];
        if (g.0.x as i64, g.0.y as i64, g.1) != e {
            return format!("FAIL item {}: got ({},{}) {} expected ({},{}) {}", i, g.0.x, g.0.y, g.1, e.0, e.1, e.2);
        }
    }
    format!("OK {}", len)
}
