//! C03: clipped / cropped / translated / colour-converted targets and the trait defaults.
//!
//! Case line (shared with ocaml/suites/c03.ml):
//!   tstack <kind 0=draw_iter-only|1=native> <bb x y w h> <nad> <adapters, innermost first> <nops> <ops>
//!     adapter:  C x y w h (clipped) | R x y w h (cropped) | T dx dy (translated) | V (color_converted)
//!     op:       D n (x y c)*n | F x y w h L n c*n | F x y w h I c (endless repeat) | S x y w h c | K c
//!   result:  BB <outermost bounding_box()> MAP <root pixel map sorted by (y,x)>
//!   tcalls: same input (kind ignored, native parent); result = the calls that reached the parent.
//!   p_stack: same input; evaluates the property against a set-theoretic reference.
use crate::util::*;
use embedded_graphics::{
    pixelcolor::{raw::RawU8, PixelColor},
    prelude::*,
    primitives::Rectangle,
    Pixel,
};
use std::collections::BTreeMap;

// ---- test colours: K is the parent's colour type, K2 converts into K by c -> (7c+3) mod 256 ----
#[derive(Clone, Copy, PartialEq, Debug)]
pub struct K(pub u8);
impl PixelColor for K {
    type Raw = RawU8;
}
impl From<RawU8> for K {
    fn from(r: RawU8) -> Self {
        K(r.into_inner())
    }
}
impl From<K> for RawU8 {
    fn from(k: K) -> Self {
        RawU8::new(k.0)
    }
}
#[derive(Clone, Copy, PartialEq, Debug)]
pub struct K2(pub u8);
impl PixelColor for K2 {
    type Raw = RawU8;
}
impl From<RawU8> for K2 {
    fn from(r: RawU8) -> Self {
        K2(r.into_inner())
    }
}
impl From<K2> for RawU8 {
    fn from(k: K2) -> Self {
        RawU8::new(k.0)
    }
}
pub fn conv_test(c: u32) -> u32 {
    (c * 7 + 3) % 256
}
impl From<K2> for K {
    fn from(c: K2) -> K {
        K(conv_test(c.0 as u32) as u8)
    }
}

// ---- type erasure so that adapter stacks of any depth have one Rust type -------------------
pub trait DynT<C: PixelColor, E> {
    fn d_draw_iter(&mut self, it: &mut dyn Iterator<Item = Pixel<C>>) -> Result<(), E>;
    fn d_fill_contiguous(&mut self, area: &Rectangle, it: &mut dyn Iterator<Item = C>) -> Result<(), E>;
    fn d_fill_solid(&mut self, area: &Rectangle, c: C) -> Result<(), E>;
    fn d_clear(&mut self, c: C) -> Result<(), E>;
    fn d_bb(&self) -> Rectangle;
}
impl<T: DrawTarget> DynT<T::Color, T::Error> for T {
    fn d_draw_iter(&mut self, it: &mut dyn Iterator<Item = Pixel<T::Color>>) -> Result<(), T::Error> {
        self.draw_iter(it)
    }
    fn d_fill_contiguous(&mut self, area: &Rectangle, it: &mut dyn Iterator<Item = T::Color>) -> Result<(), T::Error> {
        self.fill_contiguous(area, it)
    }
    fn d_fill_solid(&mut self, area: &Rectangle, c: T::Color) -> Result<(), T::Error> {
        self.fill_solid(area, c)
    }
    fn d_clear(&mut self, c: T::Color) -> Result<(), T::Error> {
        self.clear(c)
    }
    fn d_bb(&self) -> Rectangle {
        self.bounding_box()
    }
}
/// Forwards each of the four methods to the same method of the erased target (no default is used).
pub struct Dyn<'a, C: PixelColor, E>(pub &'a mut dyn DynT<C, E>);
impl<C: PixelColor, E> Dimensions for Dyn<'_, C, E> {
    fn bounding_box(&self) -> Rectangle {
        self.0.d_bb()
    }
}
impl<C: PixelColor, E> DrawTarget for Dyn<'_, C, E> {
    type Color = C;
    type Error = E;
    fn draw_iter<I: IntoIterator<Item = Pixel<C>>>(&mut self, pixels: I) -> Result<(), E> {
        self.0.d_draw_iter(&mut pixels.into_iter())
    }
    fn fill_contiguous<I: IntoIterator<Item = C>>(&mut self, area: &Rectangle, colors: I) -> Result<(), E> {
        self.0.d_fill_contiguous(area, &mut colors.into_iter())
    }
    fn fill_solid(&mut self, area: &Rectangle, color: C) -> Result<(), E> {
        self.0.d_fill_solid(area, color)
    }
    fn clear(&mut self, color: C) -> Result<(), E> {
        self.0.d_clear(color)
    }
}
/// Presents a K2 target as a K target by relabelling K(c) as K2(c) (so that a stack keeps one colour
/// type; the real ColorConverted<_, K2> sits directly below and does the conversion under test).
struct Relabel<'a, T>(&'a mut T);
impl<T: Dimensions> Dimensions for Relabel<'_, T> {
    fn bounding_box(&self) -> Rectangle {
        self.0.bounding_box()
    }
}
impl<T: DrawTarget<Color = K2>> DrawTarget for Relabel<'_, T> {
    type Color = K;
    type Error = T::Error;
    fn draw_iter<I: IntoIterator<Item = Pixel<K>>>(&mut self, pixels: I) -> Result<(), T::Error> {
        self.0.draw_iter(pixels.into_iter().map(|Pixel(p, c)| Pixel(p, K2(c.0))))
    }
    fn fill_contiguous<I: IntoIterator<Item = K>>(&mut self, area: &Rectangle, colors: I) -> Result<(), T::Error> {
        self.0.fill_contiguous(area, colors.into_iter().map(|c| K2(c.0)))
    }
    fn fill_solid(&mut self, area: &Rectangle, color: K) -> Result<(), T::Error> {
        self.0.fill_solid(area, K2(color.0))
    }
    fn clear(&mut self, color: K) -> Result<(), T::Error> {
        self.0.clear(K2(color.0))
    }
}

#[derive(Clone, Debug)]
pub enum Ad {
    Clip(Rectangle),
    Crop(Rectangle),
    Transl(Point),
    Conv,
}
#[derive(Clone, Debug)]
pub enum Op {
    D(Vec<(Point, u32)>),
    F(Rectangle, Vec<u32>),
    FRep(Rectangle, u32),
    S(Rectangle, u32),
    K(u32),
}

/// Builds the stack (ads[0] is applied to the root first) and calls `f` on the outermost target;
/// `boxes` receives the bounding_box() reported at every level, root first.
pub fn go<E>(t: &mut dyn DynT<K, E>, ads: &[Ad], boxes: &mut Vec<Rectangle>, f: &mut dyn FnMut(&mut Dyn<K, E>)) {
    let mut d = Dyn(t);
    boxes.push(d.bounding_box());
    match ads.split_first() {
        None => f(&mut d),
        Some((Ad::Clip(r), rest)) => {
            let mut a = d.clipped(r);
            go(&mut a, rest, boxes, f)
        }
        Some((Ad::Crop(r), rest)) => {
            let mut a = d.cropped(r);
            go(&mut a, rest, boxes, f)
        }
        Some((Ad::Transl(p), rest)) => {
            let mut a = d.translated(*p);
            go(&mut a, rest, boxes, f)
        }
        Some((Ad::Conv, rest)) => {
            let mut a = d.color_converted::<K2>();
            let mut s = Relabel(&mut a);
            go(&mut s, rest, boxes, f)
        }
    }
}

pub fn apply<T: DrawTarget<Color = K>>(t: &mut T, op: &Op) -> Result<(), T::Error> {
    match op {
        Op::D(ps) => t.draw_iter(ps.iter().map(|&(p, c)| Pixel(p, K(c as u8)))),
        Op::F(r, cs) => t.fill_contiguous(r, cs.iter().map(|&c| K(c as u8))),
        Op::FRep(r, c) => t.fill_contiguous(r, core::iter::repeat(K(*c as u8))),
        Op::S(r, c) => t.fill_solid(r, K(*c as u8)),
        Op::K(c) => t.clear(K(*c as u8)),
    }
}

pub struct Case {
    pub kind: u32,
    pub bb: Rectangle,
    pub ads: Vec<Ad>,
    pub ops: Vec<Op>,
}

pub fn parse(a: &[&str]) -> Case {
    let mut i = 0usize;
    let mut nx = || {
        let s = a[i];
        i += 1;
        s
    };
    let kind = u(nx());
    let bb = rc(nx(), nx(), nx(), nx());
    let nad = us(nx());
    let mut ads = Vec::new();
    for _ in 0..nad {
        ads.push(match nx() {
            "C" => Ad::Clip(rc(nx(), nx(), nx(), nx())),
            "R" => Ad::Crop(rc(nx(), nx(), nx(), nx())),
            "T" => Ad::Transl(pt(nx(), nx())),
            "V" => Ad::Conv,
            x => panic!("bad adapter {}", x),
        });
    }
    let nops = us(nx());
    let mut ops = Vec::new();
    for _ in 0..nops {
        ops.push(match nx() {
            "D" => {
                let n = us(nx());
                Op::D((0..n).map(|_| (pt(nx(), nx()), u(nx()))).collect())
            }
            "F" => {
                let r = rc(nx(), nx(), nx(), nx());
                match nx() {
                    "L" => {
                        let n = us(nx());
                        Op::F(r, (0..n).map(|_| u(nx())).collect())
                    }
                    _ => Op::FRep(r, u(nx())),
                }
            }
            "S" => Op::S(rc(nx(), nx(), nx(), nx()), u(nx())),
            "K" => Op::K(u(nx())),
            x => panic!("bad op {}", x),
        });
    }
    Case { kind, bb, ads, ops }
}

/// Runs the case on the real library; returns (root pixel map, boxes per level root first, call log if native).
pub fn run_case(c: &Case) -> (BTreeMap<(i32, i32), u32>, Vec<Rectangle>, Vec<Call>) {
    let mut boxes = Vec::new();
    if c.kind == 0 {
        let mut t: IterTarget<K> = IterTarget::new(c.bb);
        go(&mut t, &c.ads, &mut boxes, &mut |d| {
            for op in &c.ops {
                apply(d, op).unwrap();
            }
        });
        (t.map, boxes, Vec::new())
    } else {
        let mut t: NativeTarget<K> = NativeTarget::new(c.bb);
        go(&mut t, &c.ads, &mut boxes, &mut |d| {
            for op in &c.ops {
                apply(d, op).unwrap();
            }
        });
        (t.map, boxes, t.log)
    }
}

fn scall(c: &Call) -> String {
    match c {
        Call::DrawIter(ps) => format!("D {}", ps.iter().map(|(p, c)| format!("{}:{}:{}", p.x, p.y, c)).collect::<Vec<_>>().join(",")),
        Call::FillContiguous(r, cs) => format!("F {} {}", src(*r), cs.iter().map(|c| c.to_string()).collect::<Vec<_>>().join(",")),
        Call::FillSolid(r, c) => format!("S {} {}", src(*r), c),
        Call::Clear(c) => format!("K {}", c),
    }
}

pub fn run(suite: &str, a: &[&str]) -> Option<String> {
    Some(match suite {
        "tstack" => {
            let c = parse(a);
            let (map, boxes, _) = run_case(&c);
            format!("BB {} MAP {}", src(*boxes.last().unwrap()), smap(&map))
        }
        "tcalls" => {
            let mut c = parse(a);
            c.kind = 1;
            let (_, _, log) = run_case(&c);
            log.iter().map(scall).collect::<Vec<_>>().join(" ; ")
        }
        "tcrop" => tcrop(a),
        "p_stack" => p_stack(&parse(a)),
        _ => return None,
    })
}

/// The `Cropped` colour iterator (pub(crate)) observed through the public API: a clipped target whose
/// clip area is the crop rectangle re-cuts the stream of `fill_contiguous(Rectangle(0,0,w,h), stream)` with
/// `Cropped::new(stream, (w,h), crop /\ area)`; the colours that reach the native parent are the items the
/// iterator yields (at most width*height of the intersection, which is all it can yield).
///   tcrop <w> <h> <crop x y w h> L n c*n | I c
fn tcrop(a: &[&str]) -> String {
    let area = Rectangle::new(Point::zero(), Size::new(u(a[0]), u(a[1])));
    let crop = rc(a[2], a[3], a[4], a[5]);
    let mut t: NativeTarget<K> = NativeTarget::new(crop);
    {
        let mut c = t.clipped(&crop);
        if a[6] == "L" {
            let n = us(a[7]);
            let cs: Vec<u32> = (0..n).map(|i| u(a[8 + i])).collect();
            c.fill_contiguous(&area, cs.iter().map(|&c| K(c as u8))).unwrap();
        } else {
            c.fill_contiguous(&area, core::iter::repeat(K(u(a[7]) as u8))).unwrap();
        }
    }
    match t.log.last() {
        Some(Call::FillContiguous(_, cs)) => cs.iter().map(|c| c.to_string()).collect::<Vec<_>>().join(","),
        _ => "NO-CALL".into(),
    }
}

// ---- direct property search: set-theoretic reference, written without the library's geometry ----
/// half-open box in i64; None = empty set
type Bx = Option<(i64, i64, i64, i64)>;
fn bx(r: &Rectangle) -> Bx {
    let (x, y) = (r.top_left.x as i64, r.top_left.y as i64);
    let (w, h) = (r.size.width as i64, r.size.height as i64);
    if w == 0 || h == 0 {
        None
    } else {
        Some((x, y, x + w, y + h))
    }
}
fn bx_and(a: Bx, b: Bx) -> Bx {
    let (a, b) = (a?, b?);
    let r = (a.0.max(b.0), a.1.max(b.1), a.2.min(b.2), a.3.min(b.3));
    if r.0 >= r.2 || r.1 >= r.3 {
        None
    } else {
        Some(r)
    }
}
fn bx_has(a: Bx, x: i64, y: i64) -> bool {
    match a {
        Some(b) => x >= b.0 && x < b.2 && y >= b.1 && y < b.3,
        None => false,
    }
}
fn bx_shift(a: Bx, dx: i64, dy: i64) -> Bx {
    a.map(|b| (b.0 + dx, b.1 + dy, b.2 + dx, b.3 + dy))
}

fn p_stack(c: &Case) -> String {
    let (map, boxes, _) = run_case(c);
    // Reference: every level has a box (a point set in its own coordinates); the stack as a whole is one
    // shift `off` (outermost coordinates -> root coordinates), a list of clip sets in root coordinates and
    // a number of colour conversions.
    let mut level_box = bx(&c.bb);
    let mut off = (0i64, 0i64);
    let mut clips: Vec<Bx> = vec![bx(&c.bb)];
    let mut nconv = 0;
    for (i, ad) in c.ads.iter().enumerate() {
        if bx(&boxes[i]) != level_box {
            return format!("FAIL level {} bounding_box {:?} is not the expected point set {:?}", i, boxes[i], level_box);
        }
        match ad {
            Ad::Clip(r) => {
                level_box = bx_and(bx(r), level_box);
                clips.push(bx_shift(level_box, off.0, off.1));
            }
            Ad::Crop(r) => {
                let s = bx_and(bx(r), level_box);
                // documented: origin of the cropped target = top left of (area /\ parent box); for an
                // empty intersection nothing is documented: follow the rectangle the library computes
                let tl = match s {
                    Some(b) => (b.0, b.1),
                    None => {
                        let t = r.intersection(&boxes[i]).top_left;
                        (t.x as i64, t.y as i64)
                    }
                };
                off = (off.0 + tl.0, off.1 + tl.1);
                level_box = bx_shift(s, -tl.0, -tl.1);
            }
            Ad::Transl(d) => {
                off = (off.0 + d.x as i64, off.1 + d.y as i64);
                level_box = bx_shift(level_box, -(d.x as i64), -(d.y as i64));
            }
            Ad::Conv => nconv += 1,
        }
    }
    let top = *boxes.last().unwrap();
    if bx(&top) != level_box {
        return format!("FAIL outermost bounding_box {:?} is not the expected point set {:?}", top, level_box);
    }
    if let (Some(Ad::Crop(_)), true) = (c.ads.last(), top.top_left != Point::zero()) {
        return format!("FAIL cropped target does not start at the origin: {:?}", top);
    }
    let mut expect: BTreeMap<(i32, i32), u32> = BTreeMap::new();
    let mut put = |x: i64, y: i64, col: u32| {
        let (rx, ry) = (x + off.0, y + off.1);
        if clips.iter().all(|b| bx_has(*b, rx, ry)) {
            let mut k = col;
            for _ in 0..nconv {
                k = (k * 7 + 3) % 256;
            }
            expect.insert((ry as i32, rx as i32), k);
        }
    };
    for op in &c.ops {
        match op {
            Op::D(ps) => {
                for (p, col) in ps {
                    put(p.x as i64, p.y as i64, *col)
                }
            }
            Op::F(r, cs) => {
                let (w, h) = (r.size.width as i64, r.size.height as i64);
                for j in 0..h {
                    for i in 0..w {
                        if let Some(col) = cs.get((j * w + i) as usize) {
                            put(r.top_left.x as i64 + i, r.top_left.y as i64 + j, *col)
                        }
                    }
                }
            }
            Op::FRep(r, col) | Op::S(r, col) => {
                for j in 0..r.size.height as i64 {
                    for i in 0..r.size.width as i64 {
                        put(r.top_left.x as i64 + i, r.top_left.y as i64 + j, *col)
                    }
                }
            }
            Op::K(col) => {
                // clear = fill the target's own bounding box
                if let Some(b) = level_box {
                    for y in b.1..b.3 {
                        for x in b.0..b.2 {
                            put(x, y, *col)
                        }
                    }
                }
            }
        }
    }
    if expect != map {
        let diff = expect.iter().find(|(k, v)| map.get(k) != Some(v)).map(|(k, v)| format!("({},{}) expected {} got {:?}", k.1, k.0, v, map.get(k)))
            .or_else(|| map.iter().find(|(k, _)| !expect.contains_key(k)).map(|(k, v)| format!("({},{}) unexpected {}", k.1, k.0, v)));
        return format!("FAIL root pixel map differs from the reference: {}", diff.unwrap_or_default());
    }
    format!("OK {}", map.len())
}
