//! C04: target errors stop drawing immediately and are returned unchanged (dynamic side).
//!
//! `p_errflow <base> <stack> <drawable...>` draws one drawable through an adapter stack onto a
//! fault-injecting target, first without a fault (log0, n = number of calls on the underlying
//! target), then once for EVERY k < n with the k-th call failing with the error value k, and checks
//!   (1) draw returned Err(k)            (the target's error value, unchanged)
//!   (2) the log has exactly k+1 entries (no call after the failing one)
//!   (3) log[0..=k] == log0[0..=k]       (same calls, same arguments, as in the fault-free run)
//! and for k = n (no call fails) that result and log equal the fault-free ones.
//!
//! base  : nat565 | nat888 | iter565 | iter888   (util::NativeTarget = all four methods native;
//!         FaultIterTarget = draw_iter only, inherits the trait defaults; 888 = the drawable still draws
//!         Rgb565, so the stack must contain `cc` which converts 565 -> 888; without `cc` the drawable
//!         draws Rgb888 directly)
//! stack : `-` or comma separated, OUTERMOST FIRST: cl:x:y:w:h | cr:x:y:w:h | tr:dx:dy | cc
//! The stack has arbitrary run-time depth: every level is erased to `&mut dyn Erased<C>` and wrapped in
//! `Dyn` (a DrawTarget that forwards 1:1), so the adapter types instantiated are Clipped<Dyn>, Cropped<Dyn>,
//! Translated<Dyn>, ColorConverted<Dyn, Rgb565> - the library's own generic adapter code over a DrawTarget.
use crate::util::*;
use embedded_graphics::{
    geometry::AngleUnit,
    image::{Image, ImageDrawableExt, ImageRaw},
    mono_font::{ascii, iso_8859_1, MonoFont, MonoTextStyleBuilder},
    pixelcolor::{Rgb565, Rgb888},
    prelude::*,
    primitives::{
        Arc, Circle, CornerRadii, Ellipse, Line, Polyline, PrimitiveStyle, PrimitiveStyleBuilder, Rectangle,
        RoundedRectangle, Sector, StrokeAlignment, StrokeStyle, Triangle,
    },
    text::{Alignment, Baseline, LineHeight, Text, TextStyleBuilder},
    Pixel,
};

// ------------------------------------------------------------------------------------------------
// fault-injecting target that implements ONLY draw_iter (fill_contiguous/fill_solid/clear = trait defaults)
pub struct FaultIterTarget<C> {
    pub bb: Rectangle,
    pub log: Vec<Call>,
    pub fail_at: Option<usize>,
    pub calls: usize,
    _c: core::marker::PhantomData<C>,
}
impl<C> FaultIterTarget<C> {
    pub fn new(bb: Rectangle) -> Self {
        Self { bb, log: Vec::new(), fail_at: None, calls: 0, _c: core::marker::PhantomData }
    }
}
impl<C> Dimensions for FaultIterTarget<C> {
    fn bounding_box(&self) -> Rectangle {
        self.bb
    }
}
impl<C: Tag> DrawTarget for FaultIterTarget<C> {
    type Color = C;
    type Error = usize;
    fn draw_iter<I: IntoIterator<Item = Pixel<C>>>(&mut self, pixels: I) -> Result<(), usize> {
        // bounded: the default fill_solid zips area.points() with an endless repeat(), which is finite,
        // but never trust an iterator handed to the harness to end
        let items: Vec<(Point, u32)> = pixels.into_iter().take(1 << 22).map(|Pixel(p, c)| (p, c.tag())).collect();
        self.log.push(Call::DrawIter(items));
        let k = self.calls;
        self.calls += 1;
        if self.fail_at == Some(k) {
            Err(k)
        } else {
            Ok(())
        }
    }
}

// ------------------------------------------------------------------------------------------------
// type erasure, so that adapter stacks of any depth can be built at run time
pub trait Erased<C: PixelColor> {
    fn e_bb(&self) -> Rectangle;
    fn e_draw_iter(&mut self, it: &mut dyn Iterator<Item = Pixel<C>>) -> Result<(), usize>;
    fn e_fill_contiguous(&mut self, area: &Rectangle, it: &mut dyn Iterator<Item = C>) -> Result<(), usize>;
    fn e_fill_solid(&mut self, area: &Rectangle, c: C) -> Result<(), usize>;
    fn e_clear(&mut self, c: C) -> Result<(), usize>;
}
impl<C: PixelColor, T: DrawTarget<Color = C, Error = usize>> Erased<C> for T {
    fn e_bb(&self) -> Rectangle {
        self.bounding_box()
    }
    fn e_draw_iter(&mut self, it: &mut dyn Iterator<Item = Pixel<C>>) -> Result<(), usize> {
        self.draw_iter(it)
    }
    fn e_fill_contiguous(&mut self, area: &Rectangle, it: &mut dyn Iterator<Item = C>) -> Result<(), usize> {
        self.fill_contiguous(area, it)
    }
    fn e_fill_solid(&mut self, area: &Rectangle, c: C) -> Result<(), usize> {
        self.fill_solid(area, c)
    }
    fn e_clear(&mut self, c: C) -> Result<(), usize> {
        self.clear(c)
    }
}
pub struct Dyn<'a, C: PixelColor>(pub &'a mut dyn Erased<C>);
impl<C: PixelColor> Dimensions for Dyn<'_, C> {
    fn bounding_box(&self) -> Rectangle {
        self.0.e_bb()
    }
}
impl<C: PixelColor> DrawTarget for Dyn<'_, C> {
    type Color = C;
    type Error = usize;
    fn draw_iter<I: IntoIterator<Item = Pixel<C>>>(&mut self, pixels: I) -> Result<(), usize> {
        self.0.e_draw_iter(&mut pixels.into_iter())
    }
    fn fill_contiguous<I: IntoIterator<Item = C>>(&mut self, area: &Rectangle, colors: I) -> Result<(), usize> {
        self.0.e_fill_contiguous(area, &mut colors.into_iter())
    }
    fn fill_solid(&mut self, area: &Rectangle, color: C) -> Result<(), usize> {
        self.0.e_fill_solid(area, color)
    }
    fn clear(&mut self, color: C) -> Result<(), usize> {
        self.0.e_clear(color)
    }
}

// ------------------------------------------------------------------------------------------------
// colours the drawables are instantiated with
pub trait TC: PixelColor + Tag + From<Rgb888> + From<Rgb565> {
    fn image<D: DrawTarget<Color = Self, Error = usize>>(im: &Img, d: &mut D) -> Result<(), usize>;
}
fn col<C: TC>(t: u32) -> C {
    // distinct tags -> distinct colours in 565 as well
    C::from(Rgb888::new(((t & 31) << 3) as u8, (((t >> 5) & 63) << 2) as u8, (((t >> 11) & 31) << 3) as u8))
}
macro_rules! tc_impl {
    ($c:ty, $bytes:expr) => {
        impl TC for $c {
            fn image<D: DrawTarget<Color = Self, Error = usize>>(im: &Img, d: &mut D) -> Result<(), usize> {
                let n = (im.w * im.h) as usize * $bytes;
                let data: Vec<u8> = (0..n).map(|i| (i * 37 + 11) as u8).collect();
                let raw = ImageRaw::<$c>::new(&data, Size::new(im.w, im.h)).unwrap();
                match im.kind {
                    0 => Image::new(&raw, im.at).draw(d),
                    1 => Image::new(&raw.sub_image(&im.sub), im.at).draw(d),
                    2 => {
                        let s1 = raw.sub_image(&im.sub);
                        let s2 = s1.sub_image(&im.sub2);
                        Image::new(&s2, im.at).draw(d)
                    }
                    _ => Image::with_center(&raw, im.at).draw(d),
                }
            }
        }
    };
}
tc_impl!(Rgb565, 2);
tc_impl!(Rgb888, 3);

// ------------------------------------------------------------------------------------------------
// drawables
pub struct Style {
    fill: Option<u32>,
    stroke: Option<u32>,
    width: u32,
    align: u32,
    dotted: bool,
}
impl Style {
    fn build<C: TC>(&self) -> PrimitiveStyle<C> {
        let mut b = PrimitiveStyleBuilder::new().stroke_width(self.width);
        if let Some(f) = self.fill {
            b = b.fill_color(col::<C>(f));
        }
        if let Some(s) = self.stroke {
            b = b.stroke_color(col::<C>(s));
        }
        b = b.stroke_alignment(match self.align {
            0 => StrokeAlignment::Inside,
            1 => StrokeAlignment::Center,
            _ => StrokeAlignment::Outside,
        });
        if self.dotted {
            b = b.stroke_style(StrokeStyle::Dotted);
        }
        b.build()
    }
}
pub struct Img {
    kind: u32,
    w: u32,
    h: u32,
    at: Point,
    sub: Rectangle,
    sub2: Rectangle,
}
pub struct Txt {
    font: u32,
    text_color: Option<u32>,
    bg: Option<u32>,
    underline: u32, // 0 none, 1 text colour, else custom tag
    strike: u32,
    align: u32,
    baseline: u32,
    line_height: i32, // <0: percent(-v), 0: default, >0 pixels
    at: Point,
    s: String,
}
impl Txt {
    fn char_style<C: TC>(&self) -> embedded_graphics::mono_font::MonoTextStyle<'static, C> {
        let t = self;
        let font: &'static MonoFont = match t.font {
            0 => &ascii::FONT_6X10,
            1 => &ascii::FONT_4X6,
            2 => &SPACED_6X10,
            3 => &SPACED_4X6,
            4 => &iso_8859_1::FONT_9X15,
            _ => &ascii::FONT_10X20,
        };
        let mut b = MonoTextStyleBuilder::<C>::new().font(font);
        if let Some(c) = t.text_color {
            b = b.text_color(col::<C>(c));
        }
        if let Some(c) = t.bg {
            b = b.background_color(col::<C>(c));
        }
        b = match t.underline {
            0 => b,
            1 => b.underline(),
            c => b.underline_with_color(col::<C>(c)),
        };
        b = match t.strike {
            0 => b,
            1 => b.strikethrough(),
            c => b.strikethrough_with_color(col::<C>(c)),
        };
        b.build()
    }
    fn base(&self) -> Baseline {
        match self.baseline {
            0 => Baseline::Top,
            1 => Baseline::Bottom,
            2 => Baseline::Middle,
            _ => Baseline::Alphabetic,
        }
    }
}
pub enum Job {
    /// the TextRenderer API used directly (as layout crates do): mode 0 draw_string, 1 draw_whitespace(width),
    /// 2 draw_string; draw_whitespace; draw_string with `?` between them
    Rend(Txt, u32, u32),
    Rect(Rectangle, Style),
    Circle(Point, u32, Style),
    Ellipse(Rectangle, Style),
    RRect(Rectangle, [Size; 4], Style),
    Tri(Point, Point, Point, Style),
    Line(Point, Point, Style),
    Poly(Vec<Point>, Point, Style),
    Arc(Point, u32, i32, i32, Style),
    Sector(Point, u32, i32, i32, Style),
    Image(Img),
    Text(Txt),
    Pixels(Vec<(Point, u32)>, u32),
    Clear(u32),
}

fn opt(s: &str) -> Option<u32> {
    if s == "-" {
        None
    } else {
        Some(u(s))
    }
}
fn style(a: &[&str]) -> Style {
    Style { fill: opt(a[0]), stroke: opt(a[1]), width: u(a[2]), align: u(a[3]), dotted: a[4] == "1" }
}
fn unhex(s: &str) -> String {
    if s == "-" {
        return String::new();
    }
    let b: Vec<u8> = (0..s.len() / 2).map(|j| u8::from_str_radix(&s[2 * j..2 * j + 2], 16).unwrap()).collect();
    String::from_utf8(b).unwrap()
}

pub fn parse_job(a: &[&str]) -> Option<Job> {
    Some(match a[0] {
        "rect" => Job::Rect(rc(a[1], a[2], a[3], a[4]), style(&a[5..])),
        "circle" => Job::Circle(pt(a[1], a[2]), u(a[3]), style(&a[4..])),
        "ellipse" => Job::Ellipse(rc(a[1], a[2], a[3], a[4]), style(&a[5..])),
        "rrect" => {
            let r = |j: usize| Size::new(u(a[5 + 2 * j]), u(a[6 + 2 * j]));
            Job::RRect(rc(a[1], a[2], a[3], a[4]), [r(0), r(1), r(2), r(3)], style(&a[13..]))
        }
        "tri" => Job::Tri(pt(a[1], a[2]), pt(a[3], a[4]), pt(a[5], a[6]), style(&a[7..])),
        "line" => Job::Line(pt(a[1], a[2]), pt(a[3], a[4]), style(&a[5..])),
        "poly" => {
            let n = us(a[1]);
            let v = (0..n).map(|j| pt(a[2 + 2 * j], a[3 + 2 * j])).collect();
            Job::Poly(v, pt(a[2 + 2 * n], a[3 + 2 * n]), style(&a[4 + 2 * n..]))
        }
        "arc" => Job::Arc(pt(a[1], a[2]), u(a[3]), i(a[4]), i(a[5]), style(&a[6..])),
        "sector" => Job::Sector(pt(a[1], a[2]), u(a[3]), i(a[4]), i(a[5]), style(&a[6..])),
        "image" => Job::Image(Img {
            kind: u(a[1]),
            w: u(a[2]),
            h: u(a[3]),
            at: pt(a[4], a[5]),
            sub: rc(a[6], a[7], a[8], a[9]),
            sub2: rc(a[10], a[11], a[12], a[13]),
        }),
        "text" => Job::Text(Txt {
            font: u(a[1]),
            text_color: opt(a[2]),
            bg: opt(a[3]),
            underline: u(a[4]),
            strike: u(a[5]),
            align: u(a[6]),
            baseline: u(a[7]),
            line_height: i(a[8]),
            at: pt(a[9], a[10]),
            s: unhex(a[11]),
        }),
        "rend" => {
            let t = match parse_job(&[&["text"], &a[3..]].concat())? {
                Job::Text(t) => t,
                _ => return None,
            };
            Job::Rend(t, u(a[1]), u(a[2]))
        }
        "pixels" => {
            let mode = u(a[1]);
            let n = us(a[2]);
            Job::Pixels((0..n).map(|j| (pt(a[3 + 3 * j], a[4 + 3 * j]), u(a[5 + 3 * j]))).collect(), mode)
        }
        "clear" => Job::Clear(u(a[1])),
        _ => return None,
    })
}

static SPACED_6X10: MonoFont = MonoFont { character_spacing: 2, ..ascii::FONT_6X10 };
static SPACED_4X6: MonoFont = MonoFont { character_spacing: 1, ..ascii::FONT_4X6 };

impl Job {
    /// draws on `d`; the Ok value is the Debug text of the drawable's Output
    pub fn run<C: TC, D: DrawTarget<Color = C, Error = usize>>(&self, d: &mut D) -> Result<String, usize> {
        fn unit(r: Result<(), usize>) -> Result<String, usize> {
            r.map(|_| "()".to_string())
        }
        match self {
            Job::Rect(r, s) => unit(r.into_styled(s.build::<C>()).draw(d)),
            Job::Circle(p, dia, s) => unit(Circle::new(*p, *dia).into_styled(s.build::<C>()).draw(d)),
            Job::Ellipse(r, s) => unit(Ellipse::new(r.top_left, r.size).into_styled(s.build::<C>()).draw(d)),
            Job::RRect(r, c, s) => unit(
                RoundedRectangle::new(*r, CornerRadii { top_left: c[0], top_right: c[1], bottom_right: c[2], bottom_left: c[3] })
                    .into_styled(s.build::<C>())
                    .draw(d),
            ),
            Job::Tri(p1, p2, p3, s) => unit(Triangle::new(*p1, *p2, *p3).into_styled(s.build::<C>()).draw(d)),
            Job::Line(p1, p2, s) => unit(Line::new(*p1, *p2).into_styled(s.build::<C>()).draw(d)),
            Job::Poly(v, t, s) => unit(Polyline::new(v).translate(*t).into_styled(s.build::<C>()).draw(d)),
            Job::Arc(p, dia, a0, sw, s) => {
                unit(Arc::new(*p, *dia, (*a0 as f32).deg(), (*sw as f32).deg()).into_styled(s.build::<C>()).draw(d))
            }
            Job::Sector(p, dia, a0, sw, s) => {
                unit(Sector::new(*p, *dia, (*a0 as f32).deg(), (*sw as f32).deg()).into_styled(s.build::<C>()).draw(d))
            }
            Job::Image(im) => unit(C::image(im, d)),
            Job::Text(t) => {
                let cs = t.char_style::<C>();
                let mut ts = TextStyleBuilder::new()
                    .alignment(match t.align {
                        0 => Alignment::Left,
                        1 => Alignment::Center,
                        _ => Alignment::Right,
                    })
                    .baseline(match t.baseline {
                        0 => Baseline::Top,
                        1 => Baseline::Bottom,
                        2 => Baseline::Middle,
                        _ => Baseline::Alphabetic,
                    });
                if t.line_height > 0 {
                    ts = ts.line_height(LineHeight::Pixels(t.line_height as u32));
                } else if t.line_height < 0 {
                    ts = ts.line_height(LineHeight::Percent((-t.line_height) as u32));
                }
                Text::with_text_style(&t.s, t.at, cs, ts.build()).draw(d).map(|p| format!("{:?}", p))
            }
            Job::Rend(t, mode, width) => {
                use embedded_graphics::text::renderer::TextRenderer;
                let cs = t.char_style::<C>();
                let p = match mode {
                    0 => cs.draw_string(&t.s, t.at, t.base(), d)?,
                    1 => cs.draw_whitespace(*width, t.at, t.base(), d)?,
                    _ => {
                        let p1 = cs.draw_string(&t.s, t.at, t.base(), d)?;
                        let p2 = cs.draw_whitespace(*width, p1, t.base(), d)?;
                        cs.draw_string(&t.s, p2, t.base(), d)?
                    }
                };
                Ok(format!("{:?}", p))
            }
            Job::Pixels(v, mode) => {
                let it = v.iter().map(|(p, c)| Pixel(*p, col::<C>(*c)));
                match mode {
                    // PixelIteratorExt::draw
                    0 => unit(it.draw(d)),
                    // translated pixel iterator
                    1 => unit(it.translated(Point::new(3, -2)).draw(d)),
                    // one Drawable per pixel, `?` in the caller's loop
                    _ => {
                        for p in it {
                            p.draw(d)?;
                        }
                        Ok("()".to_string())
                    }
                }
            }
            Job::Clear(c) => unit(d.clear(col::<C>(*c))),
        }
    }
}

// ------------------------------------------------------------------------------------------------
// adapter stacks
pub enum Ad {
    Clip(Rectangle),
    Crop(Rectangle),
    Trans(Point),
    Cc,
}
pub fn parse_stack(s: &str) -> Option<Vec<Ad>> {
    if s == "-" {
        return Some(vec![]);
    }
    let mut out = vec![];
    for part in s.split(',') {
        let f: Vec<&str> = part.split(':').collect();
        out.push(match f[0] {
            "cl" => Ad::Clip(rc(f[1], f[2], f[3], f[4])),
            "cr" => Ad::Crop(rc(f[1], f[2], f[3], f[4])),
            "tr" => Ad::Trans(pt(f[1], f[2])),
            "cc" => Ad::Cc,
            _ => return None,
        });
    }
    Some(out)
}

/// applies the stack outermost-first on `t`, then draws the job on the innermost adapter
fn apply<C: TC>(stack: &[Ad], t: &mut dyn Erased<C>, job: &Job) -> Result<String, usize>
where
    Rgb565: Into<C>,
{
    let mut d = Dyn(t);
    match stack.first() {
        None => job.run::<C, _>(&mut d),
        Some(Ad::Clip(r)) => apply::<C>(&stack[1..], &mut d.clipped(r), job),
        Some(Ad::Crop(r)) => apply::<C>(&stack[1..], &mut d.cropped(r), job),
        Some(Ad::Trans(p)) => apply::<C>(&stack[1..], &mut d.translated(*p), job),
        Some(Ad::Cc) => apply::<Rgb565>(&stack[1..], &mut d.color_converted::<Rgb565>(), job),
    }
}

pub fn run_once(base: &str, stack: &[Ad], job: &Job, fail_at: Option<usize>) -> Option<(Result<String, usize>, Vec<Call>)> {
    let bb = Rectangle::new(Point::new(-16, -12), Size::new(96, 80));
    Some(match base {
        "nat565" => {
            let mut t = NativeTarget::<Rgb565>::new(bb);
            t.fail_at = fail_at;
            let r = apply::<Rgb565>(stack, &mut t, job);
            (r, t.log)
        }
        "nat888" => {
            let mut t = NativeTarget::<Rgb888>::new(bb);
            t.fail_at = fail_at;
            let r = apply::<Rgb888>(stack, &mut t, job);
            (r, t.log)
        }
        "iter565" => {
            let mut t = FaultIterTarget::<Rgb565>::new(bb);
            t.fail_at = fail_at;
            let r = apply::<Rgb565>(stack, &mut t, job);
            (r, t.log)
        }
        "iter888" => {
            let mut t = FaultIterTarget::<Rgb888>::new(bb);
            t.fail_at = fail_at;
            let r = apply::<Rgb888>(stack, &mut t, job);
            (r, t.log)
        }
        _ => return None,
    })
}

fn short(c: &Call) -> String {
    match c {
        Call::DrawIter(v) => format!("draw_iter[{} px{}]", v.len(), v.first().map(|(p, c)| format!(" first {}:{}:{}", p.x, p.y, c)).unwrap_or_default()),
        Call::FillContiguous(r, v) => format!("fill_contiguous[{} ; {} colours]", src(*r), v.len()),
        Call::FillSolid(r, c) => format!("fill_solid[{} ; {}]", src(*r), c),
        Call::Clear(c) => format!("clear[{}]", c),
    }
}

pub fn sweep(base: &str, stack: &[Ad], job: &Job) -> String {
    let (r0, log0) = match run_once(base, stack, job, None) {
        Some(x) => x,
        None => return "BAD-ARGS base".into(),
    };
    if r0.is_err() {
        return format!("FAIL fault-free run returned {:?}", r0);
    }
    let n = log0.len();
    for k in 0..n {
        let (r, log) = run_once(base, stack, job, Some(k)).unwrap();
        if r != Err(k) {
            return format!(
                "FAIL k={} n={}: draw returned {:?} instead of Err({}); {} call(s) logged after the failing one",
                k, n, r, k, log.len().saturating_sub(k + 1)
            );
        }
        if log.len() > k + 1 {
            return format!(
                "FAIL k={} n={}: {} call(s) made after the failing one, first: {}",
                k, n, log.len() - (k + 1), short(&log[k + 1])
            );
        }
        if log.len() < k + 1 {
            return format!("FAIL k={} n={}: only {} calls logged", k, n, log.len());
        }
        if let Some(j) = (0..=k).find(|&j| log[j] != log0[j]) {
            return format!(
                "FAIL k={} n={}: call {} differs from the fault-free run: {} vs {}",
                k, n, j, short(&log[j]), short(&log0[j])
            );
        }
    }
    // a fault index beyond the last call changes nothing
    let (r, log) = run_once(base, stack, job, Some(n)).unwrap();
    if r != r0 || log != log0 {
        return format!("FAIL k=n={}: run differs from the fault-free run ({:?})", n, r);
    }
    format!("OK {}", n)
}

pub fn run(suite: &str, a: &[&str]) -> Option<String> {
    match suite {
        "p_errflow" => {
            if a.len() < 3 {
                return Some("BAD-ARGS".into());
            }
            let stack = match parse_stack(a[1]) {
                Some(s) => s,
                None => return Some("BAD-ARGS stack".into()),
            };
            let job = match parse_job(&a[2..]) {
                Some(j) => j,
                None => return Some("BAD-ARGS drawable".into()),
            };
            Some(sweep(a[0], &stack, &job))
        }
        // the fault-free call log (debugging aid; `p_errflow_log <base> <stack> <drawable...> [k]`)
        "p_errflow_log" => {
            let stack = parse_stack(a[1])?;
            let job = parse_job(&a[2..])?;
            let (r, log) = run_once(a[0], &stack, &job, None)?;
            Some(format!("OK {} {:?} {}", log.len(), r, log.iter().map(short).collect::<Vec<_>>().join(" | ")))
        }
        _ => None,
    }
}
