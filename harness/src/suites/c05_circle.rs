//! C05 / C18 (circle, ellipse, rectangle part): contains over a window, points(), bounding box, offset;
//! p_* suites evaluate the C05 and C18 (integer part) predicates on the real code.
use crate::util::*;
use embedded_graphics::{
    pixelcolor::BinaryColor,
    prelude::*,
    primitives::{Circle, ContainsPoint, Ellipse, OffsetOutline, PrimitiveStyle, Rectangle},
    Pixel,
};
use std::collections::BTreeSet;

fn window(x: i32, y: i32, w: u32, h: u32, m: i32) -> Vec<Point> {
    let mut v = Vec::new();
    for yy in (y - m)..(y + h as i32 + m) {
        for xx in (x - m)..(x + w as i32 + m) {
            v.push(Point::new(xx, yy));
        }
    }
    v
}
fn scirc(c: Circle) -> String {
    format!("{} {} {}", c.top_left.x, c.top_left.y, c.diameter)
}
fn sell(e: Ellipse) -> String {
    format!("{} {} {} {}", e.top_left.x, e.top_left.y, e.size.width, e.size.height)
}

pub fn run(suite: &str, a: &[&str]) -> Option<String> {
    Some(match suite {
        "circ_geom" => {
            let c = Circle::new(pt(a[0], a[1]), u(a[2]));
            let win = window(c.top_left.x, c.top_left.y, c.diameter, c.diameter, i(a[3]));
            format!(
                "BB {} CTR {} PTS {} IN {}",
                src(c.bounding_box()),
                spt(c.center()),
                spts(c.points()),
                spts(win.into_iter().filter(|p| c.contains(*p)))
            )
        }
        "circ_offset" => scirc(Circle::new(pt(a[0], a[1]), u(a[2])).offset(i(a[3]))),
        "circ_wc" => scirc(Circle::with_center(pt(a[0], a[1]), u(a[2]))),
        // contains() only; an arithmetic overflow panic (this harness is built with overflow checks) prints PANIC
        "circ_in" => {
            let c = Circle::new(pt(a[0], a[1]), u(a[2]));
            let q = pt(a[3], a[4]);
            match std::panic::catch_unwind(|| c.contains(q)) {
                Ok(b) => sb(b).to_string(),
                Err(_) => "PANIC".into(),
            }
        }
        "ell_in" => {
            let e = Ellipse::new(pt(a[0], a[1]), Size::new(u(a[2]), u(a[3])));
            let q = pt(a[4], a[5]);
            match std::panic::catch_unwind(|| e.contains(q)) {
                Ok(b) => sb(b).to_string(),
                Err(_) => "PANIC".into(),
            }
        }
        "ell_geom" => {
            let e = Ellipse::new(pt(a[0], a[1]), Size::new(u(a[2]), u(a[3])));
            let win = window(e.top_left.x, e.top_left.y, e.size.width, e.size.height, i(a[4]));
            format!(
                "BB {} CTR {} PTS {} IN {}",
                src(e.bounding_box()),
                spt(e.center()),
                spts(e.points()),
                spts(win.into_iter().filter(|p| e.contains(*p)))
            )
        }
        "ell_offset" => sell(Ellipse::new(pt(a[0], a[1]), Size::new(u(a[2]), u(a[3]))).offset(i(a[4]))),
        "ell_wc" => sell(Ellipse::with_center(pt(a[0], a[1]), Size::new(u(a[2]), u(a[3])))),
        _ => return search(suite, a),
    })
}

// ---------------------------------------------------------------------------------------------
// direct property search (implementation only)

/// C05 for one shape: points() == row-major filter of contains() over the bounding box grown by a margin
/// (so: each once, row-major, all inside the box, nothing accepted outside the box), plus far probes.
fn c05_check<S: ContainsPoint + Dimensions>(shape: &S, pts: Vec<Point>, what: &str) -> Result<usize, String> {
    let bb = shape.bounding_box();
    let m = 3;
    let win = window(bb.top_left.x, bb.top_left.y, bb.size.width, bb.size.height, m);
    let expect: Vec<Point> = win.iter().copied().filter(|p| shape.contains(*p)).collect();
    if expect != pts {
        let first = expect.iter().zip(pts.iter()).position(|(a, b)| a != b).unwrap_or(expect.len().min(pts.len()));
        return Err(format!(
            "FAIL {} points() differs from row-major filter of contains(): {} yielded, {} accepted, first difference at index {}",
            what, pts.len(), expect.len(), first
        ));
    }
    for p in &pts {
        if !bb.contains(*p) {
            return Err(format!("FAIL {} yields {:?} outside its bounding box", what, p));
        }
    }
    for w in pts.windows(2) {
        if !((w[0].y, w[0].x) < (w[1].y, w[1].x)) {
            return Err(format!("FAIL {} points not strictly row-major at {:?}", what, w[1]));
        }
    }
    // far probes: mirror images of the box across its sides and corners
    let (w, h) = (bb.size.width as i32 + 1, bb.size.height as i32 + 1);
    for dy in [-2 * h, -h, 0, h, 2 * h] {
        for dx in [-2 * w, -w, 0, w, 2 * w] {
            if dx == 0 && dy == 0 {
                continue;
            }
            for p in bb.points().step_by(1 + (bb.size.width as usize * bb.size.height as usize) / 64) {
                let q = p + Point::new(dx, dy);
                if shape.contains(q) {
                    return Err(format!("FAIL {} contains {:?} outside its bounding box", what, q));
                }
            }
        }
    }
    Ok(pts.len())
}

fn runs_contiguous(sorted_xs: &[i32]) -> bool {
    sorted_xs.windows(2).all(|w| w[1] == w[0] + 1)
}

/// rows and columns of the contained set are contiguous runs
fn contiguity(inside: &[Point]) -> Result<(), String> {
    use std::collections::BTreeMap;
    let mut rows: BTreeMap<i32, Vec<i32>> = BTreeMap::new();
    let mut cols: BTreeMap<i32, Vec<i32>> = BTreeMap::new();
    for p in inside {
        rows.entry(p.y).or_default().push(p.x);
        cols.entry(p.x).or_default().push(p.y);
    }
    for (y, xs) in rows.iter_mut() {
        xs.sort();
        if !runs_contiguous(xs) {
            return Err(format!("FAIL row {} is not one contiguous run", y));
        }
    }
    for (x, ys) in cols.iter_mut() {
        ys.sort();
        if !runs_contiguous(ys) {
            return Err(format!("FAIL column {} is not one contiguous run", x));
        }
    }
    Ok(())
}

/// The C18 (integer part) predicates for one observation `has` of a circle / ellipse with bounding box (tl, w x h):
/// half-pixel band against the ideal ellipse (exact integers, doubled coordinates relative to 2*tl + size - 1),
/// mirror symmetry about both centre lines, row / column contiguity, and (circle) an accepted point on every box side.
#[allow(clippy::too_many_arguments)]
fn c18_shape_check(what: &str, obs: &str, has: &dyn Fn(Point) -> bool, win: &[Point], tl: Point, w: i128, h: i128, touches: bool) -> Result<usize, String> {
    let (cx, cy) = (2 * tl.x as i128 + w - 1, 2 * tl.y as i128 + h - 1);
    let within = |dx: i128, dy: i128, ww: i128, hh: i128| dx * dx * hh * hh + dy * dy * ww * ww < ww * ww * hh * hh;
    let mut inside = Vec::new();
    for p in win {
        let (dx, dy) = (2 * p.x as i128 - cx, 2 * p.y as i128 - cy);
        let inc = has(*p);
        if inc && !within(dx, dy, w + 1, h + 1) {
            return Err(format!("FAIL {} {} has {:?} which is outside the ideal shape grown by half a pixel", what, obs, p));
        }
        if w >= 1 && h >= 1 && within(dx, dy, w - 1, h - 1) && !inc {
            return Err(format!("FAIL {} {} misses {:?} which is inside the ideal shape shrunk by half a pixel", what, obs, p));
        }
        if w >= 1 && h >= 1 {
            let mx = Point::new((2 * tl.x as i128 + w - 1 - p.x as i128) as i32, p.y);
            let my = Point::new(p.x, (2 * tl.y as i128 + h - 1 - p.y as i128) as i32);
            if has(mx) != inc || has(my) != inc {
                return Err(format!("FAIL {} {} is not mirror symmetric at {:?}", what, obs, p));
            }
        }
        if inc {
            inside.push(*p);
        }
    }
    if let Err(e) = contiguity(&inside) {
        return Err(format!("{} ({} {})", e, what, obs));
    }
    if touches && w >= 1 {
        let (x1, y1) = (tl.x + w as i32 - 1, tl.y + h as i32 - 1);
        let t = inside.iter().any(|p| p.y == tl.y) && inside.iter().any(|p| p.y == y1)
            && inside.iter().any(|p| p.x == tl.x) && inside.iter().any(|p| p.x == x1);
        if !t {
            return Err(format!("FAIL {} {} does not touch all four sides of its bounding box", what, obs));
        }
    }
    Ok(inside.len())
}

pub fn search(suite: &str, a: &[&str]) -> Option<String> {
    Some(match suite {
        "p_circ_c05" => {
            let c = Circle::new(pt(a[0], a[1]), u(a[2]));
            match c05_check(&c, c.points().collect(), "Circle") {
                Ok(n) => format!("OK {}", n),
                Err(e) => e,
            }
        }
        "p_ell_c05" => {
            let e = Ellipse::new(pt(a[0], a[1]), Size::new(u(a[2]), u(a[3])));
            match c05_check(&e, e.points().collect(), "Ellipse") {
                Ok(n) => format!("OK {}", n),
                Err(e) => e,
            }
        }
        // far probes: inside the exact no-overflow range of Circle::contains (4*dist^2 <= i32::MAX, recomputed here in
        // i128) contains() must not panic and must be false outside the bounding box; what happens beyond the range
        // (panic with overflow checks; a release build wraps) is reported as an observation only
        "p_circ_far" => {
            let c = Circle::new(pt(a[0], a[1]), u(a[2]));
            let bb = c.bounding_box();
            let d = c.diameter as i128;
            let (cx, cy) = (2 * c.top_left.x as i128 + (d - 1).max(0), 2 * c.top_left.y as i128 + (d - 1).max(0));
            let fits = |q: Point| {
                let (dx, dy) = (cx - 2 * q.x as i128, cy - 2 * q.y as i128);
                (2 * q.x as i128).abs() <= i32::MAX as i128 && (2 * q.y as i128).abs() <= i32::MAX as i128
                    && dx.abs() <= i32::MAX as i128 && dy.abs() <= i32::MAX as i128
                    && dx * dx + dy * dy <= i32::MAX as i128 && d * d <= u32::MAX as i128
            };
            let ctr = Point::new(c.top_left.x + (c.diameter as i32 - 1).max(0) / 2, c.top_left.y + (c.diameter as i32 - 1).max(0) / 2);
            let mut probes = Vec::new();
            // around the boundary of the range along the axes and the diagonal, and at multiples of 2^15 (where 4*dist^2 wraps to ~0)
            for r in [23160, 23165, 23169, 23170, 23171, 23172, 23175, 16380, 16383, 16384, 16385, 16386, 32767, 32768, 32769, 32773, 65536, 65541, 98304] {
                for (sx, sy) in [(1, 0), (-1, 0), (0, 1), (0, -1), (1, 1), (-1, 1), (1, -1), (-1, -1)] {
                    for j in [-2, 0, 3, 5] {
                        probes.push(Point::new(ctr.x + sx * r + (1 - sx.abs()) * j, ctr.y + sy * r + (1 - sy.abs()) * j));
                    }
                }
            }
            let (mut inside_n, mut pan, mut tru, mut fal) = (0, 0, 0, 0);
            for q in probes {
                let r = std::panic::catch_unwind(|| c.contains(q));
                if fits(q) {
                    inside_n += 1;
                    match r {
                        Err(_) => return Some(format!("FAIL Circle::contains({:?}) panics although every intermediate fits (d={})", q, d)),
                        Ok(true) if !bb.contains(q) => return Some(format!("FAIL Circle::contains({:?}) is true outside the bounding box (in-range probe, d={})", q, d)),
                        _ => {}
                    }
                } else {
                    match r {
                        Err(_) => pan += 1,
                        Ok(true) => tru += 1,
                        Ok(false) => fal += 1,
                    }
                }
            }
            format!("OK {} in-range probes; out of range (observation): {} panic, {} true, {} false", inside_n, pan, tru, fal)
        }
        "p_ell_far" => {
            let e = Ellipse::new(pt(a[0], a[1]), Size::new(u(a[2]), u(a[3])));
            let bb = e.bounding_box();
            let (w, h) = (e.size.width as i128, e.size.height as i128);
            let (cx, cy) = (2 * e.top_left.x as i128 + (w - 1).max(0), 2 * e.top_left.y as i128 + (h - 1).max(0));
            let u64m = u64::MAX as i128;
            let fits = |q: Point| {
                let (dx, dy) = (2 * q.x as i128 - cx, 2 * q.y as i128 - cy);
                let i32ok = |v: i128| v >= i32::MIN as i128 && v <= i32::MAX as i128;
                i32ok(2 * q.x as i128) && i32ok(2 * q.y as i128) && i32ok(dx) && i32ok(dy)
                    && if w == h { w * w <= u32::MAX as i128 } else { w.checked_mul(w).and_then(|a| a.checked_mul(h * h)).map_or(false, |t| t <= u64m) }
                    && if w == h { true } else {
                        let (bx, ay) = ((h * h).checked_mul(dx * dx), (w * w).checked_mul(dy * dy));
                        match (bx, ay) { (Some(bx), Some(ay)) => bx <= u64m && ay <= u64m && bx + ay <= u64m, _ => false }
                    }
            };
            let mut probes = Vec::new();
            // where h^2 * dx^2 resp. w^2 * dy^2 reaches 2^64: |dx| = 2^32 / h, |dy| = 2^32 / w (doubled coordinates)
            let rx = if h > 0 { (1i128 << 32) / h / 2 } else { 1 << 28 };
            let ry = if w > 0 { (1i128 << 32) / w / 2 } else { 1 << 28 };
            let ctr = (e.top_left.x as i128 + (w - 1).max(0) / 2, e.top_left.y as i128 + (h - 1).max(0) / 2);
            for k10 in [3i128, 7, 9, 10, 20, 30] {
                for j in [-40i128, -3, -1, 0, 1, 2, 40] {
                    for s in [1i128, -1] {
                        probes.push((ctr.0 + s * (k10 * rx / 10 + j), ctr.1 + j));
                        probes.push((ctr.0 + j, ctr.1 + s * (k10 * ry / 10 + j)));
                        probes.push((ctr.0 + s * (k10 * rx / 14 + j), ctr.1 + s * (k10 * ry / 14 - j)));
                    }
                }
            }
            let (mut inside_n, mut pan, mut tru, mut fal) = (0, 0, 0, 0);
            for (qx, qy) in probes {
                if qx.abs() > (1 << 30) || qy.abs() > (1 << 30) {
                    continue;
                }
                let q = Point::new(qx as i32, qy as i32);
                let r = std::panic::catch_unwind(|| e.contains(q));
                if fits(q) {
                    inside_n += 1;
                    match r {
                        Err(_) => return Some(format!("FAIL Ellipse::contains({:?}) panics although every intermediate fits ({}x{})", q, w, h)),
                        Ok(true) if !bb.contains(q) => return Some(format!("FAIL Ellipse::contains({:?}) is true outside the bounding box (in-range probe, {}x{})", q, w, h)),
                        _ => {}
                    }
                } else {
                    match r {
                        Err(_) => pan += 1,
                        Ok(true) => tru += 1,
                        Ok(false) => fal += 1,
                    }
                }
            }
            format!("OK {} in-range probes; out of range (observation): {} panic, {} true, {} false", inside_n, pan, tru, fal)
        }
        "p_rect_c05" => {
            let r = rc(a[0], a[1], a[2], a[3]);
            match c05_check(&r, r.points().collect(), "Rectangle") {
                Ok(n) => format!("OK {}", n),
                Err(e) => e,
            }
        }
        // C18, circle: every predicate is evaluated on three observations of the shape: the set contains() accepts over
        // box+margin, the list points() yields, and the pixels() of the fill-only styled shape
        "p_circ_c18" => {
            let c = Circle::new(pt(a[0], a[1]), u(a[2]));
            let d = c.diameter as i128;
            let win = window(c.top_left.x, c.top_left.y, c.diameter, c.diameter, 3);
            let e = Ellipse::new(c.top_left, Size::new(c.diameter, c.diameter));
            let fill = PrimitiveStyle::with_fill(BinaryColor::On);
            let pts: BTreeSet<(i32, i32)> = c.points().map(|p| (p.x, p.y)).collect();
            let pix: BTreeSet<(i32, i32)> = c.into_styled(fill).pixels().map(|Pixel(p, _)| (p.x, p.y)).collect();
            let mut n = 0;
            let obs: [(&str, Box<dyn Fn(Point) -> bool>); 3] = [
                ("contains()", Box::new(|p| c.contains(p))),
                ("points()", Box::new(|p: Point| pts.contains(&(p.x, p.y)))),
                ("fill-only pixels()", Box::new(|p: Point| pix.contains(&(p.x, p.y)))),
            ];
            for (name, has) in obs.iter() {
                match c18_shape_check("circle", name, has.as_ref(), &win, c.top_left, d, d, true) {
                    Ok(k) => n += k,
                    Err(m) => return Some(m),
                }
            }
            // circle = ellipse with equal axes, on all three observations
            for p in &win {
                if e.contains(*p) != c.contains(*p) {
                    return Some(format!("FAIL circle and equal-axes ellipse disagree on contains({:?})", p));
                }
            }
            if !c.points().eq(e.points()) {
                return Some("FAIL circle points() differ from the equal-axes ellipse points()".into());
            }
            if !c.into_styled(fill).pixels().eq(e.into_styled(fill).pixels()) {
                return Some("FAIL circle fill-only pixels() differ from the equal-axes ellipse pixels()".into());
            }
            format!("OK {}", n)
        }
        // C18, ellipse: band (ideal ellipse with semi-axes w, h in doubled coordinates, grown/shrunk by 1), symmetry,
        // contiguity - on contains(), points() and fill-only pixels()
        "p_ell_c18" => {
            let e = Ellipse::new(pt(a[0], a[1]), Size::new(u(a[2]), u(a[3])));
            let (w, h) = (e.size.width as i128, e.size.height as i128);
            let win = window(e.top_left.x, e.top_left.y, e.size.width, e.size.height, 3);
            let fill = PrimitiveStyle::with_fill(BinaryColor::On);
            let pts: BTreeSet<(i32, i32)> = e.points().map(|p| (p.x, p.y)).collect();
            let pix: BTreeSet<(i32, i32)> = e.into_styled(fill).pixels().map(|Pixel(p, _)| (p.x, p.y)).collect();
            let mut n = 0;
            let obs: [(&str, Box<dyn Fn(Point) -> bool>); 3] = [
                ("contains()", Box::new(|p| e.contains(p))),
                ("points()", Box::new(|p: Point| pts.contains(&(p.x, p.y)))),
                ("fill-only pixels()", Box::new(|p: Point| pix.contains(&(p.x, p.y)))),
            ];
            for (name, has) in obs.iter() {
                match c18_shape_check("ellipse", name, has.as_ref(), &win, e.top_left, w, h, false) {
                    Ok(k) => n += k,
                    Err(m) => return Some(m),
                }
            }
            format!("OK {}", n)
        }
        _ => return None,
    })
}
