//! C05 (RoundedRectangle share): contains / points / confine on the real library.
//! Case arguments `x y w h  tlw tlh  trw trh  brw brh  blw blh` (struct order of CornerRadii).
use crate::util::*;
use embedded_graphics::{
    prelude::*,
    primitives::{CornerRadii, Rectangle, RoundedRectangle},
};

pub fn rr(a: &[&str]) -> RoundedRectangle {
    RoundedRectangle::new(
        rc(a[0], a[1], a[2], a[3]),
        CornerRadii {
            top_left: Size::new(u(a[4]), u(a[5])),
            top_right: Size::new(u(a[6]), u(a[7])),
            bottom_right: Size::new(u(a[8]), u(a[9])),
            bottom_left: Size::new(u(a[10]), u(a[11])),
        },
    )
}

pub fn srad(c: &CornerRadii) -> String {
    format!(
        "{} {} {} {} {} {} {} {}",
        c.top_left.width, c.top_left.height, c.top_right.width, c.top_right.height,
        c.bottom_right.width, c.bottom_right.height, c.bottom_left.width, c.bottom_left.height
    )
}

pub fn srr(r: &RoundedRectangle) -> String {
    format!("{} {}", src(r.rectangle), srad(&r.corners))
}

/// window = bounding box grown by m on every side (i64 free: callers stay in small ranges)
pub fn window(r: &Rectangle, m: i32) -> (i32, i32, i32, i32) {
    (
        r.top_left.x - m,
        r.top_left.y - m,
        r.top_left.x + r.size.width as i32 + m,
        r.top_left.y + r.size.height as i32 + m,
    )
}

/// contains() over a window as rows of 0/1 joined by '/'
pub fn bitmap<F: Fn(Point) -> bool>(win: (i32, i32, i32, i32), f: F) -> String {
    let (x0, y0, x1, y1) = win;
    let mut rows = Vec::new();
    for y in y0..y1 {
        let mut s = String::new();
        for x in x0..x1 {
            s.push(if f(Point::new(x, y)) { '1' } else { '0' });
        }
        rows.push(s);
    }
    rows.join("/")
}

pub fn run(suite: &str, a: &[&str]) -> Option<String> {
    Some(match suite {
        "rr_confine" => srad(&rr(a).confine_radii().corners),
        "rr_contains" => {
            let r = rr(a);
            bitmap(window(&r.rectangle, i(a[12])), |p| r.contains(p))
        }
        "rr_contains_pt" => sb(rr(a).contains(pt(a[12], a[13]))).to_string(),
        "rr_points" => spts(rr(a).points()),
        "rr_offset" => srr(&rr(a).offset(i(a[12]))),
        _ => return search(suite, a),
    })
}

// ---- direct property search on the implementation ----
fn radii_sums_ok(c: &CornerRadii, s: Size) -> bool {
    let (w, h) = (s.width as u64, s.height as u64);
    c.top_left.width as u64 + c.top_right.width as u64 <= w
        && c.bottom_left.width as u64 + c.bottom_right.width as u64 <= w
        && c.top_left.height as u64 + c.bottom_left.height as u64 <= h
        && c.top_right.height as u64 + c.bottom_right.height as u64 <= h
}

pub fn search(suite: &str, a: &[&str]) -> Option<String> {
    Some(match suite {
        // C05: points() == row-major filter of contains() over box+margin; nothing outside the box
        "p_rr_points" => {
            let r = rr(a);
            let (x0, y0, x1, y1) = window(&r.rectangle, 3);
            let bb = r.bounding_box();
            let mut expect = Vec::new();
            for y in y0..y1 {
                for x in x0..x1 {
                    let p = Point::new(x, y);
                    if r.contains(p) {
                        if !bb.contains(p) {
                            return Some(format!("FAIL contains() true outside the bounding box at {:?}", p));
                        }
                        expect.push(p);
                    }
                }
            }
            let got: Vec<Point> = r.points().collect();
            if got != expect {
                let extra = got.iter().find(|p| !expect.contains(p));
                let missing = expect.iter().find(|p| !got.contains(p));
                return Some(format!(
                    "FAIL points() != filter contains ({} vs {}), first extra {:?}, first missing {:?}",
                    got.len(), expect.len(), extra, missing
                ));
            }
            format!("OK {}", got.len())
        }
        _ => return None,
    })
}
