//! C05 (RoundedRectangle share): contains / points / confine on the real library.
//! Case arguments `x y w h  tlw tlh  trw trh  brw brh  blw blh` (struct order of CornerRadii).
use crate::util::*;
use embedded_graphics::{
    prelude::*,
    primitives::{CornerRadii, Rectangle, RoundedRectangle},
};

pub fn rr(a: &[&str]) -> RoundedRectangle {
    RoundedRectangle::new(
        rc(a[0], a[1], a[2], a[3]),
        CornerRadii {
            top_left: Size::new(u(a[4]), u(a[5])),
            top_right: Size::new(u(a[6]), u(a[7])),
            bottom_right: Size::new(u(a[8]), u(a[9])),
            bottom_left: Size::new(u(a[10]), u(a[11])),
        },
    )
}

pub fn srad(c: &CornerRadii) -> String {
    format!(
        "{} {} {} {} {} {} {} {}",
        c.top_left.width, c.top_left.height, c.top_right.width, c.top_right.height,
        c.bottom_right.width, c.bottom_right.height, c.bottom_left.width, c.bottom_left.height
    )
}

pub fn srr(r: &RoundedRectangle) -> String {
    format!("{} {}", src(r.rectangle), srad(&r.corners))
}

/// window = bounding box grown by m on every side (i64 free: callers stay in small ranges)
pub fn window(r: &Rectangle, m: i32) -> (i32, i32, i32, i32) {
    (
        r.top_left.x - m,
        r.top_left.y - m,
        r.top_left.x + r.size.width as i32 + m,
        r.top_left.y + r.size.height as i32 + m,
    )
}

/// contains() over a window as rows of 0/1 joined by '/'
pub fn bitmap<F: Fn(Point) -> bool>(win: (i32, i32, i32, i32), f: F) -> String {
    let (x0, y0, x1, y1) = win;
    let mut rows = Vec::new();
    for y in y0..y1 {
        let mut s = String::new();
        for x in x0..x1 {
            s.push(if f(Point::new(x, y)) { '1' } else { '0' });
        }
        rows.push(s);
    }
    rows.join("/")
}

pub fn run(suite: &str, a: &[&str]) -> Option<String> {
    Some(match suite {
        "rr_confine" => srad(&rr(a).confine_radii().corners),
        "rr_contains" => {
            let r = rr(a);
            bitmap(window(&r.rectangle, i(a[12])), |p| r.contains(p))
        }
        "rr_contains_pt" => sb(rr(a).contains(pt(a[12], a[13]))).to_string(),
        "rr_points" => spts(rr(a).points()),
        "rr_offset" => srr(&rr(a).offset(i(a[12]))),
        "rr_translate" => {
            let d = pt(a[12], a[13]);
            let mut m = rr(a);
            m.translate_mut(d);
            format!("{} M {}", srr(&rr(a).translate(d)), srr(&m))
        }
        // confine + contains bitmap (margin 2) + points + bounding box in one line
        "rr_all" => {
            let r = rr(a);
            format!(
                "C {} B {} P {} BB {}",
                srad(&r.confine_radii().corners),
                bitmap(window(&r.rectangle, 2), |p| r.contains(p)),
                spts(r.points()),
                src(r.bounding_box())
            )
        }
        _ => return search(suite, a),
    })
}

// ---- direct property search on the implementation ----
fn radii_sums_ok(c: &CornerRadii, s: Size) -> bool {
    let (w, h) = (s.width as u64, s.height as u64);
    c.top_left.width as u64 + c.top_right.width as u64 <= w
        && c.bottom_left.width as u64 + c.bottom_right.width as u64 <= w
        && c.top_left.height as u64 + c.bottom_left.height as u64 <= h
        && c.top_right.height as u64 + c.bottom_right.height as u64 <= h
}

pub fn search(suite: &str, a: &[&str]) -> Option<String> {
    Some(match suite {
        // C05: points() == row-major filter of contains() over box+margin; nothing outside the box
        "p_rr_points" => {
            let r = rr(a);
            let (x0, y0, x1, y1) = window(&r.rectangle, 3);
            let bb = r.bounding_box();
            let mut expect = Vec::new();
            for y in y0..y1 {
                for x in x0..x1 {
                    let p = Point::new(x, y);
                    if r.contains(p) {
                        if !bb.contains(p) {
                            return Some(format!("FAIL contains() true outside the bounding box at {:?}", p));
                        }
                        expect.push(p);
                    }
                }
            }
            let got: Vec<Point> = r.points().collect();
            if got != expect {
                let extra = got.iter().find(|p| !expect.contains(p));
                let missing = expect.iter().find(|p| !got.contains(p));
                return Some(format!(
                    "FAIL points() != filter contains ({} vs {}), first extra {:?}, first missing {:?}",
                    got.len(), expect.len(), extra, missing
                ));
            }
            format!("OK {}", got.len())
        }
        // the construction API against struct literals: CornerRadiiBuilder (new, the 4 single-corner setters, all, top/right/
        // bottom/left, build, From<&CornerRadii>), CornerRadii::new, RoundedRectangle::with_equal_corners / new
        "p_rr_builder" => {
            use embedded_graphics::primitives::CornerRadiiBuilder;
            let r = rr(a);
            let c = r.corners;
            let z = Size::zero();
            let lit = |tl: Size, tr: Size, br: Size, bl: Size| CornerRadii { top_left: tl, top_right: tr, bottom_right: br, bottom_left: bl };
            if CornerRadiiBuilder::new().build() != lit(z, z, z, z) {
                return Some("FAIL CornerRadiiBuilder::new().build() is not all zero".into());
            }
            // every single-corner setter, alone (on a zero builder) and chained in two different orders
            let singles: [(&str, CornerRadii, CornerRadii); 4] = [
                ("top_left", CornerRadiiBuilder::new().top_left(c.top_left).build(), lit(c.top_left, z, z, z)),
                ("top_right", CornerRadiiBuilder::new().top_right(c.top_right).build(), lit(z, c.top_right, z, z)),
                ("bottom_right", CornerRadiiBuilder::new().bottom_right(c.bottom_right).build(), lit(z, z, c.bottom_right, z)),
                ("bottom_left", CornerRadiiBuilder::new().bottom_left(c.bottom_left).build(), lit(z, z, z, c.bottom_left)),
            ];
            for (name, got, want) in singles.iter() {
                if got != want {
                    return Some(format!("FAIL CornerRadiiBuilder::{}: {:?} expected {:?}", name, got, want));
                }
            }
            let chained = CornerRadiiBuilder::new().top_left(c.top_left).top_right(c.top_right).bottom_right(c.bottom_right).bottom_left(c.bottom_left).build();
            let chained2 = CornerRadiiBuilder::new().bottom_left(c.bottom_left).bottom_right(c.bottom_right).top_right(c.top_right).top_left(c.top_left).build();
            if chained != c || chained2 != c {
                return Some(format!("FAIL CornerRadiiBuilder four single-corner setters chained: {:?} / {:?} expected {:?}", chained, chained2, c));
            }
            // a single-corner setter on a full builder changes that corner only
            let q = Size::new(c.top_left.width.wrapping_add(7), c.bottom_right.height.wrapping_add(3));
            let base = CornerRadiiBuilder::from(&c);
            for (name, got, want) in [
                ("top_left", base.top_left(q).build(), lit(q, c.top_right, c.bottom_right, c.bottom_left)),
                ("top_right", base.top_right(q).build(), lit(c.top_left, q, c.bottom_right, c.bottom_left)),
                ("bottom_right", base.bottom_right(q).build(), lit(c.top_left, c.top_right, q, c.bottom_left)),
                ("bottom_left", base.bottom_left(q).build(), lit(c.top_left, c.top_right, c.bottom_right, q)),
                // the side setters: which two corners each one sets
                ("top", base.top(q).build(), lit(q, q, c.bottom_right, c.bottom_left)),
                ("right", base.right(q).build(), lit(c.top_left, q, q, c.bottom_left)),
                ("bottom", base.bottom(q).build(), lit(c.top_left, c.top_right, q, q)),
                ("left", base.left(q).build(), lit(q, c.top_right, c.bottom_right, q)),
                ("all", base.all(q).build(), lit(q, q, q, q)),
            ] {
                if got != want {
                    return Some(format!("FAIL CornerRadiiBuilder::{} on a full builder: {:?} expected {:?}", name, got, want));
                }
            }
            let t = c.top_left;
            if CornerRadiiBuilder::new().all(t).build() != CornerRadii::new(t) || CornerRadii::new(t) != lit(t, t, t, t) {
                return Some(format!("FAIL CornerRadiiBuilder::all / CornerRadii::new({:?}): {:?} / {:?}", t, CornerRadiiBuilder::new().all(t).build(), CornerRadii::new(t)));
            }
            if CornerRadiiBuilder::from(&c).build() != c {
                return Some(format!("FAIL CornerRadiiBuilder::from(&c).build(): {:?} expected {:?}", CornerRadiiBuilder::from(&c).build(), c));
            }
            let w = RoundedRectangle::with_equal_corners(r.rectangle, t);
            if w != RoundedRectangle::new(r.rectangle, CornerRadii::new(t)) || w.rectangle != r.rectangle || w.corners != lit(t, t, t, t) {
                return Some(format!("FAIL RoundedRectangle::with_equal_corners: {}", srr(&w)));
            }
            let n = RoundedRectangle::new(r.rectangle, chained);
            if n.rectangle != r.rectangle || n.corners != c || n != r {
                return Some(format!("FAIL RoundedRectangle::new: {}", srr(&n)));
            }
            // the built radii behave like the literal ones
            if !n.points().take(200).eq(r.points().take(200)) {
                return Some("FAIL points() of the builder-made shape differ".into());
            }
            "OK 1".to_string()
        }
        // exhaustive sweep on the implementation: every combination of the 8 radius components over a value set,
        // for one size: points() == row-major filter of contains() over box+1, nothing outside the box,
        // confined radii fit, rows and columns contiguous.   p_rr_sweep w h k
        "p_rr_sweep" => {
            let (w, h, k) = (u(a[0]), u(a[1]), u(a[2]));
            let vals: &[u32] = match k { 0 => &[0, 1, 2], 1 => &[0, 1, 2, 3], 2 => &[0, 1, 3, 5, 8], _ => &[0, 2, 4, 7, 13] };
            let n = vals.len();
            let total = n.pow(8);
            let rect = Rectangle::new(Point::new(-3, 2), Size::new(w, h));
            let (x0, y0, x1, y1) = window(&rect, 1);
            let mut cnt = 0usize;
            for idx in 0..total {
                let mut t = idx;
                let mut v = [0u32; 8];
                for j in 0..8 { v[j] = vals[t % n]; t /= n; }
                let r = RoundedRectangle::new(rect, CornerRadii {
                    top_left: Size::new(v[0], v[1]), top_right: Size::new(v[2], v[3]),
                    bottom_right: Size::new(v[4], v[5]), bottom_left: Size::new(v[6], v[7]) });
                if !radii_sums_ok(&r.confine_radii().corners, rect.size) {
                    return Some(format!("FAIL confined radii exceed a side: {}", srr(&r)));
                }
                let mut expect = Vec::new();
                let ww = (x1 - x0) as usize;
                let mut grid = vec![false; ww * (y1 - y0) as usize];
                for y in y0..y1 {
                    let mut state = 0;
                    for x in x0..x1 {
                        let p = Point::new(x, y);
                        let c = r.contains(p);
                        if c {
                            if !rect.contains(p) { return Some(format!("FAIL contains() true outside the box at {:?}: {}", p, srr(&r))); }
                            expect.push(p);
                            grid[(y - y0) as usize * ww + (x - x0) as usize] = true;
                        }
                        state = match (state, c) { (0, true) => 1, (1, false) => 2, (2, true) => return Some(format!("FAIL row {} not contiguous: {}", y, srr(&r))), (s, _) => s };
                    }
                }
                for x in x0..x1 {
                    let mut state = 0;
                    for y in y0..y1 {
                        let c = grid[(y - y0) as usize * ww + (x - x0) as usize];
                        state = match (state, c) { (0, true) => 1, (1, false) => 2, (2, true) => return Some(format!("FAIL column {} not contiguous: {}", x, srr(&r))), (s, _) => s };
                    }
                }
                if !r.points().eq(expect.iter().copied()) {
                    return Some(format!("FAIL points() != filter contains: {}", srr(&r)));
                }
                cnt += 1;
            }
            format!("OK {}", cnt)
        }
        _ => return None,
    })
}
