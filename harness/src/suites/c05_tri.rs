//! C05 (triangle share): Triangle::points() enumerates exactly what Triangle::contains() accepts
use crate::util::*;
use embedded_graphics::{prelude::*, primitives::{Rectangle, Triangle}};

fn tri(a: &[&str]) -> Triangle {
    Triangle::new(pt(a[0], a[1]), pt(a[2], a[3]), pt(a[4], a[5]))
}
fn grown(bb: &Rectangle, m: i32) -> (i32, i32, i32, i32) {
    (bb.top_left.x - m, bb.top_left.y - m, bb.top_left.x + bb.size.width as i32 + m, bb.top_left.y + bb.size.height as i32 + m)
}

pub fn run(suite: &str, a: &[&str]) -> Option<String> {
    Some(match suite {
        "tri_contains_map" => {
            let t = tri(a);
            let (x0, y0, x1, y1) = grown(&t.bounding_box(), i(a[6]));
            let mut s = String::new();
            for y in y0..y1 {
                if y > y0 {
                    s.push('/');
                }
                for x in x0..x1 {
                    s.push_str(sb(t.contains(Point::new(x, y))));
                }
            }
            s
        }
        "tri_contains" => sb(tri(a).contains(pt(a[6], a[7]))).to_string(),
        // the property itself: points() == row-major filter of contains() over box + margin, each once,
        // inside the bounding box; contains() false outside the box (triangles with non-zero area)
        "p_tri_c05" => {
            let t = tri(a);
            let [p1, p2, p3] = t.vertices;
            let area2 = (p2.x as i64 - p1.x as i64) * (p3.y as i64 - p1.y as i64) - (p2.y as i64 - p1.y as i64) * (p3.x as i64 - p1.x as i64);
            if area2 == 0 {
                return Some("OK 0 (zero area: no claim)".into());
            }
            let bb = t.bounding_box();
            let (x0, y0, x1, y1) = grown(&bb, i(a[6]));
            let mut want = Vec::new();
            for y in y0..y1 {
                for x in x0..x1 {
                    let q = Point::new(x, y);
                    if t.contains(q) {
                        if !bb.contains(q) {
                            return Some(format!("FAIL contains({:?}) outside the bounding box", q));
                        }
                        want.push(q);
                    }
                }
            }
            let got: Vec<Point> = t.points().collect();
            if got != want {
                let extra: Vec<_> = got.iter().filter(|q| !want.contains(q)).take(3).collect();
                let miss: Vec<_> = want.iter().filter(|q| !got.contains(q)).take(3).collect();
                return Some(format!("FAIL points() != row-major contains(): yielded-not-contained {:?} contained-not-yielded {:?} (or order/duplicates)", extra, miss));
            }
            format!("OK {}", got.len())
        }
        _ => return None,
    })
}
