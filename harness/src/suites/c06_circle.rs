//! C06 / C01(b) (rectangle, circle, ellipse part): styled draw() pixel maps on both recording targets,
//! pixels() lists, fill_area()/stroke_area(), styled bounding box; p_* suites evaluate the C06 and C01(b)
//! predicates on the real code.
use crate::util::*;
use embedded_graphics::{
    pixelcolor::Gray8,
    prelude::*,
    primitives::{Circle, ContainsPoint, Ellipse, PrimitiveStyle, PrimitiveStyleBuilder, Rectangle, StrokeAlignment, StrokeStyle, Styled},
};
use std::collections::BTreeMap;

const STROKE: u8 = 1;
const FILL: u8 = 2;

fn target_bb() -> Rectangle {
    Rectangle::new(Point::new(-200, -200), Size::new(500, 500))
}

fn style_of(w: &str, al: &str, stroke: &str, fill: &str) -> PrimitiveStyle<Gray8> {
    let mut b = PrimitiveStyleBuilder::new().stroke_width(u(w)).stroke_alignment(match al {
        "0" => StrokeAlignment::Inside,
        "1" => StrokeAlignment::Center,
        _ => StrokeAlignment::Outside,
    });
    if stroke == "1" {
        b = b.stroke_color(Gray8::new(STROKE));
    }
    if fill == "1" {
        b = b.fill_color(Gray8::new(FILL));
    }
    b.build()
}

/// Entry points of the style API that build the same value in different ways must agree (each is a tiny constructor; a
/// constructor that stores its argument in the wrong field, or a reset_* that clears the wrong field, shows up here).
/// Returns a FAIL line naming the entry point.
pub fn style_api_check(st: &PrimitiveStyle<Gray8>) -> Result<(), String> {
    type PS = PrimitiveStyle<Gray8>;
    type PB = PrimitiveStyleBuilder<Gray8>;
    // PrimitiveStyle is #[non_exhaustive]: compare field by field (the fields are public)
    type F = (Option<Gray8>, Option<Gray8>, u32, StrokeAlignment, StrokeStyle);
    fn f(s: &PS) -> F {
        (s.fill_color, s.stroke_color, s.stroke_width, s.stroke_alignment, s.stroke_style)
    }
    let empty: F = (None, None, 0, StrokeAlignment::Center, StrokeStyle::Solid);
    if StrokeAlignment::default() != StrokeAlignment::Center {
        return Err("FAIL entry point StrokeAlignment::default() is not Center".into());
    }
    if StrokeStyle::default() != StrokeStyle::Solid {
        return Err("FAIL entry point StrokeStyle::default() is not Solid".into());
    }
    if f(&PS::new()) != empty {
        return Err(format!("FAIL entry point PrimitiveStyle::new() = {:?}, expected no colours, width 0, Center, Solid", PS::new()));
    }
    if f(&PS::default()) != empty {
        return Err(format!("FAIL entry point PrimitiveStyle::default() = {:?}", PS::default()));
    }
    if f(&PB::new().build()) != empty {
        return Err(format!("FAIL entry point PrimitiveStyleBuilder::new().build() = {:?}", PB::new().build()));
    }
    if f(&PB::default().build()) != empty {
        return Err(format!("FAIL entry point PrimitiveStyleBuilder::default().build() = {:?}", PB::default().build()));
    }
    // with_fill / with_stroke against the field-by-field value
    if let Some(fc) = st.fill_color {
        if f(&PS::with_fill(fc)) != (Some(fc), None, 0, StrokeAlignment::Center, StrokeStyle::Solid) {
            return Err(format!("FAIL entry point PrimitiveStyle::with_fill({:?}) = {:?}", fc, PS::with_fill(fc)));
        }
        if st.stroke_color.is_none() && st.stroke_width == 0 && st.stroke_alignment == StrokeAlignment::Center && PS::with_fill(fc) != *st {
            return Err(format!("FAIL entry point PrimitiveStyle::with_fill({:?}) differs from the builder's fill-only style", fc));
        }
    }
    if let Some(sc) = st.stroke_color {
        if f(&PS::with_stroke(sc, st.stroke_width)) != (None, Some(sc), st.stroke_width, StrokeAlignment::Center, StrokeStyle::Solid) {
            return Err(format!("FAIL entry point PrimitiveStyle::with_stroke({:?}, {}) = {:?}", sc, st.stroke_width, PS::with_stroke(sc, st.stroke_width)));
        }
        if st.fill_color.is_none() && st.stroke_alignment == StrokeAlignment::Center && PS::with_stroke(sc, st.stroke_width) != *st {
            return Err(format!("FAIL entry point PrimitiveStyle::with_stroke({:?}, {}) differs from the builder's stroke-only Center style", sc, st.stroke_width));
        }
    }
    // From<&PrimitiveStyle> for the builder copies every field
    if f(&PB::from(st).build()) != f(st) {
        return Err(format!("FAIL entry point PrimitiveStyleBuilder::from(&style).build() = {:?}, style = {:?}", PB::from(st).build(), st));
    }
    // every setter / reset changes exactly its field: from a style with every field non-default (fields assigned directly,
    // they are public) and from the style under test
    let mut full = *st;
    full.fill_color = Some(Gray8::new(7));
    full.stroke_color = Some(Gray8::new(9));
    full.stroke_width = 5;
    full.stroke_alignment = StrokeAlignment::Outside;
    full.stroke_style = StrokeStyle::Dotted;
    if f(&full) != (Some(Gray8::new(7)), Some(Gray8::new(9)), 5, StrokeAlignment::Outside, StrokeStyle::Dotted) {
        return Err("FAIL harness: field assignment".into());
    }
    for base in [full, *st] {
        let b = || PB::from(&base);
        let o = f(&base);
        let checks: [(&str, PS, F); 7] = [
            ("reset_fill_color", b().reset_fill_color().build(), (None, o.1, o.2, o.3, o.4)),
            ("reset_stroke_color", b().reset_stroke_color().build(), (o.0, None, o.2, o.3, o.4)),
            ("fill_color", b().fill_color(Gray8::new(33)).build(), (Some(Gray8::new(33)), o.1, o.2, o.3, o.4)),
            ("stroke_color", b().stroke_color(Gray8::new(44)).build(), (o.0, Some(Gray8::new(44)), o.2, o.3, o.4)),
            ("stroke_width", b().stroke_width(11).build(), (o.0, o.1, 11, o.3, o.4)),
            ("stroke_alignment", b().stroke_alignment(StrokeAlignment::Inside).build(), (o.0, o.1, o.2, StrokeAlignment::Inside, o.4)),
            ("stroke_style", b().stroke_style(StrokeStyle::Solid).build(), (o.0, o.1, o.2, o.3, StrokeStyle::Solid)),
        ];
        for (name, got, want) in checks {
            if f(&got) != want {
                return Err(format!("FAIL entry point PrimitiveStyleBuilder::{}() gives {:?}, expected fields {:?}", name, got, want));
            }
        }
    }
    Ok(())
}

/// `Styled::new(p, st)` and `p.into_styled(st)` are the same value
pub fn styled_new_check<T: Primitive + PartialEq + Copy + core::fmt::Debug>(prim: T, st: PrimitiveStyle<Gray8>) -> Result<(), String> {
    let (a, b) = (Styled::new(prim, st), prim.into_styled(st));
    if a.primitive != b.primitive || a.style != b.style {
        return Err(format!("FAIL entry point Styled::new({:?}, ..) differs from into_styled()", prim));
    }
    Ok(())
}

fn scirc(c: Circle) -> String {
    format!("{} {} {}", c.top_left.x, c.top_left.y, c.diameter)
}
fn sell(e: Ellipse) -> String {
    format!("{} {} {} {}", e.top_left.x, e.top_left.y, e.size.width, e.size.height)
}
fn spix(v: &[(Point, u32)]) -> String {
    v.iter().map(|(p, c)| format!("{}:{}:{}", p.x, p.y, c)).collect::<Vec<_>>().join(",")
}

/// (native map, draw_iter-only map, pixels() list)
macro_rules! render {
    ($styled:expr) => {{
        let s = $styled;
        let mut nat = NativeTarget::<Gray8>::new(target_bb());
        s.draw(&mut nat).unwrap();
        let mut it = IterTarget::<Gray8>::new(target_bb());
        s.draw(&mut it).unwrap();
        let pix: Vec<(Point, u32)> = s.pixels().map(|Pixel(p, c)| (p, c.tag())).collect();
        (nat.map, it.map, pix)
    }};
}

fn map_of_pixels(pix: &[(Point, u32)]) -> BTreeMap<(i32, i32), u32> {
    let mut m = BTreeMap::new();
    for (p, c) in pix {
        if target_bb().contains(*p) {
            m.insert((p.y, p.x), *c);
        }
    }
    m
}

/// What the documented rule says for a non-degenerate shape: (outside, inside) parts of the stroke width.
fn split_width(w: u32, al: &str) -> (i64, i64) {
    let w = w as i64;
    match al {
        "0" => (0, w),
        "1" => (w / 2, w - w / 2),
        _ => (w, 0),
    }
}

/// The C06 + C01(b) predicate for one styled shape.
/// `fill_has`/`stroke_has`: contains() of the shapes returned by fill_area()/stroke_area();
/// `shape_has`: contains() of the unstyled shape; window: all points that could matter.
#[allow(clippy::too_many_arguments)]
fn c06_check(
    what: &str,
    win: &[Point],
    fill_has: &dyn Fn(Point) -> bool,
    stroke_has: &dyn Fn(Point) -> bool,
    shape_has: &dyn Fn(Point) -> bool,
    style: &PrimitiveStyle<Gray8>,
    al: &str,
    nat: &BTreeMap<(i32, i32), u32>,
    it: &BTreeMap<(i32, i32), u32>,
    pix: &[(Point, u32)],
) -> Result<usize, String> {
    let mut expect: BTreeMap<(i32, i32), u32> = BTreeMap::new();
    for p in win {
        if fill_has(*p) {
            if style.fill_color.is_some() {
                expect.insert((p.y, p.x), FILL as u32);
            }
        } else if stroke_has(*p) && style.stroke_width > 0 && style.stroke_color.is_some() {
            expect.insert((p.y, p.x), STROKE as u32);
        }
    }
    let diff = |m: &BTreeMap<(i32, i32), u32>| -> Option<String> {
        for (k, v) in &expect {
            if m.get(k) != Some(v) {
                return Some(format!("({}, {}) is {:?}, fill_area()/stroke_area() demand {}", k.1, k.0, m.get(k), v));
            }
        }
        for (k, v) in m {
            if !expect.contains_key(k) {
                return Some(format!("({}, {}) painted {} but lies in neither area (or its colour is unset)", k.1, k.0, v));
            }
        }
        None
    };
    if let Some(d) = diff(nat) {
        return Err(format!("FAIL {} draw() on native target: {}", what, d));
    }
    if let Some(d) = diff(it) {
        return Err(format!("FAIL {} draw() on draw_iter-only target: {}", what, d));
    }
    let pm = map_of_pixels(pix);
    if let Some(d) = diff(&pm) {
        return Err(format!("FAIL {} pixels(): {}", what, d));
    }
    if pm.len() != pix.len() {
        return Err(format!("FAIL {} pixels() yields a point more than once ({} items, {} distinct)", what, pix.len(), pm.len()));
    }
    // an inside stroke never paints outside the shape, an outside stroke never paints inside it
    for (k, v) in nat {
        let p = Point::new(k.1, k.0);
        if al == "0" && !shape_has(p) {
            return Err(format!("FAIL {} inside stroke paints {:?} outside the shape", what, p));
        }
        if al == "2" && *v == STROKE as u32 && shape_has(p) {
            return Err(format!("FAIL {} outside stroke paints {:?} inside the shape", what, p));
        }
    }
    Ok(expect.len())
}

fn window(bb: Rectangle, m: i32) -> Vec<Point> {
    let mut v = Vec::new();
    for y in (bb.top_left.y - m)..(bb.top_left.y + bb.size.height as i32 + m) {
        for x in (bb.top_left.x - m)..(bb.top_left.x + bb.size.width as i32 + m) {
            v.push(Point::new(x, y));
        }
    }
    v
}

pub fn run(suite: &str, a: &[&str]) -> Option<String> {
    Some(match suite {
        "circ_styled" => {
            let c = Circle::new(pt(a[0], a[1]), u(a[2]));
            let st = style_of(a[3], a[4], a[5], a[6]);
            if let Err(e) = style_api_check(&st).and_then(|_| styled_new_check(c, st)) {
                return Some(e);
            }
            let s = Styled::new(c, st);
            let (nat, it, pix) = render!(s);
            format!(
                "SBB {} SA {} FA {} DRAW {} DRAWI {} PIX {}",
                src(s.bounding_box()), scirc(s.stroke_area()), scirc(s.fill_area()), smap(&nat), smap(&it), spix(&pix)
            )
        }
        "style_split" => {
            let st = style_of(a[0], a[1], "1", "1");
            let r = Rectangle::new(Point::new(5, 7), Size::new(10, 4)).into_styled(st);
            let c = Circle::new(Point::new(3, 3), 9).into_styled(st);
            let e = Ellipse::new(Point::new(2, 4), Size::new(6, 11)).into_styled(st);
            format!(
                "R {} / {} C {} / {} E {} / {} SBB {}",
                src(r.stroke_area()), src(r.fill_area()), scirc(c.stroke_area()), scirc(c.fill_area()),
                sell(e.stroke_area()), sell(e.fill_area()), src(r.bounding_box())
            )
        }
        "ell_styled" => {
            let e = Ellipse::new(pt(a[0], a[1]), Size::new(u(a[2]), u(a[3])));
            let st = style_of(a[4], a[5], a[6], a[7]);
            if let Err(m) = style_api_check(&st).and_then(|_| styled_new_check(e, st)) {
                return Some(m);
            }
            let s = Styled::new(e, st);
            let (nat, it, pix) = render!(s);
            format!(
                "SBB {} SA {} FA {} DRAW {} DRAWI {} PIX {}",
                src(s.bounding_box()), sell(s.stroke_area()), sell(s.fill_area()), smap(&nat), smap(&it), spix(&pix)
            )
        }
        "rect_styled" => {
            let r = rc(a[0], a[1], a[2], a[3]);
            let st = style_of(a[4], a[5], a[6], a[7]);
            if let Err(m) = style_api_check(&st).and_then(|_| styled_new_check(r, st)) {
                return Some(m);
            }
            let s = Styled::new(r, st);
            let (nat, it, pix) = render!(s);
            format!(
                "SBB {} SA {} FA {} DRAW {} DRAWI {} PIX {}",
                src(s.bounding_box()), src(s.stroke_area()), src(s.fill_area()), smap(&nat), smap(&it), spix(&pix)
            )
        }
        _ => return search(suite, a),
    })
}

pub fn search(suite: &str, a: &[&str]) -> Option<String> {
    Some(match suite {
        // the style API alone: every constructor / setter / reset / conversion agrees with the field-by-field value, and a
        // fill-only / stroke-only style drawn through with_fill / with_stroke + Styled::new equals the builder's image
        "p_style_api" => {
            let style = style_of(a[0], a[1], a[2], a[3]);
            if let Err(m) = style_api_check(&style) {
                return Some(m);
            }
            let c = Circle::new(Point::new(2, -3), 9);
            let mut n = 0;
            if let (Some(fc), None) = (style.fill_color, style.stroke_color) {
                let (m1, _, p1) = render!(Styled::new(c, PrimitiveStyle::with_fill(fc)));
                let (m2, _, p2) = render!(c.into_styled(PrimitiveStyleBuilder::new().fill_color(fc).build()));
                if m1 != m2 || p1 != p2 || m1.values().any(|v| *v != FILL as u32) || m1.is_empty() {
                    return Some("FAIL entry point PrimitiveStyle::with_fill: image differs from the builder's fill-only style".into());
                }
                n += m1.len();
            }
            if let (None, Some(sc)) = (style.fill_color, style.stroke_color) {
                let (m1, _, p1) = render!(Styled::new(c, PrimitiveStyle::with_stroke(sc, style.stroke_width)));
                let (m2, _, p2) = render!(c.into_styled(PrimitiveStyleBuilder::new().stroke_color(sc).stroke_width(style.stroke_width).build()));
                if m1 != m2 || p1 != p2 || m1.values().any(|v| *v != STROKE as u32) {
                    return Some("FAIL entry point PrimitiveStyle::with_stroke: image differs from the builder's stroke-only style".into());
                }
                n += m1.len();
            }
            format!("OK {}", n)
        }
        "p_circ_c06" => {
            let c = Circle::new(pt(a[0], a[1]), u(a[2]));
            let style = style_of(a[3], a[4], a[5], a[6]);
            if let Err(m) = style_api_check(&style).and_then(|_| styled_new_check(c, style)) {
                return Some(m);
            }
            let s = c.into_styled(style);
            let (nat, it, pix) = render!(s);
            let (nat2, it2, pix2) = render!(Styled::new(c, style));
            if nat2 != nat || it2 != it || pix2 != pix {
                return Some("FAIL entry point Styled::new(circle, style) draws differently from into_styled()".into());
            }
            let (fa, sa) = (s.fill_area(), s.stroke_area());
            let (out, ins) = split_width(style.stroke_width, a[4]);
            let d = c.diameter as i64;
            if d >= 1 {
                // documented rule, recomputed independently: grown by `out` / shrunk by `ins` on every side
                let exp_sa = (c.top_left.x as i64 - out, c.top_left.y as i64 - out, d + 2 * out);
                if (sa.top_left.x as i64, sa.top_left.y as i64, sa.diameter as i64) != exp_sa {
                    return Some(format!("FAIL Circle stroke_area() = {:?}, rule says {:?}", sa, exp_sa));
                }
                if d > 2 * ins {
                    let exp_fa = (c.top_left.x as i64 + ins, c.top_left.y as i64 + ins, d - 2 * ins);
                    if (fa.top_left.x as i64, fa.top_left.y as i64, fa.diameter as i64) != exp_fa {
                        return Some(format!("FAIL Circle fill_area() = {:?}, rule says {:?}", fa, exp_fa));
                    }
                } else if fa.diameter != 0 {
                    return Some(format!("FAIL Circle fill_area() = {:?}, rule says empty", fa));
                }
            }
            let win = window(c.bounding_box(), style.stroke_width as i32 + 3);
            match c06_check("Circle", &win, &|p| fa.contains(p), &|p| sa.contains(p), &|p| c.contains(p), &style, a[4], &nat, &it, &pix) {
                Ok(n) => format!("OK {}", n),
                Err(e) => e,
            }
        }
        "p_ell_c06" => {
            let e = Ellipse::new(pt(a[0], a[1]), Size::new(u(a[2]), u(a[3])));
            let style = style_of(a[4], a[5], a[6], a[7]);
            if let Err(m) = style_api_check(&style).and_then(|_| styled_new_check(e, style)) {
                return Some(m);
            }
            let s = e.into_styled(style);
            let (nat, it, pix) = render!(s);
            let (nat2, it2, pix2) = render!(Styled::new(e, style));
            if nat2 != nat || it2 != it || pix2 != pix {
                return Some("FAIL entry point Styled::new(ellipse, style) draws differently from into_styled()".into());
            }
            let (fa, sa) = (s.fill_area(), s.stroke_area());
            let (out, ins) = split_width(style.stroke_width, a[5]);
            let (w, h) = (e.size.width as i64, e.size.height as i64);
            if w >= 1 && h >= 1 {
                let exp_sa = (e.top_left.x as i64 - out, e.top_left.y as i64 - out, w + 2 * out, h + 2 * out);
                if (sa.top_left.x as i64, sa.top_left.y as i64, sa.size.width as i64, sa.size.height as i64) != exp_sa {
                    return Some(format!("FAIL Ellipse stroke_area() = {:?}, rule says {:?}", sa, exp_sa));
                }
                if w > 2 * ins && (fa.top_left.x as i64, fa.size.width as i64) != (e.top_left.x as i64 + ins, w - 2 * ins) {
                    return Some(format!("FAIL Ellipse fill_area() = {:?} (x extent), rule says shrink by {}", fa, ins));
                }
                if h > 2 * ins && (fa.top_left.y as i64, fa.size.height as i64) != (e.top_left.y as i64 + ins, h - 2 * ins) {
                    return Some(format!("FAIL Ellipse fill_area() = {:?} (y extent), rule says shrink by {}", fa, ins));
                }
                if (w <= 2 * ins && fa.size.width != 0) || (h <= 2 * ins && fa.size.height != 0) {
                    return Some(format!("FAIL Ellipse fill_area() = {:?}, rule says collapsed", fa));
                }
            }
            let win = window(e.bounding_box(), style.stroke_width as i32 + 3);
            match c06_check("Ellipse", &win, &|p| fa.contains(p), &|p| sa.contains(p), &|p| e.contains(p), &style, a[5], &nat, &it, &pix) {
                Ok(n) => format!("OK {}", n),
                Err(e) => e,
            }
        }
        "p_rect_c06" => {
            let r = rc(a[0], a[1], a[2], a[3]);
            let style = style_of(a[4], a[5], a[6], a[7]);
            if let Err(m) = style_api_check(&style).and_then(|_| styled_new_check(r, style)) {
                return Some(m);
            }
            let s = r.into_styled(style);
            let (nat, it, pix) = render!(s);
            let (nat2, it2, pix2) = render!(Styled::new(r, style));
            if nat2 != nat || it2 != it || pix2 != pix {
                return Some("FAIL entry point Styled::new(rectangle, style) draws differently from into_styled()".into());
            }
            let (fa, sa) = (s.fill_area(), s.stroke_area());
            let (out, ins) = split_width(style.stroke_width, a[5]);
            let (w, h) = (r.size.width as i64, r.size.height as i64);
            if w >= 1 && h >= 1 {
                let exp_sa = (r.top_left.x as i64 - out, r.top_left.y as i64 - out, w + 2 * out, h + 2 * out);
                if (sa.top_left.x as i64, sa.top_left.y as i64, sa.size.width as i64, sa.size.height as i64) != exp_sa {
                    return Some(format!("FAIL Rectangle stroke_area() = {:?}, rule says {:?}", sa, exp_sa));
                }
                if w > 2 * ins && (fa.top_left.x as i64, fa.size.width as i64) != (r.top_left.x as i64 + ins, w - 2 * ins) {
                    return Some(format!("FAIL Rectangle fill_area() = {:?} (x extent), rule says shrink by {}", fa, ins));
                }
                if h > 2 * ins && (fa.top_left.y as i64, fa.size.height as i64) != (r.top_left.y as i64 + ins, h - 2 * ins) {
                    return Some(format!("FAIL Rectangle fill_area() = {:?} (y extent), rule says shrink by {}", fa, ins));
                }
                if (w <= 2 * ins && fa.size.width != 0) || (h <= 2 * ins && fa.size.height != 0) {
                    return Some(format!("FAIL Rectangle fill_area() = {:?}, rule says collapsed", fa));
                }
            }
            // the rectangle areas are checked with an independent point-set test (top-left plus size)
            let has = |q: Rectangle, p: Point| {
                (p.x as i64) >= q.top_left.x as i64 && (p.x as i64) < q.top_left.x as i64 + q.size.width as i64
                    && (p.y as i64) >= q.top_left.y as i64 && (p.y as i64) < q.top_left.y as i64 + q.size.height as i64
            };
            let win = window(r, style.stroke_width as i32 + 3);
            match c06_check("Rectangle", &win, &|p| has(fa, p), &|p| has(sa, p), &|p| has(r, p), &style, a[5], &nat, &it, &pix) {
                Ok(n) => format!("OK {}", n),
                Err(e) => e,
            }
        }
        _ => return None,
    })
}
