//! C06 / C01(b) (RoundedRectangle share): styled drawing on the real library.
//! rr_styled <12 rrect args> fill stroke width align  bbx bby bbw bbh
use super::c05_rrect::{rr, srr};
use crate::util::*;
use embedded_graphics::{
    pixelcolor::Gray8,
    prelude::*,
    primitives::{PrimitiveStyle, PrimitiveStyleBuilder, Rectangle, RoundedRectangle, StrokeAlignment, Styled},
    Pixel,
};
use std::collections::BTreeMap;

pub fn style(a: &[&str]) -> PrimitiveStyle<Gray8> {
    let mut b = PrimitiveStyleBuilder::new().stroke_width(u(a[2])).stroke_alignment(match a[3] {
        "0" => StrokeAlignment::Inside,
        "1" => StrokeAlignment::Center,
        _ => StrokeAlignment::Outside,
    });
    if a[0] != "0" {
        b = b.fill_color(Gray8::new(u(a[0]) as u8));
    }
    if a[1] != "0" {
        b = b.stroke_color(Gray8::new(u(a[1]) as u8));
    }
    let st = b.build();
    // shape-independent agreement of the style API entry points (with_fill, with_stroke, new, default, reset_*, From<&style>);
    // a failure makes the suite answer PANIC instead of a result
    if let Err(m) = super::c06_circle::style_api_check(&st) {
        panic!("{}", m);
    }
    st
}

pub struct Rendered {
    pub iter_map: BTreeMap<(i32, i32), u32>,
    pub native_map: BTreeMap<(i32, i32), u32>,
    pub pixels: Vec<(Point, u32)>,
    pub pixels_map: BTreeMap<(i32, i32), u32>,
}

pub fn render(s: &Styled<RoundedRectangle, PrimitiveStyle<Gray8>>, bb: Rectangle) -> Rendered {
    let mut it = IterTarget::<Gray8>::new(bb);
    s.draw(&mut it).unwrap();
    let mut nt = NativeTarget::<Gray8>::new(bb);
    s.draw(&mut nt).unwrap();
    let pixels: Vec<(Point, u32)> = s.pixels().map(|Pixel(p, c)| (p, c.tag())).collect();
    let mut pt = IterTarget::<Gray8>::new(bb);
    pt.draw_iter(s.pixels()).unwrap();
    Rendered { iter_map: it.map, native_map: nt.map, pixels, pixels_map: pt.map }
}

pub fn run(suite: &str, a: &[&str]) -> Option<String> {
    Some(match suite {
        // the class predicate of the known finding, model (K06_rrect_fill_outside_stroke in Model/Rrect.v) vs implementation
        "rr_k06" => {
            let s = rr(a).into_styled(style(&a[12..16]));
            sb(in_class_fill_outside_stroke(&s)).to_string()
        }
        "rr_styled" => {
            let r = rr(a);
            let st = style(&a[12..16]);
            let bb = rc(a[16], a[17], a[18], a[19]);
            let s = r.into_styled(st);
            let x = render(&s, bb);
            let m = smap(&x.iter_map);
            let same = |t: String| if t == m { "=".to_string() } else { t };
            let ps = x.pixels.iter().map(|(p, c)| format!("{}:{}:{}", p.x, p.y, c)).collect::<Vec<_>>().join(",");
            format!(
                "SA {} FA {} BB {} I {} N {} P {} PM {}",
                srr(&s.stroke_area()), srr(&s.fill_area()), src(s.bounding_box()),
                m, same(smap(&x.native_map)), same(ps), same(smap(&x.pixels_map))
            )
        }
        _ => return search(suite, a),
    })
}

type Map = BTreeMap<(i32, i32), u32>;

fn first_diff(a: &Map, b: &Map) -> String {
    for (k, v) in a {
        if b.get(k) != Some(v) {
            return format!("({},{}) expected {} got {:?}", k.1, k.0, v, b.get(k));
        }
    }
    for (k, v) in b {
        if !a.contains_key(k) {
            return format!("({},{}) unexpected {}", k.1, k.0, v);
        }
    }
    "none".into()
}

fn big() -> Rectangle {
    Rectangle::new(Point::new(-3000, -3000), Size::new(6000, 6000))
}

/// the pixel map the property C06 demands, from the public fill_area()/stroke_area()/contains()
fn expected_map(s: &Styled<RoundedRectangle, PrimitiveStyle<Gray8>>, margin: i32) -> Map {
    expected_map2(s, margin, false)
}

/// `clip_fill` = the prediction of the known-finding class K06_rrect_fill_outside_stroke: fill colour only on
/// fill area ∩ stroke area
fn expected_map2(s: &Styled<RoundedRectangle, PrimitiveStyle<Gray8>>, margin: i32, clip_fill: bool) -> Map {
    let (fa, sa) = (s.fill_area(), s.stroke_area());
    let st = s.style;
    let mut m = Map::new();
    let win = s.primitive.rectangle.envelope(&sa.rectangle).envelope(&fa.rectangle);
    let (x0, y0) = (win.top_left.x - margin, win.top_left.y - margin);
    let (x1, y1) = (win.top_left.x + win.size.width as i32 + margin, win.top_left.y + win.size.height as i32 + margin);
    for y in y0..y1 {
        for x in x0..x1 {
            let p = Point::new(x, y);
            if fa.contains(p) && !(clip_fill && !sa.contains(p)) {
                if let Some(c) = st.fill_color {
                    m.insert((y, x), c.tag());
                }
            } else if sa.contains(p) && st.stroke_width > 0 {
                if let Some(c) = st.stroke_color {
                    m.insert((y, x), c.tag());
                }
            }
        }
    }
    m
}

/// K06_rrect_fill_outside_stroke (known_findings.txt): exists p with fill_area().contains(p) && !stroke_area().contains(p)
fn in_class_fill_outside_stroke(s: &Styled<RoundedRectangle, PrimitiveStyle<Gray8>>) -> bool {
    let (fa, sa) = (s.fill_area(), s.stroke_area());
    fa.rectangle.points().any(|p| fa.contains(p) && !sa.contains(p))
}

pub fn search(suite: &str, a: &[&str]) -> Option<String> {
    Some(match suite {
        // C06: draw() (both targets) and pixels() paint fill colour exactly on fill_area(), stroke colour exactly on
        // stroke_area() \ fill_area() (width > 0), nothing else; geometry of the two areas
        "p_rr_styled" => {
            let r = rr(a);
            let st = style(&a[12..16]);
            let s = r.into_styled(st);
            let want = expected_map(&s, 3);
            let x = render(&s, big());
            if x.iter_map != want || x.native_map != want || x.pixels_map != want {
                let clip = expected_map2(&s, 3, true);
                // class membership is decided from the INPUT: some point of fill_area() lies outside stroke_area()
                if in_class_fill_outside_stroke(&s) && [&x.iter_map, &x.native_map, &x.pixels_map].iter().all(|m| **m == want || **m == clip) {
                    let bad = [&x.iter_map, &x.native_map, &x.pixels_map].iter().find(|m| ***m != want).map(|m| first_diff(&want, m)).unwrap();
                    return Some(format!("FAIL class=K06_rrect_fill_outside_stroke fill_area() point outside stroke_area() not painted: {}", bad));
                }
            }
            if x.iter_map != want {
                return Some(format!("FAIL draw() (draw_iter-only target) differs from fill_area/stroke_area: {} ({} vs {} px)", first_diff(&want, &x.iter_map), want.len(), x.iter_map.len()));
            }
            if x.native_map != want {
                return Some(format!("FAIL draw() (native target) differs from fill_area/stroke_area: {}", first_diff(&want, &x.native_map)));
            }
            if x.pixels_map != want {
                return Some(format!("FAIL pixels() differs from fill_area/stroke_area: {}", first_diff(&want, &x.pixels_map)));
            }
            // geometry: stroke area = box grown by the outside part, fill area = box shrunk by the inside part
            let w = st.stroke_width;
            let (ins, out) = match st.stroke_alignment {
                StrokeAlignment::Inside => (w, 0),
                StrokeAlignment::Center => ((w + 1) / 2, w / 2),
                StrokeAlignment::Outside => (0, w),
            };
            let (sa, fa) = (s.stroke_area(), s.fill_area());
            let Rectangle { top_left: t, size: z } = r.rectangle;
            if z.width > 0 && z.height > 0 {
                let want_sa = Rectangle::new(t - Point::new(out as i32, out as i32), z + Size::new(2 * out, 2 * out));
                if sa.rectangle != want_sa {
                    return Some(format!("FAIL stroke area box {:?} != {:?}", sa.rectangle, want_sa));
                }
                if z.width > 2 * ins && z.height > 2 * ins {
                    let want_fa = Rectangle::new(t + Point::new(ins as i32, ins as i32), z - Size::new(2 * ins, 2 * ins));
                    if fa.rectangle != want_fa {
                        return Some(format!("FAIL fill area box {:?} != {:?}", fa.rectangle, want_fa));
                    }
                } else if !fa.rectangle.is_zero_sized() {
                    return Some(format!("FAIL fill area box {:?} should be empty", fa.rectangle));
                }
            }
            // every corner radius grows by the outside part / shrinks by the inside part (saturating), like the sides
            let rad = |c: &embedded_graphics::primitives::CornerRadii| [c.top_left, c.top_right, c.bottom_right, c.bottom_left];
            for (k, (o, (g, f))) in rad(&r.corners).iter().zip(rad(&sa.corners).iter().zip(rad(&fa.corners).iter())).enumerate() {
                if *g != o.saturating_add(Size::new_equal(out)) {
                    return Some(format!("FAIL stroke area radius of corner {} is {:?}, expected {:?} + {}", k, g, o, out));
                }
                if *f != o.saturating_sub(Size::new_equal(ins)) {
                    return Some(format!("FAIL fill area radius of corner {} is {:?}, expected {:?} - {}", k, f, o, ins));
                }
            }
            // an inside stroke never paints outside the shape, an outside stroke never inside it
            for ((y, x_), c) in x.native_map.iter() {
                let p = Point::new(*x_, *y);
                if st.stroke_alignment == StrokeAlignment::Inside && !r.contains(p) {
                    return Some(format!("FAIL inside stroke painted {:?} outside the shape", p));
                }
                if st.stroke_alignment == StrokeAlignment::Outside && st.stroke_color.map(|k| k.tag()) == Some(*c)
                    && st.fill_color.map(|k| k.tag()) != Some(*c) && r.contains(p) {
                    return Some(format!("FAIL outside stroke painted {:?} inside the shape", p));
                }
            }
            format!("OK {}", want.len())
        }
        // C01(b): pixels() and draw() give the same image (on both kinds of target, clipped by the target box)
        "p_rr_pixels_draw" => {
            let r = rr(a);
            let st = style(&a[12..16]);
            let bb = rc(a[16], a[17], a[18], a[19]);
            let s = r.into_styled(st);
            let x = render(&s, bb);
            if x.iter_map != x.native_map {
                return Some(format!("FAIL draw() on draw_iter-only vs native target: {}", first_diff(&x.iter_map, &x.native_map)));
            }
            if x.pixels_map != x.iter_map && in_class_fill_outside_stroke(&s) && st.fill_color.is_some() && !(st.stroke_color.is_some() && st.stroke_width > 0)
                && x.iter_map == expected_map(&s, 3).into_iter().filter(|((y, x_), _)| bb.contains(Point::new(*x_, *y))).collect::<Map>()
                && x.pixels_map == expected_map2(&s, 3, true).into_iter().filter(|((y, x_), _)| bb.contains(Point::new(*x_, *y))).collect::<Map>() {
                return Some(format!("FAIL class=K01_rrect_fill_outside_stroke fill only: pixels() omits fill_area() points outside stroke_area(): {}", first_diff(&x.iter_map, &x.pixels_map)));
            }
            if x.pixels_map != x.iter_map {
                return Some(format!("FAIL pixels() vs draw(): {} ({} vs {} px)", first_diff(&x.iter_map, &x.pixels_map), x.iter_map.len(), x.pixels_map.len()));
            }
            // pixels() yields every point at most once
            let mut seen = std::collections::BTreeSet::new();
            for (p, _) in &x.pixels {
                if !seen.insert((p.y, p.x)) {
                    return Some(format!("FAIL pixels() yields {:?} twice", p));
                }
            }
            format!("OK {}", x.iter_map.len())
        }
        // C02: everything drawn lies in the styled bounding box; transparent styles draw nothing
        "p_rr_bbox" => {
            let r = rr(a);
            let st = style(&a[12..16]);
            let s = r.into_styled(st);
            let x = render(&s, big());
            let bb = s.bounding_box();
            for m in [&x.iter_map, &x.native_map, &x.pixels_map] {
                for ((y, x_), _) in m.iter() {
                    if !bb.contains(Point::new(*x_, *y)) {
                        return Some(format!("FAIL ({},{}) drawn outside the bounding box {:?}", x_, y, bb));
                    }
                }
            }
            if st.is_transparent() && !(x.iter_map.is_empty() && x.native_map.is_empty() && x.pixels.is_empty()) {
                return Some("FAIL transparent style drew pixels".into());
            }
            format!("OK {}", x.iter_map.len())
        }
        // C07: contains / points / bounding boxes / draw / pixels commute with translation.  dx dy first
        "p_rr_translate" => {
            let d = pt(a[0], a[1]);
            let a = &a[2..];
            let r = rr(a);
            let st = style(&a[12..16]);
            let rt = r.translate(d);
            let mut rm = r;
            rm.translate_mut(d);
            if rm != rt {
                return Some("FAIL translate_mut != translate".into());
            }
            if rt.corners != r.corners || rt.rectangle.size != r.rectangle.size || rt.rectangle.top_left != r.rectangle.top_left + d {
                return Some("FAIL translate changed more than the position".into());
            }
            if !r.points().map(|p| p + d).eq(rt.points()) {
                return Some("FAIL points() of the translate != shifted points()".into());
            }
            let (x0, y0, x1, y1) = super::c05_rrect::window(&r.rectangle, 2);
            for y in y0..y1 {
                for x in x0..x1 {
                    let p = Point::new(x, y);
                    if r.contains(p) != rt.contains(p + d) {
                        return Some(format!("FAIL contains({:?}) != translate.contains(p + d)", p));
                    }
                }
            }
            let (s, s2) = (r.into_styled(st), rt.into_styled(st));
            let (b, b2) = (s.bounding_box(), s2.bounding_box());
            if !b.is_zero_sized() && (b2.top_left != b.top_left + d || b2.size != b.size) {
                return Some(format!("FAIL styled bounding box {:?} -> {:?}", b, b2));
            }
            let (m, m2) = (render(&s, big()), render(&s2, big()));
            let sh = |m: &Map| -> Map { m.iter().map(|((y, x), c)| ((y + d.y, x + d.x), *c)).collect() };
            if sh(&m.native_map) != m2.native_map || sh(&m.iter_map) != m2.iter_map {
                return Some(format!("FAIL draw(translate) != shifted draw: {}", first_diff(&sh(&m.native_map), &m2.native_map)));
            }
            if !m.pixels.iter().map(|(p, c)| (*p + d, *c)).eq(m2.pixels.iter().copied()) {
                return Some("FAIL pixels() of the translate != shifted pixels()".into());
            }
            format!("OK {}", m.native_map.len())
        }
        _ => return None,
    })
}
