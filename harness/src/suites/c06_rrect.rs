//! C06 / C01(b) (RoundedRectangle share): styled drawing on the real library.
//! rr_styled <12 rrect args> fill stroke width align  bbx bby bbw bbh
use super::c05_rrect::{rr, srr};
use crate::util::*;
use embedded_graphics::{
    pixelcolor::Gray8,
    prelude::*,
    primitives::{PrimitiveStyle, PrimitiveStyleBuilder, Rectangle, RoundedRectangle, StrokeAlignment, Styled},
    Pixel,
};
use std::collections::BTreeMap;

pub fn style(a: &[&str]) -> PrimitiveStyle<Gray8> {
    let mut b = PrimitiveStyleBuilder::new().stroke_width(u(a[2])).stroke_alignment(match a[3] {
        "0" => StrokeAlignment::Inside,
        "1" => StrokeAlignment::Center,
        _ => StrokeAlignment::Outside,
    });
    if a[0] != "0" {
        b = b.fill_color(Gray8::new(u(a[0]) as u8));
    }
    if a[1] != "0" {
        b = b.stroke_color(Gray8::new(u(a[1]) as u8));
    }
    b.build()
}

pub struct Rendered {
    pub iter_map: BTreeMap<(i32, i32), u32>,
    pub native_map: BTreeMap<(i32, i32), u32>,
    pub pixels: Vec<(Point, u32)>,
    pub pixels_map: BTreeMap<(i32, i32), u32>,
}

pub fn render(s: &Styled<RoundedRectangle, PrimitiveStyle<Gray8>>, bb: Rectangle) -> Rendered {
    let mut it = IterTarget::<Gray8>::new(bb);
    s.draw(&mut it).unwrap();
    let mut nt = NativeTarget::<Gray8>::new(bb);
    s.draw(&mut nt).unwrap();
    let pixels: Vec<(Point, u32)> = s.pixels().map(|Pixel(p, c)| (p, c.tag())).collect();
    let mut pt = IterTarget::<Gray8>::new(bb);
    pt.draw_iter(s.pixels()).unwrap();
    Rendered { iter_map: it.map, native_map: nt.map, pixels, pixels_map: pt.map }
}

pub fn run(suite: &str, a: &[&str]) -> Option<String> {
    Some(match suite {
        "rr_styled" => {
            let r = rr(a);
            let st = style(&a[12..16]);
            let bb = rc(a[16], a[17], a[18], a[19]);
            let s = r.into_styled(st);
            let x = render(&s, bb);
            let m = smap(&x.iter_map);
            let same = |t: String| if t == m { "=".to_string() } else { t };
            let ps = x.pixels.iter().map(|(p, c)| format!("{}:{}:{}", p.x, p.y, c)).collect::<Vec<_>>().join(",");
            format!(
                "SA {} FA {} BB {} I {} N {} P {} PM {}",
                srr(&s.stroke_area()), srr(&s.fill_area()), src(s.bounding_box()),
                m, same(smap(&x.native_map)), same(ps), same(smap(&x.pixels_map))
            )
        }
        _ => return None,
    })
}
