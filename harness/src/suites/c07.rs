//! C07 (implementation-side search): rendering commutes with translation.
//!   p_translate <dx> <dy> <zoo case...>
use crate::util::*;
use crate::zoo::*;
use embedded_graphics::{pixelcolor::Rgb565, prelude::*, primitives::Rectangle};
use std::collections::BTreeMap;

fn big() -> Rectangle {
    Rectangle::new(Point::new(-6000, -6000), Size::new(12000, 12000))
}
fn render(z: &Zoo) -> (BTreeMap<(i32, i32), u32>, Option<Point>) {
    let mut t = NativeTarget::<Rgb565>::new(big());
    let next = z.draw(&mut t).unwrap();
    (t.map, next)
}
fn shift(m: &BTreeMap<(i32, i32), u32>, d: Point) -> BTreeMap<(i32, i32), u32> {
    m.iter().map(|((y, x), c)| ((y + d.y, x + d.x), *c)).collect()
}
fn first_diff(a: &BTreeMap<(i32, i32), u32>, b: &BTreeMap<(i32, i32), u32>) -> String {
    for (k, v) in a {
        if b.get(k) != Some(v) {
            return format!("({},{}) expected {} got {:?}", k.1, k.0, v, b.get(k));
        }
    }
    for (k, v) in b {
        if !a.contains_key(k) {
            return format!("({},{}) unexpected {}", k.1, k.0, v);
        }
    }
    "none".into()
}

pub fn run(suite: &str, a: &[&str]) -> Option<String> {
    if suite != "p_translate" {
        return None;
    }
    let d = Point::new(i(a[0]), i(a[1]));
    let z = Zoo::parse(&a[2..]);
    let zt = z.translated(d);
    let (m0, n0) = render(&z);
    let (m1, n1) = render(&zt);
    let want = shift(&m0, d);
    if want != m1 {
        return Some(format!("FAIL draw(translate) != shifted draw: {} ({} vs {} px)", first_diff(&want, &m1), want.len(), m1.len()));
    }
    if n0.map(|p| p + d) != n1 {
        return Some(format!("FAIL next position {:?} + d != {:?}", n0, n1));
    }
    // translate_mut == translate
    let (m2, n2) = render(&z.translated_mut(d));
    if m2 != m1 || n2 != n1 {
        return Some("FAIL translate_mut differs from translate".into());
    }
    // the Transform impl of Styled<T, S> itself (into_styled first, then translate / translate_mut)
    for use_mut in [false, true] {
        let mut t = NativeTarget::<Rgb565>::new(big());
        if let Some(r) = z.draw_styled_translated(d, use_mut, &mut t) {
            r.unwrap();
            if t.map != m1 {
                return Some(format!(
                    "FAIL Styled::{} differs from styling the translated primitive: {}",
                    if use_mut { "translate_mut" } else { "translate" },
                    first_diff(&m1, &t.map)
                ));
            }
        }
    }
    // bounding boxes (non-empty) shift by d
    let (b0, b1) = (z.bounding_box(), zt.bounding_box());
    if !b0.is_zero_sized() && (b1.top_left != b0.top_left + d || b1.size != b0.size) {
        return Some(format!("FAIL styled bounding box {:?} -> {:?}", b0, b1));
    }
    if let (Some(p0), Some(p1)) = (z.primitive_bounding_box(), zt.primitive_bounding_box()) {
        if !p0.is_zero_sized() && (p1.top_left != p0.top_left + d || p1.size != p0.size) {
            return Some(format!("FAIL bounding box {:?} -> {:?}", p0, p1));
        }
    }
    // points() and contains() shift
    if let (Some(p0), Some(p1)) = (z.points(2_000_000), zt.points(2_000_000)) {
        if p0.len() != p1.len() || p0.iter().zip(p1.iter()).any(|(a, b)| *a + d != *b) {
            return Some("FAIL points() of translate != shifted points()".into());
        }
    }
    if let Some(pb) = z.primitive_bounding_box() {
        let probe = pb.offset(2);
        if probe.size.width <= 140 && probe.size.height <= 140 {
            for q in probe.points() {
                if let (Some(c0), Some(c1)) = (z.contains(q), zt.contains(q + d)) {
                    if c0 != c1 {
                        return Some(format!("FAIL contains({:?}) = {} but translated contains = {}", q, c0, c1));
                    }
                }
            }
        }
    }
    // pixels() shift
    if let (Some(p0), Some(p1)) = (z.pixels(2_000_000), zt.pixels(2_000_000)) {
        if p0.len() != p1.len() || p0.iter().zip(p1.iter()).any(|(a, b)| a.0 + d != b.0 || a.1 != b.1) {
            return Some("FAIL pixels() of translate != shifted pixels()".into());
        }
    }
    // a polyline moved by its vertices renders like one moved with translate
    if let Some(zv) = z.moved_vertices(d) {
        let (m3, _) = render(&zv);
        if m3 != m1 {
            return Some(format!("FAIL polyline with moved vertices != translate: {}", first_diff(&m1, &m3)));
        }
        let (bv, bt) = (zv.bounding_box(), zt.bounding_box());
        if !bt.is_zero_sized() && bv != bt {
            return Some(format!("FAIL polyline bounding box moved vertices {:?} vs translate {:?}", bv, bt));
        }
    }
    Some(format!("OK {}", m0.len()))
}
