//! C07 image part: Image::translate / translate_mut on the real library.
//! Correspondence suite: img_translate.  Search suite: p_img_translate.
use super::c09::{data, dispatch, err_size, C32};
use crate::util::*;
use embedded_graphics::{
    image::{Image, ImageDrawable, ImageDrawableExt, ImageRaw},
    iterator::raw::RawDataSlice,
    pixelcolor::{
        raw::{BigEndianLsb0, DataOrder, LittleEndianMsb0},
        BinaryColor, Gray2, Gray4, Gray8, Rgb565, Rgb888,
    },
    prelude::*,
    primitives::Rectangle,
};
use std::collections::BTreeMap;

struct Tr {
    bbox: Rectangle,
    map: BTreeMap<(i32, i32), u32>,
    areas: Vec<Rectangle>,
}

fn draw_on<T, C>(im: &Image<'_, T>, bb: Rectangle) -> Tr
where
    T: ImageDrawable<Color = C>,
    C: Tag,
{
    let mut t = NativeTarget::<C>::new(bb);
    im.draw(&mut t).unwrap();
    let areas = t
        .log
        .iter()
        .map(|c| match c {
            Call::FillContiguous(a, _) => *a,
            _ => Rectangle::new(Point::new(i32::MIN, i32::MIN), Size::zero()),
        })
        .collect();
    Tr { bbox: im.bounding_box(), map: t.map, areas }
}

/// (untranslated on bb, translated on bb2, translate_mut on bb2)
fn tr_obs<T, C>(d: &T, o: Point, by: Point, bb: Rectangle, bb2: Rectangle) -> (Tr, Tr, Tr)
where
    T: ImageDrawable<Color = C>,
    C: Tag,
{
    let i0 = Image::new(d, o);
    let i1 = i0.translate(by);
    let mut i2 = Image::new(d, o);
    i2.translate_mut(by);
    (draw_on(&i0, bb), draw_on(&i1, bb2), draw_on(&i2, bb2))
}

/// args: bpp alt w h len seed ox oy tx ty mut bx by bw bh nsub [x y w h]*   (bb = box of the target the TRANSLATED image is drawn on)
fn tr_case<C, O>(a: &[&str], bb: Rectangle, bb2: Rectangle) -> Result<(Tr, Tr, Tr), usize>
where
    C: Tag,
    O: DataOrder,
    for<'a> RawDataSlice<'a, C::Raw, O>: IntoIterator<Item = C::Raw>,
{
    let bytes = data(a[5], a[4]);
    let img = ImageRaw::<C, O>::new(&bytes, Size::new(u(a[2]), u(a[3]))).map_err(err_size)?;
    let (o, by) = (pt(a[6], a[7]), pt(a[8], a[9]));
    let nsub = us(a[15]);
    let r = |k: usize| rc(a[16 + 4 * k], a[17 + 4 * k], a[18 + 4 * k], a[19 + 4 * k]);
    Ok(match nsub {
        0 => tr_obs(&img, o, by, bb, bb2),
        1 => tr_obs(&img.sub_image(&r(0)), o, by, bb, bb2),
        _ => tr_obs(&img.sub_image(&r(0)).sub_image(&r(1)), o, by, bb, bb2),
    })
}

fn img_translate<C, O>(a: &[&str]) -> String
where
    C: Tag,
    O: DataOrder,
    for<'a> RawDataSlice<'a, C::Raw, O>: IntoIterator<Item = C::Raw>,
{
    let bb = rc(a[11], a[12], a[13], a[14]);
    match tr_case::<C, O>(a, bb, bb) {
        Err(n) => format!("err {}", n),
        Ok((_, t1, t2)) => {
            let t = if a[10] == "1" { t2 } else { t1 };
            format!(
                "BOX {} MAP {} LOG {}",
                src(t.bbox),
                smap(&t.map),
                t.areas.iter().map(|r| src(*r)).collect::<Vec<_>>().join(";")
            )
        }
    }
}

/// the property itself on the implementation: the translated image on the translated target shows the shifted map,
/// its box is the shifted box, its calls are the shifted calls, translate_mut agrees with translate
fn p_img_translate<C, O>(a: &[&str]) -> String
where
    C: Tag,
    O: DataOrder,
    for<'a> RawDataSlice<'a, C::Raw, O>: IntoIterator<Item = C::Raw>,
{
    let bb = rc(a[11], a[12], a[13], a[14]);
    let by = pt(a[8], a[9]);
    // bb is the box of the target the translated image is drawn on; the original is drawn on bb moved back
    let (t0, t1, t2) = match tr_case::<C, O>(a, bb.translate(Point::zero() - by), bb) {
        Err(_) => return "FAIL new rejected the documented length".to_string(),
        Ok(x) => x,
    };
    let shifted: BTreeMap<(i32, i32), u32> = t0.map.iter().map(|((y, x), c)| ((y + by.y, x + by.x), *c)).collect();
    if t1.map != shifted {
        return format!("FAIL translate({:?}): map is not the shifted map ({} vs {} pixels)", by, t1.map.len(), shifted.len());
    }
    if t1.bbox != t0.bbox.translate(by) {
        return format!("FAIL bounding box {:?} is not {:?} moved by {:?}", t1.bbox, t0.bbox, by);
    }
    if t1.areas != t0.areas.iter().map(|r| r.translate(by)).collect::<Vec<_>>() {
        return format!("FAIL call areas {:?} vs {:?}", t1.areas, t0.areas);
    }
    if t2.map != t1.map || t2.bbox != t1.bbox || t2.areas != t1.areas {
        return "FAIL translate_mut differs from translate".to_string();
    }
    format!("OK {}", t1.map.len())
}

pub fn run(suite: &str, a: &[&str]) -> Option<String> {
    Some(match suite {
        "img_translate" => dispatch!(img_translate, a),
        "p_img_translate" => dispatch!(p_img_translate, a),
        _ => return None,
    })
}
