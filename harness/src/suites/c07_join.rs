//! C07 (join part), public API level: thick polylines, compared with Model/Join.v.
//!   join_poly_pixels w tx ty x1 y1 ...   pixels() of the translated styled polyline, in order
//!   join_poly_rects  w x1 y1 ...         the fill_solid rectangles of draw(), in order (x:y:width)
//!   join_poly_bbox   w x1 y1 ...         styled bounding box
use crate::util::*;
use embedded_graphics::{pixelcolor::Rgb565, prelude::*, primitives::*};

fn pts(a: &[&str]) -> Vec<Point> {
    a.chunks(2).filter(|c| c.len() == 2).map(|c| pt(c[0], c[1])).collect()
}
fn big() -> Rectangle {
    Rectangle::new(Point::new(-100000, -100000), Size::new(200000, 200000))
}

pub fn run(suite: &str, a: &[&str]) -> Option<String> {
    match suite {
        "join_poly_pixels" => {
            let v = pts(&a[3..]);
            let st = PrimitiveStyle::with_stroke(Rgb565::GREEN, u(a[0]));
            let p = Polyline::new(&v).translate(pt(a[1], a[2])).into_styled(st);
            Some(spts(p.pixels().map(|px| px.0)))
        }
        "join_poly_rects" => {
            let v = pts(&a[1..]);
            let st = PrimitiveStyle::with_stroke(Rgb565::GREEN, u(a[0]));
            let mut t = NativeTarget::<Rgb565>::new(big());
            Polyline::new(&v).into_styled(st).draw(&mut t).unwrap();
            Some(
                t.log
                    .iter()
                    .map(|c| match c {
                        Call::FillSolid(r, _) if r.size.height == 1 => format!("{}:{}:{}", r.top_left.x, r.top_left.y, r.size.width),
                        other => format!("?{:?}", other),
                    })
                    .collect::<Vec<_>>()
                    .join(","),
            )
        }
        "join_poly_bbox" => {
            let v = pts(&a[1..]);
            let st = PrimitiveStyle::with_stroke(Rgb565::GREEN, u(a[0]));
            Some(src(Polyline::new(&v).into_styled(st).bounding_box()))
        }
        _ => None,
    }
}
