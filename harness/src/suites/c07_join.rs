//! C07 (join part), public API level: thick polylines, compared with Model/Join.v.
//!   join_poly_pixels w tx ty x1 y1 ...   pixels() of the translated styled polyline, in order
//!   join_poly_rects  w x1 y1 ...         the fill_solid rectangles of draw(), in order (x:y:width)
//!   join_poly_bbox   w x1 y1 ...         styled bounding box
//! and the implementation-side search p_thick (geometric reference, independent of the model; the bounding box part
//! of it is C02's and lives in c02_join.rs):
//!   p_thick poly <w> x1 y1 ...           thick polyline
//!   p_thick tri <w> <align> x1 y1 x2 y2 x3 y3     stroked triangle (align 0 inside 1 center 2 outside)
use crate::util::*;
use embedded_graphics::{pixelcolor::Rgb565, prelude::*, primitives::*};

fn pts(a: &[&str]) -> Vec<Point> {
    a.chunks(2).filter(|c| c.len() == 2).map(|c| pt(c[0], c[1])).collect()
}
fn big() -> Rectangle {
    Rectangle::new(Point::new(-100000, -100000), Size::new(200000, 200000))
}

// ---- p_thick: a real-number reference for the stroke of width w along the segments ----------------
fn dist_seg(p: (f64, f64), a: (f64, f64), b: (f64, f64)) -> f64 {
    let (dx, dy) = (b.0 - a.0, b.1 - a.1);
    let l2 = dx * dx + dy * dy;
    let t = if l2 == 0.0 { 0.0 } else { (((p.0 - a.0) * dx + (p.1 - a.1) * dy) / l2).clamp(0.0, 1.0) };
    let (qx, qy) = (a.0 + t * dx, a.1 + t * dy);
    ((p.0 - qx).powi(2) + (p.1 - qy).powi(2)).sqrt()
}
fn f(p: Point) -> (f64, f64) {
    (p.x as f64, p.y as f64)
}
/// signed distance of p from the line a->b, positive on the left (y axis pointing down: left of the direction of travel)
fn side_dist(p: (f64, f64), a: (f64, f64), b: (f64, f64)) -> f64 {
    let (dx, dy) = (b.0 - a.0, b.1 - a.1);
    let l = (dx * dx + dy * dy).sqrt();
    if l == 0.0 {
        return 0.0;
    }
    ((p.0 - a.0) * dy - (p.1 - a.1) * dx) / l
}

/// interior angle at b between the arms b->a and b->c, in degrees
fn interior_angle(a: Point, b: Point, c: Point) -> f64 {
    let (ux, uy) = ((a.x - b.x) as f64, (a.y - b.y) as f64);
    let (vx, vy) = ((c.x - b.x) as f64, (c.y - b.y) as f64);
    let d = (ux * ux + uy * uy).sqrt() * (vx * vx + vy * vy).sqrt();
    if d == 0.0 {
        return 0.0;
    }
    ((ux * vx + uy * vy) / d).clamp(-1.0, 1.0).acos().to_degrees()
}
fn seg_len(a: Point, b: Point) -> f64 {
    (((a.x - b.x) as f64).powi(2) + ((a.y - b.y) as f64).powi(2)).sqrt()
}
/// The geometric reference applies to strokes whose segments are long compared with the width (>= 6 w) and
/// whose joins are not needle sharp (interior angle >= 15 degrees): for sharper or shorter input the library
/// places the inner corner of a join far outside the stroke (it is the intersection of the two inner edges,
/// wherever that lies) and the picture is no band along the skeleton any more.
fn tame(v: &[Point], closed: bool, w: u32) -> bool {
    let n = v.len();
    let segs = if closed { n } else { n - 1 };
    for k in 0..segs {
        if seg_len(v[k], v[(k + 1) % n]) < 6.0 * w as f64 {
            return false;
        }
    }
    let joins: Vec<usize> = if closed { (0..n).collect() } else { (1..n - 1).collect() };
    joins.iter().all(|&k| interior_angle(v[(k + n - 1) % n], v[k], v[(k + 1) % n]) >= 15.0)
}

/// Checks on one thick stroke. `segs` are the skeleton segments, `joins` the vertices where two segments meet,
/// (lo, hi): the stroke of a segment covers signed distances lo..hi (left positive) from the skeleton.
fn thick_reference(
    drawn: &std::collections::BTreeMap<(i32, i32), u32>,
    stroke: u32,
    segs: &[(Point, Point)],
    joins: &[Point],
    w: u32,
    lo: f64,
    hi: f64,
    exempt: &dyn Fn((f64, f64)) -> bool,
) -> Result<(), String> {
    let wf = w as f64;
    let reach = lo.abs().max(hi.abs());
    // (a) containment: every stroke pixel is near a segment, or inside the miter-limit circle of a join
    for ((y, x), c) in drawn {
        if *c != stroke {
            continue;
        }
        let p = (*x as f64, *y as f64);
        let near_seg = segs.iter().any(|(a, b)| dist_seg(p, f(*a), f(*b)) <= reach * 1.2 + 1.5);
        let near_join = joins.iter().any(|v| ((p.0 - v.x as f64).powi(2) + (p.1 - v.y as f64).powi(2)).sqrt() <= 2.0 * wf + 2.0);
        if !near_seg && !near_join {
            return Err(format!("stroke pixel ({},{}) is farther than {} from every segment and outside the miter limit of every join", x, y, reach * 1.2 + 1.5));
        }
    }
    // (b) coverage: every lattice point whose foot lies inside a segment and whose signed distance is
    //     at least one pixel inside the stroke band is drawn
    for (a, b) in segs {
        if a == b {
            continue;
        }
        let (fa, fb) = (f(*a), f(*b));
        let r = reach.ceil() as i32 + 1;
        let (x0, x1) = (a.x.min(b.x) - r, a.x.max(b.x) + r);
        let (y0, y1) = (a.y.min(b.y) - r, a.y.max(b.y) + r);
        if (x1 - x0) as i64 * (y1 - y0) as i64 > 400_000 {
            continue;
        }
        let (dx, dy) = (fb.0 - fa.0, fb.1 - fa.1);
        let l2 = dx * dx + dy * dy;
        for y in y0..=y1 {
            for x in x0..=x1 {
                let p = (x as f64, y as f64);
                let t = ((p.0 - fa.0) * dx + (p.1 - fa.1) * dy) / l2;
                // the caps are cut along Bresenham lines between the rounded corners: stay 1.5 px clear of both ends
                let l = l2.sqrt();
                if t * l < 1.5 || (1.0 - t) * l < 1.5 {
                    continue;
                }
                let sd = side_dist(p, fa, fb);
                // the library measures thickness in Bresenham steps of the perpendicular, which is up to ~30% thinner
                // than w on diagonals and not centred: only the inner 55% of the band is required
                let (clo, chi) = (lo * 0.55 + 1.0, hi * 0.55 - 1.0);
                if sd >= clo && sd <= chi && !drawn.contains_key(&(y, x)) && !exempt(p) {
                    return Err(format!("({},{}) lies {:.2} beside segment {:?}-{:?} (stroke band {:.1}..{:.1}) but is not drawn", x, y, sd, a, b, lo, hi));
                }
            }
        }
    }
    Ok(())
}

fn p_thick(a: &[&str]) -> String {
    use std::collections::BTreeMap;
    let stroke = Rgb565::GREEN.tag();
    match a[0] {
        "poly" => {
            let w = u(a[1]);
            let v = pts(&a[2..]);
            let st = PrimitiveStyle::with_stroke(Rgb565::GREEN, w);
            let mut t = NativeTarget::<Rgb565>::new(big());
            Polyline::new(&v).into_styled(st).draw(&mut t).unwrap();
            let mut m2: BTreeMap<(i32, i32), u32> = BTreeMap::new();
            for px in Polyline::new(&v).into_styled(st).pixels() {
                m2.insert((px.0.y, px.0.x), px.1.tag());
            }
            if m2 != t.map {
                return format!("FAIL pixels() and draw() differ ({} vs {} px)", m2.len(), t.map.len());
            }
            if v.len() == 2 && w >= 2 && (v[0].x == v[1].x || v[0].y == v[1].y) {
                // an axis parallel polyline of one segment is that thick line
                let mut tl = NativeTarget::<Rgb565>::new(big());
                Line::new(v[0], v[1]).into_styled(st).draw(&mut tl).unwrap();
                if tl.map != t.map {
                    return format!("FAIL two-vertex polyline differs from the thick line ({} vs {} px)", t.map.len(), tl.map.len());
                }
            }
            if w < 2 || v.len() < 2 || !tame(&v, false, w) {
                return format!("OK {} basic", t.map.len());
            }
            let segs: Vec<(Point, Point)> = v.windows(2).map(|s| (s[0], s[1])).collect();
            let joins: Vec<Point> = v[1..v.len() - 1].to_vec();
            let half = w as f64 / 2.0;
            match thick_reference(&t.map, stroke, &segs, &joins, w, -half, half, &|_| false) {
                Ok(()) => format!("OK {}", t.map.len()),
                Err(e) => format!("FAIL {}", e),
            }
        }
        "tri" => {
            let w = u(a[1]);
            let al = a[2];
            let v = pts(&a[3..]);
            let st = PrimitiveStyleBuilder::new()
                .stroke_color(Rgb565::GREEN)
                .stroke_width(w)
                .stroke_alignment(match al {
                    "0" => StrokeAlignment::Inside,
                    "1" => StrokeAlignment::Center,
                    _ => StrokeAlignment::Outside,
                })
                .build();
            let tri = Triangle::new(v[0], v[1], v[2]);
            let mut t = NativeTarget::<Rgb565>::new(big());
            tri.into_styled(st).draw(&mut t).unwrap();
            let mut m2: BTreeMap<(i32, i32), u32> = BTreeMap::new();
            for px in tri.into_styled(st).pixels() {
                m2.insert((px.0.y, px.0.x), px.1.tag());
            }
            if m2 != t.map {
                return format!("FAIL pixels() and draw() differ ({} vs {} px)", m2.len(), t.map.len());
            }
            // clockwise order (y down): area_doubled > 0
            let area = |p: &[Point]| -> i64 {
                let (p1, p2, p3) = (p[0], p[1], p[2]);
                -(p2.y as i64) * p3.x as i64 + p1.y as i64 * (p3.x - p2.x) as i64 + p1.x as i64 * (p2.y - p3.y) as i64 + p2.x as i64 * p3.y as i64
            };
            let ar = area(&v);
            if w < 2 || ar == 0 || !tame(&v, true, w) {
                return format!("OK {} basic", t.map.len());
            }
            let c = if ar < 0 { vec![v[1], v[0], v[2]] } else { v.clone() };
            let segs = vec![(c[0], c[1]), (c[1], c[2]), (c[2], c[0])];
            let wf = w as f64;
            // clockwise with y down: the interior is on the right of each edge (negative side_dist)
            let (lo, hi) = match al {
                "0" => (-wf, 0.0),
                "1" => (-wf / 2.0, wf / 2.0),
                _ => (0.0, wf),
            };
            // inside alignment: the band is cut by the opposite edges; coverage is required only for points inside the triangle
            let outside = |q: (f64, f64)| !segs.iter().all(|(a, b)| side_dist(q, f(*a), f(*b)) <= 0.0);
            let res = if al == "0" {
                thick_reference(&t.map, stroke, &segs, &c, w, lo, hi, &outside)
            } else {
                thick_reference(&t.map, stroke, &segs, &c, w, lo, hi, &|_| false)
            };
            match res {
                Ok(()) => format!("OK {}", t.map.len()),
                Err(e) => format!("FAIL {}", e),
            }
        }
        _ => "BAD-ARGS".into(),
    }
}

pub fn run(suite: &str, a: &[&str]) -> Option<String> {
    match suite {
        "p_thick_join" => Some(p_thick(a)),
        "join_poly_pixels" => {
            let v = pts(&a[3..]);
            let st = PrimitiveStyle::with_stroke(Rgb565::GREEN, u(a[0]));
            let p = Polyline::new(&v).translate(pt(a[1], a[2])).into_styled(st);
            Some(spts(p.pixels().map(|px| px.0)))
        }
        "join_poly_rects" => {
            let v = pts(&a[1..]);
            let st = PrimitiveStyle::with_stroke(Rgb565::GREEN, u(a[0]));
            let mut t = NativeTarget::<Rgb565>::new(big());
            Polyline::new(&v).into_styled(st).draw(&mut t).unwrap();
            Some(
                t.log
                    .iter()
                    .map(|c| match c {
                        Call::FillSolid(r, _) if r.size.height == 1 => format!("{}:{}:{}", r.top_left.x, r.top_left.y, r.size.width),
                        other => format!("?{:?}", other),
                    })
                    .collect::<Vec<_>>()
                    .join(","),
            )
        }
        // join_tri_pixels w align fill x1 y1 x2 y2 x3 y3: pixels() of the styled triangle as x:y:c (c: 1 stroke, 2 fill)
        "join_tri_pixels" | "join_tri_bbox" | "join_tri_rects" => {
            let v = pts(&a[3..]);
            let mut b = PrimitiveStyleBuilder::new().stroke_color(Rgb565::GREEN).stroke_width(u(a[0])).stroke_alignment(match a[1] {
                "0" => StrokeAlignment::Inside,
                "1" => StrokeAlignment::Center,
                _ => StrokeAlignment::Outside,
            });
            if a[2] == "1" {
                b = b.fill_color(Rgb565::RED);
            }
            let t = Triangle::new(v[0], v[1], v[2]).into_styled(b.build());
            if suite == "join_tri_bbox" {
                return Some(src(t.bounding_box()));
            }
            if suite == "join_tri_rects" {
                let mut tg = NativeTarget::<Rgb565>::new(big());
                t.draw(&mut tg).unwrap();
                return Some(
                    tg.log
                        .iter()
                        .map(|c| match c {
                            Call::FillSolid(r, col) if r.size.height == 1 => {
                                format!("{}:{}:{}:{}", r.top_left.x, r.top_left.y, r.size.width, if *col == Rgb565::GREEN.tag() { 1 } else { 2 })
                            }
                            other => format!("?{:?}", other),
                        })
                        .collect::<Vec<_>>()
                        .join(","),
                );
            }
            Some(t.pixels().map(|px| format!("{}:{}:{}", px.0.x, px.0.y, if px.1 == Rgb565::GREEN { 1 } else { 2 })).collect::<Vec<_>>().join(","))
        }
        // the model evaluates the hypotheses of the composition theorems (Model/Join.v poly_hyps) on the case; the claim
        // checked here is that they hold on every input the generator draws (coordinates within +-2^13, widths <= 64)
        "join_poly_hyp" | "join_tri_hyp" | "join_tri_fused" => Some("1".into()),
        "join_poly_bbox" => {
            let v = pts(&a[1..]);
            let st = PrimitiveStyle::with_stroke(Rgb565::GREEN, u(a[0]));
            Some(src(Polyline::new(&v).into_styled(st).bounding_box()))
        }
        _ => None,
    }
}
