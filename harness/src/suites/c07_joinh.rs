//! C07 (join part), hook level: the internal values of the thick stroke join machinery, read through
//! `embedded_graphics::primitives::verif_hooks` (feature verif_hooks), compared with Model/Join.v.
use crate::util::*;
use embedded_graphics::{prelude::*, primitives::verif_hooks as vh, primitives::Line};

fn cp(p: Point) -> String {
    format!("{}:{}", p.x, p.y)
}
fn sl(l: Line) -> String {
    format!("{} {}", cp(l.start), cp(l.end))
}
fn u8of(s: &str) -> u8 {
    s.parse::<u8>().unwrap()
}

pub fn run(suite: &str, a: &[&str]) -> Option<String> {
    match suite {
        "joinh_extents" => {
            let (l, r) = vh::line_extents(Line::new(pt(a[0], a[1]), pt(a[2], a[3])), u(a[4]), u8of(a[5]));
            Some(format!("{} {}", sl(l), sl(r)))
        }
        "joinh_lineq" => {
            let l = Line::new(pt(a[0], a[1]), pt(a[2], a[3]));
            let (n, od, d) = vh::linear_equation(l, pt(a[4], a[5]));
            Some(format!("{} {} {} {}{}", cp(n), od, d, sb(d <= 0), sb(d >= 0)))
        }
        "joinh_isect" => {
            let l1 = Line::new(pt(a[0], a[1]), pt(a[2], a[3]));
            let l2 = Line::new(pt(a[4], a[5]), pt(a[6], a[7]));
            let (i, e) = vh::line_intersection(l1, l2);
            Some(match i {
                Some((p, s)) => format!("{} {} {}", cp(p), s, sb(e)),
                None => format!("colinear {}", sb(e)),
            })
        }
        "joinh_join" => {
            let (k, s, c) = vh::line_join(u8of(a[0]), pt(a[1], a[2]), pt(a[3], a[4]), pt(a[5], a[6]), u(a[7]), u8of(a[8]));
            Some(format!("{} {} {} {} {} {}", k, s, cp(c[0]), cp(c[1]), cp(c[2]), cp(c[3])))
        }
        "joinh_segment" => {
            let p = [pt(a[0], a[1]), pt(a[2], a[3]), pt(a[4], a[5]), pt(a[6], a[7])];
            let (bb, x) = vh::thick_segment(p, a[8] == "1", a[9] == "1", u(a[10]), u8of(a[11]), i(a[12]));
            Some(format!("{} {}", src(bb), if x.is_empty() { "empty".to_string() } else { format!("{} {}", x.start, x.end) }))
        }
        _ => None,
    }
}
