//! C07 text clause (implementation side): Text rendering commutes with translation.
//!   p_c07_text <builtin font> <style:4> align base lhk lhv x y dx dy <n text..>
use crate::suites::c14::*;
use crate::suites::c15::*;
use crate::util::*;
use embedded_graphics::{pixelcolor::Gray8, prelude::*, text::Text};
use std::collections::BTreeMap;

pub fn run(suite: &str, a: &[&str]) -> Option<String> {
    if suite != "p_c07_text" { return None; }
    let (font, _) = match find_font(a[0]) { Some(x) => x, None => return Some("FAIL no such font".into()) };
    let st = mk_style(font, &a[1..5]);
    let ts = tstyle(&a[5..9]);
    let pos = Point::new(i(a[9]), i(a[10]));
    let d = Point::new(i(a[11]), i(a[12]));
    let (text, _) = parse_list(a, 13);
    let text = to_string(&text);
    let t = Text::with_text_style(&text, pos, st, ts);
    let moved = t.translate(d);
    let mut mm = t.clone();
    mm.translate_mut(d);
    if mm != moved { return Some("FAIL translate_mut differs from translate".into()); }
    let (m0, r0, b0) = match draw_text(st, ts, &text, pos) { Ok(v) => v, Err(e) => return Some(format!("FAIL {}", e)) };
    let mut nat = NativeTarget::<Gray8>::new(big());
    let r1 = moved.draw(&mut nat).unwrap();
    let shifted: BTreeMap<(i32, i32), u32> = m0.iter().map(|((y, x), c)| ((y + d.y, x + d.x), *c)).collect();
    if nat.map != shifted { return Some(format!("FAIL pixel map of the translated text is not the shifted map: {}", first_diff(&nat.map, &shifted))); }
    if r1 != r0 + d { return Some(format!("FAIL next position {:?} of the translated text, expected {:?}", r1, r0 + d)); }
    let b1 = moved.bounding_box();
    if b1 != b0.translate(d) { return Some(format!("FAIL bounding box {:?} of the translated text, expected {:?}", b1, b0.translate(d))); }
    Some(format!("OK {}", nat.map.len()))
}
