//! C08 (implementation-side search): total and allocation free on display-scale inputs.
//!   p_total <zoo case...>      every query and draw of one drawable: no panic, no allocation, bounded steps
//!   ok_<fn> <args...>          correspondence with coq/Model/Overflow.v: did the real function panic (overflow checks and
//!                              debug assertions are on in this profile)?  prints OK / PANIC, the model prints f_ok.
use crate::util::*;
use crate::zoo::*;
use embedded_graphics::{pixelcolor::Rgb565, prelude::*, primitives::Rectangle, Pixel};
use std::panic::{catch_unwind, AssertUnwindSafe};

/// Target that allocates nothing: counts and checksums what it is given.
pub struct NullTarget {
    pub bb: Rectangle,
    pub n: u64,
    pub sum: u64,
}
thread_local! { static BUDGET: std::cell::Cell<u64> = std::cell::Cell::new(400_000_000); }
fn budget() -> u64 {
    BUDGET.with(|b| b.get())
}
impl Dimensions for NullTarget {
    fn bounding_box(&self) -> Rectangle {
        self.bb
    }
}
impl DrawTarget for NullTarget {
    type Color = Rgb565;
    type Error = core::convert::Infallible;
    fn draw_iter<I: IntoIterator<Item = Pixel<Rgb565>>>(&mut self, pixels: I) -> Result<(), Self::Error> {
        for Pixel(p, c) in pixels {
            self.n += 1;
            self.sum = self.sum.wrapping_add((p.x as u64) ^ ((p.y as u64) << 16) ^ c.into_storage() as u64);
            if self.n > budget() {
                panic!("step budget exceeded");
            }
        }
        Ok(())
    }
    fn fill_contiguous<I: IntoIterator<Item = Rgb565>>(&mut self, area: &Rectangle, colors: I) -> Result<(), Self::Error> {
        let n = area.size.width as u64 * area.size.height as u64;
        for c in colors.into_iter().take(n as usize) {
            self.n += 1;
            self.sum = self.sum.wrapping_add(c.into_storage() as u64);
        }
        Ok(())
    }
    fn fill_solid(&mut self, area: &Rectangle, color: Rgb565) -> Result<(), Self::Error> {
        self.n += area.size.width as u64 * area.size.height as u64;
        self.sum = self.sum.wrapping_add(color.into_storage() as u64);
        Ok(())
    }
    fn clear(&mut self, _c: Rgb565) -> Result<(), Self::Error> {
        Ok(())
    }
}

/// Draw-iter-only variant (exercises the trait defaults and the pixel iterators)
pub struct NullIterTarget(pub NullTarget);
impl Dimensions for NullIterTarget {
    fn bounding_box(&self) -> Rectangle {
        self.0.bb
    }
}
impl DrawTarget for NullIterTarget {
    type Color = Rgb565;
    type Error = core::convert::Infallible;
    fn draw_iter<I: IntoIterator<Item = Pixel<Rgb565>>>(&mut self, pixels: I) -> Result<(), Self::Error> {
        self.0.draw_iter(pixels)
    }
}


fn exercise(z: &Zoo) -> Result<u64, String> {
    let mut steps: u64 = 0;
    let bb = z.bounding_box();
    steps += bb.size.width as u64;
    // explicit step bound: no iterator of a drawable may yield more than 16 x the area of its (styled) bounding
    // box plus a constant (overdraw of thick joins, glyph backgrounds, decoration lines); the targets and the
    // counting loops below stop there
    let cap = 16 * (bb.size.width as u64 + 8) * (bb.size.height as u64 + 8) + 65_536;
    BUDGET.with(|b| b.set(cap));
    #[allow(non_snake_case)]
    let CAP = cap as usize;
    if let Some(pb) = z.primitive_bounding_box() {
        // contains() on the corners and centre of the box and a margin ...
        for q in [pb.top_left, pb.top_left - Point::new(1, 1), pb.center(), pb.top_left + pb.size, Point::new(1024, -1024)] {
            if let Some(c) = z.contains(q) {
                steps += c as u64;
            }
        }
        // ... on a 7 x 7 grid over the box and a margin of 2, and just inside each of the four corners
        let (w, h) = (pb.size.width as i32 + 4, pb.size.height as i32 + 4);
        for gy in 0..7 {
            for gx in 0..7 {
                let q = pb.top_left - Point::new(2, 2) + Point::new(w * gx / 6, h * gy / 6);
                steps += z.contains(q).unwrap_or(false) as u64;
            }
        }
        let (iw, ih) = (pb.size.width as i32, pb.size.height as i32);
        for (cx, cy) in [(1, 1), (iw - 2, 1), (1, ih - 2), (iw - 2, ih - 2), (iw / 8, ih / 8), (iw - 1 - iw / 8, ih - 1 - ih / 8)] {
            steps += z.contains(pb.top_left + Point::new(cx, cy)).unwrap_or(false) as u64;
        }
    }
    steps += constructors(z);
    // points() / pixels() counted without collecting (no allocation allowed in here)
    let np = count_points(z, CAP);
    if np >= CAP as u64 {
        return Err("nontermination: points() exceeded the step budget".into());
    }
    let nx = count_pixels(z, CAP);
    if nx >= CAP as u64 {
        return Err("nontermination: pixels() exceeded the step budget".into());
    }
    steps += np + nx;
    let mut t = NullTarget { bb: Rectangle::new(Point::new(-2048, -2048), Size::new(4096, 4096)), n: 0, sum: 0 };
    z.draw(&mut t).unwrap();
    steps += t.n;
    // a small display partly covering the object, draw_iter only
    let mut t2 = NullIterTarget(NullTarget { bb: Rectangle::new(Point::zero(), Size::new(320, 240)), n: 0, sum: 0 });
    z.draw(&mut t2).unwrap();
    steps += t2.0.n;
    steps += adapters(z, &bb)?;
    steps += rejections(z);
    steps += null_font_text(z);
    Ok(steps)
}

/// the other public constructors of each family, built from the same geometry: bounding_box, contains, draw
fn constructors(z: &Zoo) -> u64 {
    use embedded_graphics::primitives::*;
    use embedded_graphics::text::{Baseline, Text};
    let mut t = NullTarget { bb: Rectangle::new(Point::new(-2048, -2048), Size::new(4096, 4096)), n: 0, sum: 0 };
    let st = z.style;
    let mut n = 0u64;
    match &z.geo {
        Geo::Rect(r) => {
            let c = Rectangle::with_center(r.center(), r.size);
            let k = Rectangle::with_corners(r.top_left, r.top_left + r.size);
            n += c.contains(r.top_left) as u64 + k.contains(r.top_left) as u64;
            c.into_styled(st).draw(&mut t).unwrap();
            RoundedRectangle::with_equal_corners(*r, Size::new(r.size.width / 3, r.size.height / 2 + 1)).into_styled(st).draw(&mut t).unwrap();
        }
        Geo::Circle(c) => {
            let k = Circle::with_center(c.center(), c.diameter);
            n += k.contains(c.center()) as u64 + k.bounding_box().size.width as u64;
            k.into_styled(st).draw(&mut t).unwrap();
            Arc::from_circle(*c, 30.0.deg(), 200.0.deg()).into_styled(st).draw(&mut t).unwrap();
            Sector::from_circle(*c, (-45.0).deg(), 400.0.deg()).into_styled(st).draw(&mut t).unwrap();
        }
        Geo::Ellipse(e) => {
            let k = Ellipse::with_center(e.center(), e.size);
            n += k.contains(e.center()) as u64;
            k.into_styled(st).draw(&mut t).unwrap();
        }
        Geo::RRect(r) => {
            let k = RoundedRectangle::with_equal_corners(r.rectangle, r.corners.top_left);
            n += k.contains(r.rectangle.center()) as u64 + k.confine_radii().corners.top_left.width as u64;
            k.into_styled(st).draw(&mut t).unwrap();
        }
        Geo::Arc(a) => {
            let k = Arc::with_center(a.center(), a.diameter, a.angle_start, a.angle_sweep);
            n += k.bounding_box().size.width as u64;
            k.into_styled(st).draw(&mut t).unwrap();
        }
        Geo::Sector(a) => {
            let k = Sector::with_center(a.center(), a.diameter, a.angle_start, a.angle_sweep);
            n += k.contains(a.center()) as u64;
            k.into_styled(st).draw(&mut t).unwrap();
        }
        Geo::Line(l) => {
            let k = Line::with_delta(l.start, l.end - l.start);
            n += k.midpoint().x as u64 & 1;
            k.into_styled(st).draw(&mut t).unwrap();
            n += k.translate(Point::new(3, -3)).into_styled(st).bounding_box().size.width as u64;
        }
        Geo::Tri(tr) => {
            let k = Triangle::from_slice(&tr.vertices);
            n += k.contains(tr.vertices[1]) as u64;
        }
        Geo::Text { pos, font, s, .. } => {
            use embedded_graphics::mono_font::MonoTextStyle;
            let cs = MonoTextStyle::new(FONTS[*font], TEXT);
            for b in [Baseline::Top, Baseline::Bottom, Baseline::Middle, Baseline::Alphabetic] {
                let txt = Text::with_baseline(STRINGS[*s], *pos, cs, b);
                n += txt.bounding_box().size.width as u64;
                txt.draw(&mut t).unwrap();
            }
            Text::new(STRINGS[*s], *pos, cs).draw(&mut t).unwrap();
            Text::with_alignment(STRINGS[*s], *pos, cs, embedded_graphics::text::Alignment::Center).draw(&mut t).unwrap();
        }
        _ => {}
    }
    n + t.n
}

/// recorded finding K08_subimage_area_overflow (known_findings.txt): a sub image area whose extent is >= 2^31 or whose
/// top_left + size exceeds i32::MAX is not rejected but panics in `Point + Size`. Decided from the INPUT (the area), so
/// that any other panic of sub_image stays an unlisted violation.
fn extreme_sub_image_areas(z: &Zoo) -> Result<(), String> {
    use embedded_graphics::image::{ImageDrawable, ImageDrawableExt, ImageRaw};
    if let Geo::Image { size, data, .. } = &z.geo {
        let raw: ImageRaw<Rgb565> = ImageRaw::new(data, *size).unwrap();
        let areas = [
            Rectangle::new(Point::new(1, 0), Size::new(2147483648, 1)),
            Rectangle::new(Point::new(0, 0), Size::new(1, u32::MAX)),
            Rectangle::new(Point::new(i32::MAX, i32::MAX), Size::new(5, 5)),
            Rectangle::new(Point::new(2, 2), Size::new(2147483646, 3)),
            Rectangle::new(Point::new(i32::MIN, i32::MIN), Size::new(u32::MAX, u32::MAX)),
            Rectangle::new(Point::new(i32::MIN, 0), Size::new(2147483647, 2147483647)),
            Rectangle::new(Point::new(-5, -5), Size::new(2147483647, 7)),
        ];
        for area in areas {
            // the class predicate (= K08_subimage_area_overflow of coq/Model/Overflow.v): bottom_right of the area overflows
            let (x, y, w, h) = (area.top_left.x as i64, area.top_left.y as i64, area.size.width as i64, area.size.height as i64);
            let in_class = w > 0 && h > 0 && (w > i32::MAX as i64 || h > i32::MAX as i64 || x + w > i32::MAX as i64 || y + h > i32::MAX as i64);
            let r = catch_unwind(AssertUnwindSafe(|| {
                let mut t = NullTarget { bb: Rectangle::new(Point::zero(), Size::new(64, 64)), n: 0, sum: 0 };
                raw.sub_image(&area).draw(&mut t).unwrap();
                t.n
            }));
            if r.is_err() {
                let loc = LAST_PANIC.with(|p| p.borrow().clone());
                let msg = LAST_PANIC_MSG.with(|p| p.borrow().clone());
                if in_class {
                    return Err(format!("class=K08_subimage_area_overflow sub_image({:?}) panics at {} ({})", area, loc, msg));
                }
                return Err(format!("panic at {} ({}) in sub_image({:?}) (area in no recorded class)", loc, msg, area));
            }
        }
    }
    Ok(())
}

/// the null font (`MonoTextStyleBuilder::new()` without `.font()`: zero-sized glyphs) with every baseline and
/// alignment: bounding_box, draw, measure_string, with and without decorations, for the case's string / position
fn null_font_text(z: &Zoo) -> u64 {
    use embedded_graphics::mono_font::MonoTextStyleBuilder;
    use embedded_graphics::text::renderer::TextRenderer;
    use embedded_graphics::text::{Alignment, Baseline, Text, TextStyleBuilder};
    let mut n = 0u64;
    if let Geo::Text { pos, lh, deco, s, .. } = &z.geo {
        let mut b = MonoTextStyleBuilder::<Rgb565>::new();
        if deco & 1 != 0 {
            b = b.text_color(TEXT);
        }
        if deco & 2 != 0 {
            b = b.background_color(BG);
        }
        if deco & 4 != 0 {
            b = b.underline_with_color(UL);
        }
        if deco & 8 != 0 {
            b = b.strikethrough_with_color(ST);
        }
        let cs = b.build();
        for baseline in [Baseline::Top, Baseline::Bottom, Baseline::Middle, Baseline::Alphabetic] {
            for alignment in [Alignment::Left, Alignment::Center, Alignment::Right] {
                let ts = TextStyleBuilder::new().alignment(alignment).baseline(baseline).line_height(*lh).build();
                for text in [STRINGS[*s], "", "\n", "a\r\nb"] {
                    let txt = Text::with_text_style(text, *pos, cs, ts);
                    let bb = txt.bounding_box();
                    let mut t = NullTarget { bb: Rectangle::new(Point::new(-2048, -2048), Size::new(4096, 4096)), n: 0, sum: 0 };
                    let next = txt.draw(&mut t).unwrap();
                    let m = cs.measure_string(text, *pos, baseline);
                    n += t.n + bb.size.width as u64 + (next.x ^ m.next_position.x) as u64 % 2;
                }
            }
        }
    }
    n
}

/// adapter stacks: the drawable and the three native fill calls through clipped / cropped / translated /
/// colour-converted views whose areas are degenerate, partly outside, or larger than the parent
fn adapters(z: &Zoo, bb: &Rectangle) -> Result<u64, String> {
    use embedded_graphics::draw_target::DrawTargetExt;
    let mut n = 0u64;
    let areas = [
        Rectangle::new(Point::new(5, 5), Size::new(100, 0)),
        Rectangle::new(Point::new(5, 5), Size::new(0, 100)),
        Rectangle::new(Point::new(-10, -10), Size::new(50, 50)),
        Rectangle::zero(),
        Rectangle::new(Point::new(1000, 1000), Size::new(1024, 1024)),
        Rectangle::new(Point::new(-1024, -1024), Size::new(1024, 1)),
        bb.offset(-1),
        Rectangle::new(bb.top_left + Point::new(1, 1), Size::new(bb.size.width / 2, bb.size.height)),
        Rectangle::new(bb.top_left - Point::new(3, 0), Size::new(bb.size.width + 7, 0)),
    ];
    for (k, area) in areas.iter().enumerate() {
        let mut t = NullTarget { bb: Rectangle::new(Point::new(-64, -64), Size::new(384, 304)), n: 0, sum: 0 };
        z.draw(&mut t.clipped(area)).unwrap();
        z.draw(&mut t.cropped(area)).unwrap();
        z.draw(&mut t.translated(area.top_left)).unwrap();
        z.draw(&mut t.cropped(area).clipped(&areas[(k + 2) % areas.len()]).translated(Point::new(-3, 2))).unwrap();
        {
            // a colour-converting view on a target of another colour type, inside a clipped / translated stack
            let mut t8 = NullTarget888(0);
            z.draw(&mut t8.clipped(area).color_converted()).unwrap();
            z.draw(&mut t8.translated(Point::new(7, -7)).cropped(area).color_converted()).unwrap();
            t.n += t8.0;
        }
        // the native calls themselves, with a fill area that is not the view's area
        let other = &areas[(k + 1) % areas.len()];
        let colors = core::iter::repeat(Rgb565::new(1, 2, 3));
        t.clipped(area).fill_contiguous(other, colors.clone()).unwrap();
        t.cropped(area).fill_contiguous(other, colors.clone().take(17)).unwrap();
        t.clipped(area).fill_contiguous(bb, colors.take(100_000)).unwrap();
        t.clipped(area).fill_solid(other, Rgb565::new(3, 2, 1)).unwrap();
        t.cropped(area).clear(Rgb565::new(3, 2, 1)).unwrap();
        if t.n > 12 * budget() + 1_000_000 {
            return Err("nontermination: adapter drawing exceeded the step budget".into());
        }
        n += t.n;
    }
    Ok(n)
}

/// out-of-range requests are rejected without a panic (images: pixel(), sub images outside the image)
fn rejections(z: &Zoo) -> u64 {
    use embedded_graphics::image::{GetPixel, ImageDrawable, ImageDrawableExt, ImageRaw};
    let mut n = 0u64;
    if let Geo::Image { size, data, .. } = &z.geo {
        let raw: ImageRaw<Rgb565> = ImageRaw::new(data, *size).unwrap();
        let (w, h) = (size.width as i32, size.height as i32);
        for p in [Point::new(-1, 0), Point::new(0, -1), Point::new(w, 0), Point::new(0, h), Point::new(w - 1, h - 1), Point::new(i32::MAX, i32::MAX), Point::new(i32::MIN, i32::MIN), Point::new(1024, -1024)] {
            let inside = p.x >= 0 && p.y >= 0 && p.x < w && p.y < h;
            let got = raw.pixel(p);
            if got.is_some() != inside {
                panic!("ImageRaw::pixel({:?}) on {}x{}: is_some = {}", p, w, h, got.is_some());
            }
            n += 1;
        }
        let mut t = NullTarget { bb: Rectangle::new(Point::zero(), Size::new(64, 64)), n: 0, sum: 0 };
        for area in [Rectangle::new(Point::new(w, h), Size::new(3, 3)), Rectangle::new(Point::new(-5, -5), Size::new(3, 3)), Rectangle::new(Point::new(-1, -1), Size::new(1024, 1024)), Rectangle::new(Point::new(1, 1), Size::new(0, 7))] {
            raw.sub_image(&area).draw(&mut t).unwrap();
            raw.sub_image(&area).sub_image(&Rectangle::new(Point::new(1, -1), Size::new(2, 1024))).draw(&mut t).unwrap();
        }
        n += t.n;
    }
    n
}

#[allow(non_snake_case)]
fn count_points(z: &Zoo, CAP: usize) -> u64 {
    use embedded_graphics::primitives::*;
    match &z.geo {
        Geo::Rect(p) => p.points().take(CAP).count() as u64,
        Geo::Circle(p) => p.points().take(CAP).count() as u64,
        Geo::Ellipse(p) => p.points().take(CAP).count() as u64,
        Geo::RRect(p) => p.points().take(CAP).count() as u64,
        Geo::Tri(p) => p.points().take(CAP).count() as u64,
        Geo::Line(p) => p.points().take(CAP).count() as u64,
        Geo::Poly(tr, v) => Polyline::new(v).translate(*tr).points().take(CAP).count() as u64,
        Geo::Arc(p) => p.points().take(CAP).count() as u64,
        Geo::Sector(p) => p.points().take(CAP).count() as u64,
        _ => 0,
    }
}
#[allow(non_snake_case)]
fn count_pixels(z: &Zoo, CAP: usize) -> u64 {
    use embedded_graphics::primitives::*;
    let st = z.style;
    match &z.geo {
        Geo::Rect(p) => p.into_styled(st).pixels().take(CAP).count() as u64,
        Geo::Circle(p) => p.into_styled(st).pixels().take(CAP).count() as u64,
        Geo::Ellipse(p) => p.into_styled(st).pixels().take(CAP).count() as u64,
        Geo::RRect(p) => p.into_styled(st).pixels().take(CAP).count() as u64,
        Geo::Tri(p) => p.into_styled(st).pixels().take(CAP).count() as u64,
        Geo::Line(p) => p.into_styled(st).pixels().take(CAP).count() as u64,
        Geo::Poly(tr, v) => Polyline::new(v).translate(*tr).into_styled(st).pixels().take(CAP).count() as u64,
        Geo::Arc(p) => p.into_styled(st).pixels().take(CAP).count() as u64,
        Geo::Sector(p) => p.into_styled(st).pixels().take(CAP).count() as u64,
        _ => 0,
    }
}

pub fn run(suite: &str, a: &[&str]) -> Option<String> {
    if suite.starts_with("ok_") {
        return ok_suite(suite, a);
    }
    if suite != "p_total" {
        return None;
    }
    // The case runs in a worker thread under a wall-clock watchdog: a library call that never returns (a loop inside
    // `bounding_box()`, say) cannot be stopped by the step budget of a target, but it must still be reported with its input.
    use std::sync::atomic::{AtomicUsize, Ordering};
    static HUNG: AtomicUsize = AtomicUsize::new(0);
    const WATCHDOG_S: u64 = 30;
    if HUNG.load(Ordering::Relaxed) >= 2 {
        return Some("FAIL nontermination: not run, two earlier cases of this batch never returned (their threads still spin)".into());
    }
    let z = Zoo::parse(a);
    // hand-over without any allocation on this thread while the worker measures: two flags and a pre-allocated slot
    use std::sync::atomic::AtomicBool;
    use std::sync::{Arc, Mutex};
    let go = Arc::new(AtomicBool::new(false));
    let done = Arc::new(AtomicBool::new(false));
    let slot: Arc<Mutex<Option<String>>> = Arc::new(Mutex::new(None));
    let (go2, done2, slot2) = (go.clone(), done.clone(), slot.clone());
    let worker = std::thread::Builder::new().stack_size(32 << 20).spawn(move || {
        while !go2.load(Ordering::Acquire) {
            std::hint::spin_loop();
        }
        let before = crate::allocs();
        let r = catch_unwind(AssertUnwindSafe(|| exercise(&z)));
        let after = crate::allocs();
        let line = match r {
            Ok(Ok(steps)) => {
                if after != before && HUNG.load(Ordering::Relaxed) == 0 {
                    format!("FAIL alloc: {} heap allocations during library calls", after - before)
                } else {
                    // outside the allocation window (a caught panic allocates its message)
                    match catch_unwind(AssertUnwindSafe(|| extreme_sub_image_areas(&z))) {
                        Ok(Ok(())) => format!("OK {}", steps),
                        Ok(Err(e)) => format!("FAIL {}", e),
                        Err(_) => "FAIL panic in the harness (extreme_sub_image_areas)".into(),
                    }
                }
            }
            Ok(Err(e)) => format!("FAIL {}", e),
            Err(_) => {
                // every overflow defect known so far is repaired: a panic is always an unlisted violation
                let loc = LAST_PANIC.with(|p| p.borrow().clone());
                let msg = LAST_PANIC_MSG.with(|p| p.borrow().clone());
                format!("FAIL panic at {} ({})", loc, msg)
            }
        };
        *slot2.lock().unwrap() = Some(line);
        done2.store(true, Ordering::Release);
    });
    if worker.is_err() {
        return Some("FAIL harness: cannot spawn the worker thread".into());
    }
    let t0 = std::time::Instant::now();
    go.store(true, Ordering::Release);
    let mut nap = 5u64;
    while !done.load(Ordering::Acquire) {
        if t0.elapsed().as_secs() >= WATCHDOG_S {
            HUNG.fetch_add(1, Ordering::Relaxed);
            return Some(format!("FAIL nontermination: no result within {} s (explicit step bound: 16 x bounding-box area + 65536 steps take < 2 s)", WATCHDOG_S));
        }
        std::thread::sleep(std::time::Duration::from_micros(nap));
        nap = (nap * 2).min(2000);
    }
    let line = slot.lock().unwrap().take();
    Some(line.unwrap_or_else(|| "FAIL harness: worker finished without a result".into()))
}

// ---- correspondence suites for the f_ok predicates of coq/Model/Overflow.v ----------------------
fn verdict<R, F: FnOnce() -> R>(f: F) -> String {
    match catch_unwind(AssertUnwindSafe(|| {
        std::hint::black_box(f());
    })) {
        Ok(()) => "OK".into(),
        Err(_) => "PANIC".into(),
    }
}

fn ok_suite(suite: &str, a: &[&str]) -> Option<String> {
    use embedded_graphics::geometry::{AnchorPoint, AnchorX, AnchorY};
    use embedded_graphics::image::{ImageDrawable, ImageRaw};
    use embedded_graphics::pixelcolor::*;
    use embedded_graphics::primitives::*;
    use embedded_graphics::text::LineHeight;
    let axo = |s: &str| match s { "0" => AnchorX::Left, "1" => AnchorX::Center, _ => AnchorX::Right };
    let ayo = |s: &str| match s { "0" => AnchorY::Top, "1" => AnchorY::Center, _ => AnchorY::Bottom };
    Some(match suite {
        "ok_point" => {
            let (p, q) = (pt(a[1], a[2]), pt(a[3], a[4]));
            let sz = Size::new(u(a[3]), u(a[4]));
            match a[0] {
                "add" => verdict(|| p + q),
                "sub" => verdict(|| p - q),
                "mul" => verdict(|| p * q.x),
                "div" => verdict(|| p / q.x),
                "neg" => verdict(|| -p),
                "abs" => verdict(|| p.abs()),
                "cmul" => verdict(|| p.component_mul(q)),
                "cdiv" => verdict(|| p.component_div(q)),
                "addsize" => verdict(|| p + sz),
                "subsize" => verdict(|| p - sz),
                "addassign" => verdict(|| { let mut r = p; r += q; r -= q; r }),
                _ => return None,
            }
        }
        "ok_size" => {
            let (s1, s2) = (Size::new(u(a[1]), u(a[2])), Size::new(u(a[3]), u(a[4])));
            match a[0] {
                "add" => verdict(|| s1 + s2),
                "sub" => verdict(|| s1 - s2),
                "mul" => verdict(|| s1 * s2.width),
                "div" => verdict(|| s1 / s2.width),
                "cmul" => verdict(|| s1.component_mul(s2)),
                "cdiv" => verdict(|| s1.component_div(s2)),
                "sat" => verdict(|| (s1.saturating_add(s2), s1.saturating_sub(s2))),
                _ => return None,
            }
        }
        "ok_rect" => {
            let r = rc(a[1], a[2], a[3], a[4]);
            match a[0] {
                "br" => verdict(|| r.bottom_right()),
                "center" => verdict(|| r.center()),
                "withcenter" => verdict(|| Rectangle::with_center(r.top_left, r.size)),
                "corners" => verdict(|| Rectangle::with_corners(pt(a[1], a[2]), pt(a[3], a[4]))),
                "contains" => verdict(|| r.contains(pt(a[5], a[6]))),
                "inter" => verdict(|| r.intersection(&rc(a[5], a[6], a[7], a[8]))),
                "envelope" => verdict(|| r.envelope(&rc(a[5], a[6], a[7], a[8]))),
                "anchor" => verdict(|| r.anchor_point(AnchorPoint::from_xy(axo(a[5]), ayo(a[6])))),
                "resized" => verdict(|| r.resized(Size::new(u(a[5]), u(a[6])), AnchorPoint::from_xy(axo(a[7]), ayo(a[8])))),
                "offset" => verdict(|| r.offset(i(a[5]))),
                "rows" => verdict(|| (r.rows(), r.columns())),
                "styledbb" => {
                    let st = PrimitiveStyleBuilder::<Rgb565>::new()
                        .stroke_color(Rgb565::new(1, 2, 3))
                        .stroke_width(u(a[5]))
                        .stroke_alignment(match a[6] { "0" => StrokeAlignment::Inside, "1" => StrokeAlignment::Center, _ => StrokeAlignment::Outside })
                        .build();
                    verdict(|| r.into_styled(st).bounding_box())
                }
                _ => return None,
            }
        }
        "ok_circle_contains" => verdict(|| Circle::new(pt(a[0], a[1]), u(a[2])).contains(pt(a[3], a[4]))),
        "ok_ellipse_contains" => verdict(|| Ellipse::new(pt(a[0], a[1]), Size::new(u(a[2]), u(a[3]))).contains(pt(a[4], a[5]))),
        "ok_confine" => {
            let s = |k: usize| Size::new(u(a[k]), u(a[k + 1]));
            let rr = RoundedRectangle::new(
                Rectangle::new(Point::zero(), s(0)),
                CornerRadii { top_left: s(2), top_right: s(4), bottom_right: s(6), bottom_left: s(8) },
            );
            verdict(|| rr.confine_radii())
        }
        "ok_line_points" => verdict(|| Line::new(pt(a[0], a[1]), pt(a[2], a[3])).points().take(100_000).count()),
        "ok_line_misc" => {
            let l = Line::new(pt(a[1], a[2]), pt(a[3], a[4]));
            match a[0] {
                "delta" => verdict(|| l.delta()),
                "midpoint" => verdict(|| l.midpoint()),
                _ => return None,
            }
        }
        "ok_thick_new" => {
            let l = Line::new(pt(a[0], a[1]), pt(a[2], a[3]));
            let st = PrimitiveStyle::with_stroke(Rgb565::new(1, 2, 3), u(a[4]));
            verdict(|| {
                let _it = l.into_styled(st).pixels();
            })
        }
        "ok_tri_contains" => verdict(|| Triangle::new(pt(a[0], a[1]), pt(a[2], a[3]), pt(a[4], a[5])).contains(pt(a[6], a[7]))),
        // internals reached through the add-only `verif_hooks` feature (src/primitives/verif_hooks.rs)
        "ok_linear_equation" => {
            let l = Line::new(pt(a[0], a[1]), pt(a[2], a[3]));
            verdict(|| embedded_graphics::primitives::verif_hooks::linear_equation(l, pt(a[4], a[5])))
        }
        "ok_line_intersection" => {
            let l1 = Line::new(pt(a[0], a[1]), pt(a[2], a[3]));
            let l2 = Line::new(pt(a[4], a[5]), pt(a[6], a[7]));
            verdict(|| embedded_graphics::primitives::verif_hooks::line_intersection(l1, l2))
        }
        "ok_index" => {
            let k = us(a[0]);
            verdict(|| (Point::new(3, 4)[k], Size::new(5, 6)[k]))
        }
        "ok_from_slice" => {
            let v: Vec<Point> = (0..us(a[0])).map(|k| Point::new(k as i32, 1)).collect();
            verdict(|| Triangle::from_slice(&v))
        }
        "ok_new_const" => {
            let data = vec![0u8; us(a[3])];
            let sz = Size::new(u(a[0]), u(a[1]));
            match a[2] {
                "1" => verdict(|| ImageRaw::<BinaryColor>::new_const(&data, sz)),
                "8" => verdict(|| ImageRaw::<Gray8>::new_const(&data, sz)),
                "16" => verdict(|| ImageRaw::<Rgb565>::new_const(&data, sz)),
                _ => verdict(|| ImageRaw::<Rgb888>::new_const(&data, sz)),
            }
        }
        "ok_extents" => {
            let l = Line::new(pt(a[0], a[1]), pt(a[2], a[3]));
            verdict(|| embedded_graphics::primitives::verif_hooks::line_extents(l, u(a[4]), a[5].parse::<u8>().unwrap()))
        }
        "ok_join" => verdict(|| {
            embedded_graphics::primitives::verif_hooks::line_join(2, pt(a[0], a[1]), pt(a[2], a[3]), pt(a[4], a[5]), u(a[6]), a[7].parse::<u8>().unwrap())
        }),
        "ok_thick_points" => {
            let l = Line::new(pt(a[0], a[1]), pt(a[2], a[3]));
            let st = PrimitiveStyle::with_stroke(Rgb565::new(1, 2, 3), u(a[4]));
            verdict(|| l.into_styled(st).pixels().take(20_000_000).count())
        }
        "ok_measure" | "ok_draw_plain" => {
            // custom mono font: x y baseline n underline cw ch sp bl uo uh
            use embedded_graphics::mono_font::{mapping::ASCII, DecorationDimensions, MonoFont, MonoTextStyleBuilder};
            use embedded_graphics::text::{renderer::TextRenderer, Baseline};
            let empty: [u8; 0] = [];
            let font = MonoFont {
                image: ImageRaw::new(&empty, Size::zero()).unwrap(),
                glyph_mapping: &ASCII,
                character_size: Size::new(u(a[5]), u(a[6])),
                character_spacing: u(a[7]),
                baseline: u(a[8]),
                underline: DecorationDimensions::new(u(a[9]), u(a[10])),
                strikethrough: DecorationDimensions::new(0, 1),
            };
            let mut b = MonoTextStyleBuilder::<Rgb565>::new().font(&font);
            if a[4] == "1" {
                b = b.underline();
            }
            let cs = b.build();
            let baseline = match a[2] { "0" => Baseline::Top, "1" => Baseline::Bottom, "2" => Baseline::Middle, _ => Baseline::Alphabetic };
            let text = "a".repeat(us(a[3]));
            let pos = pt(a[0], a[1]);
            if suite == "ok_measure" {
                verdict(|| cs.measure_string(&text, pos, baseline))
            } else {
                let mut t = NullTarget { bb: Rectangle::new(Point::zero(), Size::new(64, 64)), n: 0, sum: 0 };
                verdict(|| cs.draw_string(&text, pos, baseline, &mut t).unwrap())
            }
        }
        "ok_line_height" => verdict(|| if a[0] == "1" { LineHeight::Percent(u(a[1])).to_absolute(u(a[2])) } else { LineHeight::Pixels(u(a[1])).to_absolute(u(a[2])) }),
        "ok_image_new" => {
            let sz = Size::new(u(a[0]), u(a[1]));
            let data: [u8; 0] = [];
            match a[2] {
                "1" => verdict(|| ImageRaw::<BinaryColor>::new(&data, sz).is_ok()),
                "2" => verdict(|| ImageRaw::<Gray2>::new(&data, sz).is_ok()),
                "4" => verdict(|| ImageRaw::<Gray4>::new(&data, sz).is_ok()),
                "8" => verdict(|| ImageRaw::<Gray8>::new(&data, sz).is_ok()),
                "16" => verdict(|| ImageRaw::<Rgb565>::new(&data, sz).is_ok()),
                "24" => verdict(|| ImageRaw::<Rgb888>::new(&data, sz).is_ok()),
                _ => return None,
            }
        }
        "ok_sub_image" => {
            // 16 x 8 image, direct call of draw_sub_image with an arbitrary area (SubImage would clip it first)
            let area = rc(a[1], a[2], a[3], a[4]);
            let mut t = NullTarget { bb: Rectangle::new(Point::zero(), Size::new(64, 64)), n: 0, sum: 0 };
            static D: [u8; 256] = [0x5a; 256];
            match a[0] {
                "1" => { let im = ImageRaw::<BinaryColor>::new(&D[..16], Size::new(16, 8)).unwrap(); verdict(|| { let mut t1 = NullBin(0); im.draw_sub_image(&mut t1, &area).unwrap() }) }
                "16" => { let im = ImageRaw::<Rgb565>::new(&D[..256], Size::new(16, 8)).unwrap(); verdict(|| im.draw_sub_image(&mut t, &area).unwrap()) }
                _ => return None,
            }
        }
        _ => return None,
    })
}

/// minimal BinaryColor target for ok_sub_image
struct NullBin(u64);
impl Dimensions for NullBin {
    fn bounding_box(&self) -> Rectangle {
        Rectangle::new(Point::zero(), Size::new(64, 64))
    }
}
impl DrawTarget for NullBin {
    type Color = embedded_graphics::pixelcolor::BinaryColor;
    type Error = core::convert::Infallible;
    fn draw_iter<I: IntoIterator<Item = Pixel<Self::Color>>>(&mut self, pixels: I) -> Result<(), Self::Error> {
        for _ in pixels.into_iter().take(100_000) {
            self.0 += 1;
        }
        Ok(())
    }
}

/// Rgb888 target: the far end of a `color_converted()` stack
struct NullTarget888(u64);
impl Dimensions for NullTarget888 {
    fn bounding_box(&self) -> Rectangle {
        Rectangle::new(Point::new(-64, -64), Size::new(384, 304))
    }
}
impl DrawTarget for NullTarget888 {
    type Color = embedded_graphics::pixelcolor::Rgb888;
    type Error = core::convert::Infallible;
    fn draw_iter<I: IntoIterator<Item = Pixel<Self::Color>>>(&mut self, pixels: I) -> Result<(), Self::Error> {
        for _ in pixels {
            self.0 += 1;
            if self.0 > 12 * budget() + 1_000_000 {
                panic!("step budget exceeded");
            }
        }
        Ok(())
    }
    fn fill_contiguous<I: IntoIterator<Item = Self::Color>>(&mut self, area: &Rectangle, colors: I) -> Result<(), Self::Error> {
        let n = area.size.width as u64 * area.size.height as u64;
        self.0 += colors.into_iter().take(n as usize).count() as u64;
        Ok(())
    }
    fn fill_solid(&mut self, area: &Rectangle, _c: Self::Color) -> Result<(), Self::Error> {
        self.0 += area.size.width as u64 * area.size.height as u64;
        Ok(())
    }
}
