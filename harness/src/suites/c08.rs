//! C08 (implementation-side search): total and allocation free on display-scale inputs.
//!   p_total <zoo case...>      every query and draw of one drawable: no panic, no allocation, bounded steps
//! Panics are caught here and reported with the input class so that known findings can be told apart.
use crate::util::*;
use crate::zoo::*;
use embedded_graphics::{pixelcolor::Rgb565, prelude::*, primitives::Rectangle, Pixel};
use std::panic::{catch_unwind, AssertUnwindSafe};

/// Target that allocates nothing: counts and checksums what it is given.
pub struct NullTarget {
    pub bb: Rectangle,
    pub n: u64,
    pub sum: u64,
}
impl Dimensions for NullTarget {
    fn bounding_box(&self) -> Rectangle {
        self.bb
    }
}
impl DrawTarget for NullTarget {
    type Color = Rgb565;
    type Error = core::convert::Infallible;
    fn draw_iter<I: IntoIterator<Item = Pixel<Rgb565>>>(&mut self, pixels: I) -> Result<(), Self::Error> {
        for Pixel(p, c) in pixels {
            self.n += 1;
            self.sum = self.sum.wrapping_add((p.x as u64) ^ ((p.y as u64) << 16) ^ c.into_storage() as u64);
            if self.n > 400_000_000 {
                panic!("step budget exceeded");
            }
        }
        Ok(())
    }
    fn fill_contiguous<I: IntoIterator<Item = Rgb565>>(&mut self, area: &Rectangle, colors: I) -> Result<(), Self::Error> {
        let n = area.size.width as u64 * area.size.height as u64;
        for c in colors.into_iter().take(n as usize) {
            self.n += 1;
            self.sum = self.sum.wrapping_add(c.into_storage() as u64);
        }
        Ok(())
    }
    fn fill_solid(&mut self, area: &Rectangle, color: Rgb565) -> Result<(), Self::Error> {
        self.n += area.size.width as u64 * area.size.height as u64;
        self.sum = self.sum.wrapping_add(color.into_storage() as u64);
        Ok(())
    }
    fn clear(&mut self, _c: Rgb565) -> Result<(), Self::Error> {
        Ok(())
    }
}

/// Draw-iter-only variant (exercises the trait defaults and the pixel iterators)
pub struct NullIterTarget(pub NullTarget);
impl Dimensions for NullIterTarget {
    fn bounding_box(&self) -> Rectangle {
        self.0.bb
    }
}
impl DrawTarget for NullIterTarget {
    type Color = Rgb565;
    type Error = core::convert::Infallible;
    fn draw_iter<I: IntoIterator<Item = Pixel<Rgb565>>>(&mut self, pixels: I) -> Result<(), Self::Error> {
        self.0.draw_iter(pixels)
    }
}

const CAP: usize = 60_000_000;

fn exercise(z: &Zoo) -> Result<u64, String> {
    let mut steps: u64 = 0;
    let bb = z.bounding_box();
    steps += bb.size.width as u64;
    if let Some(pb) = z.primitive_bounding_box() {
        // contains() on the corners and centre of the box and a margin
        for q in [pb.top_left, pb.top_left - Point::new(1, 1), pb.center(), pb.top_left + pb.size, Point::new(1024, -1024)] {
            if let Some(c) = z.contains(q) {
                steps += c as u64;
            }
        }
    }
    // points() / pixels() counted without collecting (no allocation allowed in here)
    let np = count_points(z);
    if np >= CAP as u64 {
        return Err("points() exceeded the step budget".into());
    }
    let nx = count_pixels(z);
    if nx >= CAP as u64 {
        return Err("pixels() exceeded the step budget".into());
    }
    steps += np + nx;
    let mut t = NullTarget { bb: Rectangle::new(Point::new(-2048, -2048), Size::new(4096, 4096)), n: 0, sum: 0 };
    z.draw(&mut t).unwrap();
    steps += t.n;
    // a small display partly covering the object, draw_iter only
    let mut t2 = NullIterTarget(NullTarget { bb: Rectangle::new(Point::zero(), Size::new(320, 240)), n: 0, sum: 0 });
    z.draw(&mut t2).unwrap();
    steps += t2.0.n;
    Ok(steps)
}

fn count_points(z: &Zoo) -> u64 {
    use embedded_graphics::primitives::*;
    match &z.geo {
        Geo::Rect(p) => p.points().take(CAP).count() as u64,
        Geo::Circle(p) => p.points().take(CAP).count() as u64,
        Geo::Ellipse(p) => p.points().take(CAP).count() as u64,
        Geo::RRect(p) => p.points().take(CAP).count() as u64,
        Geo::Tri(p) => p.points().take(CAP).count() as u64,
        Geo::Line(p) => p.points().take(CAP).count() as u64,
        Geo::Poly(tr, v) => Polyline::new(v).translate(*tr).points().take(CAP).count() as u64,
        Geo::Arc(p) => p.points().take(CAP).count() as u64,
        Geo::Sector(p) => p.points().take(CAP).count() as u64,
        _ => 0,
    }
}
fn count_pixels(z: &Zoo) -> u64 {
    use embedded_graphics::primitives::*;
    let st = z.style;
    match &z.geo {
        Geo::Rect(p) => p.into_styled(st).pixels().take(CAP).count() as u64,
        Geo::Circle(p) => p.into_styled(st).pixels().take(CAP).count() as u64,
        Geo::Ellipse(p) => p.into_styled(st).pixels().take(CAP).count() as u64,
        Geo::RRect(p) => p.into_styled(st).pixels().take(CAP).count() as u64,
        Geo::Tri(p) => p.into_styled(st).pixels().take(CAP).count() as u64,
        Geo::Line(p) => p.into_styled(st).pixels().take(CAP).count() as u64,
        Geo::Poly(tr, v) => Polyline::new(v).translate(*tr).into_styled(st).pixels().take(CAP).count() as u64,
        Geo::Arc(p) => p.into_styled(st).pixels().take(CAP).count() as u64,
        Geo::Sector(p) => p.into_styled(st).pixels().take(CAP).count() as u64,
        _ => 0,
    }
}

/// Input classes of the recorded findings (known_findings.txt): decided from the INPUT, so that a
/// panic on an input outside every class is always reported as a new violation.
fn input_class(z: &Zoo) -> Option<&'static str> {
    let w = z.style.stroke_width as i64;
    let len2 = |a: Point, b: Point| {
        let d = b - a;
        (d.x as i64).pow(2) + (d.y as i64).pow(2)
    };
    let thick_over = |a: Point, b: Point| w >= 2 && (2 * w).pow(2) * len2(a, b).max(1) > i32::MAX as i64;
    match &z.geo {
        Geo::Line(l) if thick_over(l.start, l.end) => Some("K08_thick_threshold"),
        Geo::Tri(t) if w >= 2 => Some("K08_thick_join"),
        Geo::Poly(_, v) if w >= 2 && v.len() >= 2 => Some("K08_thick_join"),
        _ => None,
    }
}

pub fn run(suite: &str, a: &[&str]) -> Option<String> {
    if suite != "p_total" {
        return None;
    }
    let z = Zoo::parse(a);
    let before = crate::allocs();
    let r = catch_unwind(AssertUnwindSafe(|| exercise(&z)));
    let after = crate::allocs();
    Some(match r {
        Ok(Ok(steps)) => {
            if after != before {
                format!("FAIL class=K08_alloc {} heap allocations during library calls", after - before)
            } else {
                format!("OK {}", steps)
            }
        }
        Ok(Err(e)) => format!("FAIL class=K08_nontermination {}", e),
        Err(_) => {
            let loc = LAST_PANIC.with(|p| p.borrow().clone());
            match input_class(&z) {
                Some(c) => format!("FAIL class={} panic at {}", c, loc),
                None => format!("FAIL panic at {} (input in no recorded class)", loc),
            }
        }
    })
}
