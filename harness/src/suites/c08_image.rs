//! C08 image part (search on the implementation, built with overflow checks and debug assertions):
//!   p_img_total bpp alt w h seed ox oy nsub [x y w h]*
//! ImageRaw::new, pixel() (frame + extreme points), draw of the image and of nested sub images at display-scale
//! boundary sizes: no panic (a panic is reported by the driver as `PANIC file:line`), exactly w*h colours pulled.
use super::c09::{data, dispatch, C32};
use crate::util::*;
use embedded_graphics::{
    image::{GetPixel, Image, ImageDrawable, ImageDrawableExt, ImageRaw},
    iterator::raw::RawDataSlice,
    pixelcolor::{
        raw::{BigEndianLsb0, DataOrder, LittleEndianMsb0},
        BinaryColor, Gray2, Gray4, Gray8, Rgb565, Rgb888,
    },
    prelude::*,
    primitives::Rectangle,
};

fn drive<T, C>(d: &T, o: Point) -> Result<usize, String>
where
    T: ImageDrawable<Color = C>,
    C: Tag,
{
    let s = d.size();
    let n = s.width as usize * s.height as usize;
    // a small window of the target at the image's top left corner keeps the recorded map small
    let mut t = NativeTarget::<C>::new(Rectangle::new(o - Point::new(2, 2), Size::new(6, 6)));
    t.drain = true;
    Image::new(d, o).draw(&mut t).map_err(|_| "FAIL draw error".to_string())?;
    if t.pulled.len() > 1 || (n > 0 && t.pulled != vec![n]) || (n == 0 && t.pulled.iter().any(|k| *k != 0)) {
        return Err(format!("FAIL colours pulled {:?}, size {}x{}", t.pulled, s.width, s.height));
    }
    let mut t2 = IterTarget::<C>::new(Rectangle::new(o + Point::new(s.width as i32 - 3, s.height as i32 - 3), Size::new(6, 6)));
    Image::with_center(d, o).translate(Point::new(1, -1)).draw(&mut t2).map_err(|_| "FAIL draw error".to_string())?;
    Ok(n)
}

fn p_img_total<C, O>(a: &[&str]) -> String
where
    C: Tag,
    O: DataOrder,
    for<'a> RawDataSlice<'a, C::Raw, O>: IntoIterator<Item = C::Raw>,
{
    let (bpp, w, h) = (us(a[0]), u(a[2]), u(a[3]));
    let stride = (w as usize * bpp + 7) / 8;
    let bytes = data(a[4], &(stride * h as usize).to_string());
    let img = match ImageRaw::<C, O>::new(&bytes, Size::new(w, h)) {
        Ok(i) => i,
        Err(_) => return "FAIL new rejected the documented length".to_string(),
    };
    // wrong lengths are rejected, not panicked on
    if !bytes.is_empty() && ImageRaw::<C, O>::new(&bytes[1..], Size::new(w, h)).is_ok() {
        return "FAIL new accepted a short buffer".to_string();
    }
    let mut some = 0usize;
    let (wi, hi) = (w as i32, h as i32);
    for (x, y) in [
        (0, 0), (wi - 1, 0), (0, hi - 1), (wi - 1, hi - 1), (wi, 0), (0, hi), (-1, 0), (0, -1), (wi / 2, hi / 2),
        (i32::MAX, 0), (0, i32::MAX), (i32::MIN, 0), (0, i32::MIN), (i32::MAX, i32::MAX), (i32::MIN, i32::MIN),
    ] {
        let inside = x >= 0 && y >= 0 && x < wi && y < hi;
        if img.pixel(Point::new(x, y)).is_some() != inside {
            return format!("FAIL pixel({},{}) on {}x{}", x, y, w, h);
        }
        some += inside as usize;
    }
    let o = pt(a[5], a[6]);
    let nsub = us(a[7]);
    let r = |k: usize| rc(a[8 + 4 * k], a[9 + 4 * k], a[10 + 4 * k], a[11 + 4 * k]);
    let res = match nsub {
        0 => drive(&img, o),
        1 => drive(&img.sub_image(&r(0)), o),
        _ => drive(&img.sub_image(&r(0)).sub_image(&r(1)), o),
    };
    match res {
        Ok(n) => format!("OK {}", n + some),
        Err(e) => e,
    }
}

pub fn run(suite: &str, a: &[&str]) -> Option<String> {
    Some(match suite {
        "p_img_total" => dispatch!(p_img_total, a),
        _ => return None,
    })
}
