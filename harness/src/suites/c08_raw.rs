//! C08, part "raw" (implementation-side search): raw load/store, the raw iterator, ImageRaw::pixel and
//! Framebuffer on display-scale sizes in the overflow-checked build: no panic, no allocation.
//!   p_raw_total_img <bpp> <alt> <w> <h> <seed>     ImageRaw w x h over a heap buffer: pixel / load / store / iterator
//!   p_raw_total_fb <k> <seed>                      k-th large framebuffer type: set_pixel / pixel / draw / as_image
use crate::suites::c10::{FbLike, C32};
use crate::util::*;
use embedded_graphics::framebuffer::{buffer_size, Framebuffer};
use embedded_graphics::image::{GetPixel, ImageRaw};
use embedded_graphics::iterator::raw::RawDataSlice;
use embedded_graphics::pixelcolor::raw::{BigEndianLsb0, DataOrder, LittleEndianMsb0, RawData};
use embedded_graphics::pixelcolor::{BinaryColor, Gray2, Gray4, Gray8, Rgb565, Rgb888};
use embedded_graphics::prelude::*;
use std::panic::{catch_unwind, AssertUnwindSafe};

struct Sm(u64);
impl Sm {
    fn next(&mut self) -> u64 {
        self.0 = self.0.wrapping_add(0x9E3779B97F4A7C15);
        let mut z = self.0;
        z = (z ^ (z >> 30)).wrapping_mul(0xBF58476D1CE4E5B9);
        z = (z ^ (z >> 27)).wrapping_mul(0x94D049BB133111EB);
        z ^ (z >> 31)
    }
}

fn edge_coords(m: u32, rng: &mut Sm) -> Vec<i32> {
    let m = m as i32;
    let mut v = vec![-1, 0, 1, m / 2, m - 2, m - 1, m, m + 1, i32::MIN, i32::MAX, -1024, 1024, 65536];
    v.push((rng.next() % (m as u64 + 1)) as i32);
    v
}

fn img_total<C, O>(bpp: usize, w: u32, h: u32, seed: u64) -> String
where
    C: PixelColor + Tag,
    O: DataOrder,
    for<'a> RawDataSlice<'a, C::Raw, O>: IntoIterator<Item = C::Raw>,
    <C::Raw as RawData>::Storage: Into<u32>,
{
    let mut rng = Sm(seed);
    let row = (w as usize * bpp + 7) / 8;
    let mut data: Vec<u8> = (0..row * h as usize).map(|_| rng.next() as u8).collect();
    let xs = edge_coords(w, &mut rng);
    let ys = edge_coords(h, &mut rng);
    let total = data.len() * 8 / bpp;
    let mut idxs = vec![0usize, 1, total / 2, total.saturating_sub(1), total, total + 1, usize::MAX, usize::MAX / 2, usize::MAX / 3 + 1, usize::MAX / 4 + 1, 1 << 63, 1 << 62];
    idxs.push((rng.next() % (total as u64 + 2)) as usize);
    let a0 = crate::allocs();
    let r = catch_unwind(AssertUnwindSafe(|| {
        let mut n = 0usize;
        {
            let img: ImageRaw<C, O> = match ImageRaw::new(&data, Size::new(w, h)) {
                Ok(i) => i,
                Err(e) => return Err(format!("ImageRaw::new rejected {} bytes for {}x{}: {:?}", data.len(), w, h, e)),
            };
            for &y in &ys {
                for &x in &xs {
                    let inside = x >= 0 && y >= 0 && (x as u32) < w && (y as u32) < h;
                    if img.pixel(Point::new(x, y)).is_some() != inside {
                        return Err(format!("pixel({},{}) of {}x{} is_some != {}", x, y, w, h, inside));
                    }
                    n += 1;
                }
            }
        }
        // raw load / store / iterator around the end of the buffer and at extreme indices
        for &i in &idxs {
            let l = <C::Raw as RawData>::load::<O>(&data, i);
            if l.is_some() != (i < total) {
                return Err(format!("load({}) of {} pixels is_some != {}", i, total, i < total));
            }
            let s = <C::Raw as RawData>::from_u32(rng.next() as u32).store::<O>(&mut data, i);
            if s.is_ok() != (i < total) {
                return Err(format!("store at {} of {} pixels is_ok != {}", i, total, i < total));
            }
            let mut it = RawDataSlice::<C::Raw, O>::new(&data).into_iter();
            let _ = it.size_hint();
            if it.nth(i).is_some() != (i < total) {
                return Err(format!("nth({}) of {} pixels", i, total));
            }
            let _ = it.size_hint();
            let _ = it.nth(usize::MAX);
            let _ = it.next();
            if it.size_hint() != (0, Some(0)) {
                return Err(format!("size_hint after the end = {:?}", it.size_hint()));
            }
            n += 4;
        }
        Ok(n)
    }));
    let allocs = crate::allocs() - a0;
    match r {
        Err(_) => format!("FAIL panicked at {} ({})", LAST_PANIC.with(|p| p.borrow().clone()), LAST_PANIC_MSG.with(|p| p.borrow().clone())),
        Ok(Err(e)) => format!("FAIL {}", e),
        Ok(Ok(n)) => {
            if allocs != 0 {
                format!("FAIL {} heap allocations during raw image / load / store / iterator calls", allocs)
            } else {
                format!("OK {}", n)
            }
        }
    }
}

macro_rules! big {
    ($C:ty, $O:ty, $W:literal, $H:literal, $E:literal) => {
        (Box::new(Framebuffer::<$C, <$C as PixelColor>::Raw, $O, $W, $H, { buffer_size::<$C>($W, $H) + $E }>::new()) as Box<dyn FbLike>, <<$C as PixelColor>::Raw as RawData>::BITS_PER_PIXEL)
    };
}
pub const N_BIG: usize = 12;
fn big_fb(k: usize) -> Option<(Box<dyn FbLike>, usize)> {
    Some(match k {
        0 => big!(BinaryColor, LittleEndianMsb0, 1024, 1024, 0),
        1 => big!(BinaryColor, BigEndianLsb0, 1023, 257, 3),
        2 => big!(Gray2, LittleEndianMsb0, 321, 240, 0),
        3 => big!(Gray2, BigEndianLsb0, 1023, 65, 0),
        4 => big!(Gray4, LittleEndianMsb0, 1023, 63, 1),
        5 => big!(Gray4, BigEndianLsb0, 255, 257, 0),
        6 => big!(Gray8, LittleEndianMsb0, 320, 240, 0),
        7 => big!(Rgb565, LittleEndianMsb0, 320, 240, 0),
        8 => big!(Rgb565, BigEndianLsb0, 1024, 65, 2),
        9 => big!(Rgb888, BigEndianLsb0, 480, 320, 0),
        10 => big!(C32, LittleEndianMsb0, 1024, 64, 0),
        11 => big!(C32, BigEndianLsb0, 257, 255, 5),
        _ => return None,
    })
}

fn fb_total(k: usize, seed: u64) -> String {
    let mut rng = Sm(seed);
    let r = catch_unwind(AssertUnwindSafe(|| {
        let (mut fb, bpp) = match big_fb(k) {
            Some(f) => f,
            None => return Err("no such framebuffer".to_string()),
        };
        let (w, h, bs, n) = fb.dims();
        let maxv: u64 = if bpp >= 32 { u32::MAX as u64 } else { (1u64 << bpp) - 1 };
        let xs = edge_coords(w as u32, &mut rng);
        let ys = edge_coords(h as u32, &mut rng);
        let a0 = crate::allocs();
        let mut cnt = 0usize;
        for &y in &ys {
            for &x in &xs {
                let inside = x >= 0 && y >= 0 && (x as usize) < w && (y as usize) < h;
                let v = (rng.next() & maxv) as u32;
                fb.set(x, y, v);
                let got = fb.get(x, y);
                if got != if inside { Some(v) } else { None } {
                    return Err(format!("{}x{}x{}bpp: set_pixel(({},{}),{}) then pixel = {:?}", w, h, bpp, x, y, v, got));
                }
                if fb.img_get(x, y) != got {
                    return Err(format!("as_image().pixel({},{}) differs from pixel()", x, y));
                }
                cnt += 1;
            }
        }
        fb.draw_px(&[(0, 0, 1), (w as i32 - 1, h as i32 - 1, 1), (-1, -1, 1), (i32::MAX, i32::MIN, 1)]);
        let allocs = crate::allocs() - a0;
        if allocs != 0 {
            return Err(format!("{} heap allocations during set_pixel / pixel / draw_iter", allocs));
        }
        // the whole image drawn: exactly w*h colours
        let (_, cols, pulled, _) = fb.img_draw_native(0, 0);
        if pulled != w * h || cols.len() != w * h {
            return Err(format!("as_image() drawn: {} colours for {}x{}", pulled, w, h));
        }
        if fb.bytes().len() != n || bs > n {
            return Err("sizes".into());
        }
        Ok(cnt + w * h)
    }));
    match r {
        Err(_) => format!("FAIL panicked at {} ({})", LAST_PANIC.with(|p| p.borrow().clone()), LAST_PANIC_MSG.with(|p| p.borrow().clone())),
        Ok(Err(e)) => format!("FAIL {}", e),
        Ok(Ok(n)) => format!("OK {}", n),
    }
}

pub fn run(suite: &str, a: &[&str]) -> Option<String> {
    Some(match suite {
        "p_raw_total_img" => {
            let (w, h, seed) = (u(a[2]), u(a[3]), a[4].parse::<u64>().unwrap());
            match (a[0], a[1]) {
                ("1", "0") => img_total::<BinaryColor, LittleEndianMsb0>(1, w, h, seed),
                ("1", "1") => img_total::<BinaryColor, BigEndianLsb0>(1, w, h, seed),
                ("2", "0") => img_total::<Gray2, LittleEndianMsb0>(2, w, h, seed),
                ("2", "1") => img_total::<Gray2, BigEndianLsb0>(2, w, h, seed),
                ("4", "0") => img_total::<Gray4, LittleEndianMsb0>(4, w, h, seed),
                ("4", "1") => img_total::<Gray4, BigEndianLsb0>(4, w, h, seed),
                ("8", "0") => img_total::<Gray8, LittleEndianMsb0>(8, w, h, seed),
                ("8", "1") => img_total::<Gray8, BigEndianLsb0>(8, w, h, seed),
                ("16", "0") => img_total::<Rgb565, LittleEndianMsb0>(16, w, h, seed),
                ("16", "1") => img_total::<Rgb565, BigEndianLsb0>(16, w, h, seed),
                ("24", "0") => img_total::<Rgb888, LittleEndianMsb0>(24, w, h, seed),
                ("24", "1") => img_total::<Rgb888, BigEndianLsb0>(24, w, h, seed),
                ("32", "0") => img_total::<C32, LittleEndianMsb0>(32, w, h, seed),
                ("32", "1") => img_total::<C32, BigEndianLsb0>(32, w, h, seed),
                _ => "FAIL BAD-TYPE".into(),
            }
        }
        "p_raw_total_fb" => fb_total(us(a[0]), a[1].parse::<u64>().unwrap()),
        _ => return None,
    })
}
