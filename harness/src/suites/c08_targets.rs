//! C08 part "targets": adapter stacks and the Cropped colour iterator run without arithmetic overflow
//! (the harness profile has overflow checks and debug assertions on) on display-scale inputs.
//!   tok <kind> <bb> <nad> <adapters> <nops> <ops>      (case syntax of c03.rs)
//!       builds the stack, asks every level for its bounding_box(), issues the operations; answers "1" when
//!       this completes (a panic is reported by main as `PANIC file:line`). The model side answers
//!       build_ok && stack_ok for every operation (coq/Model/TargetOk.v).
use super::c03::{parse, run_case};

pub fn run(suite: &str, a: &[&str]) -> Option<String> {
    Some(match suite {
        "tok" => {
            let c = parse(a);
            let _ = run_case(&c);
            "1".into()
        }
        _ => return None,
    })
}
