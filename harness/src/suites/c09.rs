//! C09: ImageRaw / SubImage / Image on the real library.
//! Correspondence suites: img_new, img_pixels, img_draw.  Search suites: p_img_new, p_img_pixels, p_img_draw.
use crate::util::*;
use embedded_graphics::{
    image::{GetPixel, Image, ImageDrawable, ImageDrawableExt, ImageRaw, ImageRawError},
    iterator::raw::RawDataSlice,
    pixelcolor::{
        raw::{BigEndianLsb0, DataOrder, LittleEndianMsb0, RawU32},
        BinaryColor, Gray2, Gray4, Gray8, PixelColor, Rgb565, Rgb888,
    },
    prelude::*,
    primitives::Rectangle,
};
use std::collections::BTreeMap;

/// 32 bit colour: the library has no colour type with `Raw = RawU32`, so the harness defines the
/// thinnest possible one (same as the library's own test colour in image_raw.rs).
#[derive(Copy, Clone, PartialEq, Eq, Debug)]
pub struct C32(RawU32);
impl PixelColor for C32 {
    type Raw = RawU32;
}
impl From<RawU32> for C32 {
    fn from(r: RawU32) -> Self {
        C32(r)
    }
}
impl From<C32> for RawU32 {
    fn from(c: C32) -> Self {
        c.0
    }
}

/// deterministic test bytes, the same function as ocaml/suites/c09.ml `byte`
fn byte(seed: u64, i: u64) -> u8 {
    let x = (seed * 7919 + i * 104729 + 12345) & 0x7FFF_FFFF;
    let x = (x * 1103515245 + 12345) & 0x7FFF_FFFF;
    ((x >> 16) & 0xFF) as u8
}
pub(crate) fn data(seed: &str, len: &str) -> Vec<u8> {
    let s: u64 = seed.parse().unwrap();
    (0..us(len) as u64).map(|i| byte(s, i)).collect()
}

macro_rules! dispatch {
    ($f:ident, $a:expr) => {
        match (u($a[0]), $a[1] == "1") {
            (1, false) => $f::<BinaryColor, LittleEndianMsb0>($a),
            (1, true) => $f::<BinaryColor, BigEndianLsb0>($a),
            (2, false) => $f::<Gray2, LittleEndianMsb0>($a),
            (2, true) => $f::<Gray2, BigEndianLsb0>($a),
            (4, false) => $f::<Gray4, LittleEndianMsb0>($a),
            (4, true) => $f::<Gray4, BigEndianLsb0>($a),
            (8, false) => $f::<Gray8, LittleEndianMsb0>($a),
            (8, true) => $f::<Gray8, BigEndianLsb0>($a),
            (16, false) => $f::<Rgb565, LittleEndianMsb0>($a),
            (16, true) => $f::<Rgb565, BigEndianLsb0>($a),
            (24, false) => $f::<Rgb888, LittleEndianMsb0>($a),
            (24, true) => $f::<Rgb888, BigEndianLsb0>($a),
            (32, false) => $f::<C32, LittleEndianMsb0>($a),
            (32, true) => $f::<C32, BigEndianLsb0>($a),
            _ => "BAD-BPP".to_string(),
        }
    };
}
pub(crate) use dispatch;

pub(crate) fn err_size(e: ImageRawError) -> usize {
    match e {
        ImageRawError::InvalidDataSize { expected_data_size } => expected_data_size,
    }
}

// ---------------------------------------------------------------- observation of one draw
pub(crate) struct Obs {
    pub size: Size,
    pub bbox: Rectangle,
    pub map: BTreeMap<(i32, i32), u32>,
    /// (area, colours taken = min(stream, w*h)) per fill_contiguous call; None on the draw_iter-only target
    pub log: Option<Vec<(Rectangle, usize)>>,
    /// colours pulled per call by the draining target
    pub pulled: Option<Vec<usize>>,
}

/// How the drawable is drawn: through `Image::new(d, o)` / `Image::with_center(d, o)`, or by calling the public
/// trait method `ImageDrawable::draw_sub_image(target, area)` directly (no offset).
enum How {
    Img(u32, Point),
    Direct(Rectangle),
}

fn run_draw<T, C, D>(d: &T, how: &How, t: &mut D) -> Rectangle
where
    T: ImageDrawable<Color = C>,
    C: Tag,
    D: DrawTarget<Color = C>,
    D::Error: core::fmt::Debug,
{
    match how {
        How::Img(mode, o) => {
            let im = if *mode == 1 { Image::with_center(d, *o) } else { Image::new(d, *o) };
            im.draw(t).unwrap();
            im.bounding_box()
        }
        How::Direct(area) => {
            d.draw_sub_image(t, area).unwrap();
            Rectangle::zero()
        }
    }
}

fn observe<T, C>(d: &T, how: &How, tk: u32, bb: Rectangle) -> Obs
where
    T: ImageDrawable<Color = C>,
    C: Tag,
{
    let size = d.size();
    if tk == 0 {
        let mut t = IterTarget::<C>::new(bb);
        let bbox = run_draw(d, how, &mut t);
        Obs { size, bbox, map: t.map, log: None, pulled: None }
    } else {
        let mut t = NativeTarget::<C>::new(bb);
        t.drain = tk == 2;
        let bbox = run_draw(d, how, &mut t);
        let log = t
            .log
            .iter()
            .map(|c| match c {
                Call::FillContiguous(a, cols) => (*a, cols.len()),
                _ => (Rectangle::zero(), usize::MAX), // any other call kind is foreign to the image code
            })
            .collect();
        Obs { size, bbox, map: t.map, log: Some(log), pulled: if tk == 2 { Some(t.pulled) } else { None } }
    }
}

/// args: bpp alt w h len seed mode ox oy tk tx ty tw th nsub [x y w h]*        (mode 0 = Image::new, 1 = Image::with_center)
///   or: bpp alt w h len seed 2    0  0  tk tx ty tw th nsub [x y w h]* ax ay aw ah   (mode 2 = draw_sub_image(area) directly)
pub(crate) fn observe_case<C, O>(a: &[&str]) -> Result<Obs, usize>
where
    C: Tag,
    O: DataOrder,
    for<'a> RawDataSlice<'a, C::Raw, O>: IntoIterator<Item = C::Raw>,
{
    let bytes = data(a[5], a[4]);
    let img = ImageRaw::<C, O>::new(&bytes, Size::new(u(a[2]), u(a[3]))).map_err(err_size)?;
    let (mode, o, tk, bb) = (u(a[6]), pt(a[7], a[8]), u(a[9]), rc(a[10], a[11], a[12], a[13]));
    let nsub = us(a[14]);
    let r = |k: usize| rc(a[15 + 4 * k], a[16 + 4 * k], a[17 + 4 * k], a[18 + 4 * k]);
    let how = if mode == 2 { How::Direct(r(nsub)) } else { How::Img(mode, o) };
    Ok(match nsub {
        0 => observe(&img, &how, tk, bb),
        1 => observe(&img.sub_image(&r(0)), &how, tk, bb),
        2 => observe(&img.sub_image(&r(0)).sub_image(&r(1)), &how, tk, bb),
        _ => observe(&img.sub_image(&r(0)).sub_image(&r(1)).sub_image(&r(2)), &how, tk, bb),
    })
}

fn img_draw<C, O>(a: &[&str]) -> String
where
    C: Tag,
    O: DataOrder,
    for<'a> RawDataSlice<'a, C::Raw, O>: IntoIterator<Item = C::Raw>,
{
    match observe_case::<C, O>(a) {
        Err(n) => format!("err {}", n),
        Ok(ob) => {
            let mut s = format!("SZ {} {} BOX {} MAP {}", ob.size.width, ob.size.height, src(ob.bbox), smap(&ob.map));
            if let Some(log) = &ob.log {
                s += " LOG ";
                s += &log.iter().map(|(r, n)| format!("{} {}", src(*r), n)).collect::<Vec<_>>().join(";");
            }
            if let Some(p) = &ob.pulled {
                s += " PULLED ";
                s += &p.iter().map(|n| n.to_string()).collect::<Vec<_>>().join(",");
            }
            s
        }
    }
}

fn img_new<C, O>(a: &[&str]) -> String
where
    C: Tag,
    O: DataOrder,
    for<'a> RawDataSlice<'a, C::Raw, O>: IntoIterator<Item = C::Raw>,
{
    let bytes = data("0", a[4]);
    match ImageRaw::<C, O>::new(&bytes, Size::new(u(a[2]), u(a[3]))) {
        Ok(_) => "ok".to_string(),
        Err(e) => format!("err {}", err_size(e)),
    }
}

/// args: bpp alt w h len seed.  `new_const` panics on a wrong length; the panic is caught here and printed as `panic`.
fn img_new_const<C, O>(a: &[&str]) -> String
where
    C: Tag,
    O: DataOrder,
    for<'a> RawDataSlice<'a, C::Raw, O>: IntoIterator<Item = C::Raw>,
{
    let bytes = data(a[5], a[4]);
    let (w, h) = (u(a[2]), u(a[3]));
    let r = std::panic::catch_unwind(|| {
        let img = ImageRaw::<C, O>::new_const(&bytes, Size::new(w, h));
        let f = |p: Point| match img.pixel(p) {
            Some(c) => c.tag().to_string(),
            None => "none".to_string(),
        };
        format!("ok {} {} {} {}", img.size().width, img.size().height, f(Point::zero()), f(Point::new(w as i32 - 1, h as i32 - 1)))
    });
    match r {
        Ok(s) => s,
        Err(_) => {
            let msg = LAST_PANIC_MSG.with(|p| p.borrow().clone());
            if msg.contains("Invalid data size") {
                "panic".to_string()
            } else {
                format!("panic-other {}", msg)
            }
        }
    }
}

/// the property on the implementation: new_const returns the image for exactly the documented length and panics otherwise
fn p_img_new_const<C, O>(a: &[&str]) -> String
where
    C: Tag,
    O: DataOrder,
    for<'a> RawDataSlice<'a, C::Raw, O>: IntoIterator<Item = C::Raw>,
{
    let (bpp, w, h) = (u(a[0]) as u64, u(a[2]) as u64, u(a[3]) as u64);
    let want = stride(w, bpp) * h;
    let got = img_new_const::<C, O>(a);
    if us(a[4]) as u64 == want {
        if got.starts_with(&format!("ok {} {} ", w, h)) {
            "OK 1".to_string()
        } else {
            format!("FAIL new_const on the exact length {}: {}", want, got)
        }
    } else if got == "panic" {
        "OK 0".to_string()
    } else {
        format!("FAIL new_const on {} bytes ({} required): {}", a[4], want, got)
    }
}

fn img_pixels<C, O>(a: &[&str]) -> String
where
    C: Tag,
    O: DataOrder,
    for<'a> RawDataSlice<'a, C::Raw, O>: IntoIterator<Item = C::Raw>,
{
    let bytes = data(a[5], a[4]);
    let (w, h) = (u(a[2]), u(a[3]));
    match ImageRaw::<C, O>::new(&bytes, Size::new(w, h)) {
        Err(e) => format!("err {}", err_size(e)),
        Ok(img) => {
            let mut out = Vec::new();
            for y in -1..=(h as i32) {
                for x in -1..=(w as i32) {
                    out.push(match img.pixel(Point::new(x, y)) {
                        Some(c) => c.tag().to_string(),
                        None => "none".to_string(),
                    });
                }
            }
            out.join(",")
        }
    }
}

// ---------------------------------------------------------------- independent reference
/// Bytes per row: rows start on byte boundaries (documented in image_raw.rs).
fn stride(w: u64, bpp: u64) -> u64 {
    let bits = w * bpp;
    bits / 8 + if bits % 8 != 0 { 1 } else { 0 }
}

/// The documented layout, decoded from the bytes without the library: row y occupies bytes
/// [y*stride, (y+1)*stride); inside a row sub-byte pixels are packed first-pixel-in-the-most-significant
/// bits (LittleEndianMsb0) or first-pixel-in-the-least-significant bits (BigEndianLsb0); multi-byte
/// pixels are little/big endian.
pub(crate) fn ref_pixel(bpp: u64, alt: bool, bytes: &[u8], w: u64, h: u64, x: i64, y: i64) -> Option<u32> {
    if x < 0 || y < 0 || x >= w as i64 || y >= h as i64 {
        return None;
    }
    let (x, y) = (x as u64, y as u64);
    let row = &bytes[(y * stride(w, bpp)) as usize..((y + 1) * stride(w, bpp)) as usize];
    Some(if bpp < 8 {
        let ppb = 8 / bpp;
        let b = row[(x / ppb) as usize] as u32;
        let k = x % ppb; // position of the pixel inside its byte
        let mut bits = Vec::new(); // the byte as bpp-bit groups, most significant group first
        for g in 0..ppb {
            bits.push((b >> (8 - bpp * (g + 1))) & ((1 << bpp) - 1));
        }
        if alt {
            bits[(ppb - 1 - k) as usize]
        } else {
            bits[k as usize]
        }
    } else {
        let n = (bpp / 8) as usize;
        let px = &row[x as usize * n..x as usize * n + n];
        let mut v: u32 = 0;
        if alt {
            for b in px.iter() {
                v = (v << 8) | *b as u32;
            }
        } else {
            for b in px.iter().rev() {
                v = (v << 8) | *b as u32;
            }
        }
        v
    })
}

fn p_img_new<C, O>(a: &[&str]) -> String
where
    C: Tag,
    O: DataOrder,
    for<'a> RawDataSlice<'a, C::Raw, O>: IntoIterator<Item = C::Raw>,
{
    let bytes = data("0", a[4]);
    let (bpp, w, h) = (u(a[0]) as u64, u(a[2]) as u64, u(a[3]) as u64);
    let want = stride(w, bpp) * h;
    match ImageRaw::<C, O>::new(&bytes, Size::new(w as u32, h as u32)) {
        Ok(img) => {
            if bytes.len() as u64 != want {
                return format!("FAIL new accepted {} bytes, {} required", bytes.len(), want);
            }
            if img.size() != Size::new(w as u32, h as u32) {
                return "FAIL size()".to_string();
            }
            "OK 1".to_string()
        }
        Err(e) => {
            if bytes.len() as u64 == want {
                return format!("FAIL new rejected the exact length {}", want);
            }
            if err_size(e) as u64 != want {
                return format!("FAIL expected_data_size {} but {} required", err_size(e), want);
            }
            "OK 0".to_string()
        }
    }
}

fn p_img_pixels<C, O>(a: &[&str]) -> String
where
    C: Tag,
    O: DataOrder,
    for<'a> RawDataSlice<'a, C::Raw, O>: IntoIterator<Item = C::Raw>,
{
    let bytes = data(a[5], a[4]);
    let (bpp, alt, w, h) = (u(a[0]) as u64, a[1] == "1", u(a[2]) as u64, u(a[3]) as u64);
    let img = match ImageRaw::<C, O>::new(&bytes, Size::new(w as u32, h as u32)) {
        Ok(i) => i,
        Err(_) => return "FAIL new rejected the documented length".to_string(),
    };
    let mut n = 0;
    for y in -3..(h as i64 + 3) {
        for x in -3..(w as i64 + 3) {
            let got = img.pixel(Point::new(x as i32, y as i32)).map(|c| c.tag());
            let want = ref_pixel(bpp, alt, &bytes, w, h, x, y);
            if got != want {
                return format!("FAIL pixel({},{}) = {:?}, data says {:?}", x, y, got, want);
            }
            if want.is_some() {
                n += 1;
            }
        }
    }
    // far outside
    for p in [Point::new(i32::MAX, 0), Point::new(0, i32::MAX), Point::new(i32::MIN, 0), Point::new(0, i32::MIN)] {
        if img.pixel(p).is_some() {
            return format!("FAIL pixel({:?}) is Some", p);
        }
    }
    format!("OK {}", n)
}

fn nothing_drawn(ob: &Obs, why: &str) -> Option<String> {
    if !ob.map.is_empty() {
        return Some(format!("FAIL {} but {} pixels drawn", why, ob.map.len()));
    }
    if let Some(p) = &ob.pulled {
        if p.iter().any(|n| *n != 0) {
            return Some(format!("FAIL {} but colours pulled: {:?}", why, p));
        }
    }
    if let Some(l) = &ob.log {
        if l.iter().any(|(r, n)| *n != 0 || r.size.width as u64 * r.size.height as u64 != 0) {
            return Some(format!("FAIL {} but call {:?}", why, l));
        }
    }
    None
}

fn p_img_draw<C, O>(a: &[&str]) -> String
where
    C: Tag,
    O: DataOrder,
    for<'a> RawDataSlice<'a, C::Raw, O>: IntoIterator<Item = C::Raw>,
{
    let bytes = data(a[5], a[4]);
    let (bpp, alt, w, h) = (u(a[0]) as u64, a[1] == "1", u(a[2]) as u64, u(a[3]) as u64);
    let ob = match observe_case::<C, O>(a) {
        Ok(o) => o,
        Err(_) => return "FAIL new rejected the documented length".to_string(),
    };
    let (mode, o, bb) = (u(a[6]), pt(a[7], a[8]), rc(a[10], a[11], a[12], a[13]));
    let nsub = us(a[14]);
    // the region of the raw image the final drawable shows, as a half-open box in raw image coordinates
    let (mut x0, mut y0, mut x1, mut y1) = (0i64, 0i64, w as i64, h as i64);
    for k in 0..nsub {
        let (ax, ay) = (x0 + i(a[15 + 4 * k]) as i64, y0 + i(a[16 + 4 * k]) as i64);
        let (bx, by) = (ax + u(a[17 + 4 * k]) as i64, ay + u(a[18 + 4 * k]) as i64);
        x0 = x0.max(ax);
        y0 = y0.max(ay);
        x1 = x1.min(bx);
        y1 = y1.min(by);
        if x0 >= x1 || y0 >= y1 {
            // empty: stays empty whatever follows
            x1 = x0;
            y1 = y0;
        }
    }
    let (sw, sh) = (x1 - x0, y1 - y0);
    let empty = sw <= 0 || sh <= 0;
    if empty {
        if ob.size.width as u64 * ob.size.height as u64 != 0 {
            return format!("FAIL empty region but size {:?}", ob.size);
        }
    } else if ob.size != Size::new(sw as u32, sh as u32) {
        return format!("FAIL size {:?}, region is {}x{}", ob.size, sw, sh);
    }
    // (tl, dw, dh): where on the target and how large; (sx, sy): first source pixel in the raw image
    let (tl, dw, dh, sx, sy);
    if mode == 2 {
        // draw_sub_image(area) called directly: draws the area (at the origin) iff it lies fully inside
        let k = 15 + 4 * nsub;
        let (ax, ay, aw, ah) = (i(a[k]) as i64, i(a[k + 1]) as i64, u(a[k + 2]) as i64, u(a[k + 3]) as i64);
        if empty {
            // a zero sized SubImage: where its (clipped) area sits in the root is an artefact of intersection(); not judged
            if nsub == 0 {
                return nothing_drawn(&ob, "area not inside the image").unwrap_or("OK 0".to_string());
            }
            return "OK skip".to_string();
        }
        // sub_image.rs:60-67 only re-bases: the area is judged against the ROOT image (C09_draw_sub_image_direct_nested),
        // (x0, y0) = accumulated top left corner of the sub image in the root
        let (rx, ry) = (x0 + ax, y0 + ay);
        let inside = aw > 0 && ah > 0 && rx >= 0 && ry >= 0 && rx + aw <= w as i64 && ry + ah <= h as i64;
        if !inside {
            return nothing_drawn(&ob, "area not inside the root image").unwrap_or("OK 0".to_string());
        }
        tl = Point::zero();
        dw = aw;
        dh = ah;
        sx = x0 + ax;
        sy = y0 + ay;
    } else {
        if empty {
            return nothing_drawn(&ob, "empty region").unwrap_or("OK 0".to_string());
        }
        // where the image is placed
        tl = if mode == 1 {
            // with_center: the box must be centred on `o` (midpoint rounded towards the top left)
            let br = ob.bbox.top_left + Point::new(sw as i32 - 1, sh as i32 - 1);
            let dx = ob.bbox.top_left.x + br.x - 2 * o.x;
            let dy = ob.bbox.top_left.y + br.y - 2 * o.y;
            if !(0..=1).contains(&dx) || !(0..=1).contains(&dy) {
                return format!("FAIL with_center({:?}) gives box {:?}", o, ob.bbox);
            }
            ob.bbox.top_left
        } else {
            o
        };
        if ob.bbox != Rectangle::new(tl, Size::new(sw as u32, sh as u32)) {
            return format!("FAIL bounding box {:?}", ob.bbox);
        }
        dw = sw;
        dh = sh;
        sx = x0;
        sy = y0;
    }
    let mut want: BTreeMap<(i32, i32), u32> = BTreeMap::new();
    for py in 0..dh {
        for px in 0..dw {
            let (qx, qy) = (tl.x as i64 + px, tl.y as i64 + py);
            let inside = qx >= bb.top_left.x as i64
                && qx < bb.top_left.x as i64 + bb.size.width as i64
                && qy >= bb.top_left.y as i64
                && qy < bb.top_left.y as i64 + bb.size.height as i64;
            if inside {
                want.insert((qy as i32, qx as i32), ref_pixel(bpp, alt, &bytes, w, h, sx + px, sy + py).unwrap());
            }
        }
    }
    if ob.map != want {
        let diff = want
            .iter()
            .find(|(k, v)| ob.map.get(*k) != Some(*v))
            .map(|(k, v)| format!("({},{}) should be {} is {:?}", k.1, k.0, v, ob.map.get(k)))
            .or_else(|| ob.map.iter().find(|(k, _)| !want.contains_key(*k)).map(|(k, v)| format!("({},{}) = {} should be untouched", k.1, k.0, v)))
            .unwrap_or_default();
        return format!("FAIL drawn pixels differ: {}", diff);
    }
    let n = (dw * dh) as usize;
    if let Some(l) = &ob.log {
        if l.len() != 1 || l[0] != (Rectangle::new(tl, Size::new(dw as u32, dh as u32)), n) {
            return format!("FAIL fill_contiguous calls {:?}, expected one for the box with {} colours", l, n);
        }
    }
    if let Some(p) = &ob.pulled {
        if p.len() != 1 || p[0] != n {
            return format!("FAIL colour stream has {:?} items, area has {}", p, n);
        }
    }
    format!("OK {}", want.len())
}

pub fn run(suite: &str, a: &[&str]) -> Option<String> {
    Some(match suite {
        "img_new" => dispatch!(img_new, a),
        "img_new_const" => dispatch!(img_new_const, a),
        "img_pixels" => dispatch!(img_pixels, a),
        "img_draw" => dispatch!(img_draw, a),
        "p_img_new" => dispatch!(p_img_new, a),
        "p_img_new_const" => dispatch!(p_img_new_const, a),
        "p_img_pixels" => dispatch!(p_img_pixels, a),
        "p_img_draw" => dispatch!(p_img_draw, a),
        _ => return None,
    })
}
