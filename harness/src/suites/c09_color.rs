//! C09 colour part: ImageRaw<C, O> for the built-in colour types, observed as the raw storage value of each colour.
//! Correspondence suite: img_typed <Type> alt w h seed ox oy
use super::c09::data;
use crate::util::*;
use embedded_graphics::{
    image::{GetPixel, Image, ImageRaw},
    iterator::raw::RawDataSlice,
    pixelcolor::{
        raw::{BigEndianLsb0, DataOrder, LittleEndianMsb0, RawData},
        Bgr555, Bgr565, Bgr666, Bgr888, BinaryColor, Gray2, Gray4, Gray8, Rgb332, Rgb444, Rgb555, Rgb565, Rgb666, Rgb888,
    },
    prelude::*,
    primitives::Rectangle,
};

fn img_typed<C, O>(a: &[&str]) -> String
where
    C: Tag,
    O: DataOrder,
    for<'a> RawDataSlice<'a, C::Raw, O>: IntoIterator<Item = C::Raw>,
{
    let (w, h) = (u(a[2]), u(a[3]));
    let bpp = <C::Raw as RawData>::BITS_PER_PIXEL;
    let len = (w as usize * bpp + 7) / 8 * h as usize;
    let bytes = data(a[4], &len.to_string());
    let img = match ImageRaw::<C, O>::new(&bytes, Size::new(w, h)) {
        Ok(i) => i,
        Err(_) => return "err".to_string(),
    };
    let mut out = Vec::new();
    for y in -1..=(h as i32) {
        for x in -1..=(w as i32) {
            out.push(match img.pixel(Point::new(x, y)) {
                Some(c) => c.tag().to_string(),
                None => "none".to_string(),
            });
        }
    }
    let o = pt(a[5], a[6]);
    let mut t = NativeTarget::<C>::new(Rectangle::new(o - Point::new(1, 0), Size::new(w, h)));
    Image::new(&img, o).draw(&mut t).unwrap();
    format!("{} MAP {}", out.join(","), smap(&t.map))
}

macro_rules! by_type {
    ($a:expr, $($name:literal => $ty:ty),*) => {
        match ($a[0], $a[1] == "1") {
            $(($name, false) => img_typed::<$ty, LittleEndianMsb0>($a),
              ($name, true) => img_typed::<$ty, BigEndianLsb0>($a),)*
            _ => "UNKNOWN-TYPE".to_string(),
        }
    };
}

pub fn run(suite: &str, a: &[&str]) -> Option<String> {
    Some(match suite {
        "img_typed" => by_type!(a,
            "BinaryColor" => BinaryColor, "Gray2" => Gray2, "Gray4" => Gray4, "Gray8" => Gray8,
            "Rgb332" => Rgb332, "Rgb444" => Rgb444, "Rgb555" => Rgb555, "Bgr555" => Bgr555, "Rgb565" => Rgb565, "Bgr565" => Bgr565,
            "Rgb666" => Rgb666, "Bgr666" => Bgr666, "Rgb888" => Rgb888, "Bgr888" => Bgr888),
        _ => return None,
    })
}
