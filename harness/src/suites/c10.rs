//! C10: Framebuffer (set_pixel / draw_iter / fill_solid / clear / drawables, pixel, as_image) on the real library.
//!
//! `Framebuffer` is parameterised by const generics, so a fixed table of concrete types is instantiated:
//! 7 colour types (one per raw width) x 2 data orders x the sizes of `SIZES` (rows that do and do not end on
//! a byte boundary, zero-sized) x exact / oversized buffers.  `props/C10.py` uses the same table.
use crate::util::*;
use embedded_graphics::framebuffer::{buffer_size, Framebuffer};
use embedded_graphics::image::{GetPixel, Image, ImageRaw};
use embedded_graphics::iterator::raw::RawDataSlice;
use embedded_graphics::pixelcolor::raw::{
    BigEndianLsb0, DataOrder, LittleEndianMsb0, RawData, RawU1, RawU16, RawU2, RawU24, RawU32, RawU4, RawU8,
};
use embedded_graphics::pixelcolor::{BinaryColor, Gray2, Gray4, Gray8, Rgb565, Rgb888};
use embedded_graphics::prelude::*;
use embedded_graphics::primitives::{Circle, Line, PrimitiveStyle, PrimitiveStyleBuilder, Rectangle, Triangle};
use embedded_graphics::Pixel;
use std::collections::BTreeMap;

/// a colour type with a 32-bit raw representation (the library has none)
#[derive(Debug, Copy, Clone, PartialEq, Eq)]
pub struct C32(u32);
impl PixelColor for C32 {
    type Raw = RawU32;
}
impl From<RawU32> for C32 {
    fn from(r: RawU32) -> Self {
        C32(r.into_inner())
    }
}
impl From<C32> for RawU32 {
    fn from(c: C32) -> Self {
        RawU32::new(c.0)
    }
}

/// what the suites need from a framebuffer, whatever its type parameters
pub trait FbLike {
    fn dims(&self) -> (usize, usize, usize, usize); // W, H, BUFFER_SIZE, N
    fn set(&mut self, x: i32, y: i32, v: u32); // inherent set_pixel
    fn draw_px(&mut self, px: &[(i32, i32, u32)]); // DrawTarget::draw_iter
    fn fill(&mut self, r: Rectangle, v: u32); // DrawTarget::fill_solid (trait default)
    fn fill_contig(&mut self, r: Rectangle, vs: &[u32]); // DrawTarget::fill_contiguous (trait default)
    fn clear_(&mut self, v: u32); // DrawTarget::clear (trait default)
    fn shape(&mut self, kind: usize, a: [i32; 6], sw: u32, stroke: Option<u32>, fill: Option<u32>, reference: &mut IterTargetAny);
    fn get(&self, x: i32, y: i32) -> Option<u32>; // GetPixel::pixel
    fn img_get(&self, x: i32, y: i32) -> Option<u32>; // as_image().pixel
    fn raw_img_get(&self, x: i32, y: i32) -> Result<Option<u32>, String>; // ImageRaw::new(&data[..BUFFER_SIZE], size).pixel
    fn bytes(&self) -> Vec<u8>;
    /// Default::default / new / data / data_mut / OriginDimensions::size / Dimensions::bounding_box agree
    fn api_check(&self) -> Result<usize, String>;
    fn bytes_mut(&mut self) -> &mut [u8];
    /// Image::new(&as_image(), offset).draw on a draining native target: (area, colours, pulled, map)
    fn img_draw_native(&self, ox: i32, oy: i32) -> (String, Vec<u32>, usize, BTreeMap<(i32, i32), u32>);
    /// the same on a draw_iter-only target
    fn img_draw_iter(&self, ox: i32, oy: i32) -> BTreeMap<(i32, i32), u32>;
}

/// draw_iter-only reference target storing raw values (colour type erased)
pub struct IterTargetAny {
    pub bb: Rectangle,
    pub map: BTreeMap<(i32, i32), u32>,
}

fn col<C: PixelColor>(v: u32) -> C {
    C::from(<C::Raw as RawData>::from_u32(v))
}

macro_rules! impl_fblike {
    ($raw:ty, [$($gen:tt)*], $bo:ty) => {
        impl<C, $($gen)* const W: usize, const H: usize, const N: usize> FbLike for Framebuffer<C, $raw, $bo, W, H, N>
        where
            C: PixelColor<Raw = $raw> + Tag,
            for<'a> RawDataSlice<'a, $raw, $bo>: IntoIterator<Item = $raw>,
        {
            fn dims(&self) -> (usize, usize, usize, usize) {
                (W, H, buffer_size::<C>(W, H), N)
            }
            fn set(&mut self, x: i32, y: i32, v: u32) {
                self.set_pixel(Point::new(x, y), col::<C>(v));
            }
            fn draw_px(&mut self, px: &[(i32, i32, u32)]) {
                self.draw_iter(px.iter().map(|(x, y, v)| Pixel(Point::new(*x, *y), col::<C>(*v)))).unwrap();
            }
            fn fill(&mut self, r: Rectangle, v: u32) {
                self.fill_solid(&r, col::<C>(v)).unwrap();
            }
            fn fill_contig(&mut self, r: Rectangle, vs: &[u32]) {
                self.fill_contiguous(&r, vs.iter().map(|v| col::<C>(*v))).unwrap();
            }
            fn clear_(&mut self, v: u32) {
                self.clear(col::<C>(v)).unwrap();
            }
            fn shape(&mut self, kind: usize, a: [i32; 6], sw: u32, stroke: Option<u32>, fill: Option<u32>, reference: &mut IterTargetAny) {
                let mut b = PrimitiveStyleBuilder::<C>::new().stroke_width(sw);
                if let Some(s) = stroke {
                    b = b.stroke_color(col::<C>(s));
                }
                if let Some(f) = fill {
                    b = b.fill_color(col::<C>(f));
                }
                let st: PrimitiveStyle<C> = b.build();
                // the reference gets the same drawable through a draw_iter-only target clipped to W x H
                let mut rt = IterTarget::<C>::new(reference.bb);
                match kind {
                    0 => {
                        let d = Rectangle::new(Point::new(a[0], a[1]), Size::new(a[2].unsigned_abs() % 24, a[3].unsigned_abs() % 24)).into_styled(st);
                        d.draw(self).unwrap();
                        d.draw(&mut rt).unwrap();
                    }
                    1 => {
                        let d = Circle::new(Point::new(a[0], a[1]), a[2].unsigned_abs() % 24).into_styled(st);
                        d.draw(self).unwrap();
                        d.draw(&mut rt).unwrap();
                    }
                    2 => {
                        let d = Line::new(Point::new(a[0], a[1]), Point::new(a[2], a[3])).into_styled(st);
                        d.draw(self).unwrap();
                        d.draw(&mut rt).unwrap();
                    }
                    _ => {
                        let d = Triangle::new(Point::new(a[0], a[1]), Point::new(a[2], a[3]), Point::new(a[4], a[5])).into_styled(st);
                        d.draw(self).unwrap();
                        d.draw(&mut rt).unwrap();
                    }
                }
                for (k, v) in rt.map {
                    reference.map.insert(k, v);
                }
            }
            fn get(&self, x: i32, y: i32) -> Option<u32> {
                self.pixel(Point::new(x, y)).map(|c| c.tag())
            }
            fn img_get(&self, x: i32, y: i32) -> Option<u32> {
                self.as_image().pixel(Point::new(x, y)).map(|c| c.tag())
            }
            fn raw_img_get(&self, x: i32, y: i32) -> Result<Option<u32>, String> {
                let bs = buffer_size::<C>(W, H);
                let img: ImageRaw<C, $bo> = ImageRaw::new(&self.data()[0..bs], Size::new(W as u32, H as u32)).map_err(|e| format!("{:?}", e))?;
                Ok(img.pixel(Point::new(x, y)).map(|c| c.tag()))
            }
            fn bytes(&self) -> Vec<u8> {
                self.data().to_vec()
            }
            fn api_check(&self) -> Result<usize, String> {
                let d = <Self as Default>::default();
                let n = Self::new();
                if d.data()[..] != n.data()[..] || d.data().iter().any(|b| *b != 0) || d.data().len() != N {
                    return Err(format!("Framebuffer::default(): data {:?}, Framebuffer::new() has {:?} ({} zero bytes expected)", &d.data()[..], &n.data()[..], N));
                }
                for y in -1..=(H as i32) {
                    for x in -1..=(W as i32) {
                        let p = Point::new(x, y);
                        let (a, b) = (d.as_image().pixel(p).map(|c| c.tag()), n.as_image().pixel(p).map(|c| c.tag()));
                        let inside = x >= 0 && y >= 0 && (x as usize) < W && (y as usize) < H;
                        if a != b || a != if inside { Some(0) } else { None } {
                            return Err(format!("Framebuffer::default().as_image().pixel({},{}) = {:?}, new() gives {:?}", x, y, a, b));
                        }
                    }
                }
                if self.size() != Size::new(W as u32, H as u32) {
                    return Err(format!("OriginDimensions::size() = {:?} for WIDTH {} HEIGHT {}", self.size(), W, H));
                }
                if self.bounding_box() != Rectangle::new(Point::zero(), Size::new(W as u32, H as u32)) {
                    return Err(format!("Dimensions::bounding_box() = {:?} for WIDTH {} HEIGHT {}", self.bounding_box(), W, H));
                }
                // data() and data_mut() are views of the same N bytes
                let mut m = Self::new();
                if m.data_mut().len() != N {
                    return Err(format!("data_mut() has {} bytes, N = {}", m.data_mut().len(), N));
                }
                for (i, b) in m.data_mut().iter_mut().enumerate() {
                    *b = (i as u8).wrapping_mul(29) ^ 0x5A;
                }
                for (i, b) in m.data().iter().enumerate() {
                    if *b != (i as u8).wrapping_mul(29) ^ 0x5A {
                        return Err(format!("data()[{}] = {} after writing {} through data_mut()", i, b, (i as u8).wrapping_mul(29) ^ 0x5A));
                    }
                }
                if self.data().len() != N || self.data()[..] != self.bytes()[..] {
                    return Err("data() length".into());
                }
                Ok((W + 2) * (H + 2) + 2 * N + 3)
            }
            fn bytes_mut(&mut self) -> &mut [u8] {
                &mut self.data_mut()[..]
            }
            fn img_draw_native(&self, ox: i32, oy: i32) -> (String, Vec<u32>, usize, BTreeMap<(i32, i32), u32>) {
                let mut t = NativeTarget::<C>::new(Rectangle::new(Point::new(-64, -64), Size::new(256, 256)));
                t.drain = true;
                let raw = self.as_image();
                Image::new(&raw, Point::new(ox, oy)).draw(&mut t).unwrap();
                let mut area = String::from("nocall");
                let mut cols = Vec::new();
                if t.log.len() == 1 {
                    if let Call::FillContiguous(r, c) = &t.log[0] {
                        area = src(*r);
                        cols = c.clone();
                    }
                } else if t.log.len() > 1 {
                    area = format!("{}calls", t.log.len());
                }
                (area, cols, t.pulled.iter().sum(), t.map)
            }
            fn img_draw_iter(&self, ox: i32, oy: i32) -> BTreeMap<(i32, i32), u32> {
                let mut t = IterTarget::<C>::new(Rectangle::new(Point::new(-64, -64), Size::new(256, 256)));
                let raw = self.as_image();
                Image::new(&raw, Point::new(ox, oy)).draw(&mut t).unwrap();
                t.map
            }
        }
    };
}
impl_fblike!(RawU1, [BO: DataOrder,], BO);
impl_fblike!(RawU2, [BO: DataOrder,], BO);
impl_fblike!(RawU4, [BO: DataOrder,], BO);
impl_fblike!(RawU8, [BO: DataOrder,], BO);
impl_fblike!(RawU16, [], LittleEndianMsb0);
impl_fblike!(RawU16, [], BigEndianLsb0);
impl_fblike!(RawU24, [], LittleEndianMsb0);
impl_fblike!(RawU24, [], BigEndianLsb0);
impl_fblike!(RawU32, [], LittleEndianMsb0);
impl_fblike!(RawU32, [], BigEndianLsb0);

/// the instantiated sizes: (W, H, extra bytes).  Keep in sync with SIZES in props/C10.py.
macro_rules! sizes {
    ($C:ty, $O:ty, $w:expr, $h:expr, $e:expr) => {
        sizes!(@arms $C, $O, ($w, $h, $e);
            (1, 1, 0), (3, 2, 0), (3, 2, 3), (7, 3, 0), (8, 2, 0), (9, 2, 0), (9, 2, 5), (13, 5, 0), (13, 5, 1),
            (16, 1, 0), (17, 3, 0), (0, 2, 0), (3, 0, 2), (67, 2, 1), (2, 9, 0))
    };
    (@arms $C:ty, $O:ty, $key:expr; $(($W:literal, $H:literal, $E:literal)),*) => {
        match $key {
            $( ($W, $H, $E) => Box::new(Framebuffer::<$C, <$C as PixelColor>::Raw, $O, $W, $H, { buffer_size::<$C>($W, $H) + $E }>::new()) as Box<dyn FbLike>, )*
            _ => return None,
        }
    };
}

pub fn make(bpp: &str, alt: &str, w: usize, h: usize, e: usize) -> Option<Box<dyn FbLike>> {
    Some(match (bpp, alt) {
        ("1", "0") => sizes!(BinaryColor, LittleEndianMsb0, w, h, e),
        ("1", "1") => sizes!(BinaryColor, BigEndianLsb0, w, h, e),
        ("2", "0") => sizes!(Gray2, LittleEndianMsb0, w, h, e),
        ("2", "1") => sizes!(Gray2, BigEndianLsb0, w, h, e),
        ("4", "0") => sizes!(Gray4, LittleEndianMsb0, w, h, e),
        ("4", "1") => sizes!(Gray4, BigEndianLsb0, w, h, e),
        ("8", "0") => sizes!(Gray8, LittleEndianMsb0, w, h, e),
        ("8", "1") => sizes!(Gray8, BigEndianLsb0, w, h, e),
        ("16", "0") => sizes!(Rgb565, LittleEndianMsb0, w, h, e),
        ("16", "1") => sizes!(Rgb565, BigEndianLsb0, w, h, e),
        ("24", "0") => sizes!(Rgb888, LittleEndianMsb0, w, h, e),
        ("24", "1") => sizes!(Rgb888, BigEndianLsb0, w, h, e),
        ("32", "0") => sizes!(C32, LittleEndianMsb0, w, h, e),
        ("32", "1") => sizes!(C32, BigEndianLsb0, w, h, e),
        _ => return None,
    })
}

fn bytes_out(b: &[u8]) -> String {
    if b.is_empty() {
        "-".into()
    } else {
        b.iter().map(|x| x.to_string()).collect::<Vec<_>>().join(",")
    }
}
fn vals_out(b: &[u32]) -> String {
    if b.is_empty() {
        "-".into()
    } else {
        b.iter().map(|x| x.to_string()).collect::<Vec<_>>().join(",")
    }
}
/// background pattern shared with the model driver: byte i = (a * i + b) mod 256
fn preset(fb: &mut dyn FbLike, a: usize, b: usize) {
    for (i, x) in fb.bytes_mut().iter_mut().enumerate() {
        *x = ((a * i + b) % 256) as u8;
    }
}
/// pixel() over the window -1..=W x -1..=H, row-major; `n` = None
fn window(fb: &dyn FbLike) -> String {
    let (w, h, _, _) = fb.dims();
    let mut out = Vec::new();
    for y in -1..=(h as i32) {
        for x in -1..=(w as i32) {
            out.push(fb.get(x, y).map(|v| v.to_string()).unwrap_or_else(|| "n".into()));
        }
    }
    out.join(",")
}
fn i3(s: &str) -> Vec<i64> {
    s.split(':').map(|t| t.parse::<i64>().unwrap()).collect()
}
fn mask(bpp: usize, v: i64) -> u32 {
    if bpp >= 32 {
        v as u32
    } else {
        (v as u64 & ((1u64 << bpp) - 1)) as u32
    }
}

/// one operation token: S:x:y:v | D:x:y:v;x:y:v;... | F:x:y:w:h:v | G:x:y:w:h/v,v,... | C:v
fn apply(fb: &mut dyn FbLike, bpp: usize, op: &str) {
    let (k, rest) = op.split_at(1);
    let rest = &rest[1..];
    match k {
        "S" => {
            let a = i3(rest);
            fb.set(a[0] as i32, a[1] as i32, mask(bpp, a[2]));
        }
        "D" => {
            let px: Vec<(i32, i32, u32)> = if rest.is_empty() {
                vec![]
            } else {
                rest.split(';').map(|t| { let a = i3(t); (a[0] as i32, a[1] as i32, mask(bpp, a[2])) }).collect()
            };
            fb.draw_px(&px);
        }
        "F" => {
            let a = i3(rest);
            fb.fill(Rectangle::new(Point::new(a[0] as i32, a[1] as i32), Size::new(a[2] as u32, a[3] as u32)), mask(bpp, a[4]));
        }
        "G" => {
            // G:x:y:w:h/v1,v2,...  fill_contiguous with a finite colour list (shorter / longer than the area allowed)
            let (r, cols) = rest.split_once('/').unwrap();
            let a = i3(r);
            let vs: Vec<u32> = if cols.is_empty() { vec![] } else { cols.split(',').map(|t| mask(bpp, t.parse::<i64>().unwrap())).collect() };
            fb.fill_contig(Rectangle::new(Point::new(a[0] as i32, a[1] as i32), Size::new(a[2] as u32, a[3] as u32)), &vs);
        }
        "C" => {
            let a = i3(rest);
            fb.clear_(mask(bpp, a[0]));
        }
        _ => panic!("bad op"),
    }
}

pub fn run(suite: &str, a: &[&str]) -> Option<String> {
    Some(match suite {
        // fb_hist <bpp> <alt> <w> <h> <extra> <bgA> <bgB> <ops...>  ->  "<bytes> <window>"
        "fb_hist" => {
            let mut fb = match make(a[0], a[1], us(a[2]), us(a[3]), us(a[4])) {
                Some(f) => f,
                None => return Some("BAD-TYPE".into()),
            };
            preset(&mut *fb, us(a[5]), us(a[6]));
            for op in &a[7..] {
                apply(&mut *fb, us(a[0]), op);
            }
            format!("{} {}", bytes_out(&fb.bytes()), window(&*fb))
        }
        // fb_img <bpp> <alt> <w> <h> <extra> <bgA> <bgB>  ->  colours handed to fill_contiguous by as_image() drawn at the origin
        "fb_img" => {
            let mut fb = match make(a[0], a[1], us(a[2]), us(a[3]), us(a[4])) {
                Some(f) => f,
                None => return Some("BAD-TYPE".into()),
            };
            preset(&mut *fb, us(a[5]), us(a[6]));
            let (_, cols, pulled, _) = fb.img_draw_native(0, 0);
            format!("{} {}", pulled, vals_out(&cols))
        }
        _ => return search(suite, a),
    })
}

// ---------------------------------------------------------------------------------------------
// direct property search (implementation only)
// ---------------------------------------------------------------------------------------------
struct Sm(u64);
impl Sm {
    fn next(&mut self) -> u64 {
        self.0 = self.0.wrapping_add(0x9E3779B97F4A7C15);
        let mut z = self.0;
        z = (z ^ (z >> 30)).wrapping_mul(0xBF58476D1CE4E5B9);
        z = (z ^ (z >> 27)).wrapping_mul(0x94D049BB133111EB);
        z ^ (z >> 31)
    }
    fn below(&mut self, n: u64) -> u64 {
        self.next() % n
    }
}

/// the documented ImageRaw layout, bit by bit: rows padded to whole bytes, pixel (x, y) starts at bit
/// y * row_bytes * 8 + x * bpp (counted MSB-first for LittleEndianMsb0 sub-byte pixels, LSB-first for
/// BigEndianLsb0), multi-byte values little / big endian
fn ref_layout(bpp: usize, alt: bool, w: usize, h: usize, map: &BTreeMap<(i32, i32), u32>, len: usize) -> Vec<u8> {
    let row_bytes = (w * bpp + 7) / 8;
    let mut out = vec![0u8; len];
    for y in 0..h {
        for x in 0..w {
            let v = *map.get(&(y as i32, x as i32)).unwrap_or(&0);
            if bpp < 8 {
                let byte = y * row_bytes + x * bpp / 8;
                let o = x * bpp % 8;
                let shift = if alt { o } else { 8 - bpp - o };
                out[byte] |= (v as u8) << shift;
            } else {
                let n = bpp / 8;
                for k in 0..n {
                    let b = ((v >> (8 * k)) & 0xFF) as u8; // k-th least significant byte
                    let pos = if alt { n - 1 - k } else { k };
                    out[(y * w + x) * n + pos] = b;
                }
            }
        }
    }
    out
}

fn check_state(fb: &dyn FbLike, bpp: usize, alt: bool, reference: &BTreeMap<(i32, i32), u32>, tail: &[u8], what: &str) -> Result<usize, String> {
    let (w, h, bs, n) = fb.dims();
    let mut checks = 0;
    // every point of a window around the framebuffer, through the three readers
    for y in -2..=(h as i32 + 1) {
        for x in -2..=(w as i32 + 1) {
            let inside = x >= 0 && y >= 0 && (x as usize) < w && (y as usize) < h;
            let want = if inside { Some(*reference.get(&(y, x)).unwrap_or(&0)) } else { None };
            let got = fb.get(x, y);
            if got != want {
                return Err(format!("FAIL after {}: pixel({},{}) = {:?}, last written {:?}", what, x, y, got, want));
            }
            let gi = fb.img_get(x, y);
            if gi != want {
                return Err(format!("FAIL after {}: as_image().pixel({},{}) = {:?}, last written {:?}", what, x, y, gi, want));
            }
            match fb.raw_img_get(x, y) {
                Ok(g) if g == want => {}
                other => return Err(format!("FAIL after {}: ImageRaw over data[..BUFFER_SIZE] pixel({},{}) = {:?}, last written {:?}", what, x, y, other, want)),
            }
            checks += 3;
        }
    }
    // far away points
    for (x, y) in [(i32::MAX, 0), (0, i32::MAX), (i32::MIN, 0), (0, i32::MIN), (i32::MIN, i32::MIN), (i32::MAX, i32::MAX), (w as i32, 0), (0, h as i32), (-1, 0), (0, -1)] {
        if fb.get(x, y).is_some() {
            return Err(format!("FAIL pixel({},{}) outside {}x{} is Some", x, y, w, h));
        }
    }
    // the bytes are the documented layout of the reference map, and the tail is untouched
    let data = fb.bytes();
    let want = ref_layout(bpp, alt, w, h, reference, bs);
    if data[..bs] != want[..] {
        return Err(format!("FAIL after {}: data[..{}] = {:?}, the documented layout of the written pixels is {:?}", what, bs, &data[..bs], want));
    }
    if data[bs..] != *tail {
        return Err(format!("FAIL after {}: bytes beyond BUFFER_SIZE {} changed: {:?} -> {:?}", what, bs, tail, &data[bs..]));
    }
    if data.len() != n {
        return Err("FAIL data length".into());
    }
    Ok(checks + bs)
}

/// p_fb_hist <bpp> <alt> <w> <h> <extra> <seed> <nops> <shapes:0|1>
fn p_hist(a: &[&str]) -> String {
    let bpp = us(a[0]);
    let alt = a[1] == "1";
    let mut fb = match make(a[0], a[1], us(a[2]), us(a[3]), us(a[4])) {
        Some(f) => f,
        None => return "FAIL BAD-TYPE".into(),
    };
    let (w, h, bs, _n) = fb.dims();
    let mut rng = Sm(a[5].parse::<u64>().unwrap());
    let nops = us(a[6]);
    let shapes = a[7] == "1";
    // mark the tail of an oversized buffer
    let tail: Vec<u8> = {
        let d = fb.bytes_mut();
        for (i, x) in d.iter_mut().enumerate().skip(bs) {
            *x = (0xA5 ^ (i as u8).wrapping_mul(37)) | 1;
        }
        d[bs..].to_vec()
    };
    let mut reference: BTreeMap<(i32, i32), u32> = BTreeMap::new();
    let bb = Rectangle::new(Point::zero(), Size::new(w as u32, h as u32));
    let maxv: u64 = if bpp >= 32 { u32::MAX as u64 } else { (1u64 << bpp) - 1 };
    let val = |rng: &mut Sm| -> u32 {
        match rng.below(6) {
            0 => 0,
            1 => maxv as u32,
            2 => 1,
            3 => (0x12345678u64 & maxv) as u32,
            _ => (rng.next() & maxv) as u32,
        }
    };
    let coord = |rng: &mut Sm, m: usize| -> i32 {
        match rng.below(10) {
            0 => -1,
            1 => m as i32,
            2 => m as i32 - 1,
            3 => 0,
            4 => *[i32::MIN, i32::MAX, -70000, 70000, 256, -256].get(rng.below(6) as usize).unwrap(),
            _ => rng.below(m as u64 + 1) as i32,
        }
    };
    let inside = |x: i32, y: i32| x >= 0 && y >= 0 && (x as usize) < w && (y as usize) < h;
    let mut total = match check_state(&*fb, bpp, alt, &reference, &tail, "new()") {
        Ok(k) => k,
        Err(e) => return e,
    };
    for step in 0..nops {
        let kind = rng.below(if shapes { 10 } else { 8 });
        let what;
        match kind {
            0..=3 => {
                let (x, y, v) = (coord(&mut rng, w), coord(&mut rng, h), val(&mut rng));
                let before = fb.bytes();
                fb.set(x, y, v);
                if inside(x, y) {
                    reference.insert((y, x), v);
                } else if fb.bytes() != before {
                    return format!("FAIL set_pixel(({},{}), {}) outside {}x{} changed bytes {:?} -> {:?}", x, y, v, w, h, before, fb.bytes());
                }
                what = format!("op {} set_pixel(({},{}),{})", step, x, y, v);
            }
            4 | 5 => {
                let k = rng.below(7) as usize;
                let px: Vec<(i32, i32, u32)> = (0..k).map(|_| (coord(&mut rng, w), coord(&mut rng, h), val(&mut rng))).collect();
                fb.draw_px(&px);
                for (x, y, v) in &px {
                    if inside(*x, *y) {
                        reference.insert((*y, *x), *v);
                    }
                }
                what = format!("op {} draw_iter({:?})", step, px);
            }
            6 => {
                let r = Rectangle::new(Point::new(coord(&mut rng, w).clamp(-3, 40), coord(&mut rng, h).clamp(-3, 40)), Size::new(rng.below(w as u64 + 3) as u32, rng.below(h as u64 + 3) as u32));
                if rng.below(2) == 0 {
                    let v = val(&mut rng);
                    fb.fill(r, v);
                    for p in r.intersection(&bb).points() {
                        reference.insert((p.y, p.x), v);
                    }
                    what = format!("op {} fill_solid({:?},{})", step, r, v);
                } else {
                    let k = (r.size.width * r.size.height) as usize;
                    let vs: Vec<u32> = (0..k).map(|_| val(&mut rng)).collect();
                    fb.fill_contig(r, &vs);
                    for (p, v) in r.points().zip(vs.iter()) {
                        if inside(p.x, p.y) {
                            reference.insert((p.y, p.x), *v);
                        }
                    }
                    what = format!("op {} fill_contiguous({:?})", step, r);
                }
            }
            7 => {
                let v = val(&mut rng);
                fb.clear_(v);
                for p in bb.points() {
                    reference.insert((p.y, p.x), v);
                }
                what = format!("op {} clear({})", step, v);
            }
            _ => {
                let mut c6 = [0i32; 6];
                for (k, c) in c6.iter_mut().enumerate() {
                    *c = rng.below(if k % 2 == 0 { w as u64 + 8 } else { h as u64 + 8 }) as i32 - 4;
                }
                let sw = rng.below(4) as u32;
                let stroke = if rng.below(4) > 0 { Some(val(&mut rng)) } else { None };
                let fill = if rng.below(2) > 0 { Some(val(&mut rng)) } else { None };
                let sk = rng.below(4) as usize;
                let mut rt = IterTargetAny { bb, map: BTreeMap::new() };
                fb.shape(sk, c6, sw, stroke, fill, &mut rt);
                for (k, v) in rt.map {
                    reference.insert(k, v);
                }
                what = format!("op {} shape kind {} {:?} width {} stroke {:?} fill {:?}", step, sk, c6, sw, stroke, fill);
            }
        }
        match check_state(&*fb, bpp, alt, &reference, &tail, &what) {
            Ok(k) => total += k,
            Err(e) => return e,
        }
    }
    // as_image() drawn (at an offset) reproduces the content, on both kinds of target
    let (ox, oy) = (rng.below(9) as i32 - 4, rng.below(9) as i32 - 4);
    let mut want: BTreeMap<(i32, i32), u32> = BTreeMap::new();
    for y in 0..h as i32 {
        for x in 0..w as i32 {
            want.insert((y + oy, x + ox), *reference.get(&(y, x)).unwrap_or(&0));
        }
    }
    let (area, cols, pulled, map) = fb.img_draw_native(ox, oy);
    if w > 0 && h > 0 {
        let want_area = src(Rectangle::new(Point::new(ox, oy), Size::new(w as u32, h as u32)));
        if area != want_area {
            return format!("FAIL as_image() drawn at ({},{}): fill_contiguous area {} expected {}", ox, oy, area, want_area);
        }
        if pulled != w * h || cols.len() != w * h {
            return format!("FAIL as_image() drawn: colour stream has {} items for {}x{}", pulled, w, h);
        }
    }
    if map != want {
        return format!("FAIL as_image() drawn at ({},{}) on a native target: {} expected {}", ox, oy, smap(&map), smap(&want));
    }
    let m2 = fb.img_draw_iter(ox, oy);
    if m2 != want {
        return format!("FAIL as_image() drawn at ({},{}) on a draw_iter target: {} expected {}", ox, oy, smap(&m2), smap(&want));
    }
    format!("OK {}", total + 2 * w * h)
}

/// p_fb_each <bpp> <alt> <w> <h> <extra> <seed>: every pixel written alone into an otherwise patterned
/// framebuffer: exactly its bits change, every other pixel reads as before
fn p_each(a: &[&str]) -> String {
    let bpp = us(a[0]);
    let alt = a[1] == "1";
    let mut rng = Sm(a[5].parse::<u64>().unwrap());
    let proto = match make(a[0], a[1], us(a[2]), us(a[3]), us(a[4])) {
        Some(f) => f,
        None => return "FAIL BAD-TYPE".into(),
    };
    let (w, h, bs, n) = proto.dims();
    let maxv: u64 = if bpp >= 32 { u32::MAX as u64 } else { (1u64 << bpp) - 1 };
    let mut checks = match proto.api_check() {
        Ok(k) => k,
        Err(e) => return format!("FAIL {}", e),
    };
    for round in 0..2 {
        // background: a full pattern written through set_pixel (so that the padding bits stay zero in
        // round 0) or raw bytes (round 1: padding bits set, they must survive)
        let mut fb = make(a[0], a[1], us(a[2]), us(a[3]), us(a[4])).unwrap();
        if round == 1 {
            for x in fb.bytes_mut().iter_mut() {
                *x = rng.next() as u8;
            }
        } else {
            for y in 0..h as i32 {
                for x in 0..w as i32 {
                    fb.set(x, y, (rng.next() & maxv) as u32);
                }
            }
        }
        let before = fb.bytes();
        let mut before_px = BTreeMap::new();
        for y in 0..h as i32 {
            for x in 0..w as i32 {
                before_px.insert((y, x), fb.get(x, y));
            }
        }
        for y in 0..h as i32 {
            for x in 0..w as i32 {
                for v in [0u32, maxv as u32, (rng.next() & maxv) as u32] {
                    fb.bytes_mut().copy_from_slice(&before);
                    fb.set(x, y, v);
                    if fb.get(x, y) != Some(v) {
                        return format!("FAIL set_pixel(({},{}),{}) then pixel = {:?}", x, y, v, fb.get(x, y));
                    }
                    for yy in 0..h as i32 {
                        for xx in 0..w as i32 {
                            if (xx, yy) != (x, y) && fb.get(xx, yy) != before_px[&(yy, xx)] {
                                return format!("FAIL set_pixel(({},{}),{}) changed pixel ({},{}): {:?} -> {:?}", x, y, v, xx, yy, before_px[&(yy, xx)], fb.get(xx, yy));
                            }
                        }
                    }
                    // bit-level: only the bits of pixel (x, y) in the documented layout may differ
                    let after = fb.bytes();
                    let row_bytes = (w * bpp + 7) / 8;
                    let mut allowed = vec![0u8; n];
                    if bpp < 8 {
                        let o = (x as usize) * bpp % 8;
                        let shift = if alt { o } else { 8 - bpp - o };
                        allowed[(y as usize) * row_bytes + (x as usize) * bpp / 8] = (((1u16 << bpp) - 1) << shift) as u8;
                    } else {
                        let nb = bpp / 8;
                        for k in 0..nb {
                            allowed[((y as usize) * w + x as usize) * nb + k] = 0xFF;
                        }
                    }
                    for i in 0..n {
                        if (after[i] ^ before[i]) & !allowed[i] != 0 {
                            return format!("FAIL set_pixel(({},{}),{}) changed byte {} from {:#010b} to {:#010b}; only mask {:#010b} belongs to the pixel (BUFFER_SIZE {})", x, y, v, i, before[i], after[i], allowed[i], bs);
                        }
                    }
                    checks += 1;
                }
            }
        }
    }
    format!("OK {}", checks)
}

pub fn search(suite: &str, a: &[&str]) -> Option<String> {
    Some(match suite {
        "p_fb_hist" => p_hist(a),
        "p_fb_each" => p_each(a),
        _ => return None,
    })
}
