//! C11: raw pixel load/store and RawDataIterator on the real library
use crate::util::*;
use embedded_graphics::iterator::raw::RawDataSlice;
use embedded_graphics::pixelcolor::raw::{
    BigEndianLsb0, DataOrder, LittleEndianMsb0, RawData, RawU1, RawU16, RawU2, RawU24, RawU32, RawU4, RawU8,
};

/// calls `$f::<R, O>($args..)` for the raw type / data order named by the tokens
macro_rules! by_type {
    ($bpp:expr, $alt:expr, $f:ident ( $($args:expr),* )) => {
        match ($bpp, $alt) {
            ("1", "0") => $f::<RawU1, LittleEndianMsb0>($($args),*),
            ("1", "1") => $f::<RawU1, BigEndianLsb0>($($args),*),
            ("2", "0") => $f::<RawU2, LittleEndianMsb0>($($args),*),
            ("2", "1") => $f::<RawU2, BigEndianLsb0>($($args),*),
            ("4", "0") => $f::<RawU4, LittleEndianMsb0>($($args),*),
            ("4", "1") => $f::<RawU4, BigEndianLsb0>($($args),*),
            ("8", "0") => $f::<RawU8, LittleEndianMsb0>($($args),*),
            ("8", "1") => $f::<RawU8, BigEndianLsb0>($($args),*),
            ("16", "0") => $f::<RawU16, LittleEndianMsb0>($($args),*),
            ("16", "1") => $f::<RawU16, BigEndianLsb0>($($args),*),
            ("24", "0") => $f::<RawU24, LittleEndianMsb0>($($args),*),
            ("24", "1") => $f::<RawU24, BigEndianLsb0>($($args),*),
            ("32", "0") => $f::<RawU32, LittleEndianMsb0>($($args),*),
            ("32", "1") => $f::<RawU32, BigEndianLsb0>($($args),*),
            _ => return Some("BAD-TYPE".into()),
        }
    };
}

fn bytes_in(a: &[&str]) -> Vec<u8> {
    a.iter().map(|s| s.parse::<u16>().unwrap() as u8).collect()
}
fn bytes_out(b: &[u8]) -> String {
    if b.is_empty() {
        "-".into()
    } else {
        b.iter().map(|x| x.to_string()).collect::<Vec<_>>().join(",")
    }
}
fn val<R: RawData>(r: R) -> u32
where
    R::Storage: Into<u32>,
{
    r.into_inner().into()
}
fn opt_val<R: RawData>(r: Option<R>) -> String
where
    R::Storage: Into<u32>,
{
    r.map(|r| val(r).to_string()).unwrap_or_else(|| "none".into())
}
fn hint(h: (usize, Option<usize>)) -> String {
    format!("{}:{}", h.0, h.1.map(|x| x.to_string()).unwrap_or_else(|| "none".into()))
}

fn rd_store<R: RawData, O: DataOrder>(idx: usize, v: u32, bytes: &[&str]) -> String
where
    R::Storage: Into<u32>,
{
    let mut buf = bytes_in(bytes);
    // the value from_u32 built (observes the mask), the store result, all bytes, the value loaded back
    let rv = val(R::from_u32(v));
    let ok = R::from_u32(v).store::<O>(&mut buf, idx).is_ok();
    format!("{} {} {} {}", rv, sb(ok), bytes_out(&buf), opt_val(R::load::<O>(&buf, idx)))
}
fn rd_load<R: RawData, O: DataOrder>(idx: usize, bytes: &[&str]) -> String
where
    R::Storage: Into<u32>,
{
    opt_val(R::load::<O>(&bytes_in(bytes), idx))
}
fn rd_iter<R: RawData, O: DataOrder>(bytes: &[&str]) -> String
where
    R::Storage: Into<u32>,
{
    let buf = bytes_in(bytes);
    let h = RawDataSlice::<R, O>::new(&buf).into_iter().size_hint();
    let mut items = Vec::new();
    for r in RawDataSlice::<R, O>::new(&buf) {
        items.push(val(r).to_string());
    }
    format!("{} {}", if items.is_empty() { "-".into() } else { items.join(",") }, hint(h))
}
fn rd_ops<R: RawData, O: DataOrder>(bytes: &[&str], ops: &[&str]) -> String
where
    R::Storage: Into<u32>,
{
    let buf = bytes_in(bytes);
    let mut it = RawDataSlice::<R, O>::new(&buf).into_iter();
    let mut out = vec![hint(it.size_hint())];
    for op in ops {
        let item = if *op == "N" { it.next() } else { it.nth(op[1..].parse::<usize>().unwrap()) };
        out.push(format!("{}@{}", opt_val(item), hint(it.size_hint())));
    }
    out.join(" ")
}

/// a large buffer given by a rule instead of a byte list: byte k = (a * k + b + (k >> 8) + (k >> 16)) mod 256
fn big_buf(len: usize, a: usize, b: usize) -> Vec<u8> {
    (0..len).map(|k| ((a * k + b + (k >> 8) + (k >> 16)) % 256) as u8).collect()
}
/// rd_big <bpp> <alt> <len> <a> <b> <idx> <v>: load, store (bytes of the 8 bytes around the pixel), load back, and the
/// neighbours idx-1 / idx+1 before and after, on a buffer of `len` bytes
fn rd_big<R: RawData, O: DataOrder>(bpp: usize, len: usize, a: usize, b: usize, idx: usize, v: u32) -> String
where
    R::Storage: Into<u32>,
{
    let mut buf = big_buf(len, a, b);
    let before = buf.clone();
    let l0 = opt_val(R::load::<O>(&buf, idx));
    let n0 = format!("{}/{}", opt_val(R::load::<O>(&buf, idx.wrapping_sub(1))), opt_val(R::load::<O>(&buf, idx.saturating_add(1))));
    let ok = R::from_u32(v).store::<O>(&mut buf, idx).is_ok();
    let l1 = opt_val(R::load::<O>(&buf, idx));
    let n1 = format!("{}/{}", opt_val(R::load::<O>(&buf, idx.wrapping_sub(1))), opt_val(R::load::<O>(&buf, idx.saturating_add(1))));
    // positions of all changed bytes
    let changed: Vec<String> = (0..len).filter(|k| buf[*k] != before[*k]).map(|k| format!("{}:{}", k, buf[k])).collect();
    let _ = bpp;
    format!("{} {} {} {} {} {}", l0, n0, sb(ok), l1, n1, if changed.is_empty() { "-".into() } else { changed.join(",") })
}
/// rd_big_nth <bpp> <alt> <len> <a> <b> <k1> <k2>: nth(k1) then nth(k2) with size_hint, on a large buffer
fn rd_big_nth<R: RawData, O: DataOrder>(len: usize, a: usize, b: usize, k1: usize, k2: usize) -> String
where
    R::Storage: Into<u32>,
{
    let buf = big_buf(len, a, b);
    let mut it = RawDataSlice::<R, O>::new(&buf).into_iter();
    let h0 = hint(it.size_hint());
    let x1 = opt_val(it.nth(k1));
    let h1 = hint(it.size_hint());
    let x2 = opt_val(it.nth(k2));
    let h2 = hint(it.size_hint());
    format!("{} {}@{} {}@{}", h0, x1, h1, x2, h2)
}

pub fn run(suite: &str, a: &[&str]) -> Option<String> {
    Some(match suite {
        "rd_big" => by_type!(a[0], a[1], rd_big(us(a[0]), us(a[2]), us(a[3]), us(a[4]), us(a[5]), a[6].parse::<u64>().unwrap() as u32)),
        "rd_big_nth" => by_type!(a[0], a[1], rd_big_nth(us(a[2]), us(a[3]), us(a[4]), us(a[5]), us(a[6]))),
        "rd_store" => by_type!(a[0], a[1], rd_store(us(a[2]), a[3].parse::<u64>().unwrap() as u32, &a[4..])),
        "rd_load" => by_type!(a[0], a[1], rd_load(us(a[2]), &a[3..])),
        "rd_iter" => by_type!(a[0], a[1], rd_iter(&a[2..])),
        "rd_ops" => {
            let n = us(a[2]);
            by_type!(a[0], a[1], rd_ops(&a[3..3 + n], &a[3 + n..]))
        }
        _ => return search(suite, a),
    })
}

// ---------------------------------------------------------------------------------------------
// direct property search (implementation only).  The reference below is the DOCUMENTED layout,
// written bit by bit from the global bit offset of a pixel, independently of bit_position().
// ---------------------------------------------------------------------------------------------
struct Sm(u64);
impl Sm {
    fn next(&mut self) -> u64 {
        self.0 = self.0.wrapping_add(0x9E3779B97F4A7C15);
        let mut z = self.0;
        z = (z ^ (z >> 30)).wrapping_mul(0xBF58476D1CE4E5B9);
        z = (z ^ (z >> 27)).wrapping_mul(0x94D049BB133111EB);
        z ^ (z >> 31)
    }
}

/// number of whole pixels in `len` bytes
fn ref_total(bpp: usize, len: usize) -> u128 {
    (len as u128 * 8) / bpp as u128
}
/// (byte, bit) holding bit `b` (0 = least significant) of pixel `i`
fn ref_bit(bpp: usize, alt: bool, i: u128, b: usize) -> (u128, usize) {
    if bpp < 8 {
        let off = i * bpp as u128; // global bit offset of the pixel, counted in storage order
        let byte = off / 8;
        let o = (off % 8) as usize;
        if alt {
            (byte, o + b) // least significant bit first
        } else {
            (byte, 7 - o - (bpp - 1 - b)) // most significant bit first
        }
    } else {
        let n = bpp / 8;
        let k = b / 8; // k-th least significant byte of the value
        let pos = if alt { n - 1 - k } else { k };
        (i * n as u128 + pos as u128, b % 8)
    }
}
fn ref_load(bpp: usize, alt: bool, buf: &[u8], i: u128) -> Option<u32> {
    if i >= ref_total(bpp, buf.len()) {
        return None;
    }
    let mut v = 0u32;
    for b in 0..bpp {
        let (by, bi) = ref_bit(bpp, alt, i, b);
        if (buf[by as usize] >> bi) & 1 == 1 {
            v |= 1 << b;
        }
    }
    Some(v)
}
fn ref_store(bpp: usize, alt: bool, buf: &mut [u8], i: u128, v: u32) -> bool {
    if i >= ref_total(bpp, buf.len()) {
        return false;
    }
    for b in 0..bpp {
        let (by, bi) = ref_bit(bpp, alt, i, b);
        let m = 1u8 << bi;
        if (v >> b) & 1 == 1 {
            buf[by as usize] |= m;
        } else {
            buf[by as usize] &= !m;
        }
    }
    true
}

fn values(bpp: usize, mode: usize, rng: &mut Sm) -> Vec<u32> {
    let max: u64 = (1u64 << bpp) - 1;
    if bpp <= 8 || (mode == 1 && bpp <= 16) {
        return (0..=max as u32).collect();
    }
    let mut v: Vec<u32> = vec![0, 1, 2, 0x55, 0xAA, 0xFF, 0x100, 0x1234, 0x8000, 0xFF00, 0xFFFF];
    for k in 0..bpp {
        v.push(((1u64 << k) & max) as u32);
        v.push((((1u64 << k) - 1) & max) as u32);
        v.push((max ^ (1u64 << k)) as u32);
    }
    v.extend([0x010203u64, 0x123456, 0xFFFFFF, 0x01020304, 0x12345678, 0x80000000, 0xFFFFFFFF].iter().map(|x| (*x & max) as u32));
    let n = if mode == 1 { 4096 } else { 48 };
    for _ in 0..n {
        v.push((rng.next() & max) as u32);
    }
    v
}

fn p_store<R: RawData, O: DataOrder>(bpp: usize, idx: usize, mode: usize, seed: u64, bytes: &[&str]) -> String
where
    R::Storage: Into<u32>,
{
    let alt = O::IS_ALTERNATE_ORDER;
    let before = bytes_in(bytes);
    let mut rng = Sm(seed);
    let total = ref_total(bpp, before.len());
    let mut n = 0usize;
    // unmasked u32 inputs: from_u32 must mask to the pixel width, and store/load must agree with the masked value
    let maxv: u64 = if bpp >= 32 { u32::MAX as u64 } else { (1u64 << bpp) - 1 };
    for raw in [0xFFFF_FFFFu32, 0xFF12_3456, 0x8000_0000, 0x0100_0000, 0xA5A5_A5A5, rng.next() as u32] {
        let rv = val(R::from_u32(raw));
        let want = (raw as u64 & maxv) as u32;
        if rv != want {
            return format!("FAIL from_u32({:#x}) holds {:#x}, a {}-bit raw value must be {:#x}", raw, rv, bpp, want);
        }
        let mut buf = before.clone();
        if R::from_u32(raw).store::<O>(&mut buf, idx).is_ok() {
            let back = R::load::<O>(&buf, idx).map(val);
            if back != Some(want) {
                return format!("FAIL from_u32({:#x}).store at {} then load = {:?}, expected {:#x}", raw, idx, back, want);
            }
        }
    }
    for v in values(bpp, mode, &mut rng) {
        let mut buf = before.clone();
        let res = R::from_u32(v).store::<O>(&mut buf, idx);
        let mut expect = before.clone();
        let inr = ref_store(bpp, alt, &mut expect, idx as u128, v);
        if res.is_ok() != inr {
            return format!("FAIL store({}) at index {} of {} pixels returned {:?}", v, idx, total, res);
        }
        if buf != expect {
            return format!("FAIL store({}) at {}: bytes {:?} -> {:?}, documented layout gives {:?}", v, idx, before, buf, expect);
        }
        let got = R::load::<O>(&buf, idx).map(val);
        if got != (if inr { Some(v) } else { None }) {
            return format!("FAIL load after store({}) at {} = {:?}", v, idx, got);
        }
        // every pixel index (and a few beyond the end) reads what the documented layout says; all but idx unchanged
        let mut j = 0u128;
        while j < total + 3 {
            let l = R::load::<O>(&buf, j as usize).map(val);
            if l != ref_load(bpp, alt, &buf, j) {
                return format!("FAIL load({}) = {:?} but the layout holds {:?}", j, l, ref_load(bpp, alt, &buf, j));
            }
            if j != idx as u128 && l != ref_load(bpp, alt, &before, j) {
                return format!("FAIL store at {} changed pixel {}", idx, j);
            }
            j += 1;
        }
        n += 1;
    }
    format!("OK {}", n)
}

fn p_iter<R: RawData, O: DataOrder>(bpp: usize, seed: u64, nops: usize, bytes: &[&str]) -> String
where
    R::Storage: Into<u32>,
{
    let alt = O::IS_ALTERNATE_ORDER;
    let buf = bytes_in(bytes);
    let total = ref_total(bpp, buf.len()) as usize;
    // items of a `for` loop = load(0), load(1), ... = documented layout
    let items: Vec<u32> = RawDataSlice::<R, O>::new(&buf).into_iter().map(val).collect();
    if items.len() != total {
        return format!("FAIL iterator yields {} items, buffer holds {} pixels", items.len(), total);
    }
    for (j, it) in items.iter().enumerate() {
        if Some(*it) != R::load::<O>(&buf, j).map(val) || Some(*it) != ref_load(bpp, alt, &buf, j as u128) {
            return format!("FAIL item {} = {} load = {:?} layout = {:?}", j, it, R::load::<O>(&buf, j).map(val), ref_load(bpp, alt, &buf, j as u128));
        }
    }
    if R::load::<O>(&buf, total).is_some() {
        return format!("FAIL load({}) past the end is Some", total);
    }
    // size_hint at every position of a plain next() walk
    let mut it = RawDataSlice::<R, O>::new(&buf).into_iter();
    for pos in 0..=total {
        let (lo, hi) = it.size_hint();
        let rem = total - pos;
        if lo > rem || hi.map_or(false, |h| h < rem) {
            return format!("FAIL size_hint {:?} at position {} with {} items remaining", (lo, hi), pos, rem);
        }
        let x = it.next().map(val);
        if x != items.get(pos).copied() {
            return format!("FAIL next at {} = {:?}", pos, x);
        }
    }
    // huge skips: `index + n` must saturate (not wrap back into the buffer), whatever the position
    for pos in 0..=core::cmp::min(total, 3) {
        for j in 0..=pos + 1 {
            let mut it = RawDataSlice::<R, O>::new(&buf).into_iter();
            for _ in 0..pos {
                it.next();
            }
            let n = usize::MAX - j;
            let want = if (pos as u128 + n as u128) < total as u128 { Some(items[pos + n]) } else { None };
            let r = std::panic::catch_unwind(std::panic::AssertUnwindSafe(|| it.nth(n).map(val)));
            match r {
                Err(_) => return format!("FAIL nth({}) at position {} panicked at {}", n, pos, LAST_PANIC.with(|p| p.borrow().clone())),
                Ok(got) => {
                    if got != want {
                        return format!("FAIL nth({}) at position {} of {} items = {:?}, expected {:?}", n, pos, total, got, want);
                    }
                }
            }
            if let Some(x) = it.next() {
                return format!("FAIL next() after nth({}) at position {} = Some({})", n, pos, val(x));
            }
            if it.size_hint() != (0, Some(0)) {
                return format!("FAIL size_hint {:?} after nth({}) at position {}", it.size_hint(), n, pos);
            }
        }
    }
    // random mixes of next / nth
    let mut rng = Sm(seed);
    let mut checks = 0;
    for _ in 0..4 {
        let mut it = RawDataSlice::<R, O>::new(&buf).into_iter();
        let mut pos: u128 = 0;
        for _ in 0..nops {
            let r = rng.next();
            let (got, want) = if r % 3 == 0 {
                let w = items.get(pos as usize).copied();
                if pos < total as u128 {
                    pos += 1;
                }
                (it.next().map(val), w)
            } else {
                let k = match (r >> 8) % 8 {
                    0 => 0,
                    1 => 1,
                    2 => (r >> 16) as usize % (total + 2),
                    3 => total,
                    _ => (r >> 16) as usize % (total / 3 + 2),
                };
                let tgt = pos + k as u128;
                let w = if tgt < total as u128 { Some(items[tgt as usize]) } else { None };
                pos = if tgt < total as u128 { tgt + 1 } else { tgt };
                (it.nth(k).map(val), w)
            };
            if got != want {
                return format!("FAIL next/nth mix: got {:?}, the item list says {:?} (position now {})", got, want, pos);
            }
            let (lo, hi) = it.size_hint();
            let rem = (total as u128).saturating_sub(pos) as usize;
            if lo > rem || hi.map_or(false, |h| h < rem) {
                return format!("FAIL size_hint {:?} with {} items remaining (position {})", (lo, hi), rem, pos);
            }
            checks += 1;
        }
    }
    format!("OK {}", total + checks)
}

/// indices far beyond the buffer: load -> None, store -> Err and no byte changes, nth -> None.
/// `index * bytes_per_pixel` is `index.checked_mul(N)` (load_store.rs): an offset outside usize must be
/// rejected like any other index beyond the buffer (before the repair it wrapped / panicked); a failure
/// of that kind is reported with its class.
fn p_far<R: RawData, O: DataOrder>(bpp: usize, idx: usize, bytes: &[&str]) -> String
where
    R::Storage: Into<u32>,
{
    let before = bytes_in(bytes);
    let nb = core::cmp::max(1, bpp / 8);
    let class = if idx.checked_mul(nb).is_none() { "class=index_mul_overflow " } else { "" };
    if (idx as u128) < ref_total(bpp, before.len()) {
        return "FAIL bad case: index inside the buffer".into();
    }
    let b2 = before.clone();
    let r = std::panic::catch_unwind(move || {
        let mut buf = b2;
        let l = R::load::<O>(&buf, idx).map(val);
        let s = R::from_u32(0xA5A5_A5A5).store::<O>(&mut buf, idx).is_ok();
        let n = RawDataSlice::<R, O>::new(&buf).into_iter().nth(idx).map(val);
        (l, s, n, buf)
    });
    match r {
        Err(_) => format!("FAIL {}load/store/nth at index {} panicked at {}", class, idx, LAST_PANIC.with(|p| p.borrow().clone())),
        Ok((l, s, n, buf)) => {
            if l.is_some() || s || n.is_some() || buf != before {
                format!("FAIL {}index {} beyond {} pixels: load {:?} store ok={} nth {:?} bytes {:?} -> {:?}", class, idx, ref_total(bpp, before.len()), l, s, n, before, buf)
            } else {
                "OK 3".into()
            }
        }
    }
}

pub fn search(suite: &str, a: &[&str]) -> Option<String> {
    Some(match suite {
        // p_rd_far <bpp> <alt> <idx> <bytes...>
        "p_rd_far" => by_type!(a[0], a[1], p_far(us(a[0]), us(a[2]), &a[3..])),
        // p_rd_store <bpp> <alt> <idx> <mode> <seed> <bytes...>
        "p_rd_store" => by_type!(a[0], a[1], p_store(us(a[0]), us(a[2]), us(a[3]), a[4].parse::<u64>().unwrap(), &a[5..])),
        // p_rd_iter <bpp> <alt> <seed> <nops> <bytes...>
        "p_rd_iter" => by_type!(a[0], a[1], p_iter(us(a[0]), a[2].parse::<u64>().unwrap(), us(a[3]), &a[4..])),
        _ => return None,
    })
}
