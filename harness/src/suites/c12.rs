//! C12: colours <-> raw representation (all built-in colour types, public API only).
//! Also exports the `ColApi` view of the 14 colour types that c13.rs uses.
use embedded_graphics::pixelcolor::{
    raw::{RawData, RawU1, RawU16, RawU2, RawU24, RawU4, RawU8, ToBytes},
    Bgr555, Bgr565, Bgr666, Bgr888, BinaryColor, Gray2, Gray4, Gray8, GrayColor, IntoStorage, PixelColor, Rgb332, Rgb444,
    Rgb555, Rgb565, Rgb666, Rgb888, RgbColor,
};

#[derive(Clone, Copy, PartialEq, Eq, Debug)]
pub enum Kind {
    Bin,
    Gray,
    Rgb,
}

/// Uniform, monomorphic view of one colour type through its public API.
pub trait ColApi: PixelColor + Copy + PartialEq + core::fmt::Debug {
    const NAME: &'static str;
    const KIND: Kind;
    /// `<Raw as RawData>::BITS_PER_PIXEL`
    const BPP: usize;
    /// bits of `<Raw as RawData>::Storage`
    const SBITS: usize;
    /// MAX_R, MAX_G, MAX_B (rgb) / luma of WHITE three times (gray) / 1,1,1 (binary)
    fn maxs() -> [u8; 3];
    /// `Self::from(Raw::new(v as Storage))`
    fn from_storage(v: u32) -> Self;
    /// `Raw::from(self).into_inner()`
    fn raw_inner(self) -> u32;
    /// `self.into_storage()`
    fn storage(self) -> u32;
    fn be(self) -> Vec<u8>;
    fn le(self) -> Vec<u8>;
    /// `self.to_ne_bytes()`
    fn ne(self) -> Vec<u8>;
    /// `<Self as Default>::default()`
    fn dflt() -> Self;
    /// r,g,b (rgb) / luma three times (gray) / is_on three times (binary)
    fn chans(self) -> [u8; 3];
    /// `new(r, g, b)` (rgb) / `new(ch[0])` (gray) / `(ch[0] != 0).into()` (binary)
    fn mk(ch: [u8; 3]) -> Self;
    fn black() -> Self;
    fn white() -> Self;
}

macro_rules! common_api {
    ($t:ident, $raw:ident, $st:ident) => {
        const NAME: &'static str = stringify!($t);
        const BPP: usize = <$raw as RawData>::BITS_PER_PIXEL;
        const SBITS: usize = 8 * core::mem::size_of::<<$raw as RawData>::Storage>();
        fn from_storage(v: u32) -> Self {
            <$t>::from(<$raw>::new(v as $st))
        }
        fn raw_inner(self) -> u32 {
            <$raw>::from(self).into_inner() as u32
        }
        fn storage(self) -> u32 {
            self.into_storage() as u32
        }
        fn be(self) -> Vec<u8> {
            self.to_be_bytes().to_vec()
        }
        fn le(self) -> Vec<u8> {
            self.to_le_bytes().to_vec()
        }
        fn ne(self) -> Vec<u8> {
            self.to_ne_bytes().to_vec()
        }
        fn dflt() -> Self {
            <$t as Default>::default()
        }
    };
}
macro_rules! rgb_api {
    ($($t:ident, $raw:ident, $st:ident;)*) => {$(
        impl ColApi for $t {
            const KIND: Kind = Kind::Rgb;
            common_api!($t, $raw, $st);
            fn maxs() -> [u8; 3] { [<$t>::MAX_R, <$t>::MAX_G, <$t>::MAX_B] }
            fn chans(self) -> [u8; 3] { [self.r(), self.g(), self.b()] }
            fn mk(ch: [u8; 3]) -> Self { <$t>::new(ch[0], ch[1], ch[2]) }
            fn black() -> Self { <$t>::BLACK }
            fn white() -> Self { <$t>::WHITE }
        }
    )*};
}
macro_rules! gray_api {
    ($($t:ident, $raw:ident, $st:ident;)*) => {$(
        impl ColApi for $t {
            const KIND: Kind = Kind::Gray;
            common_api!($t, $raw, $st);
            fn maxs() -> [u8; 3] { let m = <$t>::WHITE.luma(); [m, m, m] }
            fn chans(self) -> [u8; 3] { [self.luma(), self.luma(), self.luma()] }
            fn mk(ch: [u8; 3]) -> Self { <$t>::new(ch[0]) }
            fn black() -> Self { <$t>::BLACK }
            fn white() -> Self { <$t>::WHITE }
        }
    )*};
}
rgb_api! {
    Rgb332, RawU8, u8; Rgb444, RawU16, u16; Rgb555, RawU16, u16; Bgr555, RawU16, u16; Rgb565, RawU16, u16;
    Bgr565, RawU16, u16; Rgb666, RawU24, u32; Bgr666, RawU24, u32; Rgb888, RawU24, u32; Bgr888, RawU24, u32;
}
gray_api! { Gray2, RawU2, u8; Gray4, RawU4, u8; Gray8, RawU8, u8; }
impl ColApi for BinaryColor {
    const KIND: Kind = Kind::Bin;
    common_api!(BinaryColor, RawU1, u8);
    fn maxs() -> [u8; 3] {
        [1, 1, 1]
    }
    fn chans(self) -> [u8; 3] {
        let v = self.is_on() as u8;
        [v, v, v]
    }
    fn mk(ch: [u8; 3]) -> Self {
        (ch[0] != 0).into()
    }
    fn black() -> Self {
        BinaryColor::Off
    }
    fn white() -> Self {
        BinaryColor::On
    }
}

/// Calls `$f::<T>($args)` for the colour type named `$name`.
#[macro_export]
macro_rules! with_color {
    ($name:expr, $f:ident ( $($args:expr),* )) => {
        match $name {
            "BinaryColor" => Some($f::<embedded_graphics::pixelcolor::BinaryColor>($($args),*)),
            "Gray2" => Some($f::<embedded_graphics::pixelcolor::Gray2>($($args),*)),
            "Gray4" => Some($f::<embedded_graphics::pixelcolor::Gray4>($($args),*)),
            "Gray8" => Some($f::<embedded_graphics::pixelcolor::Gray8>($($args),*)),
            "Rgb332" => Some($f::<embedded_graphics::pixelcolor::Rgb332>($($args),*)),
            "Rgb444" => Some($f::<embedded_graphics::pixelcolor::Rgb444>($($args),*)),
            "Rgb555" => Some($f::<embedded_graphics::pixelcolor::Rgb555>($($args),*)),
            "Bgr555" => Some($f::<embedded_graphics::pixelcolor::Bgr555>($($args),*)),
            "Rgb565" => Some($f::<embedded_graphics::pixelcolor::Rgb565>($($args),*)),
            "Bgr565" => Some($f::<embedded_graphics::pixelcolor::Bgr565>($($args),*)),
            "Rgb666" => Some($f::<embedded_graphics::pixelcolor::Rgb666>($($args),*)),
            "Bgr666" => Some($f::<embedded_graphics::pixelcolor::Bgr666>($($args),*)),
            "Rgb888" => Some($f::<embedded_graphics::pixelcolor::Rgb888>($($args),*)),
            "Bgr888" => Some($f::<embedded_graphics::pixelcolor::Bgr888>($($args),*)),
            _ => None,
        }
    };
}

pub fn p64(s: &str) -> u64 {
    s.parse::<u64>().unwrap()
}
fn dots(b: &[u8]) -> String {
    b.iter().map(|x| x.to_string()).collect::<Vec<_>>().join(".")
}
fn kind_str(k: Kind) -> &'static str {
    match k {
        Kind::Bin => "bin",
        Kind::Gray => "gray",
        Kind::Rgb => "rgb",
    }
}

// ---------------------------------------------------------------------------- correspondence suites
fn info<C: ColApi>() -> String {
    let m = C::maxs();
    let max = match C::KIND {
        Kind::Rgb => format!("{}:{}:{}", m[0], m[1], m[2]),
        Kind::Gray => format!("{}", m[0]),
        Kind::Bin => "-".to_string(),
    };
    format!(
        "kind={} bpp={} sbits={} nbytes={} max={} black={} white={} default={}",
        kind_str(C::KIND), C::BPP, C::SBITS, C::black().be().len(), max, C::black().storage(), C::white().storage(), C::dflt().storage()
    )
}

/// one item per storage value v = start + i*stride: channels / raw / storage / be bytes / le bytes
fn raw_items<C: ColApi>(start: u64, count: u64, stride: u64) -> String {
    let mut out = Vec::with_capacity(count as usize);
    for i in 0..count {
        let v = (start + i * stride) as u32;
        let c = C::from_storage(v);
        let ch = c.chans();
        let chs = match C::KIND {
            Kind::Rgb => format!("{}/{}/{}", ch[0], ch[1], ch[2]),
            _ => format!("{}", ch[0]),
        };
        out.push(format!("{}/{}/{}/{}/{}", chs, c.raw_inner(), c.storage(), dots(&c.be()), dots(&c.le())));
    }
    out.join(",")
}

/// `new` with arbitrary u8 arguments: channel `axis` sweeps 0..=255, the other two are x, y
fn new_items<C: ColApi>(axis: usize, x: u8, y: u8) -> String {
    let mut out = Vec::with_capacity(256);
    for z in 0..=255u8 {
        let ch = match axis {
            0 => [z, x, y],
            1 => [x, z, y],
            _ => [x, y, z],
        };
        let c = C::mk(ch);
        let g = c.chans();
        out.push(match C::KIND {
            Kind::Rgb => format!("{}/{}/{}/{}", c.storage(), g[0], g[1], g[2]),
            _ => format!("{}/{}", c.storage(), g[0]),
        });
    }
    out.join(",")
}

// ---------------------------------------------------------------------------- documented layout (reference for p_*)
/// The documented format of each type, written down independently of the library and of the model:
/// (red-first?, r bits, g bits, b bits, bits per pixel, bytes).  Gray/binary: bits in `.1`.
pub fn documented(name: &str) -> (bool, u32, u32, u32, u32, usize) {
    match name {
        "BinaryColor" => (true, 1, 1, 1, 1, 1),
        "Gray2" => (true, 2, 2, 2, 2, 1),
        "Gray4" => (true, 4, 4, 4, 4, 1),
        "Gray8" => (true, 8, 8, 8, 8, 1),
        "Rgb332" => (true, 3, 3, 2, 8, 1),
        "Rgb444" => (true, 4, 4, 4, 16, 2),
        "Rgb555" => (true, 5, 5, 5, 16, 2),
        "Bgr555" => (false, 5, 5, 5, 16, 2),
        "Rgb565" => (true, 5, 6, 5, 16, 2),
        "Bgr565" => (false, 5, 6, 5, 16, 2),
        "Rgb666" => (true, 6, 6, 6, 24, 3),
        "Bgr666" => (false, 6, 6, 6, 24, 3),
        "Rgb888" => (true, 8, 8, 8, 24, 3),
        "Bgr888" => (false, 8, 8, 8, 24, 3),
        _ => panic!("unknown colour type"),
    }
}
fn ones(n: u32) -> u32 {
    if n >= 32 {
        u32::MAX
    } else {
        (1u32 << n) - 1
    }
}
/// documented packing of channels (already reduced modulo their widths) into the raw value
fn pack(name: &str, ch: [u32; 3]) -> u32 {
    let (rgb, rb, gb, bb, _, _) = documented(name);
    if rgb {
        (ch[0] << (gb + bb)) | (ch[1] << bb) | ch[2]
    } else {
        (ch[2] << (rb + gb)) | (ch[1] << rb) | ch[0]
    }
}

fn check_value<C: ColApi>(c: C, what: &str, src: u64) -> Result<(), String> {
    let (_, _, _, _, bpp, nbytes) = documented(C::NAME);
    let fail = |class: &str, msg: String| Err(format!("FAIL class={} type={} {}={} {}", class, C::NAME, what, src, msg));
    let raw = c.raw_inner();
    // colour -> raw -> colour is the identity
    let back = C::from_storage(raw);
    if back != c {
        return fail("raw_roundtrip", format!("colour {:?} -> raw {} -> colour {:?}", c, raw, back));
    }
    // the raw value fits BITS_PER_PIXEL (and BITS_PER_PIXEL is the documented one)
    if C::BPP as u32 != bpp || (bpp < 32 && (raw >> bpp) != 0) {
        return fail("raw_fits", format!("raw {} does not fit {} bits (BITS_PER_PIXEL {})", raw, bpp, C::BPP));
    }
    // into_storage, be bytes and le bytes describe the same number
    let st = c.storage();
    let be = c.be();
    let le = c.le();
    let bev = be.iter().fold(0u64, |a, &x| a * 256 + x as u64);
    let lev = le.iter().rev().fold(0u64, |a, &x| a * 256 + x as u64);
    if st != raw || be.len() != nbytes || le.len() != nbytes || bev != st as u64 || lev != st as u64 {
        return fail("bytes_agree", format!("raw {} storage {} be {:?} le {:?}", raw, st, be, le));
    }
    // ToBytes::to_ne_bytes: native order = little endian on this host (and the reverse of the big endian bytes)
    let ne = c.ne();
    let native_is_le = cfg!(target_endian = "little");
    let want_ne = if native_is_le { le.clone() } else { be.clone() };
    let mut rev_be = be.clone();
    rev_be.reverse();
    if ne != want_ne || (native_is_le && ne != rev_be) {
        return fail("bytes_agree", format!("entry=ToBytes::to_ne_bytes gives {:?}, to_le_bytes {:?}, to_be_bytes {:?} (host little endian: {})", ne, le, be, native_is_le));
    }
    Ok(())
}

/// property predicates for every storage value v = start + i*stride
fn p_raw<C: ColApi>(start: u64, count: u64, stride: u64) -> String {
    let (_, rb, gb, bb, bpp, _) = documented(C::NAME);
    let used = match C::KIND {
        Kind::Rgb => rb + gb + bb,
        _ => bpp,
    };
    for i in 0..count {
        let v64 = start + i * stride;
        let v = v64 as u32;
        let c = C::from_storage(v);
        if let Err(e) = check_value(c, "v", v64) {
            return e;
        }
        // raw -> colour -> raw only clears the unused bits, and is idempotent
        let raw = c.raw_inner();
        if raw != v & ones(used) {
            return format!("FAIL class=raw_idem type={} v={} raw->colour->raw gives {} expected {}", C::NAME, v, raw, v & ones(used));
        }
        let again = C::from_storage(raw).raw_inner();
        if again != raw {
            return format!("FAIL class=raw_idem type={} v={} second trip changes {} to {}", C::NAME, v, raw, again);
        }
        // accessors read the documented bit fields
        let ch = c.chans();
        let want: [u32; 3] = match C::KIND {
            Kind::Rgb => {
                let (rgb, ..) = documented(C::NAME);
                if rgb {
                    [(v >> (gb + bb)) & ones(rb), (v >> bb) & ones(gb), v & ones(bb)]
                } else {
                    [v & ones(rb), (v >> rb) & ones(gb), (v >> (rb + gb)) & ones(bb)]
                }
            }
            _ => [v & ones(bpp); 3],
        };
        if [ch[0] as u32, ch[1] as u32, ch[2] as u32] != want {
            return format!("FAIL class=layout type={} v={} channels {:?} expected {:?}", C::NAME, v, ch, want);
        }
    }
    format!("OK {}", count)
}

/// `new` keeps every channel modulo its width, accessors return it, layout is the documented one.
/// All u8 arguments with r in r0..r1 (rgb: every g and b; gray/binary: the single argument).
fn p_new<C: ColApi>(r0: u32, r1: u32) -> String {
    let (_, rb, gb, bb, _, _) = documented(C::NAME);
    let m = C::maxs();
    if (C::KIND == Kind::Rgb && [m[0] as u32, m[1] as u32, m[2] as u32] != [ones(rb), ones(gb), ones(bb)])
        || (C::KIND == Kind::Gray && m[0] as u32 != ones(rb))
    {
        return format!("FAIL class=new_channels type={} maxima {:?}", C::NAME, m);
    }
    // Default::default() is the all-zero colour = BLACK / Off
    if C::dflt() != C::black() || C::dflt().storage() != 0 {
        return format!("FAIL class=default type={} entry=Default::default gives {:?}, expected {:?}", C::NAME, C::dflt(), C::black());
    }
    let other = if C::KIND == Kind::Rgb { 256u32 } else { 1 };
    let mut n = 0u64;
    for r in r0..r1 {
        for g in 0..other {
            for b in 0..other {
                let a = [r as u8, g as u8, b as u8];
                let c = C::mk(a);
                let want = match C::KIND {
                    Kind::Rgb => [r & ones(rb), g & ones(gb), b & ones(bb)],
                    Kind::Gray => [r & ones(rb); 3],
                    Kind::Bin => [(r != 0) as u32; 3],
                };
                let ch = c.chans();
                if [ch[0] as u32, ch[1] as u32, ch[2] as u32] != want {
                    return format!("FAIL class=new_channels type={} new{:?} has channels {:?} expected {:?}", C::NAME, a, ch, want);
                }
                let packed = match C::KIND {
                    Kind::Rgb => pack(C::NAME, want),
                    _ => want[0],
                };
                if c.raw_inner() != packed {
                    return format!("FAIL class=layout type={} new{:?} raw {} expected {}", C::NAME, a, c.raw_inner(), packed);
                }
                if let Err(e) = check_value(c, "new_r", r as u64) {
                    return e;
                }
                n += 1;
            }
        }
    }
    format!("OK {}", n)
}

/// the eight named constants of RgbColor in source order: storage/r/g/b
fn named_items<C: ColApi + RgbColor>() -> String {
    [C::BLACK, C::RED, C::GREEN, C::BLUE, C::YELLOW, C::MAGENTA, C::CYAN, C::WHITE]
        .iter()
        .map(|c| format!("{}/{}/{}/{}", c.storage(), c.r(), c.g(), c.b()))
        .collect::<Vec<_>>()
        .join(",")
}
/// ... and the property: channels are 0 / maximum as the name says
fn p_named<C: ColApi + RgbColor>() -> String {
    let m = C::maxs();
    let want = [[0, 0, 0], [m[0], 0, 0], [0, m[1], 0], [0, 0, m[2]], [m[0], m[1], 0], [m[0], 0, m[2]], [0, m[1], m[2]], m];
    let got = [C::BLACK, C::RED, C::GREEN, C::BLUE, C::YELLOW, C::MAGENTA, C::CYAN, C::WHITE];
    for i in 0..8 {
        if got[i].chans() != want[i] {
            return format!("FAIL class=named_constants type={} constant #{} is {:?}, expected channels {:?}", C::NAME, i, got[i], want[i]);
        }
    }
    "OK 8".to_string()
}
/// BinaryColor's own methods: invert, is_on, is_off, From<bool>, Default
fn p_binary() -> String {
    use BinaryColor::{Off, On};
    let fail = |entry: &str, msg: String| format!("FAIL class=binary type=BinaryColor entry=BinaryColor::{} {}", entry, msg);
    if On.invert() != Off || Off.invert() != On {
        return fail("invert", format!("invert(On) = {:?}, invert(Off) = {:?}", On.invert(), Off.invert()));
    }
    for c in [Off, On] {
        if c.invert().invert() != c {
            return fail("invert", format!("invert(invert({:?})) = {:?}", c, c.invert().invert()));
        }
        if c.is_on() != (c == On) {
            return fail("is_on", format!("is_on({:?}) = {}", c, c.is_on()));
        }
        if c.is_off() != (c == Off) || c.is_off() == c.is_on() {
            return fail("is_off", format!("is_off({:?}) = {}, is_on = {}", c, c.is_off(), c.is_on()));
        }
        if c.invert().is_on() != c.is_off() {
            return fail("invert", format!("is_on(invert({:?})) = {}", c, c.invert().is_on()));
        }
        // raw view: Off <-> 0, On <-> 1, invert flips the raw bit
        if c.invert().storage() != 1 - c.storage() {
            return fail("invert", format!("storage of invert({:?}) = {}", c, c.invert().storage()));
        }
    }
    if BinaryColor::from(true) != On || BinaryColor::from(false) != Off {
        return fail("from_bool", format!("from(true) = {:?}, from(false) = {:?}", BinaryColor::from(true), BinaryColor::from(false)));
    }
    if BinaryColor::default() != Off {
        return fail("default", format!("default() = {:?}", BinaryColor::default()));
    }
    "OK 2".to_string()
}
macro_rules! with_rgb {
    ($name:expr, $f:ident) => {
        match $name {
            "Rgb332" => Some($f::<Rgb332>()), "Rgb444" => Some($f::<Rgb444>()), "Rgb555" => Some($f::<Rgb555>()),
            "Bgr555" => Some($f::<Bgr555>()), "Rgb565" => Some($f::<Rgb565>()), "Bgr565" => Some($f::<Bgr565>()),
            "Rgb666" => Some($f::<Rgb666>()), "Bgr666" => Some($f::<Bgr666>()), "Rgb888" => Some($f::<Rgb888>()),
            "Bgr888" => Some($f::<Bgr888>()),
            _ => None,
        }
    };
}

pub fn run(suite: &str, a: &[&str]) -> Option<String> {
    let r = match suite {
        "col_info" => with_color!(a[0], info()),
        "col_raw" => with_color!(a[0], raw_items(p64(a[1]), p64(a[2]), p64(a[3]))),
        "col_new" => with_color!(a[0], new_items(p64(a[1]) as usize, p64(a[2]) as u8, p64(a[3]) as u8)),
        "p_raw" => with_color!(a[0], p_raw(p64(a[1]), p64(a[2]), p64(a[3]))),
        "p_new" => with_color!(a[0], p_new(p64(a[1]) as u32, p64(a[2]) as u32)),
        "p_binary" => return Some(p_binary()),
        "named" => return Some(with_rgb!(a[0], named_items).unwrap_or_else(|| format!("NOT-RGB {}", a[0]))),
        "p_named" => return Some(with_rgb!(a[0], p_named).unwrap_or_else(|| format!("FAIL class=named_constants type={} is not an RGB type", a[0]))),
        _ => return None,
    };
    r.or_else(|| Some(format!("UNKNOWN-TYPE {}", a[0])))
}
