//! C13: colour conversions (every `From<A> for B` between the 14 built-in colour types, public API only).
//! `conv` is the correspondence suite (same lines run on the extracted model); `p_conv` evaluates the property
//! itself on the implementation against an independent exact-arithmetic reference (round to nearest by integer
//! division, no fixed-point reciprocal), for every source value of the requested range.
use super::c12::{p64, ColApi, Kind};
use embedded_graphics::pixelcolor::{
    Bgr555, Bgr565, Bgr666, Bgr888, BinaryColor, Gray2, Gray4, Gray8, Rgb332, Rgb444, Rgb555, Rgb565, Rgb666, Rgb888,
};

/// Calls `$f::<A, B>($args)` for the colour types named `$a`, `$b` (all 14 x 14 combinations exist: the 182
/// provided conversions plus core's reflexive `From<T> for T`; a removed impl makes the harness fail to build).
macro_rules! with_pair_b {
    ($A:ident, $b:expr, $f:ident, $args:tt, [$($B:ident),*]) => {{
        let mut r = None;
        $( if $b == stringify!($B) { r = Some($f::<$A, $B> $args); } )*
        r
    }};
}
macro_rules! with_pair {
    ($a:expr, $b:expr, $f:ident, $args:tt, [$($A:ident),*], $Bs:tt) => {{
        let mut r = None;
        $( if $a == stringify!($A) { r = with_pair_b!($A, $b, $f, $args, $Bs); } )*
        r
    }};
}
macro_rules! all_pairs {
    ($a:expr, $b:expr, $f:ident $args:tt) => {
        with_pair!($a, $b, $f, $args,
            [BinaryColor, Gray2, Gray4, Gray8, Rgb332, Rgb444, Rgb555, Bgr555, Rgb565, Bgr565, Rgb666, Bgr666, Rgb888, Bgr888],
            [BinaryColor, Gray2, Gray4, Gray8, Rgb332, Rgb444, Rgb555, Bgr555, Rgb565, Bgr565, Rgb666, Bgr666, Rgb888, Bgr888])
    };
}

// ---------------------------------------------------------------------------- correspondence
/// storage of `B::from(A::from(Raw::new(v)))` for v = start + i*stride
fn conv_items<A: ColApi, B: ColApi + From<A>>(start: u64, count: u64, stride: u64) -> String {
    let mut out = String::with_capacity(count as usize * 6);
    for i in 0..count {
        let v = (start + i * stride) as u32;
        let d = B::from(A::from_storage(v));
        if i > 0 {
            out.push(',');
        }
        out.push_str(&d.storage().to_string());
    }
    out
}

// ---------------------------------------------------------------------------- reference
/// exactly scaled value rounded to the nearest integer (fm is odd for every channel width, so there are no ties)
fn nearest(v: u32, fm: u32, tm: u32) -> u32 {
    (2 * v * tm + fm) / (2 * fm)
}
/// ITU-R BT.601 luma in 8 bits as documented in conversion.rs: 77/150/29 weights of 256, rounded
fn luma8(r: u32, g: u32, b: u32) -> u32 {
    (77 * r + 150 * g + 29 * b + 128) / 256
}
fn u3(a: [u8; 3]) -> [u32; 3] {
    [a[0] as u32, a[1] as u32, a[2] as u32]
}
fn bits(max: u32) -> u32 {
    32 - max.leading_zeros()
}

fn p_conv<A: ColApi + From<B>, B: ColApi + From<A>>(start: u64, count: u64, stride: u64) -> String {
    if A::NAME == B::NAME {
        return "OK 0".to_string();
    }
    let ma = u3(A::maxs());
    let mb = u3(B::maxs());
    let fail = |class: &str, v: u64, msg: String| format!("FAIL class={} from={} to={} v={} {}", class, A::NAME, B::NAME, v, msg);
    // black / white of both types are the all-zero / all-maximum colours
    if u3(A::black().chans()) != [0, 0, 0] || u3(A::white().chans()) != ma || u3(B::black().chans()) != [0, 0, 0] || u3(B::white().chans()) != mb {
        return fail("black_white", 0, "BLACK/WHITE constants are not the extreme colours".to_string());
    }
    if B::from(A::black()) != B::black() || B::from(A::white()) != B::white() {
        return fail("black_white", 0, format!("black -> {:?}, white -> {:?}", B::from(A::black()), B::from(A::white())));
    }
    // converting to B and back must be the identity when B has at least as many bits in every channel
    let widening = match (A::KIND, B::KIND) {
        (Kind::Rgb, Kind::Rgb) | (Kind::Gray, Kind::Gray) | (Kind::Gray, Kind::Rgb) => (0..3).all(|i| bits(ma[i]) <= bits(mb[i])),
        (Kind::Bin, _) => true,
        _ => false,
    };
    for i in 0..count {
        let v64 = start + i * stride;
        let c = A::from_storage(v64 as u32);
        let d = B::from(c);
        let ca = u3(c.chans());
        let cb = u3(d.chans());
        if (0..3).any(|k| cb[k] > mb[k]) {
            return fail("range", v64, format!("{:?} -> {:?} exceeds the target maxima", c, d));
        }
        match (A::KIND, B::KIND) {
            (Kind::Rgb, Kind::Rgb) | (Kind::Gray, Kind::Gray) | (Kind::Gray, Kind::Rgb) => {
                let want = [nearest(ca[0], ma[0], mb[0]), nearest(ca[1], ma[1], mb[1]), nearest(ca[2], ma[2], mb[2])];
                if cb != want {
                    return fail("nearest", v64, format!("{:?} -> {:?}, nearest is {:?}", c, d, want));
                }
            }
            (Kind::Rgb, Kind::Gray) | (Kind::Rgb, Kind::Bin) => {
                let l8 = luma8(nearest(ca[0], ma[0], 255), nearest(ca[1], ma[1], 255), nearest(ca[2], ma[2], 255));
                if B::KIND == Kind::Gray {
                    let want = nearest(l8, 255, mb[0]);
                    if cb[0] != want {
                        return fail("luma", v64, format!("{:?} -> {:?}, 8 bit luma {} scales to {}", c, d, l8, want));
                    }
                    // monotone in every channel (checked directly, independent of the reference formula)
                    for k in 0..3 {
                        if ca[k] < ma[k] {
                            let mut up = c.chans();
                            up[k] += 1;
                            let d2 = B::from(A::mk(up));
                            if (d2.chans()[0] as u32) < cb[0] {
                                return fail("mono", v64, format!("{:?} -> {:?} but raising channel {} gives {:?}", c, d, k, d2));
                            }
                        }
                    }
                } else if (cb[0] == 1) != (l8 >= 128) {
                    return fail("binary_upper_half", v64, format!("{:?} (8 bit luma {}) -> {:?}", c, l8, d));
                }
            }
            (Kind::Gray, Kind::Bin) => {
                if (cb[0] == 1) != (2 * ca[0] > ma[0]) {
                    return fail("binary_upper_half", v64, format!("{:?} (max luma {}) -> {:?}", c, ma[0], d));
                }
            }
            (Kind::Bin, _) => {
                let want = if ca[0] == 1 { B::white() } else { B::black() };
                if d != want {
                    return fail("black_white", v64, format!("{:?} -> {:?}", c, d));
                }
            }
        }
        if widening {
            let back = A::from(d);
            if back != c {
                return fail("widen_narrow_id", v64, format!("{:?} -> {:?} -> {:?}", c, d, back));
            }
        }
    }
    format!("OK {}", count)
}

pub fn run(suite: &str, a: &[&str]) -> Option<String> {
    let r = match suite {
        "conv" => all_pairs!(a[0], a[1], conv_items(p64(a[2]), p64(a[3]), p64(a[4]))),
        "p_conv" => all_pairs!(a[0], a[1], p_conv(p64(a[2]), p64(a[3]), p64(a[4]))),
        _ => return None,
    };
    r.or_else(|| Some(format!("UNKNOWN-TYPE {} {}", a[0], a[1])))
}
