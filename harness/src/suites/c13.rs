//! C13: colour conversions (every `From<A> for B` between the 14 built-in colour types, public API only).
//! `conv` is the correspondence suite (same lines run on the extracted model); `p_conv` evaluates the property
//! itself on the implementation against an independent exact-arithmetic reference (round to nearest by integer
//! division, no fixed-point reciprocal), for every source value of the requested range.
use super::c12::{p64, ColApi, Kind};
use embedded_graphics::pixelcolor::{
    WebColors, Bgr555, Bgr565, Bgr666, Bgr888, BinaryColor, Gray2, Gray4, Gray8, Rgb332, Rgb444, Rgb555, Rgb565, Rgb666, Rgb888,
};

/// Calls `$f::<A, B>($args)` for the colour types named `$a`, `$b` (all 14 x 14 combinations exist: the 182
/// provided conversions plus core's reflexive `From<T> for T`; a removed impl makes the harness fail to build).
macro_rules! with_pair_b {
    ($A:ident, $b:expr, $f:ident, $args:tt, [$($B:ident),*]) => {{
        let mut r = None;
        $( if $b == stringify!($B) { r = Some($f::<$A, $B> $args); } )*
        r
    }};
}
macro_rules! with_pair {
    ($a:expr, $b:expr, $f:ident, $args:tt, [$($A:ident),*], $Bs:tt) => {{
        let mut r = None;
        $( if $a == stringify!($A) { r = with_pair_b!($A, $b, $f, $args, $Bs); } )*
        r
    }};
}
macro_rules! all_pairs {
    ($a:expr, $b:expr, $f:ident $args:tt) => {
        with_pair!($a, $b, $f, $args,
            [BinaryColor, Gray2, Gray4, Gray8, Rgb332, Rgb444, Rgb555, Bgr555, Rgb565, Bgr565, Rgb666, Bgr666, Rgb888, Bgr888],
            [BinaryColor, Gray2, Gray4, Gray8, Rgb332, Rgb444, Rgb555, Bgr555, Rgb565, Bgr565, Rgb666, Bgr666, Rgb888, Bgr888])
    };
}

// ---------------------------------------------------------------------------- correspondence
/// storage of `B::from(A::from(Raw::new(v)))` for v = start + i*stride
fn conv_items<A: ColApi, B: ColApi + From<A>>(start: u64, count: u64, stride: u64) -> String {
    let mut out = String::with_capacity(count as usize * 6);
    for i in 0..count {
        let v = (start + i * stride) as u32;
        let d = B::from(A::from_storage(v));
        if i > 0 {
            out.push(',');
        }
        out.push_str(&d.storage().to_string());
    }
    out
}

// ---------------------------------------------------------------------------- reference
/// exactly scaled value rounded to the nearest integer (fm is odd for every channel width, so there are no ties)
fn nearest(v: u32, fm: u32, tm: u32) -> u32 {
    (2 * v * tm + fm) / (2 * fm)
}
/// ITU-R BT.601 luma in 8 bits as documented in conversion.rs: 77/150/29 weights of 256, rounded
fn luma8(r: u32, g: u32, b: u32) -> u32 {
    (77 * r + 150 * g + 29 * b + 128) / 256
}
fn u3(a: [u8; 3]) -> [u32; 3] {
    [a[0] as u32, a[1] as u32, a[2] as u32]
}
fn bits(max: u32) -> u32 {
    32 - max.leading_zeros()
}

fn p_conv<A: ColApi + From<B>, B: ColApi + From<A>>(start: u64, count: u64, stride: u64) -> String {
    if A::NAME == B::NAME {
        return "OK 0".to_string();
    }
    let ma = u3(A::maxs());
    let mb = u3(B::maxs());
    let fail = |class: &str, v: u64, msg: String| format!("FAIL class={} from={} to={} v={} {}", class, A::NAME, B::NAME, v, msg);
    // black / white of both types are the all-zero / all-maximum colours
    if u3(A::black().chans()) != [0, 0, 0] || u3(A::white().chans()) != ma || u3(B::black().chans()) != [0, 0, 0] || u3(B::white().chans()) != mb {
        return fail("black_white", 0, "BLACK/WHITE constants are not the extreme colours".to_string());
    }
    if B::from(A::black()) != B::black() || B::from(A::white()) != B::white() {
        return fail("black_white", 0, format!("black -> {:?}, white -> {:?}", B::from(A::black()), B::from(A::white())));
    }
    // converting to B and back must be the identity when B has at least as many bits in every channel
    let widening = match (A::KIND, B::KIND) {
        (Kind::Rgb, Kind::Rgb) | (Kind::Gray, Kind::Gray) | (Kind::Gray, Kind::Rgb) => (0..3).all(|i| bits(ma[i]) <= bits(mb[i])),
        (Kind::Bin, _) => true,
        _ => false,
    };
    for i in 0..count {
        let v64 = start + i * stride;
        let c = A::from_storage(v64 as u32);
        let d = B::from(c);
        let ca = u3(c.chans());
        let cb = u3(d.chans());
        if (0..3).any(|k| cb[k] > mb[k]) {
            return fail("range", v64, format!("{:?} -> {:?} exceeds the target maxima", c, d));
        }
        match (A::KIND, B::KIND) {
            (Kind::Rgb, Kind::Rgb) | (Kind::Gray, Kind::Gray) | (Kind::Gray, Kind::Rgb) => {
                let want = [nearest(ca[0], ma[0], mb[0]), nearest(ca[1], ma[1], mb[1]), nearest(ca[2], ma[2], mb[2])];
                if cb != want {
                    return fail("nearest", v64, format!("{:?} -> {:?}, nearest is {:?}", c, d, want));
                }
            }
            (Kind::Rgb, Kind::Gray) | (Kind::Rgb, Kind::Bin) => {
                let l8 = luma8(nearest(ca[0], ma[0], 255), nearest(ca[1], ma[1], 255), nearest(ca[2], ma[2], 255));
                if B::KIND == Kind::Gray {
                    let want = nearest(l8, 255, mb[0]);
                    if cb[0] != want {
                        return fail("luma", v64, format!("{:?} -> {:?}, 8 bit luma {} scales to {}", c, d, l8, want));
                    }
                    // end to end against exact arithmetic: within 1/2 + max/255 target steps of the exactly scaled BT.601 luma
                    let den = 256i128 * ma[0] as i128 * ma[1] as i128 * ma[2] as i128;
                    let num = 77i128 * ca[0] as i128 * (ma[1] * ma[2]) as i128
                        + 150i128 * ca[1] as i128 * (ma[0] * ma[2]) as i128
                        + 29i128 * ca[2] as i128 * (ma[0] * ma[1]) as i128;
                    if 2 * 255 * (cb[0] as i128 * den - mb[0] as i128 * num).abs() > (2 * mb[0] as i128 + 255) * den {
                        return fail("luma_error_bound", v64, format!("{:?} -> {:?}, exact luma {}/{} of {}", c, d, num, den, mb[0]));
                    }
                    // monotone in every channel (checked directly, independent of the reference formula)
                    for k in 0..3 {
                        if ca[k] < ma[k] {
                            let mut up = c.chans();
                            up[k] += 1;
                            let d2 = B::from(A::mk(up));
                            if (d2.chans()[0] as u32) < cb[0] {
                                return fail("mono", v64, format!("{:?} -> {:?} but raising channel {} gives {:?}", c, d, k, d2));
                            }
                        }
                    }
                } else if (cb[0] == 1) != (l8 >= 128) {
                    return fail("binary_upper_half", v64, format!("{:?} (8 bit luma {}) -> {:?}", c, l8, d));
                }
            }
            (Kind::Gray, Kind::Bin) => {
                if (cb[0] == 1) != (2 * ca[0] > ma[0]) {
                    return fail("binary_upper_half", v64, format!("{:?} (max luma {}) -> {:?}", c, ma[0], d));
                }
            }
            (Kind::Bin, _) => {
                let want = if ca[0] == 1 { B::white() } else { B::black() };
                if d != want {
                    return fail("black_white", v64, format!("{:?} -> {:?}", c, d));
                }
            }
        }
        if widening {
            let back = A::from(d);
            if back != c {
                return fail("widen_narrow_id", v64, format!("{:?} -> {:?} -> {:?}", c, d, back));
            }
        }
    }
    format!("OK {}", count)
}

// ---------------------------------------------------------------------------- web colours
/// every `WebColors` constant of `C`, in the order of web_colors.rs (a snapshot of the identifier list; the model
/// side reads the list regenerated from the source, so an added / removed / reordered colour shows as a disagreement)
fn web_list<C: ColApi + WebColors>() -> Vec<C> {
    macro_rules! l { ($($id:ident),* $(,)?) => { vec![$(C::$id),*] }; }
    l![
        CSS_ALICE_BLUE, CSS_ANTIQUE_WHITE, CSS_AQUA, CSS_AQUAMARINE, CSS_AZURE, CSS_BEIGE,
        CSS_BISQUE, CSS_BLACK, CSS_BLANCHED_ALMOND, CSS_BLUE, CSS_BLUE_VIOLET, CSS_BROWN,
        CSS_BURLY_WOOD, CSS_CADET_BLUE, CSS_CHARTREUSE, CSS_CHOCOLATE, CSS_CORAL, CSS_CORNFLOWER_BLUE,
        CSS_CORNSILK, CSS_CRIMSON, CSS_CYAN, CSS_DARK_BLUE, CSS_DARK_CYAN, CSS_DARK_GOLDENROD,
        CSS_DARK_GRAY, CSS_DARK_GREEN, CSS_DARK_KHAKI, CSS_DARK_MAGENTA, CSS_DARK_OLIVE_GREEN, CSS_DARK_ORANGE,
        CSS_DARK_ORCHID, CSS_DARK_RED, CSS_DARK_SALMON, CSS_DARK_SEA_GREEN, CSS_DARK_SLATE_BLUE, CSS_DARK_SLATE_GRAY,
        CSS_DARK_TURQUOISE, CSS_DARK_VIOLET, CSS_DEEP_PINK, CSS_DEEP_SKY_BLUE, CSS_DIM_GRAY, CSS_DODGER_BLUE,
        CSS_FIRE_BRICK, CSS_FLORAL_WHITE, CSS_FOREST_GREEN, CSS_FUCHSIA, CSS_GAINSBORO, CSS_GHOST_WHITE,
        CSS_GOLD, CSS_GOLDENROD, CSS_GRAY, CSS_GREEN, CSS_GREEN_YELLOW, CSS_HONEYDEW,
        CSS_HOT_PINK, CSS_INDIAN_RED, CSS_INDIGO, CSS_IVORY, CSS_KHAKI, CSS_LAVENDER,
        CSS_LAVENDER_BLUSH, CSS_LAWN_GREEN, CSS_LEMON_CHIFFON, CSS_LIGHT_BLUE, CSS_LIGHT_CORAL, CSS_LIGHT_CYAN,
        CSS_LIGHT_GOLDENROD_YELLOW, CSS_LIGHT_GRAY, CSS_LIGHT_GREEN, CSS_LIGHT_PINK, CSS_LIGHT_SALMON, CSS_LIGHT_SEA_GREEN,
        CSS_LIGHT_SKY_BLUE, CSS_LIGHT_SLATE_GRAY, CSS_LIGHT_STEEL_BLUE, CSS_LIGHT_YELLOW, CSS_LIME, CSS_LIME_GREEN,
        CSS_LINEN, CSS_MAGENTA, CSS_MAROON, CSS_MEDIUM_AQUAMARINE, CSS_MEDIUM_BLUE, CSS_MEDIUM_ORCHID,
        CSS_MEDIUM_PURPLE, CSS_MEDIUM_SEA_GREEN, CSS_MEDIUM_SLATE_BLUE, CSS_MEDIUM_SPRING_GREEN, CSS_MEDIUM_TURQUOISE, CSS_MEDIUM_VIOLET_RED,
        CSS_MIDNIGHT_BLUE, CSS_MINT_CREAM, CSS_MISTY_ROSE, CSS_MOCCASIN, CSS_NAVAJO_WHITE, CSS_NAVY,
        CSS_OLD_LACE, CSS_OLIVE, CSS_OLIVE_DRAB, CSS_ORANGE, CSS_ORANGE_RED, CSS_ORCHID,
        CSS_PALE_GOLDENROD, CSS_PALE_GREEN, CSS_PALE_TURQUOISE, CSS_PALE_VIOLET_RED, CSS_PAPAYA_WHIP, CSS_PEACH_PUFF,
        CSS_PERU, CSS_PINK, CSS_PLUM, CSS_POWDER_BLUE, CSS_PURPLE, CSS_REBECCAPURPLE,
        CSS_RED, CSS_ROSY_BROWN, CSS_ROYAL_BLUE, CSS_SADDLE_BROWN, CSS_SALMON, CSS_SANDY_BROWN,
        CSS_SEA_GREEN, CSS_SEASHELL, CSS_SIENNA, CSS_SILVER, CSS_SKY_BLUE, CSS_SLATE_BLUE,
        CSS_SLATE_GRAY, CSS_SNOW, CSS_SPRING_GREEN, CSS_STEEL_BLUE, CSS_TAN, CSS_TEAL,
        CSS_THISTLE, CSS_TOMATO, CSS_TURQUOISE, CSS_VIOLET, CSS_WHEAT, CSS_WHITE,
        CSS_WHITE_SMOKE, CSS_YELLOW, CSS_YELLOW_GREEN
    ]
}
/// the CSS keyword values (CSS Color Module Level 3), same order: the reference for p_web
const CSS_SPEC: [(u32, u32, u32); 141] = [
    (240, 248, 255), (250, 235, 215), (0, 255, 255), (127, 255, 212), (240, 255, 255), (245, 245, 220),
    (255, 228, 196), (0, 0, 0), (255, 235, 205), (0, 0, 255), (138, 43, 226), (165, 42, 42),
    (222, 184, 135), (95, 158, 160), (127, 255, 0), (210, 105, 30), (255, 127, 80), (100, 149, 237),
    (255, 248, 220), (220, 20, 60), (0, 255, 255), (0, 0, 139), (0, 139, 139), (184, 134, 11),
    (169, 169, 169), (0, 100, 0), (189, 183, 107), (139, 0, 139), (85, 107, 47), (255, 140, 0),
    (153, 50, 204), (139, 0, 0), (233, 150, 122), (143, 188, 143), (72, 61, 139), (47, 79, 79),
    (0, 206, 209), (148, 0, 211), (255, 20, 147), (0, 191, 255), (105, 105, 105), (30, 144, 255),
    (178, 34, 34), (255, 250, 240), (34, 139, 34), (255, 0, 255), (220, 220, 220), (248, 248, 255),
    (255, 215, 0), (218, 165, 32), (128, 128, 128), (0, 128, 0), (173, 255, 47), (240, 255, 240),
    (255, 105, 180), (205, 92, 92), (75, 0, 130), (255, 255, 240), (240, 230, 140), (230, 230, 250),
    (255, 240, 245), (124, 252, 0), (255, 250, 205), (173, 216, 230), (240, 128, 128), (224, 255, 255),
    (250, 250, 210), (211, 211, 211), (144, 238, 144), (255, 182, 193), (255, 160, 122), (32, 178, 170),
    (135, 206, 250), (119, 136, 153), (176, 196, 222), (255, 255, 224), (0, 255, 0), (50, 205, 50),
    (250, 240, 230), (255, 0, 255), (128, 0, 0), (102, 205, 170), (0, 0, 205), (186, 85, 211),
    (147, 112, 219), (60, 179, 113), (123, 104, 238), (0, 250, 154), (72, 209, 204), (199, 21, 133),
    (25, 25, 112), (245, 255, 250), (255, 228, 225), (255, 228, 181), (255, 222, 173), (0, 0, 128),
    (253, 245, 230), (128, 128, 0), (107, 142, 35), (255, 165, 0), (255, 69, 0), (218, 112, 214),
    (238, 232, 170), (152, 251, 152), (175, 238, 238), (219, 112, 147), (255, 239, 213), (255, 218, 185),
    (205, 133, 63), (255, 192, 203), (221, 160, 221), (176, 224, 230), (128, 0, 128), (102, 51, 153),
    (255, 0, 0), (188, 143, 143), (65, 105, 225), (139, 69, 19), (250, 128, 114), (244, 164, 96),
    (46, 139, 87), (255, 245, 238), (160, 82, 45), (192, 192, 192), (135, 206, 235), (106, 90, 205),
    (112, 128, 144), (255, 250, 250), (0, 255, 127), (70, 130, 180), (210, 180, 140), (0, 128, 128),
    (216, 191, 216), (255, 99, 71), (64, 224, 208), (238, 130, 238), (245, 222, 179), (255, 255, 255),
    (245, 245, 245), (255, 255, 0), (154, 205, 50),
];
fn web_items<C: ColApi + WebColors>() -> String {
    web_list::<C>().iter().map(|c| c.storage().to_string()).collect::<Vec<_>>().join(",")
}
/// every CSS constant of C has, in every channel, the value nearest to the 8 bit CSS value (exact for 8 bit channels)
fn p_web<C: ColApi + WebColors>() -> String {
    let l = web_list::<C>();
    let m = u3(C::maxs());
    if l.len() != CSS_SPEC.len() {
        return format!("FAIL class=web type={} {} constants, expected {}", C::NAME, l.len(), CSS_SPEC.len());
    }
    for (i, c) in l.iter().enumerate() {
        let (r, g, b) = CSS_SPEC[i];
        let want = [nearest(r, 255, m[0]), nearest(g, 255, m[1]), nearest(b, 255, m[2])];
        if u3(c.chans()) != want {
            return format!("FAIL class=web type={} constant #{} is {:?}, CSS value ({}, {}, {}) scales to {:?}", C::NAME, i, c, r, g, b, want);
        }
    }
    format!("OK {}", l.len())
}
macro_rules! with_web {
    ($name:expr, $f:ident) => {
        match $name {
            "Rgb555" => Some($f::<Rgb555>()), "Bgr555" => Some($f::<Bgr555>()), "Rgb565" => Some($f::<Rgb565>()),
            "Bgr565" => Some($f::<Bgr565>()), "Rgb666" => Some($f::<Rgb666>()), "Bgr666" => Some($f::<Bgr666>()),
            "Rgb888" => Some($f::<Rgb888>()), "Bgr888" => Some($f::<Bgr888>()),
            _ => None,
        }
    };
}

pub fn run(suite: &str, a: &[&str]) -> Option<String> {
    let r = match suite {
        "conv" => all_pairs!(a[0], a[1], conv_items(p64(a[2]), p64(a[3]), p64(a[4]))),
        "p_conv" => all_pairs!(a[0], a[1], p_conv(p64(a[2]), p64(a[3]), p64(a[4]))),
        "web" => return Some(with_web!(a[0], web_items).unwrap_or_else(|| format!("NO-WEB-COLORS {}", a[0]))),
        "p_web" => return Some(with_web!(a[0], p_web).unwrap_or_else(|| format!("FAIL class=web type={} does not implement WebColors", a[0]))),
        _ => return None,
    };
    r.or_else(|| Some(format!("UNKNOWN-TYPE {} {}", a[0], a[1])))
}
