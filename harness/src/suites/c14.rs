//! C14: glyph mapping, MonoFont::glyph, draw_string / measure_string (implementation side).
//! Correspondence suites use a SYNTHETIC font: geometry from the case line, atlas bit
//! (x,y) = ((7x + 13y + xy) mod 5 < 2), StrGlyphMapping over the code points of the case line.
//! The `p_*` suites evaluate the property on the real built-in fonts.
use crate::util::*;
use embedded_graphics::{
    image::{GetPixel, ImageRaw},
    mono_font::{
        mapping::{GlyphMapping, Mapping, StrGlyphMapping},
        DecorationDimensions, MonoFont, MonoTextStyle, MonoTextStyleBuilder,
    },
    pixelcolor::{BinaryColor, Gray8},
    prelude::*,
    primitives::Rectangle,
    text::{renderer::TextRenderer, Baseline, DecorationColor},
};
use std::collections::BTreeMap;

// ------------------------------------------------------------------ shared helpers (also used by c15 / c02_text)
pub struct FontSpec {
    pub w: u32, pub h: u32, pub cw: u32, pub ch: u32, pub sp: u32, pub base: u32,
    pub uo: u32, pub uh: u32, pub so: u32, pub sh: u32,
}
pub fn parse_font(a: &[&str]) -> (FontSpec, usize) {
    (FontSpec { w: u(a[0]), h: u(a[1]), cw: u(a[2]), ch: u(a[3]), sp: u(a[4]), base: u(a[5]),
                uo: u(a[6]), uh: u(a[7]), so: u(a[8]), sh: u(a[9]) }, 10)
}
pub fn atlas_bit(x: u32, y: u32) -> bool {
    let (x, y) = (x as u64, y as u64);
    (x * 7 + y * 13 + x * y) % 5 < 2
}
pub fn atlas_data(w: u32, h: u32) -> Vec<u8> {
    let bpr = ((w + 7) / 8) as usize;
    let mut d = vec![0u8; bpr * h as usize];
    for y in 0..h {
        for x in 0..w {
            if atlas_bit(x, y) {
                d[y as usize * bpr + (x / 8) as usize] |= 0x80 >> (x % 8);
            }
        }
    }
    d
}
/// parses "<n> v1 .. vn" starting at a[k]; returns the values and the index after them
pub fn parse_list(a: &[&str], k: usize) -> (Vec<i64>, usize) {
    let n = us(a[k]);
    (a[k + 1..k + 1 + n].iter().map(|s| s.parse::<i64>().unwrap()).collect(), k + 1 + n)
}
pub fn to_string(cps: &[i64]) -> String {
    cps.iter().map(|c| char::from_u32(*c as u32).expect("invalid code point in case line")).collect()
}
pub fn with_synth_font(s: &FontSpec, repl: usize, mapstr: &str, f: impl Fn(&MonoFont) -> String) -> String {
    let data = atlas_data(s.w, s.h);
    let image = ImageRaw::<BinaryColor>::new(&data, Size::new(s.w, s.h)).unwrap();
    let mapping = StrGlyphMapping::new(mapstr, repl);
    let font = MonoFont {
        image,
        character_size: Size::new(s.cw, s.ch),
        character_spacing: s.sp,
        baseline: s.base,
        strikethrough: DecorationDimensions::new(s.so, s.sh),
        underline: DecorationDimensions::new(s.uo, s.uh),
        glyph_mapping: &mapping,
    };
    let r = f(&font);
    // the same font with a CLOSURE glyph mapping (`impl<F: Fn(char) -> usize> GlyphMapping for F`, mapping.rs:56): same answer
    let closure = |c: char| mapping.index(c);
    let font2 = MonoFont { glyph_mapping: &closure, ..font };
    let r2 = f(&font2);
    if r2 != r {
        return format!("CLOSURE-MAPPING-DIFFERS FAIL with a closure glyph mapping the answer is {} instead of {}", &r2[..r2.len().min(120)], &r[..r.len().min(120)]);
    }
    r
}
fn col(s: &str) -> Option<Gray8> {
    if s == "0" { None } else { Some(Gray8::new(u(s) as u8)) }
}
fn dcol(s: &str) -> DecorationColor<Gray8> {
    match s { "0" => DecorationColor::None, "-1" => DecorationColor::TextColor, _ => DecorationColor::Custom(Gray8::new(u(s) as u8)) }
}
/// field-by-field comparison (the public fields are the absolute reference; `==` of the library is not relied upon)
fn same_style(x: &MonoTextStyle<'_, Gray8>, y: &MonoTextStyle<'_, Gray8>) -> bool {
    x.text_color == y.text_color && x.background_color == y.background_color && x.underline_color == y.underline_color
        && x.strikethrough_color == y.strikethrough_color && core::ptr::eq(x.font, y.font)
}
#[track_caller]
fn api_fail(what: &str, got: &MonoTextStyle<'_, Gray8>, want: &MonoTextStyle<'_, Gray8>) -> ! {
    panic!("STYLE-API {}: built (text {:?}, background {:?}, underline {:?}, strikethrough {:?}, same font {}) but the fields requested are (text {:?}, background {:?}, underline {:?}, strikethrough {:?})",
           what, got.text_color, got.background_color, got.underline_color, got.strikethrough_color, core::ptr::eq(got.font, want.font),
           want.text_color, want.background_color, want.underline_color, want.strikethrough_color)
}
/// applies the four requested roles with the builder's setters
fn apply_setters<'a>(mut b: MonoTextStyleBuilder<'a, Gray8>, a: &[&str]) -> MonoTextStyleBuilder<'a, Gray8> {
    if let Some(c) = col(a[0]) { b = b.text_color(c); }
    if let Some(c) = col(a[1]) { b = b.background_color(c); }
    b = match dcol(a[2]) { DecorationColor::None => b, DecorationColor::TextColor => b.underline(), DecorationColor::Custom(c) => b.underline_with_color(c) };
    b = match dcol(a[3]) { DecorationColor::None => b, DecorationColor::TextColor => b.strikethrough(), DecorationColor::Custom(c) => b.strikethrough_with_color(c) };
    b
}
/// style from 4 tokens: text colour, background colour (0 = none), underline, strikethrough (0 none, -1 text colour, else custom).
/// The reference style is made by assigning the public fields; the SAME style is then built through every public way of
/// building / modifying a MonoTextStyle and must come out identical (a difference panics = `PANIC c14.rs:<line>` in the answer).
/// The API-built style is what the suites go on to draw with.
pub fn mk_style<'a>(font: &'a MonoFont<'a>, a: &[&str]) -> MonoTextStyle<'a, Gray8> {
    let mut st = MonoTextStyleBuilder::<Gray8>::new().font(font).build();
    st.text_color = col(a[0]);
    st.background_color = col(a[1]);
    st.underline_color = dcol(a[2]);
    st.strikethrough_color = dcol(a[3]);
    // (a) builder, font() first / font() LAST (font() copies the four colours of the builder it is called on)
    let first = apply_setters(MonoTextStyleBuilder::<Gray8>::new().font(font), a).build();
    if !same_style(&first, &st) { api_fail("builder, font() first", &first, &st); }
    let last = apply_setters(MonoTextStyleBuilder::<Gray8>::new(), a).font(font).build();
    if !same_style(&last, &st) { api_fail("builder, font() last", &last, &st); }
    // (b) From<&MonoTextStyle>, library `==`, Default
    let again = MonoTextStyleBuilder::from(&st).build();
    if !same_style(&again, &st) { api_fail("MonoTextStyleBuilder::from(&style).build()", &again, &st); }
    if !(last == st) { api_fail("PartialEq says the identical style differs", &last, &st); }
    let dflt = MonoTextStyleBuilder::<Gray8>::default().build();
    let blank = MonoTextStyleBuilder::<Gray8>::new().build();
    if dflt.text_color.is_some() || dflt.background_color.is_some() || dflt.underline_color != DecorationColor::None
        || dflt.strikethrough_color != DecorationColor::None || !core::ptr::eq(dflt.font, blank.font) || !dflt.is_transparent() {
        panic!("STYLE-API MonoTextStyleBuilder::default() is not the blank style");
    }
    // (c) MonoTextStyle::new = only a text colour
    if let (Some(c), None, DecorationColor::None, DecorationColor::None) = (st.text_color, st.background_color, st.underline_color, st.strikethrough_color) {
        let n = MonoTextStyle::new(font, c);
        if !same_style(&n, &st) { api_fail("MonoTextStyle::new(font, colour)", &n, &st); }
    }
    // (d) reset_*: start from a builder with all four roles set to something else, reset what is not wanted
    {
        let junk = Gray8::new(251);
        let mut b = MonoTextStyleBuilder::<Gray8>::new().text_color(junk).background_color(junk).underline_with_color(junk).strikethrough_with_color(junk).font(font);
        if st.text_color.is_none() { b = b.reset_text_color(); }
        if st.background_color.is_none() { b = b.reset_background_color(); }
        if st.underline_color == DecorationColor::None { b = b.reset_underline(); }
        if st.strikethrough_color == DecorationColor::None { b = b.reset_strikethrough(); }
        let r = apply_setters(b, a).build();
        if !same_style(&r, &st) { api_fail("builder with reset_* of the unwanted roles", &r, &st); }
        // each reset alone clears exactly its own field
        let full = MonoTextStyleBuilder::from(&r);
        let mut w = r; w.text_color = None;
        let g = full.reset_text_color().build(); if !same_style(&g, &w) { api_fail("reset_text_color", &g, &w); }
        let mut w = r; w.background_color = None;
        let g = full.reset_background_color().build(); if !same_style(&g, &w) { api_fail("reset_background_color", &g, &w); }
        let mut w = r; w.underline_color = DecorationColor::None;
        let g = full.reset_underline().build(); if !same_style(&g, &w) { api_fail("reset_underline", &g, &w); }
        let mut w = r; w.strikethrough_color = DecorationColor::None;
        let g = full.reset_strikethrough().build(); if !same_style(&g, &w) { api_fail("reset_strikethrough", &g, &w); }
    }
    // (e) CharacterStyle setters (the trait has no-op defaults): from a blank and from a fully set style
    {
        use embedded_graphics::text::renderer::CharacterStyle;
        let junk = Gray8::new(251);
        for start in [MonoTextStyleBuilder::<Gray8>::new().font(font).build(),
                      MonoTextStyleBuilder::<Gray8>::new().font(font).text_color(junk).background_color(junk).underline_with_color(junk).strikethrough().build()] {
            let mut s2 = start;
            s2.set_text_color(st.text_color);
            s2.set_background_color(st.background_color);
            s2.set_underline_color(st.underline_color);
            s2.set_strikethrough_color(st.strikethrough_color);
            if !same_style(&s2, &st) { api_fail("CharacterStyle::set_*_color", &s2, &st); }
        }
    }
    if a[0].len() % 2 == 0 { first } else { last }
}
/// reference for TextRenderer::draw_whitespace: background rectangle width x character height (if a background is set),
/// strikethrough then underline over the width, nothing at all for width 0
pub fn expected_whitespace(font: &MonoFont, width: i32, x: i32, ytop: i32, bc: Option<u32>, ul: Option<u32>, st: Option<u32>) -> BTreeMap<(i32, i32), u32> {
    let mut m = BTreeMap::new();
    if width == 0 { return m; }
    if let Some(v) = bc { for dy in 0..font.character_size.height as i32 { for dx in 0..width { m.insert((ytop + dy, x + dx), v); } } }
    for (colr, d) in [(st, font.strikethrough), (ul, font.underline)] {
        if let Some(v) = colr { for dy in 0..d.height as i32 { for dx in 0..width { m.insert((ytop + d.offset as i32 + dy, x + dx), v); } } }
    }
    m
}
/// draw_whitespace on both targets against the reference; Err(description) on a difference
pub fn check_whitespace(font: &MonoFont, st: &MonoTextStyle<'_, Gray8>, sty: &[&str], width: u32, p: Point, bl: Baseline) -> Result<(), String> {
    let mut nat = NativeTarget::<Gray8>::new(big());
    let rn = st.draw_whitespace(width, p, bl, &mut nat).unwrap();
    let mut it = IterTarget::<Gray8>::new(big());
    let ri = st.draw_whitespace(width, p, bl, &mut it).unwrap();
    if nat.map != it.map || rn != ri { return Err("draw_whitespace: native and draw_iter-only targets differ".into()); }
    let (tc, bc) = (optc(sty[0]), optc(sty[1]));
    let exp = expected_whitespace(font, width as i32, p.x, p.y - baseline_off(font, bl), bc, eff(sty[2], tc), eff(sty[3], tc));
    if nat.map != exp { return Err(format!("draw_whitespace({}): {}", width, first_diff(&nat.map, &exp))); }
    if rn != Point::new(p.x + width as i32, p.y) { return Err(format!("draw_whitespace({}) returned {:?}, expected {:?}", width, rn, Point::new(p.x + width as i32, p.y))); }
    Ok(())
}
pub fn baseline_of(s: &str) -> Baseline {
    match s { "0" => Baseline::Top, "1" => Baseline::Bottom, "2" => Baseline::Middle, _ => Baseline::Alphabetic }
}
pub fn big() -> Rectangle {
    Rectangle::new(Point::new(-(1 << 30), -(1 << 30)), Size::new((1 << 31) - 1, (1 << 31) - 1))
}
pub fn kinds(log: &[Call]) -> String {
    log.iter().map(|c| match c { Call::DrawIter(_) => 'I', Call::FillContiguous(..) => 'C', Call::FillSolid(..) => 'S', Call::Clear(_) => 'X' }).collect()
}
/// runs the same drawing on the native and on the draw_iter-only recording target
#[macro_export]
macro_rules! on_both_targets {
    ($t:ident => $e:expr) => {{
        let mut nat = NativeTarget::<Gray8>::new($crate::suites::c14::big());
        let rn = { let $t = &mut nat; $e };
        let mut it = IterTarget::<Gray8>::new($crate::suites::c14::big());
        let ri = { let $t = &mut it; $e };
        (nat, rn, it, ri)
    }};
}

// ------------------------------------------------------------------ built-in fonts by name
pub struct Module {
    pub name: &'static str,
    pub mapping: &'static StrGlyphMapping<'static>,
    pub mapping_name: &'static str,
    pub fonts: Vec<(&'static str, &'static MonoFont<'static>)>,
}
macro_rules! fonts22 {
    ($m:ident) => {{
        use embedded_graphics::mono_font::$m::*;
        vec![("FONT_4X6", &FONT_4X6), ("FONT_5X7", &FONT_5X7), ("FONT_5X8", &FONT_5X8), ("FONT_6X9", &FONT_6X9),
             ("FONT_6X10", &FONT_6X10), ("FONT_6X12", &FONT_6X12), ("FONT_6X13", &FONT_6X13),
             ("FONT_6X13_BOLD", &FONT_6X13_BOLD), ("FONT_6X13_ITALIC", &FONT_6X13_ITALIC), ("FONT_7X13", &FONT_7X13),
             ("FONT_7X13_BOLD", &FONT_7X13_BOLD), ("FONT_7X13_ITALIC", &FONT_7X13_ITALIC), ("FONT_7X14", &FONT_7X14),
             ("FONT_7X14_BOLD", &FONT_7X14_BOLD), ("FONT_8X13", &FONT_8X13), ("FONT_8X13_BOLD", &FONT_8X13_BOLD),
             ("FONT_8X13_ITALIC", &FONT_8X13_ITALIC), ("FONT_9X15", &FONT_9X15), ("FONT_9X15_BOLD", &FONT_9X15_BOLD),
             ("FONT_9X18", &FONT_9X18), ("FONT_9X18_BOLD", &FONT_9X18_BOLD), ("FONT_10X20", &FONT_10X20)]
    }};
}
fn mapping_for(module: &str) -> (&'static StrGlyphMapping<'static>, &'static str) {
    for m in Mapping::iter() {
        if m.mime().to_lowercase() == module {
            return (m.glyph_mapping(), m.mime());
        }
    }
    panic!("no mapping for module {}", module)
}
pub fn modules() -> Vec<Module> {
    let mut v: Vec<(&'static str, Vec<(&'static str, &'static MonoFont<'static>)>)> = vec![
        ("ascii", fonts22!(ascii)), ("iso_8859_1", fonts22!(iso_8859_1)), ("iso_8859_10", fonts22!(iso_8859_10)),
        ("iso_8859_13", fonts22!(iso_8859_13)), ("iso_8859_14", fonts22!(iso_8859_14)), ("iso_8859_15", fonts22!(iso_8859_15)),
        ("iso_8859_16", fonts22!(iso_8859_16)), ("iso_8859_2", fonts22!(iso_8859_2)), ("iso_8859_3", fonts22!(iso_8859_3)),
        ("iso_8859_4", fonts22!(iso_8859_4)), ("iso_8859_5", fonts22!(iso_8859_5)), ("iso_8859_7", fonts22!(iso_8859_7)),
        ("iso_8859_9", fonts22!(iso_8859_9)),
    ];
    {
        use embedded_graphics::mono_font::jis_x0201::*;
        v.push(("jis_x0201", vec![("FONT_6X13", &FONT_6X13), ("FONT_7X14", &FONT_7X14), ("FONT_8X13", &FONT_8X13),
                                  ("FONT_9X15", &FONT_9X15), ("FONT_9X18", &FONT_9X18), ("FONT_10X20", &FONT_10X20)]));
    }
    v.into_iter().map(|(name, fonts)| { let (mapping, mapping_name) = mapping_for(name); Module { name, mapping, mapping_name, fonts } }).collect()
}
/// "module::FONT_NAME" -> (font, the module's mapping)
pub fn find_font(name: &str) -> Option<(&'static MonoFont<'static>, &'static StrGlyphMapping<'static>)> {
    // the crate-private NULL_FONT (default font of MonoTextStyleBuilder; zero-sized, ASCII mapping) is a built-in font too
    if name == "null::NULL_FONT" {
        return Some((MonoTextStyleBuilder::<'static, Gray8>::new().build().font, mapping_for("ascii").0));
    }
    let (m, f) = name.split_once("::")?;
    let module = modules().into_iter().find(|x| x.name == m)?;
    let font = module.fonts.iter().find(|x| x.0 == f)?.1;
    Some((font, module.mapping))
}
/// characters that no built-in mapping contains: control characters, non-BMP, specials
pub const UNMAPPED: [char; 12] = ['\u{0}', '\u{1}', '\t', '\n', '\r', '\u{1f}', '\u{80}', '\u{9f}', '\u{fffd}', '\u{1f600}', '\u{10000}', '\u{10ffff}'];

fn font_fields(f: &MonoFont) -> String {
    format!("{} {} {} {} {} {} {} {} {} {}", f.image.size().width, f.image.size().height, f.character_size.width,
            f.character_size.height, f.character_spacing, f.baseline, f.underline.offset, f.underline.height,
            f.strikethrough.offset, f.strikethrough.height)
}

/// FNV-1a 64 (low 60 bits) over the atlas rows rebuilt from font.image.pixel(): MSB first, padding bits 0
/// (the translator computes the same number from the fonts/raw file)
pub fn bitmap_digest(f: &MonoFont) -> u64 {
    let (w, h) = (f.image.size().width, f.image.size().height);
    let mut hsh: u64 = 0xcbf29ce484222325;
    for y in 0..h {
        let mut x = 0;
        while x < w {
            let mut byte = 0u8;
            for k in 0..8 {
                if x + k < w && f.image.pixel(Point::new((x + k) as i32, y as i32)) == Some(BinaryColor::On) {
                    byte |= 0x80 >> k;
                }
            }
            hsh = (hsh ^ byte as u64).wrapping_mul(0x100000001b3);
            x += 8;
        }
    }
    hsh & ((1u64 << 60) - 1)
}

pub fn run(suite: &str, a: &[&str]) -> Option<String> {
    Some(match suite {
        "c14_ds" => {
            let (spec, k) = parse_font(a);
            let sty = &a[k..k + 4];
            let (x, y, bl, repl) = (i(a[k + 4]), i(a[k + 5]), baseline_of(a[k + 6]), us(a[k + 7]));
            let (map, k2) = parse_list(a, k + 8);
            let (text, _) = parse_list(a, k2);
            let (mapstr, text) = (to_string(&map), to_string(&text));
            with_synth_font(&spec, repl, &mapstr, |font| {
                let st = mk_style(font, sty);
                let (nat, rn, it, ri) = on_both_targets!(t => st.draw_string(&text, Point::new(x, y), bl, t).unwrap());
                if nat.map != it.map || rn != ri {
                    return "TARGETS-DIFFER".to_string();
                }
                let m = st.measure_string(&text, Point::new(x, y), bl);
                format!("{} N {} K {} MS {} {}", smap(&nat.map), spt(rn), kinds(&nat.log), src(m.bounding_box), spt(m.next_position))
            })
        }
        "c14_map" => {
            let repl = us(a[0]);
            let (map, k) = parse_list(a, 1);
            let (probes, _) = parse_list(a, k);
            let mapstr = to_string(&map);
            let m = StrGlyphMapping::new(&mapstr, repl);
            format!("E {} I {} C {}",
                m.chars().map(|c| (c as u32).to_string()).collect::<Vec<_>>().join(","),
                probes.iter().map(|c| m.index(char::from_u32(*c as u32).unwrap()).to_string()).collect::<Vec<_>>().join(","),
                probes.iter().map(|c| sb(m.contains(char::from_u32(*c as u32).unwrap())).to_string()).collect::<Vec<_>>().join(","))
        }
        "c14_bi" => {
            let (probes, _) = parse_list(a, 1);
            match find_font(a[0]) {
                None => "NO-SUCH-FONT".into(),
                Some((f, _)) => format!("F {} D {} I {}", font_fields(f), bitmap_digest(f),
                    probes.iter().map(|c| f.glyph_mapping.index(char::from_u32(*c as u32).unwrap()).to_string()).collect::<Vec<_>>().join(",")),
            }
        }
        "c14_bi_count" => format!("{} {}", modules().iter().map(|m| m.fonts.len()).sum::<usize>(), Mapping::iter().count()),
        "c14_bi_chars" => match Mapping::iter().find(|m| m.mime() == a[0]) {
            None => "NO-SUCH-MAPPING".into(),
            Some(m) => format!("{} R {}", m.glyph_mapping().chars().map(|c| (c as u32).to_string()).collect::<Vec<_>>().join(","),
                               m.glyph_mapping().index('\u{0}')),
        },
        _ => return search(suite, a),
    })
}

// ------------------------------------------------------------------ direct property search (built-in fonts)
/// the cell the public API designates for `c`: index -> row/column with `image width / character width` glyphs per row
fn cell_of(font: &MonoFont, c: char) -> (i32, i32) {
    let gpr = (font.image.size().width / font.character_size.width) as usize;
    let idx = font.glyph_mapping.index(c);
    (((idx % gpr) as u32 * font.character_size.width) as i32, ((idx / gpr) as u32 * font.character_size.height) as i32)
}
fn atlas_on(font: &MonoFont, x: i32, y: i32) -> Option<bool> {
    font.image.pixel(Point::new(x, y)).map(|c| c == BinaryColor::On)
}
/// reference pixel map of one line: set-theoretic reading of the property (spacing 0 or not).
/// `strict`: a cell that is not completely inside the font image is an error (built-in fonts);
/// otherwise such a glyph draws nothing (documented behaviour of sub images).
pub fn expected_line_ex(font: &MonoFont, text: &str, x: i32, ytop: i32, tc: Option<u32>, bc: Option<u32>,
                        ul: Option<u32>, st: Option<u32>, strict: bool) -> Result<BTreeMap<(i32, i32), u32>, String> {
    let (cw, ch, sp) = (font.character_size.width as i32, font.character_size.height as i32, font.character_spacing as i32);
    let isz = font.image.size();
    let mut m = BTreeMap::new();
    let n = text.chars().count() as i32;
    if tc.is_some() || bc.is_some() {
        for (k, c) in text.chars().enumerate() {
            let k = k as i32;
            let usable = cw > 0 && isz.width as i32 >= cw;
            let (gx, gy) = if usable { cell_of(font, c) } else { (0, 0) };
            let inside = usable && ch > 0 && gx + cw <= isz.width as i32 && gy + ch <= isz.height as i32;
            if !inside && strict {
                return Err(format!("cell of {:?} outside the font image", c));
            }
            for dy in 0..ch {
                if inside {
                    for dx in 0..cw {
                        let on = atlas_on(font, gx + dx, gy + dy).ok_or_else(|| format!("cell of {:?} outside the font image", c))?;
                        let colr = if on { tc } else { bc };
                        if let Some(v) = colr { m.insert((ytop + dy, x + k * (cw + sp) + dx), v); }
                    }
                }
                if k + 1 < n {
                    if let Some(v) = bc { for dx in 0..sp { m.insert((ytop + dy, x + k * (cw + sp) + cw + dx), v); } }
                }
            }
        }
    }
    // decorations cover the full text width [x, next.x)
    let width = if tc.is_some() || bc.is_some() { (n * (cw + sp) - if n > 0 { sp } else { 0 }).max(0) } else { n * (cw + sp) };
    for (colr, d) in [(st, font.strikethrough), (ul, font.underline)] {
        if let Some(v) = colr {
            for dy in 0..d.height as i32 { for dx in 0..width { m.insert((ytop + d.offset as i32 + dy, x + dx), v); } }
        }
    }
    Ok(m)
}
pub fn expected_line(font: &MonoFont, text: &str, x: i32, ytop: i32, tc: Option<u32>, bc: Option<u32>,
                     ul: Option<u32>, st: Option<u32>) -> Result<BTreeMap<(i32, i32), u32>, String> {
    expected_line_ex(font, text, x, ytop, tc, bc, ul, st, true)
}
pub fn baseline_off(font: &MonoFont, bl: Baseline) -> i32 {
    let ch = font.character_size.height as i32;
    match bl { Baseline::Top => 0, Baseline::Bottom => (ch - 1).max(0), Baseline::Middle => (ch - 1).max(0) / 2, Baseline::Alphabetic => font.baseline as i32 }
}
pub fn eff(d: &str, tc: Option<u32>) -> Option<u32> {
    match d { "0" => None, "-1" => tc, v => Some(u(v)) }
}
pub fn optc(s: &str) -> Option<u32> {
    if s == "0" { None } else { Some(u(s)) }
}
pub fn first_diff(a: &BTreeMap<(i32, i32), u32>, b: &BTreeMap<(i32, i32), u32>) -> String {
    for (k, v) in a { if b.get(k) != Some(v) { return format!("at ({},{}) drawn {:?} expected {:?}", k.1, k.0, Some(v), b.get(k)); } }
    for (k, v) in b { if a.get(k) != Some(v) { return format!("at ({},{}) drawn {:?} expected {:?}", k.1, k.0, a.get(k), Some(v)); } }
    "equal".into()
}

pub fn search(suite: &str, a: &[&str]) -> Option<String> {
    Some(match suite {
        // every mapped character + unmapped ones of one built-in font, one character at a time, 3 colour modes
        "p_c14_font" => {
            let (font, mapping) = match find_font(a[0]) { Some(x) => x, None => return Some("FAIL no such font".into()) };
            let (cw, ch) = (font.character_size.width, font.character_size.height);
            let isz = font.image.size();
            if cw == 0 || ch == 0 || isz.width < cw { return Some("FAIL degenerate built-in font".into()); }
            let gpr = (isz.width / cw) as usize;
            let mapped: Vec<char> = mapping.chars().collect();
            let mut seen = BTreeMap::new();
            for (pos, c) in mapped.iter().enumerate() {
                let idx = font.glyph_mapping.index(*c);
                if idx != pos { return Some(format!("FAIL index({:?}) = {} but it is character number {} of the mapping", c, idx, pos)); }
                if let Some(o) = seen.insert(idx, *c) { return Some(format!("FAIL {:?} and {:?} share index {}", o, c, idx)); }
                if !mapping.contains(*c) { return Some(format!("FAIL contains({:?}) false", c)); }
                let (col_, row) = (idx % gpr, idx / gpr);
                if (col_ as u32 + 1) * cw > isz.width || (row as u32 + 1) * ch > isz.height {
                    return Some(format!("FAIL cell of {:?} (index {}) not inside the {}x{} font image", c, idx, isz.width, isz.height));
                }
            }
            let repl = font.glyph_mapping.index('\u{0}');
            { let (col_, row) = (repl % gpr, repl / gpr);
              if (col_ as u32 + 1) * cw > isz.width || (row as u32 + 1) * ch > isz.height { return Some(format!("FAIL replacement cell {} outside the font image", repl)); } }
            let mut all: Vec<char> = mapped.clone();
            for c in UNMAPPED.iter() {
                if mapped.contains(c) { continue; }
                if font.glyph_mapping.index(*c) != repl { return Some(format!("FAIL unmapped {:?} has index {} instead of the replacement index {}", c, font.glyph_mapping.index(*c), repl)); }
                all.push(*c);
            }
            if font.glyph_mapping.index('?') != repl && mapped.contains(&'?') { return Some("FAIL replacement glyph is not '?'".into()); }
            let mut n = 0;
            let (x, y) = (i(a[1]), i(a[2]));
            for c in all {
                let s = c.to_string();
                for (tc, bc) in [(Some(1u32), Some(2u32)), (Some(1), None), (None, Some(2))] {
                    let mut st = MonoTextStyleBuilder::<Gray8>::new().font(font).build();
                    st.text_color = tc.map(|v| Gray8::new(v as u8));
                    st.background_color = bc.map(|v| Gray8::new(v as u8));
                    let mut t = NativeTarget::<Gray8>::new(big());
                    let next = st.draw_string(&s, Point::new(x, y), Baseline::Top, &mut t).unwrap();
                    let exp = match expected_line(font, &s, x, y, tc, bc, None, None) { Ok(m) => m, Err(e) => return Some(format!("FAIL {}", e)) };
                    if t.map != exp { return Some(format!("FAIL glyph of {:?} (U+{:04X}) in {}: {}", c, c as u32, a[0], first_diff(&t.map, &exp))); }
                    if next != Point::new(x + cw as i32, y) { return Some(format!("FAIL next position after {:?}: {:?}", c, next)); }
                    n += 1;
                }
            }
            format!("OK {}", n)
        }
        // p_c14_str <font> tc bc ul st x y bl <n text> : whole line, all colour / decoration roles
        "p_c14_str" => {
            let (font, _) = match find_font(a[0]) { Some(x) => x, None => return Some("FAIL no such font".into()) };
            let sty = &a[1..5];
            let (x, y, bl) = (i(a[5]), i(a[6]), baseline_of(a[7]));
            let (text, _) = parse_list(a, 8);
            let text = to_string(&text);
            let st = mk_style(font, sty);
            let (nat, rn, it, ri) = on_both_targets!(t => st.draw_string(&text, Point::new(x, y), bl, t).unwrap());
            if nat.map != it.map || rn != ri { return Some("FAIL native and draw_iter-only targets differ".into()); }
            let ch = font.character_size.height as i32;
            let off = match bl { Baseline::Top => 0, Baseline::Bottom => ch - 1, Baseline::Middle => (ch - 1) / 2, Baseline::Alphabetic => font.baseline as i32 };
            let (tc, bc) = (optc(sty[0]), optc(sty[1]));
            let exp = match expected_line(font, &text, x, y - off, tc, bc, eff(sty[2], tc), eff(sty[3], tc)) { Ok(m) => m, Err(e) => return Some(format!("FAIL {}", e)) };
            if nat.map != exp { return Some(format!("FAIL line {:?} in {}: {}", text, a[0], first_diff(&nat.map, &exp))); }
            let n = text.chars().count() as i32;
            if rn != Point::new(x + n * font.character_size.width as i32, y) { return Some(format!("FAIL next position {:?}", rn)); }
            // TextRenderer::draw_whitespace: widths 0, n cells, and an odd width; against the reference, and against
            // draw_string of n spaces when the font's ' ' glyph is blank
            let cw = font.character_size.width;
            for w in [0, n as u32 * cw, n as u32 * cw + 3] {
                if let Err(e) = check_whitespace(font, &st, sty, w, Point::new(x, y), bl) { return Some(format!("FAIL {} in {}", e, a[0])); }
            }
            {
                let (sx, sy) = cell_of(font, ' ');
                let blank = (0..ch).all(|dy| (0..cw as i32).all(|dx| atlas_on(font, sx + dx, sy + dy) == Some(false)));
                if blank {
                    let spaces = " ".repeat(n as usize);
                    let mut t1 = NativeTarget::<Gray8>::new(big());
                    let r1 = st.draw_string(&spaces, Point::new(x, y), bl, &mut t1).unwrap();
                    let mut t2 = NativeTarget::<Gray8>::new(big());
                    let r2 = st.draw_whitespace(n as u32 * cw, Point::new(x, y), bl, &mut t2).unwrap();
                    if t1.map != t2.map || r1 != r2 { return Some(format!("FAIL draw_whitespace({}) differs from draw_string of {} spaces in {}: {} (returned {:?} vs {:?})", n as u32 * cw, n, a[0], first_diff(&t2.map, &t1.map), r2, r1)); }
                }
            }
            format!("OK {}", nat.map.len())
        }
        // p_c14_deco_defaults <glyph height>: the helpers for custom fonts follow their documentation
        // (strikethrough: offset = (h saturating-1)/2, height 1; underline: offset = h + 1, height 1)
        "p_c14_deco_defaults" => {
            let h = u(a[0]);
            let (st, ul) = (DecorationDimensions::default_strikethrough(h), DecorationDimensions::default_underline(h));
            let want_st = DecorationDimensions::new(if h == 0 { 0 } else { (h - 1) / 2 }, 1);
            let want_ul = DecorationDimensions::new(h + 1, 1);
            if st != want_st { return Some(format!("FAIL default_strikethrough({}) = {:?}, documented {:?}", h, st, want_st)); }
            if ul != want_ul { return Some(format!("FAIL default_underline({}) = {:?}, documented {:?}", h, ul, want_ul)); }
            "OK 2".to_string()
        }
        // p_c14_bitmap <font> <digest>: the glyph bitmap of the running library is the committed reference (Proofs/FontGolden.v)
        "p_c14_bitmap" => {
            let (font, _) = match find_font(a[0]) { Some(x) => x, None => return Some("FAIL no such font".into()) };
            let d = bitmap_digest(font);
            if d.to_string() != a[1] { return Some(format!("FAIL glyph bitmap of {} has digest {} but the committed reference is {}", a[0], d, a[1])); }
            "OK 1".to_string()
        }
        // p_c14_codepage <MAPPING> <n: index codepoint index codepoint ...>: the glyph index of every character the
        // standard code page defines (reference = an independent codec table supplied by the generator)
        "p_c14_codepage" => {
            let m = match Mapping::iter().find(|m| m.mime() == a[0]) { Some(m) => m.glyph_mapping(), None => return Some("FAIL no such mapping".into()) };
            let (pairs, _) = parse_list(a, 1);
            for pr in pairs.chunks(2) {
                let c = char::from_u32(pr[1] as u32).unwrap();
                if m.index(c) != pr[0] as usize || !m.contains(c) {
                    return Some(format!("FAIL {}: code page position {} is {:?} (U+{:04X}) but its glyph index is {}", a[0], pr[0], c, pr[1], m.index(c)));
                }
            }
            format!("OK {}", pairs.len() / 2)
        }
        // p_c14_synth <same arguments as c14_ds>: custom fonts (spacing, any atlas row length) against the set-theoretic reference
        "p_c14_synth" => {
            let (spec, k) = parse_font(a);
            let sty = &a[k..k + 4];
            let (x, y, bl, repl) = (i(a[k + 4]), i(a[k + 5]), baseline_of(a[k + 6]), us(a[k + 7]));
            let (map, k2) = parse_list(a, k + 8);
            let (text, _) = parse_list(a, k2);
            let (mapstr, text) = (to_string(&map), to_string(&text));
            with_synth_font(&spec, repl, &mapstr, |font| {
                let st = mk_style(font, sty);
                let (nat, rn, it, ri) = on_both_targets!(t => st.draw_string(&text, Point::new(x, y), bl, t).unwrap());
                if nat.map != it.map || rn != ri { return "FAIL native and draw_iter-only targets differ".to_string(); }
                let (tc, bc) = (optc(sty[0]), optc(sty[1]));
                let exp = match expected_line_ex(font, &text, x, y - baseline_off(font, bl), tc, bc, eff(sty[2], tc), eff(sty[3], tc), false) {
                    Ok(m) => m, Err(e) => return format!("FAIL {}", e) };
                if nat.map != exp { return format!("FAIL custom font line {:?}: {}", text, first_diff(&nat.map, &exp)); }
                for w in [0u32, 1, spec.cw * 2 + spec.sp, 17] {
                    if let Err(e) = check_whitespace(font, &st, sty, w, Point::new(x, y), bl) { return format!("FAIL custom font {}", e); }
                }
                format!("OK {}", nat.map.len())
            })
        }
        _ => return None,
    })
}
