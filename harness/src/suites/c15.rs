//! C15: Text layout (Text::draw / bounding_box with MonoTextStyle), implementation side.
//!   c15_text <font:10> <style:4> align base lhk lhv x y repl <n map..> <n text..>   synthetic font (see c14.rs)
//!   p_c15 <builtin font> <style:4> align base lhk lhv x y <n text..> <n s2..>          the property on real fonts
use crate::on_both_targets;
use crate::suites::c14::*;
use crate::util::*;
use embedded_graphics::{
    mono_font::{MonoFont, MonoTextStyle},
    pixelcolor::Gray8,
    prelude::*,
    primitives::Rectangle,
    text::{renderer::TextRenderer, Alignment, Baseline, LineHeight, Text, TextStyle, TextStyleBuilder},
};
use std::collections::BTreeMap;

pub fn align_of(s: &str) -> Alignment {
    match s { "0" => Alignment::Left, "1" => Alignment::Center, _ => Alignment::Right }
}
pub fn lh_of(k: &str, v: &str) -> LineHeight {
    if k == "0" { LineHeight::Pixels(u(v)) } else { LineHeight::Percent(u(v)) }
}
pub fn tstyle(a: &[&str]) -> TextStyle {
    TextStyleBuilder::new().alignment(align_of(a[0])).baseline(baseline_of(a[1])).line_height(lh_of(a[2], a[3])).build()
}
type Map = BTreeMap<(i32, i32), u32>;

/// draws on both recording targets; Err if they differ
pub fn draw_text(st: MonoTextStyle<'_, Gray8>, ts: TextStyle, text: &str, pos: Point) -> Result<(Map, Point, Rectangle), String> {
    let t = Text::with_text_style(text, pos, st, ts);
    let (nat, rn, it, ri) = on_both_targets!(tg => t.draw(tg).unwrap());
    if nat.map != it.map || rn != ri {
        return Err("native and draw_iter-only targets differ".into());
    }
    Ok((nat.map, rn, t.bounding_box()))
}
fn union(a: &Map, b: &Map) -> Map {
    let mut m = a.clone();
    for (k, v) in b { m.insert(*k, *v); }
    m
}
fn line_height(font: &MonoFont, a: &[&str]) -> i32 {
    let ch = font.character_size.height;
    if a[2] == "0" { u(a[3]) as i32 } else { (ch * u(a[3]) / 100) as i32 }
}

pub fn run(suite: &str, a: &[&str]) -> Option<String> {
    Some(match suite {
        "c15_text" => {
            let (spec, k) = parse_font(a);
            let sty = &a[k..k + 4];
            let ts = tstyle(&a[k + 4..k + 8]);
            let (x, y, repl) = (i(a[k + 8]), i(a[k + 9]), us(a[k + 10]));
            let (map, k2) = parse_list(a, k + 11);
            let (text, _) = parse_list(a, k2);
            let (mapstr, text) = (to_string(&map), to_string(&text));
            with_synth_font(&spec, repl, &mapstr, |font| {
                let st = mk_style(font, sty);
                match draw_text(st, ts, &text, Point::new(x, y)) {
                    Err(_) => "TARGETS-DIFFER".to_string(),
                    Ok((m, n, bb)) => format!("{} N {} BB {}", smap(&m), spt(n), src(bb)),
                }
            })
        }
        "p_c15" => {
            let (font, _) = match find_font(a[0]) { Some(x) => x, None => return Some("FAIL no such font".into()) };
            let sty = &a[1..5];
            let tsa = &a[5..9];
            let ts = tstyle(tsa);
            let pos = Point::new(i(a[9]), i(a[10]));
            let (text, k2) = parse_list(a, 11);
            let (s2, _) = parse_list(a, k2);
            let (text, s2) = (to_string(&text), to_string(&s2));
            let st = mk_style(font, sty);
            match check(font, st, sty, ts, tsa, &text, &s2, pos) { Ok(n) => format!("OK {}", n), Err(e) => format!("FAIL {} [font {} text {:?} s2 {:?}]", e, a[0], text, s2) }
        }
        _ => return None,
    })
}

/// The statements of C15, evaluated with independent arithmetic on a real built-in font.
fn check(font: &MonoFont, st: MonoTextStyle<'_, Gray8>, sty: &[&str], ts: TextStyle, tsa: &[&str], text: &str, s2: &str, pos: Point) -> Result<usize, String> {
    let (cw, ch) = (font.character_size.width as i32, font.character_size.height as i32);
    let lh = line_height(font, tsa);
    let off = baseline_off(font, ts.baseline);
    let (full, ret, bb) = draw_text(st, ts, text, pos)?;
    // the lines, independently: split on '\n', drop one trailing '\r'
    let lines: Vec<&str> = text.split('\n').map(|l| l.strip_suffix('\r').unwrap_or(l)).collect();
    let (tc, bc) = (optc(sty[0]), optc(sty[1]));
    // (1) per line: alignment, baseline, glyph cells (C14 reference), k line heights lower
    let mut exp = Map::new();
    let mut hull: Option<(i32, i32, i32, i32)> = None;
    let mut last_next = pos;
    for (k, l) in lines.iter().enumerate() {
        let n = l.chars().count() as i32;
        let w = n * cw;
        let left = match ts.alignment {
            Alignment::Left => pos.x,
            Alignment::Right => pos.x - w + 1,
            Alignment::Center => pos.x - (w - 1) / 2, // i32 division truncates: (−1)/2 = 0 for the empty line
        };
        let liney = pos.y + k as i32 * lh;
        // (the zero-sized null font has no glyph cells: nothing is expected for the characters themselves)
        let m = expected_line_ex(font, l, left, liney - off, tc, bc, eff(sty[2], tc), eff(sty[3], tc), cw > 0 && ch > 0)?;
        // alignment statement on the measured box of the line
        let met = st.measure_string(l, Point::new(left, liney), ts.baseline);
        let b = met.bounding_box;
        if b.top_left != Point::new(left, liney - off) || b.size.width as i32 != w { return Err(format!("measure_string box {:?} of line {} is not at ({},{}) width {}", b, k, left, liney - off, w)); }
        let ok = match ts.alignment {
            Alignment::Left => b.top_left.x == pos.x,
            Alignment::Right => b.top_left.x + w - 1 == pos.x,
            Alignment::Center => (2 * pos.x - (2 * b.top_left.x + w - 1)).abs() <= 1,
        };
        if !ok { return Err(format!("line {} box {:?} not aligned on x={}", k, b, pos.x)); }
        let want_h = if sty[2] == "0" { ch } else { ch.max((font.underline.offset + font.underline.height) as i32) };
        if b.size.height as i32 != want_h { return Err(format!("line box height {} instead of {}", b.size.height, want_h)); }
        if w > 0 {
            let (x0, y0, x1, y1) = (b.top_left.x, b.top_left.y, b.top_left.x + w - 1, b.top_left.y + b.size.height as i32 - 1);
            hull = Some(match hull { None => (x0, y0, x1, y1), Some((a0, b0, a1, b1)) => (a0.min(x0), b0.min(y0), a1.max(x1), b1.max(y1)) });
        }
        exp = union(&exp, &m);
        last_next = met.next_position;
    }
    if full != exp { return Err(format!("Text::draw differs from its lines drawn cell by cell: {}", first_diff(&full, &exp))); }
    // (2) draw returns what measure_string predicts for the last line
    if ret != last_next { return Err(format!("draw returned {:?}, measure_string of the last line predicts {:?}", ret, last_next)); }
    // draw_string vs measure_string of the renderer itself, on the first line
    {
        let mut t = NativeTarget::<Gray8>::new(big());
        let r = st.draw_string(lines[0], pos, ts.baseline, &mut t).unwrap();
        let m = st.measure_string(lines[0], pos, ts.baseline);
        if r != m.next_position { return Err(format!("draw_string returned {:?}, measure_string {:?}", r, m.next_position)); }
    }
    // (3) bounding box = hull of the non-empty line boxes
    let want = match hull { Some((x0, y0, x1, y1)) => Rectangle::with_corners(Point::new(x0, y0), Point::new(x1, y1)), None => Rectangle::new(pos, Size::zero()) };
    if bb != want { return Err(format!("bounding_box {:?}, hull of the line boxes {:?}", bb, want)); }
    // (4) baseline: same picture as Top at y - offset, returned position offset lower
    {
        let ts0 = TextStyleBuilder::from(&ts).baseline(Baseline::Top).build();
        let (m0, r0, _) = draw_text(st, ts0, text, pos - Point::new(0, off))?;
        if m0 != full || r0 + Point::new(0, off) != ret { return Err(format!("baseline {:?} is not Top moved by {}", ts.baseline, off)); }
    }
    // (5) newline split: text = l ++ "\n" ++ r at the first '\n'
    if let Some(ix) = text.find('\n') {
        let (l, r) = (&text[..ix], &text[ix + 1..]);
        let (ml, _, _) = draw_text(st, ts, l, pos)?;
        let (mr, rr, _) = draw_text(st, ts, r, pos + Point::new(0, lh))?;
        if union(&ml, &mr) != full || rr != ret { return Err(format!("drawing {:?} and {:?} {} lower differs from the whole text (returned {:?} vs {:?})", l, r, lh, rr, ret)); }
    }
    // (6) "\r\n" behaves like "\n"
    if text.contains("\r\n") {
        let lf = text.replace("\r\n", "\n");
        // claimed when no line that is followed by "\r\n" itself ends in '\r' (exactly one '\r' is stripped per line)
        if !text.contains("\r\r\n") {
            let (m2, r2, b2) = draw_text(st, ts, &lf, pos)?;
            if m2 != full || r2 != ret || b2 != bb { return Err(format!("CR LF text differs from its LF form {:?}: {}", lf, first_diff(&full, &m2))); }
        }
    }
    // (7) chaining, left aligned: draw text, then s2 (no '\n') at the returned position = draw (text ++ s2)
    if ts.alignment == Alignment::Left && !s2.contains('\n') && !text.ends_with('\r') {
        let (m2, r2, _) = draw_text(st, ts, s2, ret)?;
        let joined = format!("{}{}", text, s2);
        let (mj, rj, _) = draw_text(st, ts, &joined, pos)?;
        if union(&full, &m2) != mj || r2 != rj { return Err(format!("chaining: drawing s2 at the returned position differs from drawing the concatenation: {}", first_diff(&union(&full, &m2), &mj))); }
    }
    // (8) the convenience constructors build the same Text / TextStyle as the builder
    {
        let dflt = TextStyle::default();
        if dflt != TextStyleBuilder::new().alignment(Alignment::Left).baseline(Baseline::Alphabetic).line_height(LineHeight::Percent(100)).build() {
            return Err("TextStyle::default() is not Left / Alphabetic / 100%".into());
        }
        if LineHeight::default() != LineHeight::Percent(100) { return Err("LineHeight::default() is not Percent(100)".into()); }
        if TextStyleBuilder::default().build() != dflt || TextStyleBuilder::new().build() != dflt { return Err("TextStyleBuilder::default()/new() does not build TextStyle::default()".into()); }
        if TextStyleBuilder::from(&ts).build() != ts { return Err("TextStyleBuilder::from(&style).build() differs from the style".into()); }
        if TextStyle::with_baseline(ts.baseline) != TextStyleBuilder::new().baseline(ts.baseline).build() { return Err("TextStyle::with_baseline differs from the builder".into()); }
        if TextStyle::with_alignment(ts.alignment) != TextStyleBuilder::new().alignment(ts.alignment).build() { return Err("TextStyle::with_alignment differs from the builder".into()); }
        let mut forms: Vec<(&str, Text<'_, MonoTextStyle<'_, Gray8>>, TextStyle)> = Vec::new();
        forms.push(("Text::new", Text::new(text, pos, st), dflt));
        forms.push(("Text::with_baseline", Text::with_baseline(text, pos, st, ts.baseline), TextStyleBuilder::new().baseline(ts.baseline).build()));
        forms.push(("Text::with_alignment", Text::with_alignment(text, pos, st, ts.alignment), TextStyleBuilder::new().alignment(ts.alignment).build()));
        for (name, t, want_ts) in forms {
            let reference = Text::with_text_style(text, pos, st, want_ts);
            if t != reference { return Err(format!("{} builds {:?}, expected text style {:?}", name, t.text_style, want_ts)); }
            let mut a = NativeTarget::<Gray8>::new(big());
            let ra = t.draw(&mut a).unwrap();
            if want_ts == ts {
                if a.map != full || ra != ret || t.bounding_box() != bb { return Err(format!("{} renders differently from with_text_style", name)); }
            } else {
                let (m2, r2, b2) = draw_text(st, want_ts, text, pos)?;
                if a.map != m2 || ra != r2 || t.bounding_box() != b2 { return Err(format!("{} renders differently from with_text_style", name)); }
            }
        }
    }
    Ok(full.len() + 1)
}
