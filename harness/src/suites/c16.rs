//! C16: Rectangle operations
use crate::util::*;
use embedded_graphics::{geometry::{AnchorPoint, AnchorX, AnchorY}, prelude::*, primitives::Rectangle};

fn axo(s: &str) -> AnchorX {
    match s { "0" => AnchorX::Left, "1" => AnchorX::Center, _ => AnchorX::Right }
}
fn ayo(s: &str) -> AnchorY {
    match s { "0" => AnchorY::Top, "1" => AnchorY::Center, _ => AnchorY::Bottom }
}
fn opt_pt(p: Option<Point>) -> String {
    p.map(spt).unwrap_or_else(|| "none".into())
}

pub fn run(suite: &str, a: &[&str]) -> Option<String> {
    Some(match suite {
        "rect_pair" => {
            let r1 = rc(a[0], a[1], a[2], a[3]);
            let r2 = rc(a[4], a[5], a[6], a[7]);
            format!("I {} E {}", src(r1.intersection(&r2)), src(r1.envelope(&r2)))
        }
        "rect_one" => {
            let r = rc(a[0], a[1], a[2], a[3]);
            format!(
                "BR {} C {} ROWS {} {} COLS {} {} Z {} WC {}",
                opt_pt(r.bottom_right()), spt(r.center()), r.rows().start, r.rows().end,
                r.columns().start, r.columns().end, sb(r.is_zero_sized()),
                src(Rectangle::with_center(r.center(), r.size))
            )
        }
        "rect_contains" => sb(rc(a[0], a[1], a[2], a[3]).contains(pt(a[4], a[5]))).to_string(),
        "rect_points" => spts(rc(a[0], a[1], a[2], a[3]).points()),
        "rect_corners" => src(Rectangle::with_corners(pt(a[0], a[1]), pt(a[2], a[3]))),
        "rect_with_center" => src(Rectangle::with_center(pt(a[0], a[1]), Size::new(u(a[2]), u(a[3])))),
        "rect_anchor" => spt(rc(a[0], a[1], a[2], a[3]).anchor_point(AnchorPoint::from_xy(axo(a[4]), ayo(a[5])))),
        "rect_resized" => {
            let r = rc(a[0], a[1], a[2], a[3]);
            let s = Size::new(u(a[4]), u(a[5]));
            format!(
                "{} W {} H {}",
                src(r.resized(s, AnchorPoint::from_xy(axo(a[6]), ayo(a[7])))),
                src(r.resized_width(s.width, axo(a[6]))),
                src(r.resized_height(s.height, ayo(a[7])))
            )
        }
        "rect_offset" => src(rc(a[0], a[1], a[2], a[3]).offset(i(a[4]))),
        _ => return search(suite, a),
    })
}

// ---- direct property search on the implementation (suite names start with p_) ----
fn window(rs: &[Rectangle], m: i32) -> Rectangle {
    let mut x0 = i32::MAX; let mut y0 = i32::MAX; let mut x1 = i32::MIN; let mut y1 = i32::MIN;
    for r in rs {
        x0 = x0.min(r.top_left.x); y0 = y0.min(r.top_left.y);
        x1 = x1.max(r.top_left.x + r.size.width as i32); y1 = y1.max(r.top_left.y + r.size.height as i32);
    }
    Rectangle::with_corners(Point::new(x0 - m, y0 - m), Point::new(x1 + m, y1 + m))
}
fn in_set(r: &Rectangle, p: Point) -> bool {
    // the meaning of "top-left plus size" as a point set, written independently of the library
    let (x, y) = (r.top_left.x as i64, r.top_left.y as i64);
    (p.x as i64) >= x && (p.x as i64) < x + r.size.width as i64 && (p.y as i64) >= y && (p.y as i64) < y + r.size.height as i64
}
fn widen1(r: &Rectangle) -> Rectangle {
    Rectangle::new(r.top_left, Size::new(r.size.width.max(1), r.size.height.max(1)))
}

pub fn search(suite: &str, a: &[&str]) -> Option<String> {
    Some(match suite {
        "p_rect_pair" => {
            let r1 = rc(a[0], a[1], a[2], a[3]);
            let r2 = rc(a[4], a[5], a[6], a[7]);
            let i12 = r1.intersection(&r2);
            let i21 = r2.intersection(&r1);
            let env = r1.envelope(&r2);
            let win = window(&[r1, r2], 2);
            let mut common = 0;
            for p in win.points() {
                let both = in_set(&r1, p) && in_set(&r2, p);
                if both { common += 1; }
                if i12.contains(p) != both { return Some(format!("FAIL intersection at {:?}: {:?}", p, i12)); }
                if i21.contains(p) != both { return Some(format!("FAIL intersection (swapped) at {:?}: {:?}", p, i21)); }
                if (in_set(&widen1(&r1), p) || in_set(&widen1(&r2), p)) && !env.contains(p) {
                    return Some(format!("FAIL envelope misses {:?}: {:?}", p, env));
                }
            }
            if common == 0 && !i12.is_zero_sized() { return Some(format!("FAIL disjoint but not zero sized: {:?}", i12)); }
            // least: each side of the envelope is touched by one of the (widened) operands
            let (w1, w2) = (widen1(&r1), widen1(&r2));
            let e_br = env.bottom_right().unwrap_or(env.top_left);
            let ok = env.top_left.x == w1.top_left.x.min(w2.top_left.x)
                && env.top_left.y == w1.top_left.y.min(w2.top_left.y)
                && e_br.x == w1.bottom_right().unwrap().x.max(w2.bottom_right().unwrap().x)
                && e_br.y == w1.bottom_right().unwrap().y.max(w2.bottom_right().unwrap().y);
            if !ok { return Some(format!("FAIL envelope not least: {:?}", env)); }
            format!("OK {}", common)
        }
        "p_rect_one" => {
            let r = rc(a[0], a[1], a[2], a[3]);
            let win = window(&[r], 2);
            let expect: Vec<Point> = win.points().filter(|p| in_set(&r, *p)).collect();
            let got: Vec<Point> = r.points().collect();
            if expect != got { return Some(format!("FAIL points() differs from row-major contained points ({} vs {})", got.len(), expect.len())); }
            for p in win.points() {
                if r.contains(p) != in_set(&r, p) { return Some(format!("FAIL contains at {:?}", p)); }
            }
            match r.bottom_right() {
                Some(br) => if !(in_set(&r, br) && !in_set(&r, br + Point::new(1, 0)) && !in_set(&r, br + Point::new(0, 1))) { return Some("FAIL bottom_right".into()); },
                None => if !expect.is_empty() { return Some("FAIL bottom_right none".into()); },
            }
            if r.rows() != (r.top_left.y..r.top_left.y + r.size.height as i32) || r.columns() != (r.top_left.x..r.top_left.x + r.size.width as i32) {
                return Some("FAIL rows/columns".into());
            }
            if Rectangle::with_center(r.center(), r.size) != r { return Some("FAIL with_center(center)".into()); }
            // trivial constructors have a value oracle too
            if Rectangle::new_at_origin(r.size) != Rectangle::new(Point::zero(), r.size) { return Some("FAIL new_at_origin".into()); }
            if Rectangle::zero() != Rectangle::new(Point::zero(), Size::zero()) || Rectangle::default() != Rectangle::zero() { return Some("FAIL zero/default".into()); }
            if r.is_zero_sized() != (r.size.width == 0 || r.size.height == 0) { return Some("FAIL is_zero_sized".into()); }
            if let Some(br) = r.bottom_right() {
                let c = r.center();
                let dx = r.top_left.x + br.x - 2 * c.x; let dy = r.top_left.y + br.y - 2 * c.y;
                if !(0..=1).contains(&dx) || !(0..=1).contains(&dy) { return Some("FAIL center not midpoint".into()); }
            }
            // the same queries through the TRAIT impls of the main crate (generic code sees these, not the inherent methods)
            {
                use embedded_graphics::primitives::{ContainsPoint, OffsetOutline, PointsIter};
                use embedded_graphics::transform::Transform;
                for p in win.points() {
                    if ContainsPoint::contains(&r, p) != in_set(&r, p) { return Some(format!("FAIL ContainsPoint::contains at {:?}", p)); }
                }
                let tp: Vec<Point> = PointsIter::points(&r).collect();
                if tp != got { return Some("FAIL PointsIter::points differs from Rectangle::points".into()); }
                if Dimensions::bounding_box(&r) != r { return Some("FAIL Dimensions::bounding_box".into()); }
                for n in [-3, -1, 0, 1, 2] {
                    if OffsetOutline::offset(&r, n) != r.offset(n) { return Some(format!("FAIL OffsetOutline::offset({}) differs from Rectangle::offset", n)); }
                }
                let d = Point::new(7, -5);
                let t = Transform::translate(&r, d);
                let mut t2 = r;
                Transform::translate_mut(&mut t2, d);
                if t.top_left != r.top_left + d || t.size != r.size || t2 != t { return Some("FAIL Transform::translate / translate_mut".into()); }
            }
            format!("OK {}", got.len())
        }
        "p_rect_resized" => {
            let r = rc(a[0], a[1], a[2], a[3]);
            let s = Size::new(u(a[4]), u(a[5]));
            for (ai, ax) in [AnchorX::Left, AnchorX::Center, AnchorX::Right].into_iter().enumerate() {
                for (bi, ay) in [AnchorY::Top, AnchorY::Center, AnchorY::Bottom].into_iter().enumerate() {
                    let ap = AnchorPoint::from_xy(ax, ay);
                    let n = r.resized(s, ap);
                    if n.size != s { return Some("FAIL resized size".into()); }
                    let (p0, p1) = (r.anchor_point(ap), n.anchor_point(ap));
                    let tx = if ai == 1 { 1 } else { 0 }; let ty = if bi == 1 { 1 } else { 0 };
                    if (p0.x - p1.x).abs() > tx || (p0.y - p1.y).abs() > ty { return Some(format!("FAIL anchor {:?} moved {:?} -> {:?}", ap, p0, p1)); }
                    // anchor points mean what they say on the point set (zero extent as 1)
                    let w = widen1(&r); let br = w.bottom_right().unwrap();
                    let ex = match ai { 0 => w.top_left.x, 1 => w.top_left.x + (br.x - w.top_left.x) / 2, _ => br.x };
                    let ey = match bi { 0 => w.top_left.y, 1 => w.top_left.y + (br.y - w.top_left.y) / 2, _ => br.y };
                    if p0 != Point::new(ex, ey) { return Some(format!("FAIL anchor_point {:?} = {:?}", ap, p0)); }
                    // the per-axis entry points and the AnchorPoint accessors
                    if Point::new(r.anchor_x(ax), r.anchor_y(ay)) != p0 { return Some(format!("FAIL anchor_x/anchor_y {:?}", ap)); }
                    if ap.x() != ax || ap.y() != ay { return Some("FAIL AnchorPoint::x/y".into()); }
                    if r.resized_width(s.width, ax) != r.resized(Size::new(s.width, r.size.height), ap) { return Some("FAIL resized_width".into()); }
                    if r.resized_height(s.height, ay) != r.resized(Size::new(r.size.width, s.height), ap) { return Some("FAIL resized_height".into()); }
                }
            }
            "OK 9".into()
        }
        "p_rect_offset" => {
            let r = rc(a[0], a[1], a[2], a[3]);
            let n = i(a[4]);
            let o = r.offset(n);
            let (w, h) = (r.size.width as i64, r.size.height as i64);
            let n64 = n as i64;
            let ok = if n >= 0 {
                // per axis; a zero extent grows to 2n starting n-1 before the old position (C16_offset_grow_axis)
                let axis = |t0: i32, e: i64, t1: i32, e1: u32| {
                    if e > 0 { t1 as i64 == t0 as i64 - n64 && e1 as i64 == e + 2 * n64 }
                    else if n64 > 0 { t1 as i64 == t0 as i64 - (n64 - 1) && e1 as i64 == 2 * n64 }
                    else { t1 == t0 && e1 == 0 }
                };
                axis(r.top_left.x, w, o.top_left.x, o.size.width) && axis(r.top_left.y, h, o.top_left.y, o.size.height)
            } else {
                let m = -n64;
                (if 2 * m < w { o.top_left.x as i64 == r.top_left.x as i64 + m && o.size.width as i64 == w - 2 * m } else { o.size.width == 0 })
                    && (if 2 * m < h { o.top_left.y as i64 == r.top_left.y as i64 + m && o.size.height as i64 == h - 2 * m } else { o.size.height == 0 })
            };
            if !ok { return Some(format!("FAIL offset {} of {:?} = {:?}", n, r, o)); }
            "OK 1".into()
        }
        _ => return None,
    })
}
