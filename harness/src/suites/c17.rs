//! C17: Line::points() and Styled<Line>::pixels()
use crate::util::*;
use embedded_graphics::{
    pixelcolor::Gray8,
    prelude::*,
    primitives::{Line, PrimitiveStyle},
};
use std::collections::BTreeSet;

fn ln(a: &[&str]) -> Line {
    Line::new(pt(a[0], a[1]), pt(a[2], a[3]))
}

const MD: i64 = 1_000_000_007;
fn nn(v: i64) -> i64 {
    ((v % MD) + MD) % MD
}
/// order-sensitive digest "n first last h" (same arithmetic as ocaml/suites/c17.ml)
fn digest<I: Iterator<Item = Point>>(it: I) -> String {
    let mut n = 0u64;
    let mut h: i64 = 7;
    let mut first = "none".to_string();
    let mut last = "none".to_string();
    for p in it {
        if n == 0 {
            first = format!("{}:{}", p.x, p.y);
        }
        last = format!("{}:{}", p.x, p.y);
        n += 1;
        h = (((h * 31) % MD) + nn(p.x as i64) * 3 + nn(p.y as i64)) % MD;
    }
    format!("{} {} {} {}", n, first, last, h)
}

/// every thin-line clause of C17 on the real `Line::points()`, exact integer arithmetic
fn p_line(l: Line) -> String {
    let pts: Vec<Point> = l.points().collect();
    let dx = l.end.x as i128 - l.start.x as i128;
    let dy = l.end.y as i128 - l.start.y as i128;
    let dmaj = dx.abs().max(dy.abs());
    if pts.len() as i128 != dmaj + 1 {
        return format!("FAIL length {} expected {}", pts.len(), dmaj + 1);
    }
    if pts[0] != l.start {
        return format!("FAIL first {}:{}", pts[0].x, pts[0].y);
    }
    if *pts.last().unwrap() != l.end {
        let q = pts.last().unwrap();
        return format!("FAIL last {}:{}", q.x, q.y);
    }
    // constructors and accessors: Line::new vs struct literal, Line::delta, Line::with_delta, Line::midpoint
    if Line::new(l.start, l.end) != (Line { start: l.start, end: l.end }) {
        return "FAIL Line::new differs from the struct literal".into();
    }
    let dl = l.delta();
    if dl.x as i128 != dx || dl.y as i128 != dy {
        return format!("FAIL Line::delta {}:{} expected {}:{}", dl.x, dl.y, dx, dy);
    }
    let wd = Line::with_delta(l.start, dl);
    if wd != l {
        return format!("FAIL Line::with_delta(start, delta) = {}:{} -> {}:{}", wd.start.x, wd.start.y, wd.end.x, wd.end.y);
    }
    let mp = l.midpoint();
    // i32 `/` truncates towards zero
    if mp.x as i128 != l.start.x as i128 + dx / 2 || mp.y as i128 != l.start.y as i128 + dy / 2 {
        return format!("FAIL Line::midpoint {}:{}", mp.x, mp.y);
    }
    let ymaj = dy.abs() >= dx.abs();
    for (k, p) in pts.iter().enumerate() {
        let ox = p.x as i128 - l.start.x as i128;
        let oy = p.y as i128 - l.start.y as i128;
        // within half a pixel of the ideal line, measured along the minor axis: 2*|cross| <= dmaj
        let cross = ox * dy - oy * dx;
        if 2 * cross.abs() > dmaj {
            return format!("FAIL half-pixel k={} p={}:{} cross={} dmaj={}", k, p.x, p.y, cross, dmaj);
        }
        // Euclidean: dist^2 = cross^2 / (dx^2+dy^2) <= 1/4
        if 4 * cross * cross > dx * dx + dy * dy {
            return format!("FAIL euclid k={} p={}:{}", k, p.x, p.y);
        }
        // the projection onto the line lies inside the segment
        let dot = ox * dx + oy * dy;
        if dot < 0 || dot > dx * dx + dy * dy {
            return format!("FAIL beyond-ends k={} p={}:{}", k, p.x, p.y);
        }
        // k steps along the major axis
        let (omaj, dm) = if ymaj { (oy, dy) } else { (ox, dx) };
        if omaj != (k as i128) * dm.signum() {
            return format!("FAIL major-offset k={} p={}:{}", k, p.x, p.y);
        }
        if k > 0 {
            let q = pts[k - 1];
            let sx = (p.x - q.x) as i128;
            let sy = (p.y - q.y) as i128;
            let (smaj, smin, dmin_) = if ymaj { (sy, sx, dx) } else { (sx, sy, dy) };
            if smaj != dm.signum() || !(smin == 0 || smin == dmin_.signum()) {
                return format!("FAIL step k={} {}:{} -> {}:{}", k, q.x, q.y, p.x, p.y);
            }
        }
    }
    format!("OK {}", pts.len())
}

/// every thick-line clause of C17 on the real `Styled<Line>::pixels()`, exact integer arithmetic
fn p_thick(l: Line, w: u32) -> String {
    let pts: Vec<Point> =
        l.into_styled(PrimitiveStyle::with_stroke(Gray8::new(1), w)).pixels().map(|p| p.0).take(pixel_budget(&l, w)).collect();
    let thin: Vec<Point> = l.points().collect();
    if w == 0 {
        return if pts.is_empty() { "OK 0".into() } else { format!("FAIL width-0 draws {}", pts.len()) };
    }
    if w == 1 && pts != thin {
        return "FAIL width-1 differs from points()".into();
    }
    let dx = l.end.x as i128 - l.start.x as i128;
    let dy = l.end.y as i128 - l.start.y as i128;
    let dmaj = dx.abs().max(dy.abs());
    let len2 = dx * dx + dy * dy;
    let wi = w as i128;
    // termination bound: at most 3w+2 parallels of at most dmaj+1 pixels
    if pts.len() as i128 > (3 * wi + 2) * (dmaj + 1) {
        return format!("FAIL too-many-pixels {}", pts.len());
    }
    let set: BTreeSet<(i32, i32)> = pts.iter().map(|p| (p.x, p.y)).collect();
    if set.len() != pts.len() {
        let mut seen = BTreeSet::new();
        for p in &pts {
            if !seen.insert((p.x, p.y)) {
                return format!("FAIL duplicate {}:{}", p.x, p.y);
            }
        }
    }
    for p in &thin {
        if !set.contains(&(p.x, p.y)) {
            return format!("FAIL thin-missing {}:{}", p.x, p.y);
        }
    }
    for p in &pts {
        let ox = p.x as i128 - l.start.x as i128;
        let oy = p.y as i128 - l.start.y as i128;
        if len2 == 0 {
            // zero length: the ideal "line" is the point itself
            if 4 * (ox * ox + oy * oy) > (wi + 5) * (wi + 5) {
                return format!("FAIL distance(zero-length) {}:{}", p.x, p.y);
            }
            continue;
        }
        // distance to the ideal line = |cross| / len <= w/2 + 5/2
        let cross = ox * dy - oy * dx;
        if 4 * cross * cross > (wi + 5) * (wi + 5) * len2 {
            // known finding K17_wide_stroke: skipped Extra points are not counted by the thickness accumulator, strokes
            // of slope ~0.6 come out up to 12 % too wide; the distance clause can fail from width 34 on
            let class = if w >= 34 { "class=K17_wide_stroke " } else { "" };
            return format!("FAIL {}distance {}:{} cross={}", class, p.x, p.y, cross);
        }
        // projection at most one pixel beyond either end: -len <= dot <= len^2 + len
        let dot = ox * dx + oy * dy;
        if (dot < 0 && dot * dot > len2) || (dot > len2 && (dot - len2) * (dot - len2) > len2) {
            return format!("FAIL beyond-ends {}:{} dot={}", p.x, p.y, dot);
        }
    }
    // width at the middle: among the pixels whose projection onto the line is within one pixel of the midpoint
    // (|2*dot - len^2| <= 2*len), the extent across the line, (max cross - min cross)/len + 1 pixel, is >= w - 1
    if len2 > 0 {
        let mut cmin: Option<i128> = None;
        let mut cmax: Option<i128> = None;
        for p in &pts {
            let ox = p.x as i128 - l.start.x as i128;
            let oy = p.y as i128 - l.start.y as i128;
            let dot = ox * dx + oy * dy;
            let t = 2 * dot - len2;
            if t * t <= 4 * len2 {
                let cross = ox * dy - oy * dx;
                cmin = Some(cmin.map_or(cross, |m| m.min(cross)));
                cmax = Some(cmax.map_or(cross, |m| m.max(cross)));
            }
        }
        match (cmin, cmax) {
            (Some(a), Some(b)) => {
                if wi >= 2 && (b - a) * (b - a) < (wi - 2) * (wi - 2) * len2 {
                    return format!("FAIL middle-width extent={} w={}", b - a, w);
                }
                // the stroke straddles the ideal line there (up to the half pixel of the centre line)
                if 2 * a > dmaj || 2 * b < -dmaj {
                    return format!("FAIL middle-one-sided {}..{}", a, b);
                }
            }
            _ => return "FAIL middle-empty".into(),
        }
    } else {
        let ys: Vec<i128> = pts.iter().map(|p| p.y as i128).collect();
        let ext = ys.iter().max().unwrap() - ys.iter().min().unwrap() + 1;
        if ext < wi - 1 {
            return format!("FAIL middle-width(zero-length) extent={} w={}", ext, w);
        }
    }
    format!("OK {}", pts.len())
}

/// C17_thick_terminates: at most (3w+2)*(dmaj+1) pixels; one more is let through so that a runaway iterator
/// shows up as a mismatch instead of a hang
pub fn pixel_budget(l: &Line, w: u32) -> usize {
    let dx = (l.end.x as i64 - l.start.x as i64).abs();
    let dy = (l.end.y as i64 - l.start.y as i64).abs();
    ((3 * w as u64 + 2) * (dx.max(dy) as u64 + 1) + 1) as usize
}

fn thick(a: &[&str]) -> impl Iterator<Item = Point> {
    let l = ln(a);
    let w = u(a[4]);
    l.into_styled(PrimitiveStyle::with_stroke(Gray8::new(1), w)).pixels().map(|p| p.0).take(pixel_budget(&l, w))
}

pub fn run(suite: &str, a: &[&str]) -> Option<String> {
    Some(match suite {
        "line_points" => spts(ln(a).points()),
        "line_digest" | "line_walk" => digest(ln(a).points()),
        "thick_pixels" => spts(thick(a)),
        "thick_digest" | "thick_walk" => digest(thick(a)),
        "line_sbb" => src(ln(a).into_styled(PrimitiveStyle::with_stroke(Gray8::new(1), u(a[4]))).bounding_box()),
        "p_thick" => p_thick(ln(a), u(a[4])),
        "line_with_delta" => {
            let l = Line::with_delta(pt(a[0], a[1]), pt(a[2], a[3]));
            format!("{}:{} {}:{} {}:{}", l.start.x, l.start.y, l.end.x, l.end.y, l.delta().x, l.delta().y)
        }
        "p_line" => p_line(ln(a)),
        _ => return None,
    })
}
