//! C17: Line::points() and Styled<Line>::pixels()
use crate::util::*;
use embedded_graphics::{
    pixelcolor::Gray8,
    prelude::*,
    primitives::{Line, PrimitiveStyle, PrimitiveStyleBuilder},
};
use std::collections::BTreeSet;

fn ln(a: &[&str]) -> Line {
    Line::new(pt(a[0], a[1]), pt(a[2], a[3]))
}

const MD: i64 = 1_000_000_007;
fn nn(v: i64) -> i64 {
    ((v % MD) + MD) % MD
}
/// order-sensitive digest "n first last h" (same arithmetic as ocaml/suites/c17.ml)
fn digest<I: Iterator<Item = Point>>(it: I) -> String {
    let mut n = 0u64;
    let mut h: i64 = 7;
    let mut first = "none".to_string();
    let mut last = "none".to_string();
    for p in it {
        if n == 0 {
            first = format!("{}:{}", p.x, p.y);
        }
        last = format!("{}:{}", p.x, p.y);
        n += 1;
        h = (((h * 31) % MD) + nn(p.x as i64) * 3 + nn(p.y as i64)) % MD;
    }
    format!("{} {} {} {}", n, first, last, h)
}

/// every thin-line clause of C17 on the real `Line::points()`, exact integer arithmetic
fn p_line(l: Line) -> String {
    let pts: Vec<Point> = l.points().collect();
    let dx = l.end.x as i128 - l.start.x as i128;
    let dy = l.end.y as i128 - l.start.y as i128;
    let dmaj = dx.abs().max(dy.abs());
    if pts.len() as i128 != dmaj + 1 {
        return format!("FAIL length {} expected {}", pts.len(), dmaj + 1);
    }
    if pts[0] != l.start {
        return format!("FAIL first {}:{}", pts[0].x, pts[0].y);
    }
    if *pts.last().unwrap() != l.end {
        let q = pts.last().unwrap();
        return format!("FAIL last {}:{}", q.x, q.y);
    }
    let ymaj = dy.abs() >= dx.abs();
    for (k, p) in pts.iter().enumerate() {
        let ox = p.x as i128 - l.start.x as i128;
        let oy = p.y as i128 - l.start.y as i128;
        // within half a pixel of the ideal line, measured along the minor axis: 2*|cross| <= dmaj
        let cross = ox * dy - oy * dx;
        if 2 * cross.abs() > dmaj {
            return format!("FAIL half-pixel k={} p={}:{} cross={} dmaj={}", k, p.x, p.y, cross, dmaj);
        }
        // Euclidean: dist^2 = cross^2 / (dx^2+dy^2) <= 1/4
        if 4 * cross * cross > dx * dx + dy * dy {
            return format!("FAIL euclid k={} p={}:{}", k, p.x, p.y);
        }
        // the projection onto the line lies inside the segment
        let dot = ox * dx + oy * dy;
        if dot < 0 || dot > dx * dx + dy * dy {
            return format!("FAIL beyond-ends k={} p={}:{}", k, p.x, p.y);
        }
        // k steps along the major axis
        let (omaj, dm) = if ymaj { (oy, dy) } else { (ox, dx) };
        if omaj != (k as i128) * dm.signum() {
            return format!("FAIL major-offset k={} p={}:{}", k, p.x, p.y);
        }
        if k > 0 {
            let q = pts[k - 1];
            let sx = (p.x - q.x) as i128;
            let sy = (p.y - q.y) as i128;
            let (smaj, smin, dmin_) = if ymaj { (sy, sx, dx) } else { (sx, sy, dy) };
            if smaj != dm.signum() || !(smin == 0 || smin == dmin_.signum()) {
                return format!("FAIL step k={} {}:{} -> {}:{}", k, q.x, q.y, p.x, p.y);
            }
        }
    }
    format!("OK {}", pts.len())
}

fn thick(a: &[&str]) -> impl Iterator<Item = Point> {
    ln(a).into_styled(PrimitiveStyle::with_stroke(Gray8::new(1), u(a[4]))).pixels().map(|p| p.0)
}

pub fn run(suite: &str, a: &[&str]) -> Option<String> {
    Some(match suite {
        "line_points" => spts(ln(a).points()),
        "line_digest" | "line_walk" => digest(ln(a).points()),
        "thick_pixels" => spts(thick(a)),
        "thick_digest" => digest(thick(a)),
        "line_sbb" => src(ln(a).into_styled(PrimitiveStyle::with_stroke(Gray8::new(1), u(a[4]))).bounding_box()),
        "p_line" => p_line(ln(a)),
        _ => return None,
    })
}
