//! C18 (RoundedRectangle share): direct property search on the implementation.
use super::c05_rrect::{rr, window};
use embedded_graphics::{
    prelude::*,
    primitives::{CornerRadii, Ellipse, Rectangle, RoundedRectangle},
};

fn sums_ok(c: &CornerRadii, s: Size) -> bool {
    let (w, h) = (s.width as u64, s.height as u64);
    c.top_left.width as u64 + c.top_right.width as u64 <= w
        && c.bottom_left.width as u64 + c.bottom_right.width as u64 <= w
        && c.top_left.height as u64 + c.bottom_left.height as u64 <= h
        && c.top_right.height as u64 + c.bottom_right.height as u64 <= h
}
fn le(a: &CornerRadii, b: &CornerRadii) -> bool {
    let f = |x: Size, y: Size| x.width <= y.width && x.height <= y.height;
    f(a.top_left, b.top_left) && f(a.top_right, b.top_right) && f(a.bottom_right, b.bottom_right) && f(a.bottom_left, b.bottom_left)
}

/// ideal (rational) test of one corner: pixel centre strictly inside the ellipse with semi-axes
/// (rx - sx/2, ry - sy/2) around the inner corner (cx, cy) of the quadrant box; doubled coordinates.
fn inside_ideal(p: Point, cx: i64, cy: i64, rx: i64, ry: i64, shrink: i64) -> bool {
    let dx = (2 * p.x as i64 + 1 - 2 * cx) as i128;
    let dy = (2 * p.y as i64 + 1 - 2 * cy) as i128;
    let a = (2 * rx - shrink) as i128;
    let b = (2 * ry - shrink) as i128;
    b * b * dx * dx + a * a * dy * dy < a * a * b * b
}

type PSet = std::collections::BTreeSet<(i32, i32)>;

/// The shape as every public observation sees it: contains() over box+margin, points(), and the fill-only styled
/// draw() (native and draw_iter-only target) and pixels().  C18 is about the shape however it is observed.
fn observers(r: &RoundedRectangle, margin: i32) -> Vec<(&'static str, PSet)> {
    use crate::util::{IterTarget, NativeTarget};
    use embedded_graphics::{pixelcolor::Gray8, primitives::PrimitiveStyle, Drawable, Pixel};
    let (x0, y0, x1, y1) = window(&r.rectangle, margin);
    let mut c = PSet::new();
    for y in y0..y1 {
        for x in x0..x1 {
            if r.contains(Point::new(x, y)) {
                c.insert((y, x));
            }
        }
    }
    let pts: PSet = r.points().map(|p| (p.y, p.x)).collect();
    let styled = r.into_styled(PrimitiveStyle::with_fill(Gray8::new(9)));
    let big = Rectangle::new(Point::new(-3000, -3000), Size::new(6000, 6000));
    let mut nt = NativeTarget::<Gray8>::new(big);
    styled.draw(&mut nt).unwrap();
    let mut it = IterTarget::<Gray8>::new(big);
    styled.draw(&mut it).unwrap();
    let px: PSet = styled.pixels().map(|Pixel(p, _)| (p.y, p.x)).collect();
    vec![
        ("contains()", c),
        ("points()", pts),
        ("fill-only draw() on a native target", nt.map.keys().copied().collect()),
        ("fill-only draw() on a draw_iter-only target", it.map.keys().copied().collect()),
        ("fill-only pixels()", px),
    ]
}

fn outside_box(r: &Rectangle, set: &PSet) -> Option<(i32, i32)> {
    set.iter().copied().find(|(y, x)| !r.contains(Point::new(*x, *y)))
}

pub fn run(suite: &str, a: &[&str]) -> Option<String> {
    Some(match suite {
        // ties the model's private copy of Ellipse::contains (rr_ellipse_contains) to the real Ellipse
        "rr_ellipse_pt" => {
            let e = Ellipse::new(crate::util::pt(a[0], a[1]), Size::new(crate::util::u(a[2]), crate::util::u(a[3])));
            crate::util::sb(e.contains(crate::util::pt(a[4], a[5]))).to_string()
        }
        // C08 part: does building the scanline iterator (confine, four EllipseQuadrants, RoundedRectangleContains::new) and
        // walking it overflow anywhere?  (harness profile: overflow checks + debug assertions on)  model: rr_arith_ok
        "ok_rr_new" => {
            let r = rr(a);
            // Points::new -> Scanlines::new -> RoundedRectangleContains::new (confine + the four quadrants); no point is pulled
            let res = std::panic::catch_unwind(|| { let _it = r.points(); });
            if res.is_ok() { "OK".to_string() } else { "PANIC".to_string() }
        }
        // only the top-left radius is non-zero and the probe lies in the top-left corner box: contains() builds everything and
        // evaluates exactly the top-left EllipseQuadrant::contains.   ok_rr_contains_tl x y w h a b px py
        "ok_rr_contains_tl" => {
            use crate::util::{i, u};
            let r = RoundedRectangle::new(
                Rectangle::new(Point::new(i(a[0]), i(a[1])), Size::new(u(a[2]), u(a[3]))),
                CornerRadii { top_left: Size::new(u(a[4]), u(a[5])), ..CornerRadii::new(Size::zero()) },
            );
            let p = Point::new(i(a[6]), i(a[7]));
            let res = std::panic::catch_unwind(|| r.contains(p));
            if res.is_ok() { "OK".to_string() } else { "PANIC".to_string() }
        }
        "rr_ellipse_map" => {
            let rect = crate::util::rc(a[0], a[1], a[2], a[3]);
            let e = Ellipse::new(rect.top_left, rect.size);
            super::c05_rrect::bitmap(window(&rect, 2), |p| e.contains(p))
        }
        // confine_radii: radii on each side sum to <= the side; fitting radii unchanged; idempotent; never grows
        "p_rr_confine" => {
            let r = rr(a);
            let c = r.confine_radii();
            if !sums_ok(&c.corners, r.rectangle.size) {
                return Some(format!("FAIL confined radii exceed a side: {:?}", c.corners));
            }
            if sums_ok(&r.corners, r.rectangle.size) && c.corners != r.corners {
                return Some(format!("FAIL fitting radii were changed: {:?}", c.corners));
            }
            if c.confine_radii() != c {
                return Some(format!("FAIL confine not idempotent: {:?}", c.corners));
            }
            if !le(&c.corners, &r.corners) {
                return Some(format!("FAIL a confined radius grew: {:?}", c.corners));
            }
            if c.rectangle != r.rectangle {
                return Some("FAIL rectangle changed".into());
            }
            // confining is what contains()/points() do internally
            let (x0, y0, x1, y1) = window(&r.rectangle, 1);
            if r.rectangle.size.width <= 24 && r.rectangle.size.height <= 24 {
                for y in y0..y1 {
                    for x in x0..x1 {
                        let p = Point::new(x, y);
                        if r.contains(p) != c.contains(p) {
                            return Some(format!("FAIL contains differs after confine_radii at {:?}", p));
                        }
                    }
                }
            }
            "OK 1".to_string()
        }
        // zero radii: the rounded rectangle is the rectangle
        "p_rr_zero" => {
            let rect = crate::util::rc(a[0], a[1], a[2], a[3]);
            let r = RoundedRectangle::with_equal_corners(rect, Size::zero());
            let want: PSet = rect.points().map(|p| (p.y, p.x)).collect();
            for (name, set) in observers(&r, 2) {
                if set != want {
                    let d = set.symmetric_difference(&want).next().copied().unwrap();
                    return Some(format!("FAIL zero radii: {} differs from the Rectangle at ({},{})", name, d.1, d.0));
                }
            }
            if !r.points().eq(rect.points()) {
                return Some("FAIL zero radii: points() differs from Rectangle::points() (order)".into());
            }
            format!("OK {}", rect.size.width * rect.size.height)
        }
        // even sides, every radius = half a side: same point set as the ellipse with the same box
        "p_rr_half" => {
            let (x, y, ra, rb) = (crate::util::i(a[0]), crate::util::i(a[1]), crate::util::u(a[2]), crate::util::u(a[3]));
            // a[4] = extra added to every radius (larger radii are confined back to the half sides when equal)
            let extra = crate::util::u(a[4]);
            let rect = Rectangle::new(Point::new(x, y), Size::new(2 * ra, 2 * rb));
            let r = RoundedRectangle::with_equal_corners(rect, Size::new(ra, rb));
            let e = Ellipse::new(rect.top_left, rect.size);
            let (x0, y0, x1, y1) = window(&rect, 2);
            let mut want = PSet::new();
            for yy in y0..y1 {
                for xx in x0..x1 {
                    if e.contains(Point::new(xx, yy)) {
                        want.insert((yy, xx));
                    }
                }
            }
            let n = want.len();
            for (name, set) in observers(&r, 2) {
                if set != want {
                    let d = set.symmetric_difference(&want).next().copied().unwrap();
                    return Some(format!("FAIL half radii: {} differs from Ellipse::contains at ({},{}) (rrect {})", name, d.1, d.0, set.contains(&d)));
                }
            }
            if !r.points().eq(e.points()) {
                return Some("FAIL half radii: points() differs from Ellipse::points()".into());
            }
            if extra > 0 && ra == rb {
                // equal radii k*(ra, rb) larger than the half sides scale back exactly
                let big = RoundedRectangle::with_equal_corners(rect, Size::new(ra * (1 + extra), rb * (1 + extra)));
                if big.confine_radii() != r { return Some(format!("FAIL oversized equal radii not confined to half sides: {:?}", big.confine_radii())); }
                if !big.points().eq(e.points()) { return Some("FAIL oversized radii: points() differs from Ellipse".into()); }
            }
            format!("OK {}", n)
        }
        // every row and every column of contains() is one contiguous run
        "p_rr_contig" => {
            let r = rr(a);
            let (x0, y0, x1, y1) = window(&r.rectangle, 1);
            let mut n = 0;
            for (name, set) in observers(&r, 1) {
                if let Some((y, x)) = outside_box(&r.rectangle, &set) {
                    return Some(format!("FAIL {} has ({},{}) outside the bounding box", name, x, y));
                }
                n = set.len();
                for y in y0..y1 {
                    let mut state = 0; // 0 before, 1 in run, 2 after
                    for x in x0..x1 {
                        let c = set.contains(&(y, x));
                        state = match (state, c) { (0, true) => 1, (1, false) => 2, (2, true) => return Some(format!("FAIL {}: row {} not contiguous at x={}", name, y, x)), (s, _) => s };
                    }
                }
                for x in x0..x1 {
                    let mut state = 0;
                    for y in y0..y1 {
                        let c = set.contains(&(y, x));
                        state = match (state, c) { (0, true) => 1, (1, false) => 2, (2, true) => return Some(format!("FAIL {}: column {} not contiguous at y={}", name, x, y)), (s, _) => s };
                    }
                }
            }
            format!("OK {}", n)
        }
        // corner band: inside the corner boxes (confined radii) a point is contained iff its centre is inside
        // the ideal quarter ellipse, up to half a pixel
        "p_rr_band" => {
            let r0 = rr(a);
            let r = r0.confine_radii();
            let c = r.corners;
            let Rectangle { top_left: t, size: s } = r.rectangle;
            let (x0, y0) = (t.x as i64, t.y as i64);
            let (x1, y1) = (x0 + s.width as i64, y0 + s.height as i64);
            // (box x range, box y range, centre, radii)
            let q = |rad: Size, left: bool, top: bool| {
                let (rx, ry) = (rad.width as i64, rad.height as i64);
                let (bx0, bx1) = if left { (x0, x0 + rx) } else { (x1 - rx, x1) };
                let (by0, by1) = if top { (y0, y0 + ry) } else { (y1 - ry, y1) };
                let cx = if left { x0 + rx } else { x1 - rx };
                let cy = if top { y0 + ry } else { y1 - ry };
                (bx0, bx1, by0, by1, cx, cy, rx, ry)
            };
            let quads = [q(c.top_left, true, true), q(c.top_right, false, true), q(c.bottom_right, false, false), q(c.bottom_left, true, false)];
            let mut n = 0;
            for (name, set) in observers(&r0, 1) {
                if let Some((y, x)) = outside_box(&r.rectangle, &set) {
                    return Some(format!("FAIL {} has ({},{}) outside the bounding box", name, x, y));
                }
                n = 0;
                for y in y0..y1 {
                    for x in x0..x1 {
                        let p = Point::new(x as i32, y as i32);
                        let inb: Vec<_> = quads.iter().filter(|k| k.0 <= x && x < k.1 && k.2 <= y && y < k.3).collect();
                        let got = set.contains(&(p.y, p.x));
                        if inb.is_empty() {
                            if !got { return Some(format!("FAIL {}: point {:?} outside every corner box is not in the shape", name, p)); }
                            continue;
                        }
                        n += 1;
                        for k in &inb {
                            if got && !inside_ideal(p, k.4, k.5, k.6, k.7, 0) {
                                return Some(format!("FAIL {}: {:?} is in the shape but its centre is outside the ideal corner ellipse", name, p));
                            }
                        }
                        if !got && inb.iter().all(|k| k.6 >= 1 && k.7 >= 1 && inside_ideal(p, k.4, k.5, k.6, k.7, 1)) {
                            return Some(format!("FAIL {}: {:?} is more than half a pixel inside every corner ellipse but not in the shape", name, p));
                        }
                    }
                }
            }
            format!("OK {}", n)
        }
        _ => return None,
    })
}
