//! C18 / C05 / C02 / C07, sector + arc family: implementation side of the correspondence and the
//! `p_*` search suites.
//!
//! Common argument layout of the correspondence suites:  x y d A S op lx ly rx ry
//!   A, S  angle tokens: `D<k>` = k hundredths of a degree ((k as f32 / 100.0).deg()),
//!                        `B<u32>` = f32 bit pattern of the value in degrees
//!   op lx ly rx ry  what verif_hooks::plane_sector_parts(A, S) returns; the suite re-checks that and
//!   answers NORMALS-MISMATCH otherwise (so the model is always fed the values of the real code).
//! `hook_normals A S` (implementation only) prints `op lx ly rx ry bk bx by`: the hook values plus the
//! bevel kind (0 none, 1 interior, 2 exterior) and bevel normal of sector/styled.rs, recomputed here
//! through the public Angle API and the hook.
use crate::util::*;
use embedded_graphics::Pixel;
use embedded_graphics::{
    pixelcolor::{raw::RawU16, Rgb565},
    prelude::*,
    primitives::{verif_hooks::plane_sector_parts, Arc, Circle, OffsetOutline, PrimitiveStyle, PrimitiveStyleBuilder, Rectangle, Sector, StrokeAlignment},
};

pub fn ang(t: &str) -> Angle {
    Angle::from_degrees(ang_deg32(t))
}
fn ang_deg32(t: &str) -> f32 {
    match &t[..1] {
        "D" => t[1..].parse::<i64>().unwrap() as f32 / 100.0,
        "B" => f32::from_bits(t[1..].parse::<u32>().unwrap()),
        _ => panic!("bad angle token"),
    }
}
/// the value the user wrote, in degrees, as f64
fn ang_deg64(t: &str) -> f64 {
    match &t[..1] {
        "D" => t[1..].parse::<i64>().unwrap() as f64 / 100.0,
        _ => ang_deg32(t) as f64,
    }
}

/// normal vector of OriginLinearEquation::with_angle(a): the right half plane of a zero sweep
fn normal_of(a: Angle) -> Point {
    plane_sector_parts(a, Angle::zero()).2
}

/// sector/styled.rs:63-88 recomputed with the public API (bevel kind, bevel normal)
fn bevel_of(start: Angle, sweep: Angle) -> (u8, Point) {
    let sweep_abs = sweep.abs();
    let exterior = sweep_abs < Angle::from_degrees(55.0);
    let interior = sweep_abs > Angle::from_degrees(360.0 - 55.0) && sweep_abs < Angle::from_degrees(360.0);
    if exterior || interior {
        let half_sweep = start + Angle::from_radians(sweep.to_radians() / 2.0);
        let a90 = Angle::from_radians(core::f32::consts::FRAC_PI_2);
        if interior {
            (1, normal_of(half_sweep + a90))
        } else {
            (2, normal_of(half_sweep - a90))
        }
    } else {
        (0, Point::zero())
    }
}

fn check_normals(a: &[&str]) -> Result<(Angle, Angle), String> {
    let (s, w) = (ang(a[3]), ang(a[4]));
    let (op, l, r) = plane_sector_parts(s, w);
    let given = (u(a[5]) as u8, pt(a[6], a[7]), pt(a[8], a[9]));
    if (op, l, r) != given {
        return Err(format!("NORMALS-MISMATCH hook {} {} {} {} {}", op, l.x, l.y, r.x, r.y));
    }
    Ok((s, w))
}

fn col(t: &str) -> Option<Rgb565> {
    let v = u(t);
    if v == 0 {
        None
    } else {
        Some(Rgb565::from(RawU16::new(v as u16)))
    }
}
fn mkstyle(a: &[&str]) -> PrimitiveStyle<Rgb565> {
    let mut b = PrimitiveStyleBuilder::new();
    if let Some(c) = col(a[0]) {
        b = b.fill_color(c);
    }
    if let Some(c) = col(a[1]) {
        b = b.stroke_color(c);
    }
    b.stroke_width(u(a[2]))
        .stroke_alignment(match a[3] {
            "0" => StrokeAlignment::Inside,
            "1" => StrokeAlignment::Center,
            _ => StrokeAlignment::Outside,
        })
        .build()
}

fn mask_out(x0: i32, y0: i32, w: i32, h: i32, pts: &[Point]) -> String {
    let mut rows = vec![0u64; h.max(0) as usize];
    let mut out = Vec::new();
    for p in pts {
        if p.x >= x0 && p.x < x0 + w && p.y >= y0 && p.y < y0 + h {
            rows[(p.y - y0) as usize] |= 1u64 << (p.x - x0);
        } else {
            out.push(format!("{}:{}", p.x, p.y));
        }
    }
    let mut s = rows.iter().map(|r| format!("{:x}", r)).collect::<Vec<_>>().join(",");
    if !out.is_empty() {
        s.push('!');
        s.push_str(&out.join(","));
    }
    s
}
fn sorted_yx(pts: &[Point]) -> bool {
    pts.windows(2).all(|w| (w[0].y, w[0].x) < (w[1].y, w[1].x))
}

fn styled_out<I: Iterator<Item = Pixel<Rgb565>>, F: FnOnce(&mut IterTarget<Rgb565>)>(bb: Rectangle, pixels: I, draw: F) -> String {
    let px: Vec<(Point, u32)> = pixels.map(|Pixel(p, c)| (p, c.tag())).collect();
    // draw() on a recording target must paint exactly the pixels() sequence
    let mut t = IterTarget::<Rgb565>::new(Rectangle::new(Point::new(-(1 << 30), -(1 << 30)), Size::new((1 << 31) - 2, (1 << 31) - 2)));
    draw(&mut t);
    let mut m = std::collections::BTreeMap::new();
    for (p, c) in &px {
        m.insert((p.y, p.x), *c);
    }
    if m != t.map || t.writes != px.len() {
        return format!("DRAW-DIFFERS-FROM-PIXELS {} vs {}", t.writes, px.len());
    }
    format!("BB {} PX {}", src(bb), px.iter().map(|(p, c)| format!("{}:{}:{}", p.x, p.y, c)).collect::<Vec<_>>().join(","))
}

pub fn run(suite: &str, a: &[&str]) -> Option<String> {
    Some(match suite {
        "hook_normals" => {
            let (s, w) = (ang(a[0]), ang(a[1]));
            let (op, l, r) = plane_sector_parts(s, w);
            let (bk, bn) = bevel_of(s, w);
            format!("{} {} {} {} {} {} {} {}", op, l.x, l.y, r.x, r.y, bk, bn.x, bn.y)
        }
        "sec_points" | "sec_mask" | "arc_points" | "arc_mask" => {
            let (s, w) = match check_normals(a) {
                Ok(v) => v,
                Err(e) => return Some(e),
            };
            let (tl, d) = (pt(a[0], a[1]), u(a[2]));
            let pts: Vec<Point> = if suite.starts_with("sec") { Sector::new(tl, d, s, w).points().collect() } else { Arc::new(tl, d, s, w).points().collect() };
            if suite.ends_with("points") {
                spts(pts.into_iter())
            } else if !sorted_yx(&pts) {
                "UNSORTED".into()
            } else {
                mask_out(tl.x, tl.y, d as i32, d as i32, &pts)
            }
        }
        "sec_contains" => {
            let (s, w) = match check_normals(a) {
                Ok(v) => v,
                Err(e) => return Some(e),
            };
            let (tl, d, m) = (pt(a[0], a[1]), u(a[2]), i(a[10]));
            let sec = Sector::new(tl, d, s, w);
            let win = Rectangle::new(tl - Point::new(m, m), Size::new_equal(d + 2 * m as u32));
            let pts: Vec<Point> = win.points().filter(|p| sec.contains(*p)).collect();
            mask_out(tl.x - m, tl.y - m, d as i32 + 2 * m, d as i32 + 2 * m, &pts)
        }
        "sec_styled" => {
            let (s, w) = match check_normals(a) {
                Ok(v) => v,
                Err(e) => return Some(e),
            };
            let (bk, bn) = bevel_of(s, w);
            if (bk, bn) != (u(a[10]) as u8, pt(a[11], a[12])) {
                return Some(format!("BEVEL-MISMATCH {} {} {}", bk, bn.x, bn.y));
            }
            let st = mkstyle(&a[13..17]);
            let sec = Sector::new(pt(a[0], a[1]), u(a[2]), s, w).into_styled(st);
            styled_out(sec.bounding_box(), sec.pixels(), |t| sec.draw(t).unwrap())
        }
        "arc_styled" => {
            let (s, w) = match check_normals(a) {
                Ok(v) => v,
                Err(e) => return Some(e),
            };
            let st = mkstyle(&a[10..14]);
            let arc = Arc::new(pt(a[0], a[1]), u(a[2]), s, w).into_styled(st);
            styled_out(arc.bounding_box(), arc.pixels(), |t| arc.draw(t).unwrap())
        }
        // fx_parts <start bits> <sweep bits>: PlaneSector::new for Angles whose I16F16 value has exactly these bit
        // patterns (only meaningful on the fixed_point build; |bits| < 2^24 so that bits/65536 is an exact f32 and
        // I16F16::from_num(f32) is exact)
        "fx_parts" => {
            let (ab, sb) = (a[0].parse::<i32>().unwrap(), a[1].parse::<i32>().unwrap());
            let mk = |b: i32| Angle::from_radians(b as f32 / 65536.0);
            let (s, w) = (mk(ab), mk(sb));
            if (s.to_radians() * 65536.0) as i32 != ab || (w.to_radians() * 65536.0) as i32 != sb {
                return Some("INEXACT-ANGLE (not the fixed_point build?)".into());
            }
            let (op, l, r) = plane_sector_parts(s, w);
            format!("{} {} {} {} {}", op, l.x, l.y, r.x, r.y)
        }
        // sec_ctor cx cy d: Sector/Arc::with_center((cx,cy), d, ..) and center() of it; center() of the shape with
        // (cx,cy) as top-left
        "sec_ctor" => {
            let (c, d) = (pt(a[0], a[1]), u(a[2]));
            let (st, sw) = (Angle::from_degrees(10.0), Angle::from_degrees(400.0));
            let s = Sector::with_center(c, d, st, sw);
            let ar = Arc::with_center(c, d, st, sw);
            let s2 = Sector::new(c, d, st, sw);
            let a2 = Arc::new(c, d, st, sw);
            if s.angle_start != st || s.angle_sweep != sw || ar.angle_start != st || ar.angle_sweep != sw {
                return Some("ANGLES-NOT-KEPT".into());
            }
            format!(
                "S {} {} {} C {} {} C0 {} {} A {} {} {} C {} {} C0 {} {}",
                s.top_left.x, s.top_left.y, s.diameter, s.center().x, s.center().y, s2.center().x, s2.center().y,
                ar.top_left.x, ar.top_left.y, ar.diameter, ar.center().x, ar.center().y, a2.center().x, a2.center().y
            )
        }
        "sec_offset" => {
            let s = Sector::new(pt(a[0], a[1]), u(a[2]), Angle::zero(), Angle::from_degrees(90.0)).offset(i(a[3]));
            format!("{} {} {}", s.top_left.x, s.top_left.y, s.diameter)
        }
        _ => return search(suite, a),
    })
}

// ------------------------------------------------------------------------------------------------
// direct search on the implementation
// ------------------------------------------------------------------------------------------------
struct Rng(u64);
impl Rng {
    fn next(&mut self) -> u64 {
        self.0 = self.0.wrapping_add(0x9E3779B97F4A7C15);
        let mut z = self.0;
        z = (z ^ (z >> 30)).wrapping_mul(0xBF58476D1CE4E5B9);
        z = (z ^ (z >> 27)).wrapping_mul(0x94D049BB133111EB);
        z ^ (z >> 31)
    }
    fn unit(&mut self) -> f64 {
        (self.next() >> 11) as f64 / (1u64 << 53) as f64
    }
    fn below(&mut self, n: u64) -> u64 {
        self.next() % n
    }
}

/// ideal normal of the radial line at `deg` degrees, scaled by 1024: rotate_90(cos, sin) = (-sin, cos)
fn ideal_normal(deg: f64) -> (f64, f64) {
    let t = deg.to_radians();
    (-1024.0 * t.sin(), 1024.0 * t.cos())
}
fn nerr(n: Point, deg: f64) -> f64 {
    let (ux, uy) = ideal_normal(deg);
    (n.x as f64 - ux).abs().max((n.y as f64 - uy).abs())
}

/// THE TRIG HYPOTHESIS, tested: this function is the executable counterpart of `trig_hypothesis ps start sweep eps`
/// and `rays_proper ps` of coq/Proofs/Sectorangle.v (with f64 sin/cos in place of the real functions; ps = the hook's
/// value for (start, sweep)).  Every clause of the Coq definition has its test below, in the same order.
/// the trig hypothesis for one (start, sweep) in degrees (f32 values as the user passes them):
/// op and both normals against f64. Returns the largest component error or a failure text.
fn trig_check(start: f32, sweep: f32, eps: f64) -> Result<f64, String> {
    let (op, l, r) = plane_sector_parts(start.deg(), sweep.deg());
    let (s64, w64) = (start as f64, sweep as f64);
    if w64.abs() >= 360.0 {
        if op != 2 {
            return Err(format!("class=sweep_ge_360_not_entire_plane start={} sweep={} (bits {} {}) op={}", start, sweep, start.to_bits(), sweep.to_bits(), op));
        }
        return Ok(0.0);
    }
    if op == 2 {
        // |sweep| < 360 classified as entire plane: only tolerated within f32 rounding of 360
        if w64.abs() < 359.999 {
            return Err(format!("class=entire_plane_below_360 start={} sweep={}", start, sweep));
        }
        return Ok(0.0);
    }
    let want_op = if w64.abs() >= 180.0 { 1 } else { 0 };
    // within f32 rounding of 180 either operation describes the same half plane
    if op != want_op && (w64.abs() < 179.999 || w64.abs() >= 180.001) {
        return Err(format!("class=wrong_operation start={} sweep={} op={} expected={}", start, sweep, op, want_op));
    }
    // the two rays of an Intersection sector must be in proper position (Coq: K18_tiny_sweep_opposite_side = false)
    // as soon as the sweep exceeds the resolution of the normals (whole degrees in the fixed_point build)
    let (min_sweep, max_sweep) = if cfg!(feature = "fixed_point") { (1.01, 178.99) } else { (0.12, 179.88) };
    let det_rl = r.x as i64 * l.y as i64 - r.y as i64 * l.x as i64;
    if op == 0 && w64.abs() >= min_sweep && w64.abs() < max_sweep && det_rl <= 0 {
        return Err(format!("class=degenerate_cone start={} sweep={} left=({},{}) right=({},{})", start, sweep, l.x, l.y, r.x, r.y));
    }
    // Union (Coq: rays_proper): the complement cone runs from the left ray counter-clockwise to the right ray,
    // det(left, right) > 0, or both normals coincide (nothing is rejected)
    if op == 1 && w64.abs() >= 180.0 + min_sweep && w64.abs() <= 360.0 - min_sweep && -det_rl <= 0 {
        return Err(format!("class=degenerate_complement_cone start={} sweep={} left=({},{}) right=({},{})", start, sweep, l.x, l.y, r.x, r.y));
    }
    if op == 1 && w64.abs() > 360.0 - min_sweep && !(-det_rl > 0 || l == r) {
        return Err(format!("class=degenerate_complement_cone start={} sweep={} left=({},{}) right=({},{})", start, sweep, l.x, l.y, r.x, r.y));
    }
    let (right_deg, left_deg) = if w64 < 0.0 { (s64 + w64, s64) } else { (s64, s64 + w64) };
    let e = nerr(r, right_deg).max(nerr(l, left_deg));
    if e > eps {
        return Err(format!(
            "class=normal_error start={} sweep={} (bits {} {}) left=({},{}) right=({},{}) err={:.3} eps={}",
            start, sweep, start.to_bits(), sweep.to_bits(), l.x, l.y, r.x, r.y, e, eps
        ));
    }
    Ok(e)
}

struct Ideal {
    cx: f64,
    cy: f64,
    a0: f64,
    a1: f64,
    full: bool,
}
impl Ideal {
    fn new(tl: Point, d: u32, start_deg: f64, sweep_deg: f64) -> Self {
        let r = (d as f64 - 1.0) / 2.0;
        let (a0, a1) = if sweep_deg < 0.0 { (start_deg + sweep_deg, start_deg) } else { (start_deg, start_deg + sweep_deg) };
        Ideal { cx: tl.x as f64 + r, cy: tl.y as f64 + r, a0, a1, full: sweep_deg.abs() >= 360.0 }
    }
    /// signed distances to the two radial LINES: at most `tol` px beyond each (both for < 180 deg, one for >= 180 deg)
    fn within_lines(&self, p: Point, tol: f64) -> bool {
        if self.full {
            return true;
        }
        let (vx, vy) = (p.x as f64 - self.cx, p.y as f64 - self.cy);
        let across = |deg: f64| -deg.to_radians().sin() * vx + deg.to_radians().cos() * vy;
        let (right, left) = (across(self.a0) >= -tol, across(self.a1) <= tol);
        if self.a1 - self.a0 < 180.0 { right && left } else { right || left }
    }
    /// (inside the swept angle, distance to the nearer radial boundary ray)
    fn classify(&self, p: Point) -> (bool, f64) {
        let (vx, vy) = (p.x as f64 - self.cx, p.y as f64 - self.cy);
        if self.full {
            return (true, f64::INFINITY);
        }
        let ang = vy.atan2(vx).to_degrees();
        let rel = (ang - self.a0).rem_euclid(360.0);
        let inside = rel <= self.a1 - self.a0 || (vx == 0.0 && vy == 0.0);
        let ray = |deg: f64| {
            let (ex, ey) = (deg.to_radians().cos(), deg.to_radians().sin());
            let t = vx * ex + vy * ey;
            if t <= 0.0 {
                (vx * vx + vy * vy).sqrt()
            } else {
                (vx - t * ex).hypot(vy - t * ey)
            }
        };
        (inside, ray(self.a0).min(ray(self.a1)))
    }
}

pub fn search(suite: &str, a: &[&str]) -> Option<String> {
    Some(match suite {
        // p_trig_deg <lo> <hi> <eps_milli>: with_angle at every whole degree in lo..=hi
        "p_trig_deg" => {
            let (lo, hi, eps) = (i(a[0]), i(a[1]), i(a[2]) as f64 / 1000.0);
            let mut worst = 0f64;
            let mut n = 0;
            for k in lo..=hi {
                for w in [0f32, 1.0, 90.0, 179.0, -1.0, -90.0, -179.0, 181.0, -181.0, 270.0, -359.0] {
                    match trig_check(k as f32, w, eps) {
                        Ok(e) => worst = worst.max(e),
                        Err(e) => return Some(format!("FAIL {}", e)),
                    }
                    n += 1;
                }
            }
            format!("OK {} worst={:.3}", n, worst)
        }
        // p_trig_pairs <start_lo> <start_hi> <eps_milli>: every whole-degree sweep -360..=360 for the starts
        "p_trig_pairs" => {
            let (lo, hi, eps) = (i(a[0]), i(a[1]), i(a[2]) as f64 / 1000.0);
            let mut worst = 0f64;
            let mut n = 0;
            for k in lo..=hi {
                for w in -360..=360 {
                    match trig_check(k as f32, w as f32, eps) {
                        Ok(e) => worst = worst.max(e),
                        Err(e) => return Some(format!("FAIL {}", e)),
                    }
                    n += 1;
                }
            }
            format!("OK {} worst={:.3}", n, worst)
        }
        // p_trig_rand <seed> <n> <eps_milli>: random f32 angles in +-1080 degrees
        "p_trig_rand" => {
            let mut rng = Rng(a[0].parse::<u64>().unwrap());
            let (n, eps) = (us(a[1]), i(a[2]) as f64 / 1000.0);
            let mut worst = 0f64;
            for _ in 0..n {
                let start = ((rng.unit() * 2160.0) - 1080.0) as f32;
                let sweep = match rng.below(4) {
                    0 => ((rng.unit() * 720.0) - 360.0) as f32,
                    1 => ((rng.unit() * 2.0) - 1.0) as f32 + [0.0f32, 180.0, -180.0, 55.0, 305.0][rng.below(5) as usize],
                    2 => (rng.below(721) as i32 - 360) as f32 / [1.0f32, 2.0, 10.0][rng.below(3) as usize],
                    _ => ((rng.unit() * 2160.0) - 1080.0) as f32,
                };
                match trig_check(start, sweep, eps) {
                    Ok(e) => worst = worst.max(e),
                    Err(e) => return Some(format!("FAIL {}", e)),
                }
            }
            format!("OK {} worst={:.3}", n, worst)
        }
        // p_trig_bits <lo> <hi> <eps_milli>: with_angle for EVERY f32 bit pattern lo..hi (value in degrees, sweep 0)
        "p_trig_bits" => {
            let (lo, hi, eps) = (a[0].parse::<u32>().unwrap(), a[1].parse::<u32>().unwrap(), i(a[2]) as f64 / 1000.0);
            let mut worst = 0f64;
            for b in lo..hi {
                let deg = f32::from_bits(b);
                let n = normal_of(deg.deg());
                let e = nerr(n, deg as f64);
                if e > eps {
                    return Some(format!("FAIL class=normal_error angle={} (bits {}) normal=({},{}) err={:.3} eps={}", deg, b, n.x, n.y, e, eps));
                }
                worst = worst.max(e);
            }
            format!("OK {} worst={:.3}", hi - lo, worst)
        }
        // p_trig_stride <lo> <hi> <stride> <offset> <eps_milli>: with_angle for every stride-th f32 bit pattern
        // lo+offset, lo+offset+stride, ... < hi (value in degrees): a stratified exhaustive slice
        "p_trig_stride" => {
            let (lo, hi) = (a[0].parse::<u32>().unwrap(), a[1].parse::<u32>().unwrap());
            let (stride, off, eps) = (a[2].parse::<u32>().unwrap(), a[3].parse::<u32>().unwrap(), i(a[4]) as f64 / 1000.0);
            let mut worst = 0f64;
            let mut n = 0u32;
            let mut b = lo + off % stride;
            while b < hi {
                let deg = f32::from_bits(b);
                let nv = normal_of(deg.deg());
                let e = nerr(nv, deg as f64);
                if e > eps {
                    return Some(format!("FAIL class=normal_error angle={} (bits {}) normal=({},{}) err={:.3} eps={}", deg, b, nv.x, nv.y, e, eps));
                }
                worst = worst.max(e);
                n += 1;
                b += stride;
            }
            format!("OK {} worst_eps={:.3} (hypothesis eps {})", n, worst, eps)
        }
        // p_sec_ctor x y d A S: the constructors and accessors of Sector and Arc against each other and against Circle /
        // the bounding box: with_center(center()) and from_circle(to_circle()) are the identity (odd and even d),
        // center() = bounding_box().center() = Circle's centre = top_left + (d-1)/2 (floor), with_center(c).center() = c
        "p_sec_ctor" => {
            let (tl, d) = (pt(a[0], a[1]), u(a[2]));
            let (st, sw) = (ang(a[3]), ang(a[4]));
            let s = Sector::new(tl, d, st, sw);
            let ar = Arc::new(tl, d, st, sw);
            let c = Circle::new(tl, d);
            let want_c = tl + Point::new((d.saturating_sub(1) / 2) as i32, (d.saturating_sub(1) / 2) as i32);
            if s.center() != want_c || ar.center() != want_c || c.center() != want_c || s.bounding_box().center() != want_c || ar.bounding_box().center() != want_c {
                return Some(format!("FAIL class=ctor_center sector {:?} arc {:?} circle {:?} expected {:?}", s.center(), ar.center(), c.center(), want_c));
            }
            if Sector::with_center(s.center(), d, st, sw) != s {
                return Some(format!("FAIL class=ctor_with_center Sector::with_center(center()) = {:?} != {:?}", Sector::with_center(s.center(), d, st, sw), s));
            }
            if Arc::with_center(ar.center(), d, st, sw) != ar {
                return Some(format!("FAIL class=ctor_with_center Arc::with_center(center()) = {:?} != {:?}", Arc::with_center(ar.center(), d, st, sw), ar));
            }
            if Sector::with_center(tl, d, st, sw).center() != tl || Arc::with_center(tl, d, st, sw).center() != tl {
                return Some("FAIL class=ctor_with_center with_center(c).center() != c".into());
            }
            if Sector::with_center(tl, d, st, sw).top_left != Circle::with_center(tl, d).top_left || Arc::with_center(tl, d, st, sw).top_left != Circle::with_center(tl, d).top_left {
                return Some("FAIL class=ctor_with_center differs from Circle::with_center".into());
            }
            if s.to_circle() != c || ar.to_circle() != c {
                return Some("FAIL class=ctor_to_circle".into());
            }
            if Sector::from_circle(s.to_circle(), st, sw) != s || Arc::from_circle(ar.to_circle(), st, sw) != ar {
                return Some("FAIL class=ctor_from_circle".into());
            }
            if s.bounding_box() != c.bounding_box() || ar.bounding_box() != c.bounding_box() {
                return Some("FAIL class=ctor_bounding_box".into());
            }
            // the points of a with_center sector are those of the sector built from the top-left
            let w = Sector::with_center(s.center(), d, st, sw);
            if d <= 40 && !w.points().eq(s.points()) {
                return Some("FAIL class=ctor_with_center points differ".into());
            }
            "OK 1".into()
        }
        // p_sec_far x y d A S: probes far outside the bounding box but inside the i32-exact range of the distance
        // computation (|2p - center_2x| <= 32767 per component: Coq probe_ok) are rejected by Sector::contains
        "p_sec_far" => {
            let (tl, d) = (pt(a[0], a[1]), u(a[2]));
            let sec = Sector::new(tl, d, ang(a[3]), ang(a[4]));
            let c = sec.center();
            let mut n = 0;
            for &k in &[200i32, 1000, 8191, 16000, 16383 - d as i32] {
                for (dx, dy) in [(k, 0), (-k, 0), (0, k), (0, -k), (k, k), (-k, k), (k, -k), (-k, -k), (k, 3), (5, -k)] {
                    let q = c + Point::new(dx, dy);
                    if k > d as i32 && sec.contains(q) {
                        return Some(format!("FAIL class=far_probe_accepted {:?}", q));
                    }
                    n += 1;
                }
            }
            format!("OK {}", n)
        }
        // p_entire <seed> <n>: |sweep| >= 360 degrees always yields EntirePlane (and the sector is the circle)
        "p_entire" => {
            let mut rng = Rng(a[0].parse::<u64>().unwrap());
            let n = us(a[1]);
            for k in 0..n {
                let start = ((rng.unit() * 2160.0) - 1080.0) as f32;
                let mag = match rng.below(4) {
                    0 => 360.0f32,
                    1 => f32::from_bits(360.0f32.to_bits() + rng.below(64) as u32),
                    2 => 360.0 + (rng.unit() * 10.0) as f32,
                    _ => 360.0 + (rng.unit() * 3000.0) as f32,
                };
                let sweep = if rng.below(2) == 0 { mag } else { -mag };
                let (op, _, _) = plane_sector_parts(start.deg(), sweep.deg());
                if op != 2 {
                    return Some(format!("FAIL class=sweep_ge_360_not_entire_plane start={} sweep={} (bits {}) op={}", start, sweep, sweep.to_bits(), op));
                }
                if k % 64 == 0 {
                    let d = rng.below(40) as u32;
                    let tl = Point::new(rng.below(41) as i32 - 20, rng.below(41) as i32 - 20);
                    let c: Vec<Point> = Circle::new(tl, d).points().collect();
                    let s: Vec<Point> = Sector::new(tl, d, start.deg(), sweep.deg()).points().collect();
                    if c != s {
                        return Some(format!("FAIL class=full_sector_not_circle tl={:?} d={} start={} sweep={}", tl, d, start, sweep));
                    }
                    // the same through contains() over box+2 and through the filled styled sector
                    let sec = Sector::new(tl, d, start.deg(), sweep.deg());
                    let win = Rectangle::new(tl - Point::new(2, 2), Size::new_equal(d + 4));
                    let sc: Vec<Point> = win.points().filter(|p| sec.contains(*p)).collect();
                    let sf: Vec<Point> = sec.into_styled(PrimitiveStyle::with_fill(Rgb565::new(1, 1, 1))).pixels().map(|Pixel(p, _)| p).collect();
                    if sc != c || sf != c {
                        return Some(format!("FAIL class=full_sector_not_circle (contains {} / filled {} vs circle {}) tl={:?} d={} start={} sweep={}", sc.len(), sf.len(), c.len(), tl, d, start, sweep));
                    }
                    let ring: Vec<Point> = Circle::new(tl, d).points().filter(|p| !Circle::new(tl, d).offset(-1).contains(*p)).collect();
                    let ar: Vec<Point> = Arc::new(tl, d, start.deg(), sweep.deg()).points().collect();
                    if ring != ar {
                        return Some(format!("FAIL class=full_arc_not_ring tl={:?} d={} start={} sweep={}", tl, d, start, sweep));
                    }
                }
            }
            format!("OK {}", n)
        }
        // p_sec_within x y d A S: sector and arc points lie in the circle and within 1.5 px of the swept angle;
        // every circle (ring) point more than 1.5 px inside the sweep is a sector (arc) point.
        "p_sec_within" => {
            let (tl, d) = (pt(a[0], a[1]), u(a[2]));
            let (s, w) = (ang(a[3]), ang(a[4]));
            let ideal = Ideal::new(tl, d, ang_deg64(a[3]), ang_deg64(a[4]));
            let circle = Circle::new(tl, d);
            let inner = circle.offset(-1);
            type Set = std::collections::BTreeSet<(i32, i32)>;
            let sector = Sector::new(tl, d, s, w);
            let arc_p = Arc::new(tl, d, s, w);
            // every way the shape can be observed; the clauses are evaluated on each of them
            let sec_points: Set = sector.points().map(|p| (p.y, p.x)).collect();
            let m = 2i32;
            let win = Rectangle::new(tl - Point::new(m, m), Size::new_equal(d + 2 * m as u32));
            let sec_contains: Set = win.points().filter(|p| sector.contains(*p)).map(|p| (p.y, p.x)).collect();
            let fill = sector.into_styled(PrimitiveStyle::with_fill(Rgb565::new(1, 2, 3)));
            let sec_fill: Set = fill.pixels().map(|Pixel(p, _)| (p.y, p.x)).collect();
            let big = Rectangle::new(Point::new(-(1 << 30), -(1 << 30)), Size::new((1 << 31) - 2, (1 << 31) - 2));
            let mut t = IterTarget::<Rgb565>::new(big);
            fill.draw(&mut t).unwrap();
            let sec_draw: Set = t.map.keys().cloned().collect();
            let arc_points: Set = arc_p.points().map(|p| (p.y, p.x)).collect();
            let thin = arc_p.into_styled(PrimitiveStyle::with_stroke(Rgb565::new(3, 2, 1), 1));
            let arc_pixels: Set = thin.pixels().map(|Pixel(p, _)| (p.y, p.x)).collect();
            let mut t2 = IterTarget::<Rgb565>::new(big);
            thin.draw(&mut t2).unwrap();
            let arc_draw: Set = t2.map.keys().cloned().collect();
            if sec_contains != sec_points {
                return Some(format!("FAIL class=contains_ne_points contains() over box+2 accepts {} points, points() yields {}", sec_contains.len(), sec_points.len()));
            }
            if sec_draw != sec_fill || arc_draw != arc_pixels {
                return Some("FAIL class=draw_ne_pixels".into());
            }
            if arc_pixels != arc_points {
                return Some(format!("FAIL class=arc_width1_ne_points styled arc (stroke 1) {} pixels, points() {}", arc_pixels.len(), arc_points.len()));
            }
            let (op, l, r) = plane_sector_parts(s, w);
            let degenerate = op == 0 && r == l;
            let mut n = 0;
            // soundness: in the circle, within 1.5 px of the swept angle
            let obs: [(&str, &Set, bool); 5] = [
                ("Sector::points", &sec_points, false), ("Sector::contains", &sec_contains, false), ("filled sector pixels", &sec_fill, true),
                ("Arc::points", &arc_points, false), ("arc stroke-1 pixels", &arc_pixels, false),
            ];
            for (name, set, is_fill) in obs.iter() {
                for &(y, x) in set.iter() {
                    let p = Point::new(x, y);
                    if !circle.contains(p) {
                        return Some(format!("FAIL class=point_outside_circle {}: {:?}", name, p));
                    }
                    let (inside, dist) = ideal.classify(p);
                    if !inside && dist > 1.5 {
                        // the FILL of a styled sector keeps a half-pixel margin on both radial lines (sector/styled.rs:56-59):
                        // for it the clause is read on the two lines (0.8 px), which for narrow sweeps reaches behind the centre
                        if *is_fill && ideal.within_lines(p, 0.8) {
                            continue;
                        }
                        // |sweep| below the resolution of the 1024-scaled normals: both half planes share one line
                        // (class predicate K18_tiny_sweep_opposite_side of Proofs/Sectormodel.v, narrowed to equal normals)
                        let class = if degenerate { "tiny_sweep_opposite_side" } else { "point_outside_sweep" };
                        return Some(format!("FAIL class={} {}: {:?} is {:.3} px outside the swept angle", class, name, p, dist));
                    }
                    n += 1;
                }
            }
            for set in [&arc_points, &arc_pixels] {
                for &(y, x) in set.iter() {
                    if inner.contains(Point::new(x, y)) {
                        return Some(format!("FAIL class=arc_point_not_on_ring ({},{})", x, y));
                    }
                }
            }
            // completeness: every circle (ring) point more than 1.5 px inside the sweep is present in every observation
            for p in circle.points() {
                let (inside, dist) = ideal.classify(p);
                if inside && dist > 1.5 {
                    for (name, set, _) in obs.iter().take(3) {
                        if !set.contains(&(p.y, p.x)) {
                            return Some(format!("FAIL class=inner_point_missing {} lacks {:?} ({:.3} px inside)", name, p, dist));
                        }
                    }
                    if !inner.contains(p) {
                        for (name, set, _) in obs.iter().skip(3) {
                            if !set.contains(&(p.y, p.x)) {
                                return Some(format!("FAIL class=inner_point_missing {} lacks {:?} ({:.3} px inside)", name, p, dist));
                            }
                        }
                    }
                }
            }
            // a sweep of 360 degrees or more: every observation is the circle / the ring
            if ang_deg64(a[4]).abs() >= 360.0 {
                let cset: Set = circle.points().map(|p| (p.y, p.x)).collect();
                let ring: Set = circle.points().filter(|p| !inner.contains(*p)).map(|p| (p.y, p.x)).collect();
                for (name, set, _) in obs.iter().take(3) {
                    if **set != cset {
                        return Some(format!("FAIL class=full_sector_not_circle {}: {} points, circle has {}", name, set.len(), cset.len()));
                    }
                }
                for (name, set, _) in obs.iter().skip(3) {
                    if **set != ring {
                        return Some(format!("FAIL class=full_arc_not_ring {}: {} points, ring has {}", name, set.len(), ring.len()));
                    }
                }
            }
            format!("OK {}", n)
        }
        // p_sec_c05 x y d A S m: points() == filter contains over the bounding box plus margin; once each, row-major
        "p_sec_c05" => {
            let (tl, d, m) = (pt(a[0], a[1]), u(a[2]), i(a[5]));
            let sec = Sector::new(tl, d, ang(a[3]), ang(a[4]));
            let pts: Vec<Point> = sec.points().collect();
            if !sorted_yx(&pts) {
                return Some("FAIL class=points_not_row_major_once".into());
            }
            let bb = sec.bounding_box();
            if bb != Rectangle::new(tl, Size::new_equal(d)) {
                return Some("FAIL class=bounding_box".into());
            }
            if let Some(p) = pts.iter().find(|p| !bb.contains(**p)) {
                return Some(format!("FAIL class=point_outside_bbox {:?}", p));
            }
            let win = Rectangle::new(tl - Point::new(m, m), Size::new_equal(d + 2 * m as u32));
            let want: Vec<Point> = win.points().filter(|p| sec.contains(*p)).collect();
            if want != pts {
                return Some(format!("FAIL class=points_ne_contains {} points, contains accepts {}", pts.len(), want.len()));
            }
            format!("OK {}", pts.len())
        }
        // p_fixed_point <result of a case run on the `fixed_point` build of the harness> :: <case>
        // (props/C18_sector.py builds that second binary and runs the cases; this suite only carries the
        // verdict into the check's search channel)
        "p_fixed_point" => {
            if a.first() == Some(&"OK") {
                format!("OK fixed_point {}", a[1..].join(" "))
            } else if a.iter().any(|t| t.starts_with("class=")) {
                format!("{} [fixed_point build]", a.join(" "))
            } else {
                format!("FAIL class=fixed_point {}", a.join(" "))
            }
        }
        _ => return None,
    })
}
