//! C19: triangles cover their interior, polylines are the union of their segments
use crate::util::*;
use embedded_graphics::{
    pixelcolor::BinaryColor,
    prelude::*,
    primitives::{Line, Polyline, PrimitiveStyle, Triangle},
    Pixel,
};
use std::collections::{BTreeMap, BTreeSet};

fn tri(a: &[&str]) -> Triangle {
    Triangle::new(pt(a[0], a[1]), pt(a[2], a[3]), pt(a[4], a[5]))
}
fn verts(a: &[&str]) -> Vec<Point> {
    a.chunks(2).filter(|c| c.len() == 2).map(|c| pt(c[0], c[1])).collect()
}

pub fn run(suite: &str, a: &[&str]) -> Option<String> {
    Some(match suite {
        "tri_points" => spts(tri(a).points()),
        "tri_bbox" => src(tri(a).bounding_box()),
        "poly_points" => {
            let vs = verts(&a[2..]);
            spts(Polyline::new(&vs).translate(pt(a[0], a[1])).points())
        }
        "poly_bbox" => {
            let vs = verts(&a[2..]);
            src(Polyline::new(&vs).translate(pt(a[0], a[1])).bounding_box())
        }
        "poly_points_tt" => {
            let vs = verts(&a[4..]);
            spts(Polyline::new(&vs).translate(pt(a[2], a[3])).translate(pt(a[0], a[1])).points())
        }
        _ => return search(suite, a),
    })
}

// ---------------------------------------------------------------------------------------------
// direct property search (implementation only); the reference is exact integer geometry
// ---------------------------------------------------------------------------------------------
type V = (i64, i64);

fn v(p: Point) -> V {
    (p.x as i64, p.y as i64)
}
fn cross(o: V, a: V, b: V) -> i64 {
    (a.0 - o.0) * (b.1 - o.1) - (a.1 - o.1) * (b.0 - o.0)
}
/// q lies in the closed mathematical triangle (a segment or a point when the vertices are colinear)
fn in_closed_triangle(t: &[V; 3], q: V) -> bool {
    let d1 = cross(t[0], t[1], q);
    let d2 = cross(t[1], t[2], q);
    let d3 = cross(t[2], t[0], q);
    let same = (d1 >= 0 && d2 >= 0 && d3 >= 0) || (d1 <= 0 && d2 <= 0 && d3 <= 0);
    let xs = [t[0].0, t[1].0, t[2].0];
    let ys = [t[0].1, t[1].1, t[2].1];
    same && q.0 >= *xs.iter().min().unwrap() && q.0 <= *xs.iter().max().unwrap()
        && q.1 >= *ys.iter().min().unwrap() && q.1 <= *ys.iter().max().unwrap()
}
/// squared distance from q to the closed segment ab is <= 1 (exact: num/den <= 1)
fn within_one_of_segment(a: V, b: V, q: V) -> bool {
    let (dx, dy) = (b.0 - a.0, b.1 - a.1);
    let l2 = dx * dx + dy * dy;
    let t = (q.0 - a.0) * dx + (q.1 - a.1) * dy;
    if l2 == 0 || t <= 0 {
        (q.0 - a.0).pow(2) + (q.1 - a.1).pow(2) <= 1
    } else if t >= l2 {
        (q.0 - b.0).pow(2) + (q.1 - b.1).pow(2) <= 1
    } else {
        let c = cross(a, b, q) as i128;
        c * c <= l2 as i128
    }
}
fn line_pts(a: Point, b: Point) -> Vec<Point> {
    Line::new(a, b).points().collect()
}
fn sort_yx(mut p: [Point; 3]) -> [Point; 3] {
    p.sort_by_key(|q| (q.y, q.x));
    p
}
/// the convention of the one pixel outline: vertices in clockwise order (screen coordinates, y down);
/// colinear: in (y,x) order
fn clockwise(p: [Point; 3]) -> [Point; 3] {
    let c = cross(v(p[0]), v(p[1]), v(p[2]));
    if c < 0 {
        [p[1], p[0], p[2]]
    } else if c > 0 {
        p
    } else {
        sort_yx(p)
    }
}
fn row_major_strict(ps: &[Point]) -> bool {
    ps.windows(2).all(|w| (w[0].y, w[0].x) < (w[1].y, w[1].x))
}

fn check_triangle(p: [Point; 3]) -> Result<usize, String> {
    let t = Triangle::new(p[0], p[1], p[2]);
    // constructors: new keeps the vertices in the given order, from_slice builds the same triangle
    if t.vertices != [p[0], p[1], p[2]] {
        return Err(format!("Triangle::new({:?}, {:?}, {:?}).vertices = {:?}", p[0], p[1], p[2], t.vertices));
    }
    let fs = Triangle::from_slice(&t.vertices);
    if fs != t || fs.vertices != [p[0], p[1], p[2]] {
        return Err(format!("Triangle::from_slice({:?}) = {:?}, expected {:?}", t.vertices, fs, t));
    }
    let pts: Vec<Point> = t.points().collect();
    let set: BTreeSet<(i32, i32)> = pts.iter().map(|q| (q.y, q.x)).collect();
    if set.len() != pts.len() {
        return Err("points() yields a point twice".into());
    }
    if !row_major_strict(&pts) {
        return Err("points() not in row-major order".into());
    }
    let tv = [v(p[0]), v(p[1]), v(p[2])];
    let bb = t.bounding_box();
    for q in &pts {
        if !bb.contains(*q) {
            return Err(format!("point {:?} outside bounding box", q));
        }
    }
    // interior coverage + within one pixel, over the bounding box grown by 2
    let win = bb.offset(2);
    for q in win.points() {
        let inside = in_closed_triangle(&tv, v(q));
        let covered = set.contains(&(q.y, q.x));
        if inside && !covered {
            return Err(format!("interior point {:?} not covered", q));
        }
        if covered && !inside {
            let near = within_one_of_segment(tv[0], tv[1], v(q))
                || within_one_of_segment(tv[1], tv[2], v(q))
                || within_one_of_segment(tv[2], tv[0], v(q));
            if !near {
                return Err(format!("covered point {:?} is outside and more than one pixel from every edge", q));
            }
        }
    }
    // order independence: all 6 orders
    for perm in [[0, 2, 1], [1, 0, 2], [1, 2, 0], [2, 0, 1], [2, 1, 0]] {
        let t2 = Triangle::new(p[perm[0]], p[perm[1]], p[perm[2]]);
        if !t2.points().eq(pts.iter().copied()) {
            return Err(format!("vertex order {:?} gives different points", perm));
        }
        if t2.bounding_box() != bb {
            return Err(format!("vertex order {:?} gives a different bounding box", perm));
        }
    }
    // edges between the (y,x)-sorted vertices are part of the filled triangle (non-zero area)
    if cross(tv[0], tv[1], tv[2]) != 0 {
        let s = sort_yx(p);
        for (a, b) in [(s[0], s[1]), (s[0], s[2]), (s[1], s[2])] {
            for q in line_pts(a, b) {
                if !set.contains(&(q.y, q.x)) {
                    return Err(format!("edge pixel {:?} of sorted edge {:?}-{:?} not in points()", q, a, b));
                }
            }
        }
    }
    Ok(pts.len())
}

fn align_of(a: &str) -> embedded_graphics::primitives::StrokeAlignment {
    use embedded_graphics::primitives::StrokeAlignment;
    match a {
        "0" => StrokeAlignment::Inside,
        "1" => StrokeAlignment::Center,
        _ => StrokeAlignment::Outside,
    }
}

fn check_outline(p: [Point; 3], al: embedded_graphics::primitives::StrokeAlignment) -> Result<usize, String> {
    use embedded_graphics::primitives::{PrimitiveStyleBuilder, StrokeAlignment};
    let t = Triangle::new(p[0], p[1], p[2]);
    let style = PrimitiveStyleBuilder::new().stroke_color(BinaryColor::On).stroke_width(1).stroke_alignment(al).build();
    let got: Vec<Point> = t
        .into_styled(style)
        .pixels()
        .map(|Pixel(q, _)| q)
        .collect();
    let gset: BTreeSet<(i32, i32)> = got.iter().map(|q| (q.y, q.x)).collect();
    if gset.len() != got.len() {
        return Err("outline pixels() yields a pixel twice".into());
    }
    // Direction convention of the three edge lines (the property text does not fix one; a Bresenham line and its reverse
    // differ in tie pixels): lines between the CLOCKWISE-ordered vertices a->b, b->c, c->a; for colinear / coincident
    // vertices the vertices are (y,x)-sorted, and with StrokeAlignment::Inside the code takes the "collapsed" path
    // (scanline_intersections.rs:46-48, mod.rs:221-225) which rasterises the (y,x)-sorted directions only
    // (p1->p2, p2->p3, p1->p3 instead of p3->p1), as the fill does.
    let degenerate = cross(v(p[0]), v(p[1]), v(p[2])) == 0;
    let c = clockwise(p);
    let edges = if degenerate && al == StrokeAlignment::Inside {
        [(c[0], c[1]), (c[1], c[2]), (c[0], c[2])]
    } else {
        [(c[0], c[1]), (c[1], c[2]), (c[2], c[0])]
    };
    let mut want: BTreeSet<(i32, i32)> = BTreeSet::new();
    for (a, b) in edges {
        for q in line_pts(a, b) {
            want.insert((q.y, q.x));
        }
    }
    if gset != want {
        let miss: Vec<_> = want.difference(&gset).take(3).collect();
        let extra: Vec<_> = gset.difference(&want).take(3).collect();
        return Err(format!(
            "1px outline ({:?}) differs from the three edge lines: missing (y,x) {:?} extra {:?}",
            al, miss, extra
        ));
    }
    // convention-free reading of the clause: every outline pixel lies on an edge line rasterised in one of its two
    // directions, and each edge is present completely in at least one direction
    for (a, b) in [(p[0], p[1]), (p[1], p[2]), (p[2], p[0])] {
        let f: Vec<Point> = line_pts(a, b);
        let r: Vec<Point> = line_pts(b, a);
        if !(f.iter().all(|q| gset.contains(&(q.y, q.x))) || r.iter().all(|q| gset.contains(&(q.y, q.x)))) {
            return Err(format!("edge {:?}-{:?} is not completely part of the 1px outline in either direction", a, b));
        }
    }
    // the drawn image is the same set
    let mut tg: IterTarget<BinaryColor> = IterTarget::new(t.bounding_box().offset(3));
    t.into_styled(style).draw(&mut tg).unwrap();
    let dset: BTreeSet<(i32, i32)> = tg.map.keys().copied().collect();
    if dset != want {
        return Err("1px outline draw() differs from the three clockwise edge lines".into());
    }
    Ok(got.len())
}

/// fill-only styled triangle (stroke width 0, any alignment, stroke colour present or not):
/// pixels() and draw() are exactly points() in the fill colour
fn check_fill(p: [Point; 3]) -> Result<usize, String> {
    use embedded_graphics::primitives::{PrimitiveStyleBuilder, StrokeAlignment};
    let t = Triangle::new(p[0], p[1], p[2]);
    let want: Vec<Point> = t.points().collect();
    let colinear = cross(v(p[0]), v(p[1]), v(p[2])) == 0;
    for al in [StrokeAlignment::Inside, StrokeAlignment::Center, StrokeAlignment::Outside] {
        for with_stroke_colour in [false, true] {
            let mut b = PrimitiveStyleBuilder::new().fill_color(BinaryColor::On).stroke_width(0).stroke_alignment(al);
            if with_stroke_colour {
                b = b.stroke_color(BinaryColor::Off);
            }
            let st = t.into_styled(b.build());
            let got: Vec<Point> = st.pixels().map(|Pixel(q, _)| q).collect();
            let mut tg: IterTarget<BinaryColor> = IterTarget::new(t.bounding_box().offset(3));
            st.draw(&mut tg).unwrap();
            let dset: BTreeSet<(i32, i32)> = tg.map.keys().copied().collect();
            let wset: BTreeSet<(i32, i32)> = want.iter().map(|q| (q.y, q.x)).collect();
            if got != want || dset != wset {
                let class = if colinear && al == StrokeAlignment::Inside && got.is_empty() && dset.is_empty() {
                    " class=K19_inside_fill_colinear"
                } else {
                    ""
                };
                return Err(format!(
                    "filled triangle (stroke width 0, alignment {:?}, stroke colour {}) draws {} pixels, points() has {}{}",
                    al, with_stroke_colour, got.len(), want.len(), class
                ));
            }
        }
    }
    Ok(want.len())
}

/// squared distance from q to the closed segment ab, as the fraction (num, den) with den > 0
fn dist2_segment(a: V, b: V, q: V) -> (i128, i128) {
    let (dx, dy) = (b.0 - a.0, b.1 - a.1);
    let l2 = dx * dx + dy * dy;
    let t = (q.0 - a.0) * dx + (q.1 - a.1) * dy;
    if l2 == 0 || t <= 0 {
        (((q.0 - a.0).pow(2) + (q.1 - a.1).pow(2)) as i128, 1)
    } else if t >= l2 {
        (((q.0 - b.0).pow(2) + (q.1 - b.1).pow(2)) as i128, 1)
    } else {
        let c = cross(a, b, q) as i128;
        (c * c, l2 as i128)
    }
}

/// Styled<Triangle> with fill and/or stroke of any width: what C19 says about the covered set, observed at pixels()/draw():
///  (1) with a fill and a visible (or zero width) stroke, every lattice point of the closed mathematical triangle is painted
///      (Inside / Center strokes of width >= 2: the lattice points farther than width + 1 from every edge);
///  (2) every painted pixel is inside the triangle or within 2*width + 1 pixels of an edge (mitre tips reach 2*width);
///  (3) with width 0 the painted set is exactly points();
///  (4) pixels() and draw() paint the same image, no pixel gets two colours.
fn check_cover(
    w: u32,
    al: embedded_graphics::primitives::StrokeAlignment,
    fill: bool,
    stroke: bool,
    p: [Point; 3],
) -> Result<usize, String> {
    use embedded_graphics::primitives::PrimitiveStyleBuilder;
    use embedded_graphics::pixelcolor::Rgb565;
    use crate::zoo::{FILL, STROKE};
    let t = Triangle::new(p[0], p[1], p[2]);
    let mut b = PrimitiveStyleBuilder::new().stroke_width(w).stroke_alignment(al);
    if fill {
        b = b.fill_color(FILL);
    }
    if stroke {
        b = b.stroke_color(STROKE);
    }
    let st = t.into_styled(b.build());
    let mut pm: BTreeMap<(i32, i32), u32> = BTreeMap::new();
    for Pixel(q, c) in st.pixels() {
        if let Some(old) = pm.insert((q.y, q.x), c.tag()) {
            if old != c.tag() {
                return Err(format!("pixels() gives {:?} two colours", q));
            }
        }
    }
    let mut tg: NativeTarget<Rgb565> = NativeTarget::new(st.bounding_box().offset(4));
    st.draw(&mut tg).map_err(|_| "draw failed".to_string())?;
    if tg.map != pm {
        return Err(format!("pixels() and draw() differ ({} vs {} px)", pm.len(), tg.map.len()));
    }
    let tv = [v(p[0]), v(p[1]), v(p[2])];
    let pts: BTreeSet<(i32, i32)> = t.points().map(|q| (q.y, q.x)).collect();
    let degenerate = cross(tv[0], tv[1], tv[2]) == 0;
    let win = t.bounding_box().offset(2 * w as i32 + 3);
    let lim = (2 * w as i128 + 1) * (2 * w as i128 + 1);
    for q in win.points() {
        let inside = in_closed_triangle(&tv, v(q));
        let painted = pm.get(&(q.y, q.x));
        if inside && fill && (stroke || w == 0) && painted.is_none() {
            // Clause 1 is about the FILL.  Full strength for stroke widths 0 and 1 and for Outside alignment (the fill is the whole
            // triangle).  For Inside / Center strokes of width >= 2 the band along the edges belongs to the stroke, and how exactly
            // a thick stroke rasterises it (bevelled sharp tips, parts thinner than the stroke, single lattice points on an edge,
            // colinear vertices) is not what C19 speaks about (FINDINGS-C19.md, "observations outside the property"):
            // only lattice points farther than width + 1 from every edge are demanded there.
            let wl = (w as i128 + 1) * (w as i128 + 1);
            let in_band = (0..3).any(|k| {
                let (n, d) = dist2_segment(tv[k], tv[(k + 1) % 3], v(q));
                n <= wl * d
            });
            let full = w <= 1 || al == embedded_graphics::primitives::StrokeAlignment::Outside;
            if full || !(degenerate || in_band) {
                return Err(format!("lattice point {:?} of the closed triangle is not painted (fill + stroke width {} {:?})", q, w, al));
            }
        }
        if painted.is_some() && !inside {
            let near = (0..3).any(|k| {
                let (n, d) = dist2_segment(tv[k], tv[(k + 1) % 3], v(q));
                n <= lim * d
            });
            if !near {
                return Err(format!("painted pixel {:?} is more than {} pixels from the triangle", q, 2 * w + 1));
            }
        }
    }
    // (fill coloured pixels outside points() do occur on the unchanged code for widths >= 3 with Center/Outside alignment,
    //  in the notch between two bevelled thick segments; no property speaks about the colour, so this is not checked)
    for k in pm.keys() {
        if !win.contains(Point::new(k.1, k.0)) {
            return Err(format!("painted pixel ({}, {}) outside the probe window", k.1, k.0));
        }
    }
    if w == 0 {
        let want: BTreeSet<(i32, i32)> = if fill { pts.clone() } else { BTreeSet::new() };
        let got: BTreeSet<(i32, i32)> = pm.keys().copied().collect();
        if got != want {
            return Err("width 0: painted set is not points()".into());
        }
    }
    Ok(pm.len())
}

fn check_pair(a: Point, b: Point, c: Point, d: Point) -> Result<usize, String> {
    let t1 = Triangle::new(a, b, c);
    let t2 = Triangle::new(b, d, a);
    let (v1, v2) = ([v(a), v(b), v(c)], [v(b), v(d), v(a)]);
    if cross(v1[0], v1[1], v1[2]) == 0 || cross(v2[0], v2[1], v2[2]) == 0 {
        return Ok(0);
    }
    let s1: BTreeSet<(i32, i32)> = t1.points().map(|q| (q.y, q.x)).collect();
    let s2: BTreeSet<(i32, i32)> = t2.points().map(|q| (q.y, q.x)).collect();
    // same pixels along the shared edge: both contain the one Bresenham line between the sorted end points
    let (lo, hi) = if (a.y, a.x) <= (b.y, b.x) { (a, b) } else { (b, a) };
    let edge = line_pts(lo, hi);
    for q in &edge {
        if !s1.contains(&(q.y, q.x)) || !s2.contains(&(q.y, q.x)) {
            return Err(format!("shared edge pixel {:?} missing in one triangle", q));
        }
    }
    // every pixel of either triangle that lies in the row/column hull of the edge line and on the far side of
    // the ideal edge (seen from its own third vertex) belongs to the other triangle as well, when the
    // triangles lie on opposite sides: the edge is drawn identically, no pixel of one pokes out unmatched
    let opposite = (cross(v(a), v(b), v(c)) > 0) != (cross(v(a), v(b), v(d)) > 0);
    // no gap: every integer point of the union of the two closed triangles is covered by the union of the pixel sets
    let bb = embedded_graphics::primitives::Rectangle::with_corners(
        Point::new(a.x.min(b.x).min(c.x).min(d.x), a.y.min(b.y).min(c.y).min(d.y)),
        Point::new(a.x.max(b.x).max(c.x).max(d.x), a.y.max(b.y).max(c.y).max(d.y)),
    );
    let mut n = 0;
    for q in bb.points() {
        let inside = in_closed_triangle(&v1, v(q)) || in_closed_triangle(&v2, v(q));
        let cov = s1.contains(&(q.y, q.x)) || s2.contains(&(q.y, q.x));
        if inside && !cov {
            return Err(format!("gap at {:?}", q));
        }
        if inside {
            n += 1;
        }
    }
    if opposite {
        // along the shared edge the two fills meet exactly: in every row that the edge line touches, the
        // pixels between the two triangles' far ends form one run without hole
        let mut rows: BTreeMap<i32, (i32, i32)> = BTreeMap::new();
        for q in &edge {
            let e = rows.entry(q.y).or_insert((q.x, q.x));
            e.0 = e.0.min(q.x);
            e.1 = e.1.max(q.x);
        }
        for (y, _) in rows {
            let xs: Vec<i32> = s1.iter().chain(s2.iter()).filter(|k| k.0 == y).map(|k| k.1).collect();
            let (x0, x1) = (*xs.iter().min().unwrap(), *xs.iter().max().unwrap());
            for x in x0..=x1 {
                if !s1.contains(&(y, x)) && !s2.contains(&(y, x)) {
                    return Err(format!("hole at ({}, {}) between two triangles sharing an edge", x, y));
                }
            }
        }
    }
    Ok(n)
}

fn check_polyline(tr: Point, vs: &[Point]) -> Result<usize, String> {
    // constructor: new keeps the vertex slice and starts with translate (0,0); translate only changes the translate field
    let p0 = Polyline::new(vs);
    if p0.vertices != vs {
        return Err(format!("Polyline::new({:?}).vertices = {:?}", vs, p0.vertices));
    }
    if p0.translate != Point::zero() {
        return Err(format!("Polyline::new(..).translate = {:?}, expected (0, 0)", p0.translate));
    }
    let pl = Polyline::new(vs).translate(tr);
    if pl.vertices != vs || pl.translate != tr {
        return Err(format!("Polyline::translate({:?}): vertices {:?} translate {:?}", tr, pl.vertices, pl.translate));
    }
    // reference: first segment's line, then every following segment's line without its first point
    let mut want: Vec<Point> = Vec::new();
    for (i, w) in vs.windows(2).enumerate() {
        let l = line_pts(w[0] + tr, w[1] + tr);
        if l.first() != Some(&(w[0] + tr)) || l.last() != Some(&(w[1] + tr)) {
            return Err("segment line does not connect its end points".into());
        }
        want.extend(l.into_iter().skip(if i == 0 { 0 } else { 1 }));
    }
    let got: Vec<Point> = pl.points().collect();
    if got != want {
        return Err(format!("points() differs from the segment lines with joints once ({} vs {})", got.len(), want.len()));
    }
    let styled = pl.into_styled(PrimitiveStyle::with_stroke(BinaryColor::On, 1));
    let px: Vec<Point> = styled.pixels().map(|Pixel(q, _)| q).collect();
    if px != want {
        return Err(format!("1px styled pixels() differs from the segment lines with joints once ({} vs {})", px.len(), want.len()));
    }
    // the drawn image is the union of the segment lines
    let mut union: BTreeSet<(i32, i32)> = BTreeSet::new();
    for w in vs.windows(2) {
        for q in line_pts(w[0] + tr, w[1] + tr) {
            union.insert((q.y, q.x));
        }
    }
    let bb = pl.bounding_box().offset(3);
    let mut tg: IterTarget<BinaryColor> = IterTarget::new(bb);
    styled.draw(&mut tg).unwrap();
    let dset: BTreeSet<(i32, i32)> = tg.map.keys().copied().collect();
    if dset != union {
        return Err("1px draw() differs from the union of the segment lines".into());
    }
    if vs.len() >= 2 && tg.writes != want.len() {
        return Err(format!("1px draw() wrote {} pixels, expected {} (joints once)", tg.writes, want.len()));
    }
    for q in &want {
        if vs.len() >= 2 && !pl.bounding_box().contains(*q) {
            return Err(format!("point {:?} outside the bounding box", q));
        }
    }
    Ok(want.len())
}

pub fn search(suite: &str, a: &[&str]) -> Option<String> {
    let fmt = |r: Result<usize, String>| match r {
        Ok(n) => format!("OK {}", n),
        Err(e) => format!("FAIL {}", e),
    };
    Some(match suite {
        "p_tri" => fmt(check_triangle([pt(a[0], a[1]), pt(a[2], a[3]), pt(a[4], a[5])])),
        "p_tri_fill" => fmt(check_fill([pt(a[0], a[1]), pt(a[2], a[3]), pt(a[4], a[5])])),
        // p_tri_outline x1 y1 x2 y2 x3 y3 [align]   (align: 0 inside, 1 center (default), 2 outside)
        "p_tri_outline" => fmt(check_outline(
            [pt(a[0], a[1]), pt(a[2], a[3]), pt(a[4], a[5])],
            align_of(if a.len() > 6 { a[6] } else { "1" }),
        )),
        // p_tri_cover w align fill stroke x1 y1 x2 y2 x3 y3
        "p_tri_cover" => fmt(check_cover(
            a[0].parse().unwrap(),
            align_of(a[1]),
            a[2] == "1",
            a[3] == "1",
            [pt(a[4], a[5]), pt(a[6], a[7]), pt(a[8], a[9])],
        )),
        "p_tri_pair" => fmt(check_pair(pt(a[0], a[1]), pt(a[2], a[3]), pt(a[4], a[5]), pt(a[6], a[7]))),
        "p_poly" => fmt(check_polyline(pt(a[0], a[1]), &verts(&a[2..]))),
        _ => return None,
    })
}
