//! C20: MockDisplay (implementation side).  Protocol: see props/C20.py
use crate::util::*;
use embedded_graphics::{
    mock_display::{ColorMapping, MockDisplay},
    pixelcolor::{raw::*, *},
    prelude::*,
    primitives::Rectangle,
    Pixel,
};
use std::collections::HashMap;
use std::fmt::Write as _;
use std::panic::{catch_unwind, AssertUnwindSafe};

const SIZE: i32 = 64;

/// colour types under test: built from / printed as their raw value
pub trait Mk: PixelColor + ColorMapping + Tag + core::fmt::Debug {
    fn mk(v: u32) -> Self;
    /// (r,g,b) channel bits and r/g/b bit positions for RGB types, used by the independent pattern table
    fn rgb_layout() -> Option<((u32, u32, u32), (u32, u32, u32))> {
        None
    }
    const NAME: &'static str;
    /// number of raw values of the colour type
    fn nvalues() -> u64 {
        match Self::rgb_layout() {
            Some(((r, g, b), _)) => 1u64 << (r + g + b),
            None => 1u64 << <<Self as PixelColor>::Raw as RawData>::BITS_PER_PIXEL,
        }
    }
    /// the colour function handed to MockDisplay::map by the suites: raw value shifted by k
    fn shifted(self, k: u32) -> Self {
        Self::mk(((self.tag() as u64 + k as u64) % Self::nvalues()) as u32)
    }
}
macro_rules! mk {
    ($t:ident, $raw:ident, $st:ty, $layout:expr) => {
        impl Mk for $t {
            fn mk(v: u32) -> Self {
                $raw::new(v as $st).into()
            }
            fn rgb_layout() -> Option<((u32, u32, u32), (u32, u32, u32))> {
                $layout
            }
            const NAME: &'static str = stringify!($t);
        }
    };
}
mk!(BinaryColor, RawU1, u8, None);
mk!(Gray2, RawU2, u8, None);
mk!(Gray4, RawU4, u8, None);
mk!(Gray8, RawU8, u8, None);
mk!(Rgb332, RawU8, u8, Some(((3, 3, 2), (5, 2, 0))));
mk!(Rgb444, RawU16, u16, Some(((4, 4, 4), (8, 4, 0))));
mk!(Rgb555, RawU16, u16, Some(((5, 5, 5), (10, 5, 0))));
mk!(Bgr555, RawU16, u16, Some(((5, 5, 5), (0, 5, 10))));
mk!(Rgb565, RawU16, u16, Some(((5, 6, 5), (11, 5, 0))));
mk!(Bgr565, RawU16, u16, Some(((5, 6, 5), (0, 5, 11))));
mk!(Rgb888, RawU24, u32, Some(((8, 8, 8), (16, 8, 0))));
mk!(Bgr888, RawU24, u32, Some(((8, 8, 8), (0, 8, 16))));

macro_rules! dispatch {
    ($ty:expr, $f:ident, $($a:expr),*) => {
        match $ty {
            "BinaryColor" => $f::<BinaryColor>($($a),*),
            "Gray2" => $f::<Gray2>($($a),*),
            "Gray4" => $f::<Gray4>($($a),*),
            "Gray8" => $f::<Gray8>($($a),*),
            "Rgb332" => $f::<Rgb332>($($a),*),
            "Rgb444" => $f::<Rgb444>($($a),*),
            "Rgb555" => $f::<Rgb555>($($a),*),
            "Bgr555" => $f::<Bgr555>($($a),*),
            "Rgb565" => $f::<Rgb565>($($a),*),
            "Bgr565" => $f::<Bgr565>($($a),*),
            "Rgb888" => $f::<Rgb888>($($a),*),
            "Bgr888" => $f::<Bgr888>($($a),*),
            _ => "BAD-TYPE".to_string(),
        }
    };
}

/// canonical panic kind from the panic message
fn classify(e: Box<dyn std::any::Any + Send>) -> String {
    let msg: String = if let Some(s) = e.downcast_ref::<String>() {
        s.clone()
    } else if let Some(s) = e.downcast_ref::<&str>() {
        s.to_string()
    } else {
        "?".into()
    };
    let k = if msg.contains("outside the display area") {
        "oob"
    } else if msg.contains("draw pixel twice") {
        "overdraw"
    } else if msg.contains("point must be inside display bounding box") {
        "setpixel"
    } else if msg.contains("index out of bounds") {
        "index"
    } else if msg.contains("must not be wider") {
        "width"
    } else if msg.contains("must not be taller") {
        "height"
    } else if msg.contains("characters wide") {
        "row"
    } else if msg.contains("nvalid char in pattern") {
        "badchar"
    } else if msg.contains("called `Option::unwrap()` on a `None` value") {
        "unwrap"
    } else {
        return format!("other:{}", msg.replace(char::is_whitespace, "_"));
    };
    k.to_string()
}

fn guarded<T>(f: impl FnOnce() -> T) -> Result<T, String> {
    catch_unwind(AssertUnwindSafe(f)).map_err(classify)
}

fn dump<C: Mk>(d: &MockDisplay<C>) -> String {
    let mut v = Vec::new();
    for y in 0..SIZE {
        for x in 0..SIZE {
            if let Some(c) = d.get_pixel(Point::new(x, y)) {
                v.push(format!("{}:{}:{}", x, y, c.tag()));
            }
        }
    }
    v.join(",")
}

fn text_out(s: &str) -> String {
    s.chars().map(|c| match c { ' ' => '_', '\n' => '/', c => c }).collect()
}

fn pix<C: Mk>(s: &str) -> Pixel<C> {
    let f: Vec<&str> = s.split(':').collect();
    Pixel(pt(f[0], f[1]), C::mk(u(f[2])))
}
fn colors<C: Mk>(s: &str) -> Vec<C> {
    if s.is_empty() { vec![] } else { s.split(',').map(|c| C::mk(u(c))).collect() }
}

/// one protocol token on the real display; probes push to `out`
fn step<C: Mk>(d: &mut MockDisplay<C>, out: &mut Vec<String>, tok: &str) {
    let f: Vec<&str> = tok.split(':').collect();
    match f[0] {
        "dp" => d.draw_pixel(pt(f[1], f[2]), C::mk(u(f[3]))),
        "di" => {
            let body = &tok[3..];
            let l: Vec<Pixel<C>> = if body.is_empty() { vec![] } else { body.split(';').map(pix::<C>).collect() };
            d.draw_iter(l).unwrap()
        }
        "fs" => d.fill_solid(&rc(f[1], f[2], f[3], f[4]), C::mk(u(f[5]))).unwrap(),
        "fc" => d.fill_contiguous(&rc(f[1], f[2], f[3], f[4]), colors::<C>(f[5])).unwrap(),
        "cl" => d.clear(C::mk(u(f[1]))).unwrap(),
        "sp" => d.set_pixel(pt(f[1], f[2]), if f[3] == "n" { None } else { Some(C::mk(u(f[3]))) }),
        "sps" => {
            let body = tok.splitn(3, ':').nth(2).unwrap_or("");
            let l: Vec<Point> = if body.is_empty() { vec![] } else { body.split(';').map(|s| { let g: Vec<&str> = s.split(':').collect(); pt(g[0], g[1]) }).collect() };
            d.set_pixels(l, if f[1] == "n" { None } else { Some(C::mk(u(f[1]))) })
        }
        "ao" => d.set_allow_overdraw(f[1] == "1"),
        "ab" => d.set_allow_out_of_bounds_drawing(f[1] == "1"),
        "gp" => out.push(d.get_pixel(pt(f[1], f[2])).map(|c| c.tag().to_string()).unwrap_or_else(|| "none".into())),
        "aa" => out.push(src(d.affected_area())),
        "dump" => out.push(format!("[{}]", dump(d))),
        "sw" => out.push(format!("[{}]", dump(&d.swap_xy()))),
        "dbg" => out.push(text_out(&format!("{:?}", d))),
        "mp" => {
            let k = u(f[1]);
            out.push(format!("[{}]", dump(&d.map(|c| c.shifted(k)))))
        }
        _ => panic!("bad token {}", tok),
    }
}

fn run_tokens<C: Mk>(d: &mut MockDisplay<C>, out: &mut Vec<String>, toks: &[&str]) -> bool {
    for t in toks {
        if let Err(k) = guarded(|| step(d, out, t)) {
            out.push(format!("PANIC {}", k));
            return false;
        }
    }
    true
}

fn mock_hist<C: Mk>(toks: &[&str]) -> String {
    let mut d = MockDisplay::<C>::new();
    let mut out = Vec::new();
    run_tokens(&mut d, &mut out, toks);
    out.join(" ")
}

fn split_slash<'a, 'b>(toks: &'b [&'a str]) -> (&'b [&'a str], &'b [&'a str]) {
    match toks.iter().position(|t| *t == "/") {
        Some(k) => (&toks[..k], &toks[k + 1..]),
        None => (toks, &[]),
    }
}

fn mock_eqdiff<C: Mk>(toks: &[&str]) -> String {
    let (ta, tb) = split_slash(toks);
    let mut a = MockDisplay::<C>::new();
    let mut b = MockDisplay::<C>::new();
    let mut out = Vec::new();
    if run_tokens(&mut a, &mut out, ta) && run_tokens(&mut b, &mut out, tb) {
        match guarded(|| {
            let df = a.diff(&b);
            format!("EQ {} DIFF [{}] DEQ {}", sb(a == b), dump(&df), sb(df == MockDisplay::<Rgb888>::new()))
        }) {
            Ok(s) => out.push(s),
            Err(k) => out.push(format!("PANIC {}", k)),
        }
    }
    out.join(" ")
}

fn rows_of(toks: &[&str]) -> Vec<String> {
    toks.iter().map(|t| t[1..].replace('_', " ")).collect()
}

fn mock_pattern<C: Mk>(toks: &[&str]) -> String {
    let rows = rows_of(toks);
    let refs: Vec<&str> = rows.iter().map(|s| s.as_str()).collect();
    match guarded(|| {
        let d = MockDisplay::<C>::from_pattern(&refs);
        format!("MAP [{}] AA {} DBG {}", dump(&d), src(d.affected_area()), text_out(&format!("{:?}", d)))
    }) {
        Ok(s) => s,
        Err(k) => format!("PANIC {}", k),
    }
}

fn points_of(toks: &[&str]) -> Vec<Point> {
    toks.iter().map(|s| { let f: Vec<&str> = s.split(':').collect(); pt(f[0], f[1]) }).collect()
}

fn mock_points<C: Mk>(toks: &[&str]) -> String {
    let c = C::mk(u(toks[0]));
    let pts = points_of(&toks[1..]);
    match guarded(|| MockDisplay::<C>::from_points(pts, c)) {
        Ok(d) => format!("[{}] AA {}", dump(&d), src(d.affected_area())),
        Err(k) => format!("PANIC {}", k),
    }
}

/// from_points: panics exactly when a point is outside, otherwise exactly the given points hold the colour
fn p_mock_points<C: Mk>(toks: &[&str]) -> String {
    let cv = u(toks[0]);
    let pts = points_of(&toks[1..]);
    let mut r = Ref::default();
    let mut bad = false;
    for p in &pts {
        if inside(p.x as i64, p.y as i64) { r.map.insert((p.x, p.y), cv); } else { bad = true; break; }
    }
    match guarded(|| MockDisplay::<C>::from_points(pts.clone(), C::mk(cv))) {
        Ok(d) => {
            if bad { return "FAIL from_points accepted a point outside the display".into(); }
            if let Err(e) = agree(&d, &r, &[]) { return format!("FAIL from_points: {}", e); }
            format!("OK {}", r.map.len())
        }
        Err(k) => if bad && k == "setpixel" { "OK panic".into() } else { format!("FAIL from_points panicked: {}", k) },
    }
}

/// one character (given as its code point) as a 1x1 pattern: a documented character must be accepted with its documented
/// colour; any other character is either rejected ("invalid char" panic) or is a lower-case spelling of a documented one
fn p_mock_char<C: Mk>(toks: &[&str]) -> String {
    let ch = match char::from_u32(u(toks[0])) { Some(c) => c, None => return "BAD-CASE".into() };
    let row = ch.to_string();
    let doc = doc_char_to_raw::<C>(ch);
    match guarded(|| MockDisplay::<C>::from_pattern(&[row.as_str()])) {
        Err(k) => {
            if doc.is_some() || ch == ' ' { return format!("FAIL documented character {:?} rejected: {}", ch, k); }
            if k != "badchar" { return format!("FAIL {:?}: panic {}", ch, k); }
            "OK rejected".into()
        }
        Ok(d) => {
            let got = d.get_pixel(Point::zero()).map(|c| c.tag());
            if ch == ' ' { return if got.is_none() && d.affected_area().is_zero_sized() { "OK blank".into() } else { "FAIL ' ' sets a cell".into() }; }
            let up = ch.to_ascii_uppercase();
            let want = doc_char_to_raw::<C>(up);
            if want.is_none() { return format!("FAIL undocumented character {:?} accepted as {:?}", ch, got); }
            if got != want { return format!("FAIL {:?} gives {:?}, documented {:?}", ch, got, want); }
            let s = format!("{:?}", d);
            let first = s.lines().nth(1).and_then(|l| l.chars().next());
            if first != Some(up) { return format!("FAIL {:?} printed back as {:?}", ch, first); }
            "OK accepted".into()
        }
    }
}

/// the panic message of a failed closure, None when it returned
fn panic_message(f: impl FnOnce()) -> Option<String> {
    match catch_unwind(AssertUnwindSafe(f)) {
        Ok(()) => None,
        Err(e) => Some(if let Some(s) = e.downcast_ref::<String>() { s.clone() } else if let Some(s) = e.downcast_ref::<&str>() { s.to_string() } else { "?".into() }),
    }
}

/// assert_eq / assert_eq_with_message / assert_pattern / assert_pattern_with_message: panic exactly when the 4096 cells
/// differ, never otherwise; the message shows both displays (and the caller's message)
fn p_mock_assert<C: Mk>(toks: &[&str]) -> String {
    let (ta, tb) = split_slash(toks);
    let (a, ra) = build::<C>(ta);
    let (mut b, rb) = build::<C>(tb);
    b.set_allow_overdraw(false);
    let same = ra.map == rb.map;
    let mut n = 0;
    let mut judge = |what: &str, msg: Option<String>, with_message: bool| -> Result<(), String> {
        match (&msg, same) {
            (None, true) => {}
            (Some(m), false) => {
                if !m.contains(&format!("{:?}", a)) { return Err(format!("FAIL {}: the panic message does not show the display", what)); }
                if with_message && !m.contains("custom-message-7") { return Err(format!("FAIL {}: the panic message lacks the caller's message", what)); }
            }
            (None, false) => return Err(format!("FAIL {} did not panic although the displays differ", what)),
            (Some(_), true) => return Err(format!("FAIL {} panicked although all cells agree", what)),
        }
        n += 1;
        Ok(())
    };
    if let Err(e) = judge("assert_eq", panic_message(|| a.assert_eq(&b)), false) { return e; }
    if let Err(e) = judge("assert_eq_with_message", panic_message(|| a.assert_eq_with_message(&b, |f| write!(f, "custom-message-7"))), true) { return e; }
    // the other display as a pattern (possible when all its colours have a character)
    if rb.map.values().all(|v| doc_raw_to_char::<C>(*v) != '?') {
        let nrows = rb.map.keys().map(|k| k.1).max().map_or(0, |y| y + 1);
        let ncols = rb.map.keys().map(|k| k.0).max().map_or(0, |x| x + 1);
        let rows: Vec<String> = (0..nrows).map(|y| (0..ncols).map(|x| rb.map.get(&(x, y)).map_or(' ', |v| doc_raw_to_char::<C>(*v))).collect()).collect();
        let refs: Vec<&str> = rows.iter().map(|s| s.as_str()).collect();
        if let Err(e) = judge("assert_pattern", panic_message(|| a.assert_pattern(&refs)), false) { return e; }
        if let Err(e) = judge("assert_pattern_with_message", panic_message(|| a.assert_pattern_with_message(&refs, |f| write!(f, "custom-message-7"))), true) { return e; }
    }
    format!("OK {}", n)
}

/// MockDisplay::default() and MockDisplay::new(): equal, empty, and both with the documented flags
/// (overdraw and out-of-bounds drawing are checked, i.e. both panic)
fn p_mock_default<C: Mk>(_toks: &[&str]) -> String {
    let c = C::mk(1 % C::nvalues() as u32);
    let makers: [(&str, fn() -> MockDisplay<C>); 2] = [("MockDisplay::default()", MockDisplay::<C>::default), ("MockDisplay::new()", MockDisplay::<C>::new)];
    if MockDisplay::<C>::default() != MockDisplay::<C>::new() { return "FAIL MockDisplay::default() != MockDisplay::new()".into(); }
    for (name, mk) in makers.iter() {
        let d = mk();
        if let Err(e) = agree(&d, &Ref::default(), &[]) { return format!("FAIL {} is not empty: {}", name, e); }
        if d.diff(&mk()) != MockDisplay::<Rgb888>::new() { return format!("FAIL {}: diff of two new displays is not empty", name); }
        // allow_overdraw defaults to false
        let mut d1 = mk();
        d1.draw_pixel(Point::new(3, 4), c);
        match guarded(|| d1.draw_pixel(Point::new(3, 4), c)) {
            Err(k) if k == "overdraw" => {}
            other => return format!("FAIL {}: drawing a pixel twice gave {:?}, the default allow_overdraw must be false", name, other.map(|_| "no panic")),
        }
        // allow_out_of_bounds_drawing defaults to false
        let mut d2 = mk();
        match guarded(|| d2.draw_pixel(Point::new(64, 0), c)) {
            Err(k) if k == "oob" => {}
            other => return format!("FAIL {}: drawing outside gave {:?}, the default allow_out_of_bounds_drawing must be false", name, other.map(|_| "no panic")),
        }
        // the same through the DrawTarget entry points
        let mut d3 = mk();
        match guarded(|| { let _ = d3.fill_solid(&Rectangle::new(Point::new(63, 63), Size::new(2, 1)), c); }) {
            Err(k) if k == "oob" => {}
            other => return format!("FAIL {}: fill_solid over the edge gave {:?}", name, other.map(|_| "no panic")),
        }
        let mut d4 = mk();
        let _ = d4.clear(c);
        match guarded(|| { let _ = d4.clear(c); }) {
            Err(k) if k == "overdraw" => {}
            other => return format!("FAIL {}: clear twice gave {:?}", name, other.map(|_| "no panic")),
        }
    }
    "OK 2".into()
}

pub fn run(suite: &str, a: &[&str]) -> Option<String> {
    Some(match suite {
        "p_mock_default" => dispatch!(a[0], p_mock_default, &a[1..]),
        "p_mock_assert" => dispatch!(a[0], p_mock_assert, &a[1..]),
        "p_mock_char" => dispatch!(a[0], p_mock_char, &a[1..]),
        "mock_points" => dispatch!(a[0], mock_points, &a[1..]),
        "p_mock_points" => dispatch!(a[0], p_mock_points, &a[1..]),
        "mock_hist" => dispatch!(a[0], mock_hist, &a[1..]),
        "mock_eqdiff" => dispatch!(a[0], mock_eqdiff, &a[1..]),
        "mock_pattern" => dispatch!(a[0], mock_pattern, &a[1..]),
        "p_mock_hist" => dispatch!(a[0], p_mock_hist, &a[1..]),
        "p_mock_eq" => dispatch!(a[0], p_mock_eq, &a[1..]),
        "p_mock_pattern" => dispatch!(a[0], p_mock_pattern, &a[1..]),
        _ => return None,
    })
}

// =====================================================================================================
// p_* : the C20 clauses evaluated on the real MockDisplay against an independent HashMap kept here
// =====================================================================================================

/// reference display: what the property says a MockDisplay is
#[derive(Clone, Default)]
struct Ref {
    map: HashMap<(i32, i32), u32>,
    allow_overdraw: bool,
    allow_oob: bool,
}
fn inside(x: i64, y: i64) -> bool {
    x >= 0 && y >= 0 && x < 64 && y < 64
}
impl Ref {
    /// one requested pixel write; Err(kind) when the property demands a panic
    fn write(&mut self, x: i64, y: i64, c: u32) -> Result<(), &'static str> {
        if !inside(x, y) {
            return if self.allow_oob { Ok(()) } else { Err("oob") };
        }
        let k = (x as i32, y as i32);
        if !self.allow_overdraw && self.map.contains_key(&k) {
            return Err("overdraw");
        }
        self.map.insert(k, c);
        Ok(())
    }
    fn writes(&mut self, l: &[(i64, i64, u32)]) -> Result<(), &'static str> {
        for &(x, y, c) in l {
            self.write(x, y, c)?;
        }
        Ok(())
    }
    /// tight bounding box of the touched cells as (x, y, w, h); zero when nothing is touched
    fn bbox(&self) -> (i32, i32, u32, u32) {
        if self.map.is_empty() {
            return (0, 0, 0, 0);
        }
        let x0 = self.map.keys().map(|k| k.0).min().unwrap();
        let x1 = self.map.keys().map(|k| k.0).max().unwrap();
        let y0 = self.map.keys().map(|k| k.1).min().unwrap();
        let y1 = self.map.keys().map(|k| k.1).max().unwrap();
        (x0, y0, (x1 - x0 + 1) as u32, (y1 - y0 + 1) as u32)
    }
}

/// the pixel writes a token requests, expanded here without the library (row-major, i64 arithmetic)
fn requested(tok: &str) -> Option<Vec<(i64, i64, u32)>> {
    let f: Vec<&str> = tok.split(':').collect();
    let n = |s: &str| s.parse::<i64>().unwrap();
    let area = |x: i64, y: i64, w: i64, h: i64| {
        let mut v = Vec::new();
        for yy in y..y + h {
            for xx in x..x + w {
                v.push((xx, yy));
            }
        }
        v
    };
    Some(match f[0] {
        "dp" => vec![(n(f[1]), n(f[2]), u(f[3]))],
        "di" => {
            let body = &tok[3..];
            if body.is_empty() { vec![] } else {
                body.split(';').map(|s| { let g: Vec<&str> = s.split(':').collect(); (n(g[0]), n(g[1]), u(g[2])) }).collect()
            }
        }
        "fs" => area(n(f[1]), n(f[2]), n(f[3]), n(f[4])).into_iter().map(|(x, y)| (x, y, u(f[5]))).collect(),
        "fc" => {
            let cs: Vec<u32> = if f[5].is_empty() { vec![] } else { f[5].split(',').map(u).collect() };
            area(n(f[1]), n(f[2]), n(f[3]), n(f[4])).into_iter().zip(cs).map(|((x, y), c)| (x, y, c)).collect()
        }
        "cl" => area(0, 0, 64, 64).into_iter().map(|(x, y)| (x, y, u(f[1]))).collect(),
        _ => return None,
    })
}

const FAR: [(i32, i32); 14] = [
    (64, 0), (0, 64), (-1, 0), (0, -1), (64, 63), (63, 64), (128, 0), (0, 4096), (-64, 1), (1, -64),
    (i32::MAX, 0), (0, i32::MAX), (i32::MIN, 0), (i32::MIN, i32::MIN),
];

/// every observable of the display agrees with the reference
fn agree<C: Mk>(d: &MockDisplay<C>, r: &Ref, extra: &[(i32, i32)]) -> Result<(), String> {
    let look = |x: i32, y: i32| -> Result<(), String> {
        let got = guarded(|| d.get_pixel(Point::new(x, y)).map(|c| c.tag())).map_err(|k| format!("get_pixel({},{}) panicked: {}", x, y, k))?;
        let want = r.map.get(&(x, y)).copied();
        if got != want {
            return Err(format!("get_pixel({},{})={:?} expected {:?}", x, y, got, want));
        }
        Ok(())
    };
    for y in -3..SIZE + 3 {
        for x in -3..SIZE + 3 {
            look(x, y)?;
        }
    }
    for &(x, y) in FAR.iter().chain(extra.iter()) {
        look(x, y)?;
    }
    let aa = d.affected_area();
    let bb = r.bbox();
    if (aa.top_left.x, aa.top_left.y, aa.size.width, aa.size.height) != bb {
        if !(r.map.is_empty() && aa.is_zero_sized()) {
            return Err(format!("affected_area={} expected tight box {:?}", src(aa), bb));
        }
    }
    Ok(())
}

fn p_mock_hist<C: Mk>(toks: &[&str]) -> String {
    let mut d = MockDisplay::<C>::new();
    let mut r = Ref::default();
    let mut checks = 0;
    let mut extra: Vec<(i32, i32)> = Vec::new();
    for (k, tok) in toks.iter().enumerate() {
        let f: Vec<&str> = tok.split(':').collect();
        // expected outcome
        let want: Result<(), &'static str> = match f[0] {
            "ao" => { r.allow_overdraw = f[1] == "1"; Ok(()) }
            "ab" => { r.allow_oob = f[1] == "1"; Ok(()) }
            "sp" => {
                let (x, y) = (f[1].parse::<i64>().unwrap(), f[2].parse::<i64>().unwrap());
                if inside(x, y) {
                    if f[3] == "n" { r.map.remove(&(x as i32, y as i32)); } else { r.map.insert((x as i32, y as i32), u(f[3])); }
                    Ok(())
                } else { Err("setpixel") }
            }
            "sps" => {
                // set_pixels: point by point, the first point outside panics (the earlier ones stay set)
                let body = tok.splitn(3, ':').nth(2).unwrap_or("");
                let mut res = Ok(());
                if !body.is_empty() {
                    for s in body.split(';') {
                        let g: Vec<&str> = s.split(':').collect();
                        let (x, y) = (g[0].parse::<i64>().unwrap(), g[1].parse::<i64>().unwrap());
                        if !inside(x, y) { res = Err("setpixel"); break; }
                        if f[1] == "n" { r.map.remove(&(x as i32, y as i32)); } else { r.map.insert((x as i32, y as i32), u(f[1])); }
                    }
                }
                res
            }
            "gp" | "aa" | "dump" | "sw" | "dbg" | "mp" => Ok(()),
            _ => {
                let ws = requested(tok).unwrap();
                for w in ws.iter().take(64) {
                    if w.0.abs() < (1 << 31) - 70 && w.1.abs() < (1 << 31) - 70 { extra.push((w.0 as i32, w.1 as i32)); extra.push((w.0 as i32 + 64, w.1 as i32 - 1)); }
                }
                r.writes(&ws)
            }
        };
        let mut out = Vec::new();
        let got = guarded(|| step(&mut d, &mut out, tok));
        match (&want, &got) {
            (Ok(()), Ok(())) => {}
            (Err(a), Err(b)) if a == b => {}
            _ => return format!("FAIL op#{} {}: expected {:?} observed {:?}", k, tok, want.map_err(|s| format!("PANIC {}", s)), got.map_err(|s| format!("PANIC {}", s))),
        }
        if extra.len() > 400 { extra.truncate(400); }
        // after every operation (also after a caught panic: the writes before the offending pixel stay)
        if let Err(e) = agree(&d, &r, &extra) {
            return format!("FAIL after op#{} {}: {}", k, tok, e);
        }
        checks += 1;
        // swap_xy mirrors
        if f[0] == "sw" {
            let s = d.swap_xy();
            let mut rs = Ref::default();
            for (&(x, y), &c) in r.map.iter() { rs.map.insert((y, x), c); }
            if let Err(e) = agree(&s, &rs, &[]) { return format!("FAIL swap_xy after op#{}: {}", k, e); }
        }
        // Debug prints the documented character of every cell ('?' for a colour without one, ' ' for None), 64 columns,
        // trailing untouched rows counted
        if f[0] == "dbg" {
            let s = match guarded(|| format!("{:?}", d)) { Ok(s) => s, Err(e) => return format!("FAIL Debug panicked after op#{}: {}", k, e) };
            let want = expected_debug::<C>(&r);
            if s != want { return format!("FAIL Debug output after op#{} {} expected {}", k, text_out(&s), text_out(&want)); }
        }
        // map applies the function to every touched cell and leaves the others untouched
        if f[0] == "mp" {
            let k = u(f[1]);
            let s = d.map(|c| c.shifted(k));
            let mut rs = Ref::default();
            for (&(x, y), &c) in r.map.iter() { rs.map.insert((x, y), ((c as u64 + k as u64) % C::nvalues()) as u32); }
            if let Err(e) = agree(&s, &rs, &[]) { return format!("FAIL map after op#{}: {}", k, e); }
        }
        if got.is_err() {
            break;
        }
    }
    // a display rebuilt cell by cell from the reference is equal and has an empty diff
    let mut e = MockDisplay::<C>::new();
    for (&(x, y), &c) in r.map.iter() {
        e.set_pixel(Point::new(x, y), Some(C::mk(c)));
    }
    if !(d == e) || !(e == d) { return "FAIL display differs from a display with the same 4096 cells".into(); }
    if d.diff(&e) != MockDisplay::<Rgb888>::new() { return "FAIL diff against an equal display is not empty".into(); }
    format!("OK {}", checks)
}

fn build<C: Mk>(toks: &[&str]) -> (MockDisplay<C>, Ref) {
    let mut d = MockDisplay::<C>::new();
    let mut r = Ref::default();
    d.set_allow_overdraw(true);
    d.set_allow_out_of_bounds_drawing(true);
    r.allow_overdraw = true;
    r.allow_oob = true;
    let mut out = Vec::new();
    for tok in toks {
        let f: Vec<&str> = tok.split(':').collect();
        match f[0] {
            "ao" | "ab" => continue,
            "sp" => {
                let (x, y) = (f[1].parse::<i64>().unwrap(), f[2].parse::<i64>().unwrap());
                if !inside(x, y) { continue; }
                if f[3] == "n" { r.map.remove(&(x as i32, y as i32)); } else { r.map.insert((x as i32, y as i32), u(f[3])); }
            }
            "sps" => {
                let body = tok.splitn(3, ':').nth(2).unwrap_or("");
                let pts: Vec<(i64, i64)> = if body.is_empty() { vec![] } else { body.split(';').map(|s| { let g: Vec<&str> = s.split(':').collect(); (g[0].parse().unwrap(), g[1].parse().unwrap()) }).collect() };
                if pts.iter().any(|p| !inside(p.0, p.1)) { continue; }
                for (x, y) in pts { if f[1] == "n" { r.map.remove(&(x as i32, y as i32)); } else { r.map.insert((x as i32, y as i32), u(f[1])); } }
            }
            "gp" | "aa" | "dump" | "sw" | "dbg" | "mp" => continue,
            _ => { r.writes(&requested(tok).unwrap()).unwrap(); }
        }
        step(&mut d, &mut out, tok);
    }
    (d, r)
}

fn p_mock_eq<C: Mk>(toks: &[&str]) -> String {
    let (ta, tb) = split_slash(toks);
    let (a, ra) = build::<C>(ta);
    let (mut b, rb) = build::<C>(tb);
    // flags must not matter for equality
    b.set_allow_overdraw(false);
    let same = ra.map == rb.map;
    if (a == b) != same || (b == a) != same {
        return format!("FAIL a==b is {} but the cell maps are {}", a == b, if same { "equal" } else { "different" });
    }
    let df = a.diff(&b);
    let mut n = 0;
    for y in 0..SIZE {
        for x in 0..SIZE {
            let want = match (ra.map.get(&(x, y)), rb.map.get(&(x, y))) {
                (Some(_), None) => Some(Rgb888::GREEN),
                (None, Some(_)) => Some(Rgb888::RED),
                (Some(s), Some(o)) if s != o => Some(Rgb888::BLUE),
                _ => None,
            };
            if want.is_some() { n += 1; }
            let got = df.get_pixel(Point::new(x, y));
            if got != want {
                return format!("FAIL diff({},{})={:?} expected {:?}", x, y, got, want);
            }
        }
    }
    let empty = df == MockDisplay::<Rgb888>::new() && df.affected_area().is_zero_sized();
    if empty != same {
        return format!("FAIL diff empty={} but displays equal={}", empty, same);
    }
    if (n == 0) != same { return "FAIL reference inconsistent".into(); }
    format!("OK {}", n)
}

/// independent table: the documented meaning of a pattern character (module docs of mock_display), as raw value
fn doc_char_to_raw<C: Mk>(ch: char) -> Option<u32> {
    let hex = |c: char| -> Option<u32> {
        match c { '0'..='9' => Some(c as u32 - '0' as u32), 'A'..='F' => Some(c as u32 - 'A' as u32 + 10), _ => None }
    };
    match C::NAME {
        "BinaryColor" => match ch { '.' => Some(0), '#' => Some(1), _ => None },
        "Gray2" => hex(ch).filter(|v| *v < 4),
        "Gray4" => hex(ch),
        "Gray8" => hex(ch).map(|v| v * 16 + v),
        _ => {
            let ((rb, gb, bb), (rp, gp, bp)) = C::rgb_layout()?;
            let (r, g, b) = match ch {
                'K' => (0, 0, 0), 'R' => (1, 0, 0), 'G' => (0, 1, 0), 'B' => (0, 0, 1),
                'Y' => (1, 1, 0), 'M' => (1, 0, 1), 'C' => (0, 1, 1), 'W' => (1, 1, 1),
                _ => return None,
            };
            Some((r * ((1 << rb) - 1)) << rp | (g * ((1 << gb) - 1)) << gp | (b * ((1 << bb) - 1)) << bp)
        }
    }
}

/// inverse of the documented table: the character of a raw value, '?' when it has none
fn doc_raw_to_char<C: Mk>(v: u32) -> char {
    for ch in "0123456789ABCDEF.#KRGBYMCW".chars() {
        if doc_char_to_raw::<C>(ch) == Some(v) {
            return ch;
        }
    }
    '?'
}

/// the documented Debug text of a reference display
fn expected_debug<C: Mk>(r: &Ref) -> String {
    let last = r.map.keys().map(|k| k.1).max();
    let mut want = String::from("MockDisplay[\n");
    let nrows = last.map_or(0, |y| y + 1);
    for y in 0..nrows {
        for x in 0..SIZE {
            want.push(r.map.get(&(x, y)).map_or(' ', |v| doc_raw_to_char::<C>(*v)));
        }
        want.push('\n');
    }
    if nrows < 64 { want.push_str(&format!("({} empty rows skipped)\n", 64 - nrows)); }
    want.push_str("]\n");
    want
}

/// pattern over the documented character set: from_pattern sets exactly the documented cells, Debug prints the
/// pattern back (padded to 64 columns, trailing untouched rows counted), and the printed rows parse to an equal display
fn p_mock_pattern<C: Mk>(toks: &[&str]) -> String {
    let rows = rows_of(toks);
    let refs: Vec<&str> = rows.iter().map(|s| s.as_str()).collect();
    let mut r = Ref::default();
    // lower-case hex digits are an accepted spelling of the upper-case ones (char::to_digit); Debug prints upper case
    let hexy = C::NAME == "Gray4" || C::NAME == "Gray8";
    let canon = |ch: char| if hexy && ('a'..='f').contains(&ch) { ch.to_ascii_uppercase() } else { ch };
    for (y, row) in rows.iter().enumerate() {
        for (x, ch) in row.chars().enumerate() {
            let ch = canon(ch);
            if ch != ' ' {
                match doc_char_to_raw::<C>(ch) {
                    Some(v) => { r.map.insert((x as i32, y as i32), v); }
                    None => return format!("BAD-CASE char {:?} is not in the documented set", ch),
                }
            }
        }
    }
    let d = match guarded(|| MockDisplay::<C>::from_pattern(&refs)) {
        Ok(d) => d,
        Err(k) => return format!("FAIL from_pattern panicked: {}", k),
    };
    if let Err(e) = agree(&d, &r, &[]) { return format!("FAIL from_pattern: {}", e); }
    let s = match guarded(|| format!("{:?}", d)) { Ok(s) => s, Err(k) => return format!("FAIL Debug panicked: {}", k) };
    // expected text, written from the documentation of the format
    let mut want_rows: Vec<String> = rows.iter().map(|row| format!("{:<64}", row.chars().map(canon).collect::<String>())).collect();
    while want_rows.last().map_or(false, |l| l.chars().all(|c| c == ' ')) { want_rows.pop(); }
    let mut want = String::from("MockDisplay[\n");
    for l in &want_rows { want.push_str(l); want.push('\n'); }
    if want_rows.len() < 64 { want.push_str(&format!("({} empty rows skipped)\n", 64 - want_rows.len())); }
    want.push_str("]\n");
    if s != want { return format!("FAIL Debug output {} expected {}", text_out(&s), text_out(&want)); }
    // round trip: the printed rows are a pattern for an equal display
    let lines: Vec<&str> = s.lines().collect();
    let printed: Vec<&str> = lines[1..].iter().copied().take_while(|l| !l.starts_with('(') && *l != "]").collect();
    let back = match guarded(|| MockDisplay::<C>::from_pattern(&printed)) { Ok(d) => d, Err(k) => return format!("FAIL from_pattern(Debug rows) panicked: {}", k) };
    if back != d { return "FAIL from_pattern(Debug rows) differs".into(); }
    // every colour of the set prints as its own character
    for (&(_, _), &v) in r.map.iter() {
        let ch = C::color_to_char(C::mk(v));
        if doc_char_to_raw::<C>(ch) != Some(v) { return format!("FAIL color_to_char({})={:?}", v, ch); }
    }
    format!("OK {}", r.map.len())
}

#[allow(dead_code)]
fn _unused(_: Rectangle) {}
