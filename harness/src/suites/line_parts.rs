//! Line parts of the cross-cutting properties C02 / C07 / C08 (props/C02_line.py, C07_line.py, C08_line.py).
//!   line_bbox x0 y0 x1 y1            Line::bounding_box()                       (correspondence)
//!   p_line_bbox x0 y0 x1 y1 w        C02: everything drawn / yielded lies in the (styled) bounding box
//!   p_line_translate dx dy x0 y0 x1 y1 w   C07: points(), pixels(), boxes, draw() commute with translate / translate_mut
//!   p_line_total x0 y0 x1 y1 w       C08: no panic (overflow checks on), bounded number of pixels
use crate::suites::c17::pixel_budget;
use crate::util::*;
use embedded_graphics::{
    pixelcolor::Gray8,
    prelude::*,
    primitives::{Line, PrimitiveStyle, Rectangle},
};
use std::panic::{catch_unwind, AssertUnwindSafe};

fn ln(a: &[&str]) -> Line {
    Line::new(pt(a[0], a[1]), pt(a[2], a[3]))
}
fn st(w: u32) -> PrimitiveStyle<Gray8> {
    PrimitiveStyle::with_stroke(Gray8::new(1), w)
}

fn p_line_bbox(l: Line, w: u32) -> String {
    let bb = l.bounding_box();
    for p in l.points() {
        if !bb.contains(p) {
            return format!("FAIL points() yields {}:{} outside bounding_box", p.x, p.y);
        }
    }
    let s = l.into_styled(st(w));
    let sbb = s.bounding_box();
    if w <= 1 && sbb != bb {
        return format!("FAIL styled box {:?} differs from primitive box for width {}", sbb, w);
    }
    let mut n = 0usize;
    for p in s.pixels().take(pixel_budget(&l, w)) {
        n += 1;
        if !sbb.contains(p.0) {
            return format!("FAIL pixels() yields {}:{} outside styled bounding_box {:?}", p.0.x, p.0.y, sbb);
        }
    }
    if n >= pixel_budget(&l, w) {
        return format!("FAIL more than (3w+2)*(dmaj+1) pixels ({})", n);
    }
    let big = Rectangle::new(Point::new(-1 << 22, -1 << 22), Size::new(1 << 23, 1 << 23));
    let mut t = IterTarget::<Gray8>::new(big);
    s.draw(&mut t).unwrap();
    let mut t2 = NativeTarget::<Gray8>::new(big);
    s.draw(&mut t2).unwrap();
    for m in [&t.map, &t2.map] {
        for ((y, x), _) in m.iter() {
            if !sbb.contains(Point::new(*x, *y)) {
                return format!("FAIL pixel {}:{} drawn outside styled bounding_box", x, y);
            }
        }
    }
    if w == 0 && (n != 0 || !t.map.is_empty() || !t2.map.is_empty()) {
        return "FAIL width 0 draws".into();
    }
    // transparent: no stroke colour
    let tr = l.into_styled(PrimitiveStyle::<Gray8>::new());
    if tr.pixels().count() != 0 {
        return "FAIL transparent style yields pixels".into();
    }
    format!("OK {}", n)
}

fn p_line_translate(d: Point, l: Line, w: u32) -> String {
    let m = l.translate(d);
    let mut mm = l;
    mm.translate_mut(d);
    if mm != m {
        return "FAIL translate_mut differs from translate".into();
    }
    let a: Vec<Point> = l.points().map(|p| p + d).collect();
    let b: Vec<Point> = m.points().collect();
    if a != b {
        return "FAIL points() of the moved line".into();
    }
    if m.bounding_box() != l.bounding_box().translate(d) {
        return "FAIL bounding_box of the moved line".into();
    }
    let s = l.into_styled(st(w));
    let sm = m.into_styled(st(w));
    let cap = pixel_budget(&l, w);
    let a: Vec<Point> = s.pixels().take(cap).map(|p| p.0 + d).collect();
    let b: Vec<Point> = sm.pixels().take(cap).map(|p| p.0).collect();
    if a != b {
        return "FAIL pixels() of the moved styled line".into();
    }
    if b.len() >= cap {
        return "FAIL more than (3w+2)*(dmaj+1) pixels".into();
    }
    if sm.bounding_box() != s.bounding_box().translate(d) {
        return "FAIL styled bounding_box of the moved line".into();
    }
    // Styled::translate as well
    let st2: Vec<Point> = s.translate(d).pixels().take(cap).map(|p| p.0).collect();
    if st2 != b {
        return "FAIL Styled::translate".into();
    }
    let big = Rectangle::new(Point::new(-1 << 22, -1 << 22), Size::new(1 << 23, 1 << 23));
    let mut t = IterTarget::<Gray8>::new(big);
    s.draw(&mut t).unwrap();
    let mut t2 = IterTarget::<Gray8>::new(big);
    sm.draw(&mut t2).unwrap();
    let shifted: std::collections::BTreeMap<(i32, i32), u32> = t.map.iter().map(|((y, x), c)| ((y + d.y, x + d.x), *c)).collect();
    if shifted != t2.map {
        return "FAIL draw() of the moved styled line".into();
    }
    format!("OK {}", b.len())
}

fn p_line_total(l: Line, w: u32) -> String {
    let r = catch_unwind(AssertUnwindSafe(|| {
        let n1 = l.points().count() as u64;
        let _ = l.bounding_box();
        let s = l.into_styled(st(w));
        let _ = s.bounding_box();
        let mut n2 = 0u64;
        let dx = (l.end.x as i64 - l.start.x as i64).abs();
        let dy = (l.end.y as i64 - l.start.y as i64).abs();
        let budget = (3 * w as u64 + 2) * (dx.max(dy) as u64 + 1);
        for _ in s.pixels() {
            n2 += 1;
            if n2 > budget {
                return Err(format!("FAIL more than (3w+2)*(dmaj+1) = {} pixels", budget));
            }
        }
        Ok(n1 + n2)
    }));
    match r {
        Ok(Ok(n)) => format!("OK {}", n),
        Ok(Err(e)) => e,
        Err(_) => format!("FAIL PANIC {}", LAST_PANIC.with(|p| p.borrow().clone())),
    }
}

pub fn run(suite: &str, a: &[&str]) -> Option<String> {
    Some(match suite {
        "line_bbox" => src(ln(a).bounding_box()),
        "p_line_bbox" => p_line_bbox(ln(a), u(a[4])),
        "p_line_translate" => p_line_translate(pt(a[0], a[1]), ln(&a[2..]), u(a[6])),
        "p_line_total" => p_line_total(ln(a), u(a[4])),
        _ => return None,
    })
}
