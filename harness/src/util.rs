//! Shared helpers: argument parsing, canonical printing, recording draw targets.
use embedded_graphics::{pixelcolor::PixelColor, prelude::*, primitives::Rectangle, Pixel};
use std::cell::RefCell;
use std::collections::BTreeMap;

thread_local! { pub static LAST_PANIC: RefCell<String> = RefCell::new(String::new()); }
thread_local! { pub static LAST_PANIC_MSG: RefCell<String> = RefCell::new(String::new()); }

pub fn i(s: &str) -> i32 {
    s.parse::<i64>().unwrap() as i32
}
pub fn u(s: &str) -> u32 {
    s.parse::<i64>().unwrap() as u32
}
pub fn us(s: &str) -> usize {
    s.parse::<usize>().unwrap()
}
pub fn pt(x: &str, y: &str) -> Point {
    Point::new(i(x), i(y))
}
pub fn rc(x: &str, y: &str, w: &str, h: &str) -> Rectangle {
    Rectangle::new(pt(x, y), Size::new(u(w), u(h)))
}
pub fn spt(p: Point) -> String {
    format!("{} {}", p.x, p.y)
}
pub fn src(r: Rectangle) -> String {
    format!("{} {} {} {}", r.top_left.x, r.top_left.y, r.size.width, r.size.height)
}
pub fn sb(b: bool) -> &'static str {
    if b {
        "1"
    } else {
        "0"
    }
}
pub fn spts<I: Iterator<Item = Point>>(it: I) -> String {
    it.map(|p| format!("{}:{}", p.x, p.y)).collect::<Vec<_>>().join(",")
}

/// Canonical text of a pixel map: entries sorted by (y, x), "x:y:c" joined by ','.
pub fn smap(m: &BTreeMap<(i32, i32), u32>) -> String {
    m.iter().map(|((y, x), c)| format!("{}:{}:{}", x, y, c)).collect::<Vec<_>>().join(",")
}

/// One logged call on a recording target.
#[derive(Clone, Debug, PartialEq)]
pub enum Call {
    DrawIter(Vec<(Point, u32)>),
    FillContiguous(Rectangle, Vec<u32>),
    FillSolid(Rectangle, u32),
    Clear(u32),
}

/// Colour types usable with the recording targets: a stable numeric tag per colour value.
pub trait Tag: PixelColor {
    fn tag(self) -> u32;
}
impl<C: PixelColor + Into<<C as PixelColor>::Raw>> Tag for C
where
    <C as PixelColor>::Raw: embedded_graphics::pixelcolor::raw::RawData,
    <<C as PixelColor>::Raw as embedded_graphics::pixelcolor::raw::RawData>::Storage: Into<u32>,
{
    fn tag(self) -> u32 {
        use embedded_graphics::pixelcolor::raw::RawData;
        let raw: C::Raw = self.into();
        raw.into_inner().into()
    }
}

/// Recording target that implements ONLY `draw_iter` (inherits the trait defaults).
/// Pixels outside `bb` are dropped, as the DrawTarget contract requires.
pub struct IterTarget<C> {
    pub bb: Rectangle,
    pub map: BTreeMap<(i32, i32), u32>,
    pub writes: usize,
    pub draw_iter_calls: usize,
    _c: core::marker::PhantomData<C>,
}
impl<C> IterTarget<C> {
    pub fn new(bb: Rectangle) -> Self {
        Self { bb, map: BTreeMap::new(), writes: 0, draw_iter_calls: 0, _c: core::marker::PhantomData }
    }
}
impl<C> Dimensions for IterTarget<C> {
    fn bounding_box(&self) -> Rectangle {
        self.bb
    }
}
impl<C: Tag> DrawTarget for IterTarget<C> {
    type Color = C;
    type Error = core::convert::Infallible;
    fn draw_iter<I: IntoIterator<Item = Pixel<C>>>(&mut self, pixels: I) -> Result<(), Self::Error> {
        self.draw_iter_calls += 1;
        for Pixel(p, c) in pixels {
            if self.bb.contains(p) {
                self.map.insert((p.y, p.x), c.tag());
                self.writes += 1;
            }
        }
        Ok(())
    }
}

/// Recording target with NATIVE fill_contiguous / fill_solid / clear following their documented
/// meaning (area clipped to the box, row-major pairing, surplus colours ignored, short streams stop
/// early). `drain` makes fill_contiguous pull the iterator to its end and count the colours.
pub struct NativeTarget<C> {
    pub bb: Rectangle,
    pub map: BTreeMap<(i32, i32), u32>,
    pub log: Vec<Call>,
    pub drain: bool,
    pub pulled: Vec<usize>,
    pub fail_at: Option<usize>,
    pub calls: usize,
    _c: core::marker::PhantomData<C>,
}
impl<C> NativeTarget<C> {
    pub fn new(bb: Rectangle) -> Self {
        Self {
            bb,
            map: BTreeMap::new(),
            log: Vec::new(),
            drain: false,
            pulled: Vec::new(),
            fail_at: None,
            calls: 0,
            _c: core::marker::PhantomData,
        }
    }
    fn tick(&mut self) -> Result<(), usize> {
        let k = self.calls;
        self.calls += 1;
        if self.fail_at == Some(k) {
            Err(k)
        } else {
            Ok(())
        }
    }
}
impl<C> Dimensions for NativeTarget<C> {
    fn bounding_box(&self) -> Rectangle {
        self.bb
    }
}
impl<C: Tag> DrawTarget for NativeTarget<C> {
    type Color = C;
    /// the index of the failing call, so that the returned error identifies it
    type Error = usize;
    fn draw_iter<I: IntoIterator<Item = Pixel<C>>>(&mut self, pixels: I) -> Result<(), Self::Error> {
        let items: Vec<(Point, u32)> = pixels.into_iter().map(|Pixel(p, c)| (p, c.tag())).collect();
        self.log.push(Call::DrawIter(items.clone()));
        self.tick()?;
        for (p, c) in items {
            if self.bb.contains(p) {
                self.map.insert((p.y, p.x), c);
            }
        }
        Ok(())
    }
    fn fill_contiguous<I: IntoIterator<Item = C>>(&mut self, area: &Rectangle, colors: I) -> Result<(), Self::Error> {
        let n = (area.size.width as usize) * (area.size.height as usize);
        let mut it = colors.into_iter();
        let cols: Vec<u32> = it.by_ref().take(n).map(|c| c.tag()).collect();
        let mut pulled = cols.len();
        if self.drain {
            // bounded drain: an endless iterator (repeat) must not hang the harness
            for _ in it.take(4 * n + 64) {
                pulled += 1;
            }
        }
        self.pulled.push(pulled);
        self.log.push(Call::FillContiguous(*area, cols.clone()));
        self.tick()?;
        for (p, c) in area.points().zip(cols) {
            if self.bb.contains(p) {
                self.map.insert((p.y, p.x), c);
            }
        }
        Ok(())
    }
    fn fill_solid(&mut self, area: &Rectangle, color: C) -> Result<(), Self::Error> {
        self.log.push(Call::FillSolid(*area, color.tag()));
        self.tick()?;
        for p in area.intersection(&self.bb).points() {
            self.map.insert((p.y, p.x), color.tag());
        }
        Ok(())
    }
    fn clear(&mut self, color: C) -> Result<(), Self::Error> {
        self.log.push(Call::Clear(color.tag()));
        self.tick()?;
        for p in self.bb.points() {
            self.map.insert((p.y, p.x), color.tag());
        }
        Ok(())
    }
}
